import Pearl.Model.Tools
import Pearl.Proofs.BlobLemmas
/-
Helper lemmas for the offline tools (C16).
-/
namespace Pearl

/-! ### small facts -/

theorem serMetaEntries_metaEntries (m : Meta) : serMetaEntries (metaEntries m) = serMeta m := by
  cases m with
  | none => rfl
  | some v => simp [serMetaEntries, metaEntries, serEntries, serMeta]

theorem final_final (h : RecHeader) (a b : Nat) : (h.final a).final b = h.final b := rfl

theorem writeRecord_toTool (out : List UInt8) (R : Record) (off : Nat) :
    writeRecord out (R.toTool off) = out ++ R.image out.length := by
  unfold writeRecord Record.toTool Record.image
  simp only [final_final, serMetaEntries_metaEntries]

theorem readRecord_false (file : List UInt8) (pos : Nat) :
    readRecord file false pos = readSingleRecord file pos := rfl

theorem readRecord_of_ok {file : List UInt8} {skip : Bool} {pos : Nat} {x : ToolRecord × Nat}
    (h : readSingleRecord file pos = .ok x) : readRecord file skip pos = .ok x := by
  cases skip
  · exact h
  · simp only [readRecord, h, ↓reduceIte]

theorem image_eq (R : Record) (off : Nat) :
    R.image off = serHeader (R.header.final off) ++ (serMeta R.mt ++ R.data) := rfl

/-- reading one intact record image -/
theorem readSingleRecord_image {klen : Nat} (pre post : List UInt8) (R : Record) (hwf : R.WF klen)
    (off : Nat) (hoff : pre.length = off) (hr : (R.header.final off).InRange)
    (hm : (serMeta R.mt).length < 2 ^ 64) :
    readSingleRecord (pre ++ (R.image off ++ post)) off =
      .ok (R.toTool off, off + (R.image off).length) := by
  have hk : (R.header.final off).key.length = klen := hwf.key
  have hms : (R.header.final off).metaSize = (serMeta R.mt).length := hwf.msize
  have hds : (R.header.final off).dataSize = R.data.length := hwf.dsize
  have hss : (R.header.final off).serializedSize = 57 + klen := by
    simp [RecHeader.serializedSize, hk]
  have hdrop : (pre ++ (R.image off ++ post)).drop off =
      serHeader (R.header.final off) ++ ((serMeta R.mt ++ R.data) ++ post) := by
    rw [List.drop_left' hoff, image_eq, List.append_assoc]
  have hfile1 : pre ++ (R.image off ++ post) =
      (pre ++ serHeader (R.header.final off)) ++ (serMeta R.mt ++ (R.data ++ post)) := by
    simp [Record.image, List.append_assoc]
  have hfile2 : pre ++ (R.image off ++ post) =
      (pre ++ (serHeader (R.header.final off) ++ serMeta R.mt)) ++ (R.data ++ post) := by
    simp [Record.image, List.append_assoc]
  have hp1 : (pre ++ serHeader (R.header.final off)).length = off + (57 + klen) := by
    simp [hk, hoff]
  have hp2 : (pre ++ (serHeader (R.header.final off) ++ serMeta R.mt)).length =
      off + (57 + klen) + (serMeta R.mt).length := by
    simp [hk, hoff]; omega
  have hdm := deserMeta_serMeta R.mt hm []
  rw [List.append_nil] at hdm
  have haud : dataChecksumAudit (R.header.final off) R.data = .ok () := by
    rw [dataChecksumAudit_ok]; exact hwf.dcrc.symm
  have hnext : off + (57 + klen) + (serMeta R.mt).length + R.data.length = off + (R.image off).length := by
    rw [Record.image_length, hwf.key]; omega
  unfold readSingleRecord
  rw [hdrop, deserHeader_serHeader _ _ hr]
  simp only [headerValidate_final _ _ hwf.magic, hss, hms, hds]
  rw [hfile1, readExactAt_append hp1 rfl]
  simp only [hdm]
  rw [← hfile1, hfile2, readExactAt_append hp2 rfl]
  simp only [haud, hnext]
  rfl

/-! ### loops over an intact run of records -/

/-- the records are as the storage builds them, with `u64` timestamps -/
def GoodRecs (klen : Nat) (Rs : List Record) : Prop :=
  ∀ R ∈ Rs, R.WF klen ∧ R.header.timestamp < 2 ^ 64

theorem GoodRecs.tail {klen : Nat} {R : Record} {Rs : List Record} (h : GoodRecs klen (R :: Rs)) :
    GoodRecs klen Rs := fun R' hR' => h R' (List.mem_cons_of_mem _ hR')

theorem GoodRecs.head {klen : Nat} {R : Record} {Rs : List Record} (h : GoodRecs klen (R :: Rs)) :
    R.WF klen ∧ R.header.timestamp < 2 ^ 64 := h R (List.mem_cons_self ..)

theorem GoodRecs.append {klen : Nat} {Rs1 Rs2 : List Record} (h1 : GoodRecs klen Rs1)
    (h2 : GoodRecs klen Rs2) : GoodRecs klen (Rs1 ++ Rs2) := by
  intro R hR
  rcases List.mem_append.mp hR with h | h
  · exact h1 R h
  · exact h2 R h

theorem GoodRecs.take {klen : Nat} {Rs : List Record} (h : GoodRecs klen Rs) (i : Nat) :
    GoodRecs klen (Rs.take i) := fun R hR => h R (List.mem_of_mem_take hR)

theorem GoodRecs.drop {klen : Nat} {Rs : List Record} (h : GoodRecs klen Rs) (i : Nat) :
    GoodRecs klen (Rs.drop i) := fun R hR => h R (List.mem_of_mem_drop hR)

theorem goodRecs_recordsOf (klen : Nat) (recs : List (Rec × List UInt8))
    (hts : ∀ x ∈ recs, x.1.ts < 2 ^ 64) : GoodRecs klen (recordsOf klen recs) := by
  intro R hR
  obtain ⟨x, hx, rfl⟩ := List.mem_map.mp hR
  exact ⟨recordOf_WF klen x.1 x.2, by rw [recordOf_timestamp]; exact hts x hx⟩

/-- facts needed to read the first record of `pre ++ (tailOf pre.length (R :: Rs) ++ rest)` -/
theorem head_facts {klen : Nat} {file pre rest : List UInt8} {R : Record} {Rs : List Record}
    (hf : file = pre ++ (tailOf pre.length (R :: Rs) ++ rest)) (hlen : file.length < 2 ^ 64)
    (hg : GoodRecs klen (R :: Rs)) :
    file = pre ++ (R.image pre.length ++ (tailOf (pre ++ R.image pre.length).length Rs ++ rest)) ∧
    (R.header.final pre.length).InRange ∧ (serMeta R.mt).length < 2 ^ 64 ∧
    pre.length < file.length := by
  obtain ⟨hwf, hts⟩ := hg.head
  have hf' : file = pre ++ (R.image pre.length ++ (tailOf (pre ++ R.image pre.length).length Rs ++ rest)) := by
    rw [hf]; simp only [tailOf, List.length_append, List.append_assoc]
  have hle : pre.length + (R.image pre.length).length ≤ file.length := by
    rw [hf']; simp only [List.length_append]; omega
  have him := R.image_length pre.length
  refine ⟨hf', final_inRange hwf _ hts (by omega), by omega, by omega⟩

theorem isEof_false {file : List UInt8} {pos : Nat} (h : pos < file.length) : isEof file pos = false := by
  simp [isEof]; omega

theorem isEof_true {file : List UInt8} {pos : Nat} (h : file.length ≤ pos) : isEof file pos = true := by
  simp [isEof]; omega

theorem validateLoop_eof {file : List UInt8} {pos : Nat} (h : file.length ≤ pos) (k : Nat) :
    validateLoop file k pos = .ok () := by
  cases k <;> simp [validateLoop, isEof_true h]

theorem processLoop_eof {input : List UInt8} {pos : Nat} (h : input.length ≤ pos) (skip : Bool)
    (f : ToolRecord → Except ToolErr ToolRecord) (k : Nat) (out : List UInt8) :
    processLoop input skip f k pos out = .ok out := by
  cases k <;> simp [processLoop, isEof_true h]

/-- `validate_blob` walks over an intact run of records -/
theorem validateLoop_tail {klen : Nat} (file : List UInt8) (Rs : List Record) :
    ∀ (pre rest : List UInt8) (k : Nat), file = pre ++ (tailOf pre.length Rs ++ rest) →
      file.length < 2 ^ 64 → GoodRecs klen Rs →
      validateLoop file (Rs.length + k) pre.length =
        validateLoop file k (pre.length + (tailOf pre.length Rs).length) := by
  induction Rs with
  | nil => intro pre rest k _ _ _; simp [tailOf]
  | cons R Rs ih =>
    intro pre rest k hf hlen hg
    obtain ⟨hf', hr, hm, hlt⟩ := head_facts hf hlen hg
    have hstep := readSingleRecord_image pre (tailOf (pre ++ R.image pre.length).length Rs ++ rest) R
      hg.head.1 pre.length rfl hr hm
    rw [← hf'] at hstep
    have hrest := ih (pre ++ R.image pre.length) rest k (by rw [hf']; simp only [List.append_assoc])
      hlen hg.tail
    rw [show (R :: Rs).length + k = (Rs.length + k) + 1 by simp only [List.length_cons]; omega]
    rw [validateLoop, isEof_false hlt, readRecord_false, hstep]
    simp only [Bool.false_eq_true, ↓reduceIte]
    rw [List.length_append] at hrest
    rw [hrest]
    simp only [tailOf, List.length_append, Nat.add_assoc]

/-- `process_blob_with` walks over an intact run of records: every record `R` is rewritten as `g R` -/
theorem processLoop_tail {klen : Nat} (input : List UInt8) (skip : Bool)
    (f : ToolRecord → Except ToolErr ToolRecord) (g : Record → Record) (Rs : List Record)
    (hfg : ∀ R ∈ Rs, ∀ off, ∃ r', f (R.toTool off) = .ok r' ∧
      ∀ out, writeRecord out r' = out ++ (g R).image out.length) :
    ∀ (pre rest : List UInt8) (k : Nat) (out : List UInt8),
      input = pre ++ (tailOf pre.length Rs ++ rest) → input.length < 2 ^ 64 → GoodRecs klen Rs →
      processLoop input skip f (Rs.length + k) pre.length out =
        processLoop input skip f k (pre.length + (tailOf pre.length Rs).length)
          (out ++ tailOf out.length (Rs.map g)) := by
  induction Rs with
  | nil => intro pre rest k out _ _ _; simp [tailOf]
  | cons R Rs ih =>
    intro pre rest k out hf hlen hg
    obtain ⟨hf', hr, hm, hlt⟩ := head_facts hf hlen hg
    have hstep := readSingleRecord_image pre (tailOf (pre ++ R.image pre.length).length Rs ++ rest) R
      hg.head.1 pre.length rfl hr hm
    rw [← hf'] at hstep
    obtain ⟨r', hfr, hw⟩ := hfg R (List.mem_cons_self ..) pre.length
    have hrest := ih (fun R' hR' => hfg R' (List.mem_cons_of_mem _ hR'))
      (pre ++ R.image pre.length) rest k (out ++ (g R).image out.length)
      (by rw [hf']; simp only [List.append_assoc]) hlen hg.tail
    rw [show (R :: Rs).length + k = (Rs.length + k) + 1 by simp only [List.length_cons]; omega]
    rw [processLoop, isEof_false hlt, readRecord_of_ok hstep]
    simp only [Bool.false_eq_true, ↓reduceIte, hfr, hw]
    rw [List.length_append] at hrest
    rw [hrest]
    simp only [tailOf, List.map_cons, List.length_append, Nat.add_assoc, List.append_assoc]

/-! ### whole files -/

theorem serBlobHeader_length (b : BlobHeader) : (serBlobHeader b).length = 20 := by
  simp [serBlobHeader]

theorem readBlobHeader_ser (b : BlobHeader) (rest : List UInt8) (hr : b.InRange)
    (hm : b.magicByte = BLOB_MAGIC_BYTE) : readBlobHeader (serBlobHeader b ++ rest) = .ok (b, 20) := by
  unfold readBlobHeader
  rw [parseBlobHeader_ser b rest hr]
  simp [validateWithoutVersion, hm, blobHeaderSize]

theorem writeHeader_ok (b : BlobHeader) (hr : b.InRange) (hm : b.magicByte = BLOB_MAGIC_BYTE) :
    writeHeader b = .ok (serBlobHeader b) := by
  unfold writeHeader
  have := readBlobHeader_ser b [] hr hm
  rw [List.append_nil] at this
  simp [this]

/-- the size of a record in the file does not depend on where it is written -/
def Record.size (R : Record) : Nat := 57 + R.header.key.length + (serMeta R.mt).length + R.data.length

theorem tailOf_length (off : Nat) (Rs : List Record) :
    (tailOf off Rs).length = (Rs.map Record.size).sum := by
  induction Rs generalizing off with
  | nil => rfl
  | cons R Rs ih =>
    simp only [tailOf, List.length_append, List.map_cons, List.sum_cons, ih, Record.image_length,
      Record.size]

theorem tailOf_length_indep (a b : Nat) (Rs : List Record) :
    (tailOf a Rs).length = (tailOf b Rs).length := by
  rw [tailOf_length, tailOf_length]

theorem size_pos (R : Record) : 57 ≤ R.size := by unfold Record.size; omega

theorem sum_size_ge (Rs : List Record) : 57 * Rs.length ≤ (Rs.map Record.size).sum := by
  induction Rs with
  | nil => simp
  | cons R Rs ih =>
    simp only [List.map_cons, List.sum_cons, List.length_cons]
    have := size_pos R
    omega

theorem readSingleRecord_eof {file : List UInt8} {pos : Nat} (h : file.length ≤ pos) :
    readSingleRecord file pos = .error .other := by
  unfold readSingleRecord
  rw [List.drop_eq_nil_of_le h]
  rfl

/-- `validate_blob` accepts a blob header followed by an intact run of records -/
theorem validateBlob_intact {klen : Nat} (b : BlobHeader) (Rs : List Record) (hr : b.InRange)
    (hm : b.magicByte = BLOB_MAGIC_BYTE) (hg : GoodRecs klen Rs)
    (hlen : (serBlobHeader b ++ tailOf 20 Rs).length < 2 ^ 64) :
    validateBlob (serBlobHeader b ++ tailOf 20 Rs) = .ok () := by
  unfold validateBlob
  rw [readBlobHeader_ser b _ hr hm]
  simp only
  have hl : (serBlobHeader b ++ tailOf 20 Rs).length = 20 + (tailOf 20 Rs).length := by
    simp [serBlobHeader_length]
  have hge := tailOf_length_ge 20 Rs
  obtain ⟨k, hk⟩ : ∃ k, (serBlobHeader b ++ tailOf 20 Rs).length = Rs.length + k :=
    ⟨(serBlobHeader b ++ tailOf 20 Rs).length - Rs.length, by omega⟩
  have := validateLoop_tail (klen := klen) (serBlobHeader b ++ tailOf 20 Rs) Rs (serBlobHeader b) [] k
    (by simp [serBlobHeader_length]) hlen hg
  rw [serBlobHeader_length] at this
  rw [hk, this]
  exact validateLoop_eof (by omega) k

/-- `process_blob_with` on an intact blob rewrites the header and every record -/
theorem processBlobWith_intact {klen : Nat} (skip : Bool)
    (fRec : Nat → ToolRecord → Except ToolErr ToolRecord)
    (fHdr : Nat → BlobHeader → Except ToolErr BlobHeader) (g : Record → Record)
    (b b' : BlobHeader) (Rs : List Record) (hr : b.InRange) (hm : b.magicByte = BLOB_MAGIC_BYTE)
    (hr' : b'.InRange) (hm' : b'.magicByte = BLOB_MAGIC_BYTE) (hfh : fHdr b.version b = .ok b')
    (hfg : ∀ R ∈ Rs, ∀ off, ∃ r', fRec b.version (R.toTool off) = .ok r' ∧
      ∀ out, writeRecord out r' = out ++ (g R).image out.length)
    (hg : GoodRecs klen Rs) (hlen : (serBlobHeader b ++ tailOf 20 Rs).length < 2 ^ 64) :
    processBlobWith (serBlobHeader b ++ tailOf 20 Rs) skip fRec fHdr =
      .ok (serBlobHeader b' ++ tailOf 20 (Rs.map g)) := by
  unfold processBlobWith
  rw [readBlobHeader_ser b _ hr hm]
  simp only [hfh, writeHeader_ok b' hr' hm']
  have hl : (serBlobHeader b ++ tailOf 20 Rs).length = 20 + (tailOf 20 Rs).length := by
    simp [serBlobHeader_length]
  have hge := tailOf_length_ge 20 Rs
  obtain ⟨k, hk⟩ : ∃ k, (serBlobHeader b ++ tailOf 20 Rs).length = Rs.length + k :=
    ⟨(serBlobHeader b ++ tailOf 20 Rs).length - Rs.length, by omega⟩
  have := processLoop_tail (klen := klen) (serBlobHeader b ++ tailOf 20 Rs) skip (fRec b.version) g Rs hfg
    (serBlobHeader b) [] k (serBlobHeader b') (by simp [serBlobHeader_length]) hlen hg
  rw [serBlobHeader_length, serBlobHeader_length] at this
  rw [hk, this]
  exact processLoop_eof (by omega) ..

/-! ### a damaged record -/

/-- what the loops need to know about a record that does not read at `pos`; `next` is where the next
    record starts -/
def DamagedAt (file : List UInt8) (pos next : Nat) : Prop :=
  (∃ e, readSingleRecord file pos = .error e) ∧
  (next < file.length → readRecord file true pos = readSingleRecord file next) ∧
  (file.length ≤ next → ∃ e, readRecord file true pos = .error e)

theorem DamagedAt.readRecord_false {file : List UInt8} {pos next : Nat} (h : DamagedAt file pos next) :
    ∃ e, readRecord file false pos = .error e := h.1

/-- a data checksum mismatch -/
theorem damagedAt_recordValidation {file : List UInt8} {pos next : Nat}
    (h : readSingleRecord file pos = .error (.recordValidation next)) : DamagedAt file pos next := by
  refine ⟨⟨_, h⟩, fun _ => ?_, fun hle => ?_⟩
  · simp only [readRecord, h, ↓reduceIte]
  · refine ⟨.other, ?_⟩
    simp only [readRecord, h, ↓reduceIte]
    exact readSingleRecord_eof hle

/-- a header that fails validation but whose length fields can be trusted -/
theorem damagedAt_headerValidation {file : List UInt8} {pos next pos1 : Nat} {h' : RecHeader}
    (h : readSingleRecord file pos = .error (.headerValidation h' pos1))
    (hn : next = pos1 + h'.dataSize + h'.metaSize) (h64 : next < 2 ^ 64) : DamagedAt file pos next := by
  refine ⟨⟨_, h⟩, fun hlt => ?_, fun hle => ?_⟩
  · simp only [readRecord, h, ↓reduceIte, skipWrongRecordData, ← hn]
    rw [if_neg (by omega), if_neg (by omega)]
  · refine ⟨.skipRecordData, ?_⟩
    simp only [readRecord, h, ↓reduceIte, skipWrongRecordData, ← hn]
    rw [if_neg (by omega), if_pos hle]

/-- an unexpected end of file (or any other error the reader does not skip) -/
theorem damagedAt_other {file : List UInt8} {pos next : Nat}
    (h : readSingleRecord file pos = .error .other) (hn : file.length ≤ next) :
    DamagedAt file pos next := by
  refine ⟨⟨_, h⟩, fun hlt => by omega, fun _ => ⟨.other, ?_⟩⟩
  simp only [readRecord, h, ↓reduceIte]

/-- `validate_blob` fails on a damaged record after an intact run -/
theorem validateLoop_damaged {klen : Nat} (file : List UInt8) (Rs : List Record) (pre rest : List UInt8)
    (k next : Nat) (hf : file = pre ++ (tailOf pre.length Rs ++ rest)) (hlen : file.length < 2 ^ 64)
    (hg : GoodRecs klen Rs) (hne : rest ≠ [])
    (hd : DamagedAt file (pre.length + (tailOf pre.length Rs).length) next) :
    ∃ e, validateLoop file (Rs.length + (k + 1)) pre.length = .error e := by
  rw [validateLoop_tail (klen := klen) file Rs pre rest (k + 1) hf hlen hg]
  have hlt : pre.length + (tailOf pre.length Rs).length < file.length := by
    rw [hf]; simp only [List.length_append]
    have : 0 < rest.length := List.length_pos_iff.mpr hne
    omega
  obtain ⟨e, he⟩ := hd.readRecord_false
  rw [validateLoop, isEof_false hlt, he]
  exact ⟨e, rfl⟩

/-- `process_blob_with` without skipping stops at the damaged record -/
theorem processLoop_damaged_noskip {klen : Nat} (input : List UInt8)
    (f : ToolRecord → Except ToolErr ToolRecord) (g : Record → Record) (Rs : List Record)
    (hfg : ∀ R ∈ Rs, ∀ off, ∃ r', f (R.toTool off) = .ok r' ∧
      ∀ out, writeRecord out r' = out ++ (g R).image out.length)
    (pre rest : List UInt8) (k next : Nat) (out : List UInt8)
    (hf : input = pre ++ (tailOf pre.length Rs ++ rest)) (hlen : input.length < 2 ^ 64)
    (hg : GoodRecs klen Rs)
    (hd : DamagedAt input (pre.length + (tailOf pre.length Rs).length) next) :
    processLoop input false f (Rs.length + (k + 1)) pre.length out =
      .ok (out ++ tailOf out.length (Rs.map g)) := by
  rw [processLoop_tail (klen := klen) input false f g Rs hfg pre rest (k + 1) out hf hlen hg]
  obtain ⟨e, he⟩ := hd.readRecord_false
  rw [processLoop, he]
  split <;> rfl

/-- `process_blob_with` with skipping continues with the records after the damaged one -/
theorem processLoop_damaged_skip {klen : Nat} (input : List UInt8)
    (f : ToolRecord → Except ToolErr ToolRecord) (g : Record → Record) (Rs1 Rs2 : List Record)
    (hfg : ∀ R ∈ Rs1 ++ Rs2, ∀ off, ∃ r', f (R.toTool off) = .ok r' ∧
      ∀ out, writeRecord out r' = out ++ (g R).image out.length)
    (pre X : List UInt8) (k next : Nat) (out : List UInt8)
    (hn : next = pre.length + (tailOf pre.length Rs1).length + X.length)
    (hf : input = pre ++ (tailOf pre.length Rs1 ++ (X ++ tailOf next Rs2))) (hlen : input.length < 2 ^ 64)
    (hg1 : GoodRecs klen Rs1) (hg2 : GoodRecs klen Rs2)
    (hd : DamagedAt input (pre.length + (tailOf pre.length Rs1).length) next) :
    processLoop input true f (Rs1.length + (Rs2.length + (k + 1))) pre.length out =
      .ok (out ++ tailOf out.length ((Rs1 ++ Rs2).map g)) := by
  rw [processLoop_tail (klen := klen) input true f g Rs1
    (fun R hR => hfg R (List.mem_append_left _ hR)) pre (X ++ tailOf next Rs2) _ out hf hlen hg1]
  have hil : input.length = next + (tailOf next Rs2).length := by
    rw [hf, hn]; simp only [List.length_append]; omega
  cases Rs2 with
  | nil =>
    obtain ⟨e, he⟩ := hd.2.2 (by rw [hil]; simp [tailOf])
    rw [List.length_nil, Nat.zero_add, processLoop, he, List.append_nil]
    split <;> rfl
  | cons R2 Rs2 =>
    have hpre2 : (pre ++ (tailOf pre.length Rs1 ++ X)).length = next := by
      rw [hn]; simp only [List.length_append]; omega
    have hf2 : input = (pre ++ (tailOf pre.length Rs1 ++ X)) ++
        (tailOf (pre ++ (tailOf pre.length Rs1 ++ X)).length (R2 :: Rs2) ++ []) := by
      rw [hpre2, hf]; simp only [List.append_assoc, List.append_nil]
    obtain ⟨hf2', hr, hm, hlt⟩ := head_facts hf2 hlen hg2
    rw [hpre2] at hlt hf2' hr
    have hstep := readSingleRecord_image (pre ++ (tailOf pre.length Rs1 ++ X))
      (tailOf (pre ++ (tailOf pre.length Rs1 ++ X) ++ R2.image next).length Rs2 ++ []) R2
      hg2.head.1 next hpre2 hr hm
    rw [← hf2'] at hstep
    obtain ⟨r', hfr, hw⟩ := hfg R2 (List.mem_append_right _ (List.mem_cons_self ..)) next
    have hlt1 : pre.length + (tailOf pre.length Rs1).length < input.length := by omega
    rw [show (R2 :: Rs2).length + (k + 1) = (Rs2.length + (k + 1)) + 1 by
      simp only [List.length_cons]; omega]
    rw [processLoop, isEof_false hlt1, hd.2.1 hlt, hstep]
    simp only [Bool.false_eq_true, ↓reduceIte, hfr, hw]
    have hrest := processLoop_tail (klen := klen) input true f g Rs2
      (fun R hR => hfg R (List.mem_append_right _ (List.mem_cons_of_mem _ hR)))
      ((pre ++ (tailOf pre.length Rs1 ++ X)) ++ R2.image next) [] (k + 1)
      (out ++ tailOf out.length (Rs1.map g) ++
        (g R2).image (out ++ tailOf out.length (Rs1.map g)).length)
      (by
        have : ((pre ++ (tailOf pre.length Rs1 ++ X)) ++ R2.image next).length =
            next + (R2.image next).length := by rw [List.length_append, hpre2]
        rw [this, List.append_nil]
        conv => lhs; rw [hf]
        simp only [tailOf, List.append_assoc])
      hlen hg2.tail
    have hl2 : ((pre ++ (tailOf pre.length Rs1 ++ X)) ++ R2.image next).length =
        next + (R2.image next).length := by rw [List.length_append, hpre2]
    rw [hl2] at hrest
    rw [hrest, processLoop_eof (by rw [hil]; simp only [tailOf, List.length_append]; omega)]
    simp only [List.map_append, List.map_cons, tailOf_append, tailOf, List.length_append,
      List.append_assoc, Nat.add_assoc]

/-! ### reading a record-shaped region with an arbitrary header and data -/

theorem readSingleRecord_parts (pre post : List UInt8) (h' : RecHeader) (m : Meta) (d : List UInt8)
    (off : Nat) (hoff : pre.length = off) (hr : h'.InRange) (hms : h'.metaSize = (serMeta m).length)
    (hds : h'.dataSize = d.length) (hm : (serMeta m).length < 2 ^ 64) :
    readSingleRecord (pre ++ ((serHeader h' ++ (serMeta m ++ d)) ++ post)) off =
      match headerValidate h' with
      | .error _ => .error (.headerValidation h' (off + (57 + h'.key.length)))
      | .ok _ =>
        match dataChecksumAudit h' d with
        | .error _ => .error (.recordValidation (off + (57 + h'.key.length) + (serMeta m).length + d.length))
        | .ok _ => .ok ({ header := h', mt := metaEntries m, data := d },
            off + (57 + h'.key.length) + (serMeta m).length + d.length) := by
  have hss : h'.serializedSize = 57 + h'.key.length := rfl
  have hdrop : (pre ++ ((serHeader h' ++ (serMeta m ++ d)) ++ post)).drop off =
      serHeader h' ++ ((serMeta m ++ d) ++ post) := by
    rw [List.drop_left' hoff, List.append_assoc]
  have hfile1 : pre ++ ((serHeader h' ++ (serMeta m ++ d)) ++ post) =
      (pre ++ serHeader h') ++ (serMeta m ++ (d ++ post)) := by
    simp [List.append_assoc]
  have hfile2 : pre ++ ((serHeader h' ++ (serMeta m ++ d)) ++ post) =
      (pre ++ (serHeader h' ++ serMeta m)) ++ (d ++ post) := by
    simp [List.append_assoc]
  have hp1 : (pre ++ serHeader h').length = off + (57 + h'.key.length) := by
    simp [hoff]
  have hp2 : (pre ++ (serHeader h' ++ serMeta m)).length =
      off + (57 + h'.key.length) + (serMeta m).length := by
    simp [hoff]; omega
  have hdm := deserMeta_serMeta m hm []
  rw [List.append_nil] at hdm
  unfold readSingleRecord
  rw [hdrop, deserHeader_serHeader _ _ hr]
  simp only [hss, hms, hds]
  cases hv : headerValidate h' with
  | error e => rfl
  | ok u =>
    simp only
    rw [hfile1, readExactAt_append hp1 rfl]
    simp only [hdm]
    rw [← hfile1, hfile2, readExactAt_append hp2 rfl]
    simp only
    cases dataChecksumAudit h' d <;> rfl

/-- a record-shaped region whose header fails validation, or whose data does not match the header's data
    checksum, is a damaged record with the next record right after it -/
theorem damagedAt_parts (pre post : List UInt8) (h' : RecHeader) (m : Meta) (d : List UInt8)
    (off : Nat) (hoff : pre.length = off) (hr : h'.InRange) (hms : h'.metaSize = (serMeta m).length)
    (hds : h'.dataSize = d.length)
    (hlen : (pre ++ ((serHeader h' ++ (serMeta m ++ d)) ++ post)).length < 2 ^ 64)
    (hbad : headerValidate h' ≠ .ok () ∨ crc32c d ≠ h'.dataChecksum) :
    DamagedAt (pre ++ ((serHeader h' ++ (serMeta m ++ d)) ++ post)) off
      (off + (57 + h'.key.length) + (serMeta m).length + d.length) := by
  have hl : off + (57 + h'.key.length) + (serMeta m).length + d.length ≤
      (pre ++ ((serHeader h' ++ (serMeta m ++ d)) ++ post)).length := by
    simp [hoff]; omega
  have hm : (serMeta m).length < 2 ^ 64 := by omega
  have hrd := readSingleRecord_parts pre post h' m d off hoff hr hms hds hm
  cases hv : headerValidate h' with
  | error e =>
    rw [hv] at hrd
    exact damagedAt_headerValidation hrd (by rw [hms, hds]; omega) (by omega)
  | ok u =>
    rw [hv] at hrd
    have hcrc : crc32c d ≠ h'.dataChecksum := by
      rcases hbad with h | h
      · exact absurd hv h
      · exact h
    have : dataChecksumAudit h' d = .error .recordDataChecksum := by
      unfold dataChecksumAudit; rw [if_neg hcrc]
    rw [this] at hrd
    exact damagedAt_recordValidation hrd

theorem takeN_some {n : Nat} {l a r : List UInt8} (h : takeN n l = some (a, r)) :
    l = a ++ r ∧ a.length = n := by
  unfold takeN at h
  split at h
  · cases h
  · next hl =>
    simp only [Option.some.injEq, Prod.mk.injEq] at h
    obtain ⟨rfl, rfl⟩ := h
    exact ⟨(List.take_append_drop n l).symm, by rw [List.length_take]; omega⟩

theorem deserVec_some {l v r : List UInt8} (h : deserVec l = some (v, r)) :
    ∃ nb, l = nb ++ (v ++ r) ∧ nb.length = 8 ∧ v.length = fromLe nb := by
  unfold deserVec at h
  split at h
  · cases h
  · next nb r1 h1 =>
    obtain ⟨e1, l1⟩ := takeN_some h1
    obtain ⟨e2, l2⟩ := takeN_some h
    exact ⟨nb, by rw [e1, e2], l1, l2⟩

/-- a successful header deserialisation consumed `57 + key length` bytes, the key length being the
    value of bytes 8 .. 16 -/
theorem deserHeader_some_length {buf : List UInt8} {h : RecHeader} (hd : deserHeader buf = some h) :
    57 + h.key.length ≤ buf.length ∧ h.key.length = fromLe ((buf.drop 8).take 8) := by
  unfold deserHeader at hd
  split at hd
  · cases hd
  · next magic r0 h0 =>
    obtain ⟨e0, l0⟩ := takeN_some h0
    split at hd
    · cases hd
    · next key r1 h1 =>
      obtain ⟨nb, e1, l1, l1'⟩ := deserVec_some h1
      split at hd
      · cases hd
      · next ms r2 h2 =>
        obtain ⟨e2, l2⟩ := takeN_some h2
        split at hd
        · cases hd
        · next ds r3 h3 =>
          obtain ⟨e3, l3⟩ := takeN_some h3
          split at hd
          · cases hd
          · next fl r4 h4 =>
            obtain ⟨e4, l4⟩ := takeN_some h4
            split at hd
            · cases hd
            · next bo r5 h5 =>
              obtain ⟨e5, l5⟩ := takeN_some h5
              split at hd
              · cases hd
              · next ts r6 h6 =>
                obtain ⟨e6, l6⟩ := takeN_some h6
                split at hd
                · cases hd
                · next dc r7 h7 =>
                  obtain ⟨e7, l7⟩ := takeN_some h7
                  split at hd
                  · cases hd
                  · next hc r8 h8 =>
                    obtain ⟨e8, l8⟩ := takeN_some h8
                    simp only [Option.some.injEq] at hd
                    subst hd
                    simp only
                    subst e8 e7 e6 e5 e4 e3 e2
                    subst e1
                    subst e0
                    refine ⟨by simp only [List.length_append]; omega, ?_⟩
                    rw [List.drop_left' l0, List.take_left' l1]
                    exact l1'

theorem serMeta_length_pos (m : Meta) : 0 < (serMeta m).length := by
  cases m <;> simp [serMeta] <;> omega

theorem image_keylen_bytes (R : Record) (off : Nat) :
    ((R.image off).drop 8).take 8 = le64 R.header.key.length := by
  have : R.image off = le64 R.header.magicByte ++ (le64 R.header.key.length ++
      (R.header.key ++ (le64 R.header.metaSize ++ le64 R.header.dataSize ++ [R.header.flags]) ++
        (le64 off ++ (le64 R.header.timestamp ++ le32 R.header.dataChecksum.toNat ++
          le32 (R.header.final off).headerChecksum.toNat)) ++ (serMeta R.mt ++ R.data))) := by
    simp [Record.image, serHeader, serHeaderPre, serVec, RecHeader.final, RecHeader.finalWith,
      List.append_assoc]
  rw [this, List.drop_left' (le64_length _), List.take_left' (le64_length _)]

/-- a record image cut short (anywhere) does not read -/
theorem readSingleRecord_truncated {klen : Nat} (pre : List UInt8) (R : Record) (hwf : R.WF klen)
    (off : Nat) (hoff : pre.length = off) (hr : (R.header.final off).InRange)
    (hm : (serMeta R.mt).length < 2 ^ 64) (k : Nat) (hk : k < (R.image off).length) :
    readSingleRecord (pre ++ (R.image off).take k) off = .error .other := by
  have hkl : (R.header.final off).key.length = klen := hwf.key
  have hms : (R.header.final off).metaSize = (serMeta R.mt).length := hwf.msize
  have hds : (R.header.final off).dataSize = R.data.length := hwf.dsize
  have him := R.image_length off
  rw [hwf.key] at him
  have hXl : ((R.image off).take k).length = k := by rw [List.length_take]; omega
  by_cases hcase : k < 57 + klen
  · -- cut inside the header
    unfold readSingleRecord
    rw [List.drop_left' hoff]
    cases hd : deserHeader ((R.image off).take k) with
    | none => rfl
    | some h'' =>
      exfalso
      obtain ⟨h1, h2⟩ := deserHeader_some_length hd
      rw [hXl] at h1
      have : (((R.image off).take k).drop 8).take 8 = ((R.image off).drop 8).take 8 := by
        rw [List.drop_take, List.take_take, Nat.min_eq_left (by omega)]
      rw [this, image_keylen_bytes, hwf.key, fromLe_le64 (by have := hr.2.1; rw [hkl] at this; exact this)] at h2
      omega
  · -- cut inside meta / data
    have hX : (R.image off).take k =
        serHeader (R.header.final off) ++ (serMeta R.mt ++ R.data).take (k - (57 + klen)) := by
      rw [image_eq, List.take_append, serHeader_length, hkl,
        List.take_of_length_le (by rw [serHeader_length, hkl]; omega)]
    have hp1 : (pre ++ serHeader (R.header.final off)).length = off + (57 + klen) := by
      simp [hkl, hoff]
    unfold readSingleRecord
    rw [List.drop_left' hoff, hX, deserHeader_serHeader _ _ hr]
    simp only [headerValidate_final _ _ hwf.magic, hms, hds,
      show (R.header.final off).serializedSize = 57 + klen by simp [RecHeader.serializedSize, hkl]]
    by_cases hc2 : k - (57 + klen) < (serMeta R.mt).length
    · rw [readExactAt_none_of_short (by
        simp only [List.length_append, List.length_take, serHeader_length, hkl, hoff]; omega)
        (serMeta_length_pos _)]
    · have hY : (serMeta R.mt ++ R.data).take (k - (57 + klen)) =
          serMeta R.mt ++ R.data.take (k - (57 + klen) - (serMeta R.mt).length) := by
        rw [List.take_append, List.take_of_length_le (by omega)]
      rw [hY]
      have hfile1 : pre ++ (serHeader (R.header.final off) ++
          (serMeta R.mt ++ R.data.take (k - (57 + klen) - (serMeta R.mt).length))) =
          (pre ++ serHeader (R.header.final off)) ++
            (serMeta R.mt ++ R.data.take (k - (57 + klen) - (serMeta R.mt).length)) := by
        simp [List.append_assoc]
      rw [hfile1, readExactAt_append hp1 rfl]
      have hdm := deserMeta_serMeta R.mt hm []
      rw [List.append_nil] at hdm
      simp only [hdm]
      rw [readExactAt_none_of_short (by
        simp only [List.length_append, List.length_take, serHeader_length, hkl, hoff]; omega)
        (by omega)]

theorem leBytes_fromLe (l : List UInt8) : leBytes l.length (fromLe l) = l := by
  induction l with
  | nil => rfl
  | cons b r ih =>
    have hb := b.toNat_lt
    have h1 : UInt8.ofNat (b.toNat + 256 * fromLe r) = b := by
      apply UInt8.toNat_inj.mp
      rw [UInt8.toNat_ofNat']
      omega
    have h2 : (b.toNat + 256 * fromLe r) / 256 = fromLe r := by omega
    simp only [List.length_cons, leBytes, fromLe, h1, h2, ih]

theorem le64_fromLe {l : List UInt8} (h : l.length = 8) : le64 (fromLe l) = l := by
  rw [le64, ← h]; exact leBytes_fromLe l

theorem le32_fromLe {l : List UInt8} (h : l.length = 4) : le32 (fromLe l) = l := by
  rw [le32, ← h]; exact leBytes_fromLe l

theorem fromLe_inj {a b : List UInt8} (hl : a.length = b.length) (h : fromLe a = fromLe b) : a = b := by
  rw [← leBytes_fromLe a, ← leBytes_fromLe b, hl, h]

theorem le32_ofNat_fromLe {l : List UInt8} (h : l.length = 4) :
    le32 (UInt32.ofNat (fromLe l)).toNat = l := by
  have := fromLe_lt l
  rw [h] at this
  rw [UInt32.toNat_ofNat', Nat.mod_eq_of_lt (by omega), le32_fromLe h]

theorem ofNat32_fromLe_inj {a b : List UInt8} (ha : a.length = 4) (hb : b.length = 4)
    (h : UInt32.ofNat (fromLe a) = UInt32.ofNat (fromLe b)) : a = b := by
  rw [← le32_ofNat_fromLe ha, ← le32_ofNat_fromLe hb, h]

theorem singleton_ofNat_fromLe {l : List UInt8} (h : l.length = 1) : [UInt8.ofNat (fromLe l)] = l := by
  match l, h with
  | [b], _ => simp [fromLe]


/-- the header whose serialisation is the byte string `H` (with a `klen`-byte key) -/
def hdrOfBytes (klen : Nat) (H : List UInt8) : RecHeader :=
  { magicByte := fromLe (H.take 8)
    key := (H.drop 16).take klen
    metaSize := fromLe ((H.drop (16 + klen)).take 8)
    dataSize := fromLe ((H.drop (24 + klen)).take 8)
    flags := UInt8.ofNat (fromLe ((H.drop (32 + klen)).take 1))
    blobOffset := fromLe ((H.drop (33 + klen)).take 8)
    timestamp := fromLe ((H.drop (41 + klen)).take 8)
    dataChecksum := UInt32.ofNat (fromLe ((H.drop (49 + klen)).take 4))
    headerChecksum := UInt32.ofNat (fromLe ((H.drop (53 + klen)).take 4)) }

theorem slice_length {l : List UInt8} {a n : Nat} (h : a + n ≤ l.length) : ((l.drop a).take n).length = n := by
  rw [List.length_take, List.length_drop]; omega

theorem slice_step (l : List UInt8) (a n : Nat) : (l.drop a).take n ++ l.drop (a + n) = l.drop a := by
  rw [← List.drop_drop]; exact List.take_append_drop n _

theorem hdrOfBytes_key_length {klen : Nat} {H : List UInt8} (hl : H.length = 57 + klen) :
    (hdrOfBytes klen H).key.length = klen := slice_length (by omega)

theorem serHeader_hdrOfBytes {klen : Nat} {H : List UInt8} (hl : H.length = 57 + klen)
    (hk : (H.drop 8).take 8 = le64 klen) : serHeader (hdrOfBytes klen H) = H := by
  have hkl := hdrOfBytes_key_length hl
  unfold serHeader serHeaderPre serVec
  rw [hkl]
  simp only [hdrOfBytes]
  rw [le64_fromLe (show (H.take 8).length = 8 by rw [List.length_take]; omega),
    le64_fromLe (slice_length (l := H) (a := 16 + klen) (n := 8) (by omega)),
    le64_fromLe (slice_length (l := H) (a := 24 + klen) (n := 8) (by omega)),
    le64_fromLe (slice_length (l := H) (a := 33 + klen) (n := 8) (by omega)),
    le64_fromLe (slice_length (l := H) (a := 41 + klen) (n := 8) (by omega)),
    le32_ofNat_fromLe (slice_length (l := H) (a := 49 + klen) (n := 4) (by omega)),
    le32_ofNat_fromLe (slice_length (l := H) (a := 53 + klen) (n := 4) (by omega)),
    singleton_ofNat_fromLe (slice_length (l := H) (a := 32 + klen) (n := 1) (by omega)), ← hk]
  simp only [List.append_assoc]
  have e9 : (H.drop (53 + klen)).take 4 = H.drop (53 + klen) :=
    List.take_of_length_le (by rw [List.length_drop]; omega)
  have s8 := slice_step H (49 + klen) 4
  have s7 := slice_step H (41 + klen) 8
  have s6 := slice_step H (33 + klen) 8
  have s5 := slice_step H (32 + klen) 1
  have s4 := slice_step H (24 + klen) 8
  have s3 := slice_step H (16 + klen) 8
  have s2 := slice_step H 16 klen
  have s1 := slice_step H 8 8
  rw [show 49 + klen + 4 = 53 + klen by omega] at s8
  rw [show 41 + klen + 8 = 49 + klen by omega] at s7
  rw [show 33 + klen + 8 = 41 + klen by omega] at s6
  rw [show 32 + klen + 1 = 33 + klen by omega] at s5
  rw [show 24 + klen + 8 = 32 + klen by omega] at s4
  rw [show 16 + klen + 8 = 24 + klen by omega] at s3
  rw [e9, s8, s7, s6, s5, s4, s3, s2, s1, List.take_append_drop]

theorem hdrOfBytes_inRange {klen : Nat} {H : List UInt8} (hl : H.length = 57 + klen)
    (hk : klen < 2 ^ 64) : (hdrOfBytes klen H).InRange := by
  have h8 : ∀ a, a + 8 ≤ H.length → fromLe ((H.drop a).take 8) < 2 ^ 64 := by
    intro a ha
    have := fromLe_lt ((H.drop a).take 8)
    rw [slice_length ha] at this
    exact this
  refine ⟨?_, ?_, h8 _ (by omega), h8 _ (by omega), h8 _ (by omega), h8 _ (by omega)⟩
  · have := h8 0 (by omega)
    simpa [hdrOfBytes] using this
  · rw [hdrOfBytes_key_length hl]; exact hk

theorem serHeader_keylen_bytes (h : RecHeader) : ((serHeader h).drop 8).take 8 = le64 h.key.length := by
  have : serHeader h = le64 h.magicByte ++ (le64 h.key.length ++
      (h.key ++ (le64 h.metaSize ++ le64 h.dataSize ++ [h.flags]) ++
        (le64 h.blobOffset ++ (le64 h.timestamp ++ le32 h.dataChecksum.toNat ++
          le32 h.headerChecksum.toNat)))) := by
    simp [serHeader, serHeaderPre, serVec, List.append_assoc]
  rw [this, List.drop_left' (le64_length _), List.take_left' (le64_length _)]

theorem hdrOfBytes_serHeader (h : RecHeader) (hr : h.InRange) :
    hdrOfBytes h.key.length (serHeader h) = h := by
  have hl := serHeader_length h
  have h1 := serHeader_hdrOfBytes hl (serHeader_keylen_bytes h)
  have hr' := hdrOfBytes_inRange hl hr.2.1
  have d1 := deserHeader_serHeader _ [] hr'
  have d2 := deserHeader_serHeader _ [] hr
  rw [h1, d2] at d1
  exact (Option.some.inj d1).symm

theorem serHeader_zero_checksum (h : RecHeader) :
    serHeader { h with headerChecksum := 0 } = (serHeader h).take (53 + h.key.length) ++ le32 0 := by
  have e : ∀ c : UInt32, serHeader { h with headerChecksum := c } =
      (serHeaderPre h ++ (le64 h.blobOffset ++ (le64 h.timestamp ++ le32 h.dataChecksum.toNat))) ++
        le32 c.toNat := by
    intro c; simp [serHeader, serHeaderPre, List.append_assoc]
  have hl : (serHeaderPre h ++ (le64 h.blobOffset ++ (le64 h.timestamp ++ le32 h.dataChecksum.toNat))).length =
      53 + h.key.length := by simp; omega
  have := e h.headerChecksum
  rw [show ({ h with headerChecksum := h.headerChecksum } : RecHeader) = h from rfl] at this
  rw [this, List.take_left' hl, e 0]
  rfl


theorem slice_agree {H H' : List UInt8} {j w : Nat}
    (hout : ∀ k, (k < j ∨ j + w ≤ k) → H[k]? = H'[k]?) {x n : Nat} (h : x + n ≤ j ∨ j + w ≤ x) :
    (H.drop x).take n = (H'.drop x).take n := by
  apply List.ext_getElem?
  intro i
  simp only [List.getElem?_take, List.getElem?_drop]
  split
  · exact hout _ (by omega)
  · rfl

theorem take_agree {H H' : List UInt8} {j w : Nat}
    (hout : ∀ k, (k < j ∨ j + w ≤ k) → H[k]? = H'[k]?) {B : Nat} (h : B ≤ j) :
    H.take B = H'.take B := by
  have := slice_agree hout (x := 0) (n := B) (Or.inl (by omega))
  simpa using this

theorem drop_agree {H H' : List UInt8} {j w : Nat}
    (hout : ∀ k, (k < j ∨ j + w ≤ k) → H[k]? = H'[k]?) {x : Nat} (h : j + w ≤ x) :
    H.drop x = H'.drop x := by
  apply List.ext_getElem?
  intro i
  simp only [List.getElem?_drop]
  exact hout _ (by omega)

/-- a change confined to at most 4 adjacent bytes of a valid serialised header, outside the three length
    fields: the bytes still parse to a header with the same lengths, and that header fails validation
    or carries another data checksum -/
theorem header_window {klen : Nat} (hf : RecHeader) (hr : hf.InRange) (hk : hf.key.length = klen)
    (hv : headerValidate hf = .ok ()) (H' : List UInt8) (j w : Nat) (hw : w ≤ 4)
    (hl : H'.length = (serHeader hf).length)
    (hout : ∀ k, (k < j ∨ j + w ≤ k) → (serHeader hf)[k]? = H'[k]?)
    (hne : H' ≠ serHeader hf)
    (hfields : j + w ≤ 8 ∨ (16 ≤ j ∧ j + w ≤ 16 + klen) ∨ 32 + klen ≤ j) :
    serHeader (hdrOfBytes klen H') = H' ∧ (hdrOfBytes klen H').InRange ∧
    (hdrOfBytes klen H').key.length = klen ∧ (hdrOfBytes klen H').metaSize = hf.metaSize ∧
    (hdrOfBytes klen H').dataSize = hf.dataSize ∧
    (headerValidate (hdrOfBytes klen H') ≠ .ok () ∨
      (hdrOfBytes klen H').dataChecksum ≠ hf.dataChecksum) := by
  subst hk
  have hHl := serHeader_length hf
  rw [hHl] at hl
  have hself := hdrOfBytes_serHeader hf hr
  have hkb : (H'.drop 8).take 8 = le64 hf.key.length := by
    rw [← serHeader_keylen_bytes hf]
    exact (slice_agree hout (by omega)).symm
  have hser := serHeader_hdrOfBytes hl hkb
  have hkl := hdrOfBytes_key_length hl
  have hms : (hdrOfBytes hf.key.length H').metaSize = hf.metaSize := by
    conv => rhs; rw [← hself]
    simp only [hdrOfBytes]
    rw [slice_agree hout (by omega)]
  have hds : (hdrOfBytes hf.key.length H').dataSize = hf.dataSize := by
    conv => rhs; rw [← hself]
    simp only [hdrOfBytes]
    rw [slice_agree hout (by omega)]
  refine ⟨hser, hdrOfBytes_inRange hl hr.2.1, hkl, hms, hds, ?_⟩
  -- the checksum analysis
  have hcrc0 : headerCrc hf = hf.headerChecksum := (headerValidate_ok.mp hv).2
  have hcrcf : crc32c ((serHeader hf).take (53 + hf.key.length) ++ le32 0) = hf.headerChecksum := by
    rw [← serHeader_zero_checksum]; exact hcrc0
  have hcrc' : headerCrc (hdrOfBytes hf.key.length H') =
      crc32c (H'.take (53 + hf.key.length) ++ le32 0) := by
    unfold headerCrc headerCrcWith
    rw [serHeader_zero_checksum, hser, hkl]
  have hhc' : (hdrOfBytes hf.key.length H').headerChecksum =
      UInt32.ofNat (fromLe ((H'.drop (53 + hf.key.length)).take 4)) := rfl
  have hhc : hf.headerChecksum =
      UInt32.ofNat (fromLe (((serHeader hf).drop (53 + hf.key.length)).take 4)) := by
    conv => lhs; rw [← hself]
    rfl
  have hdc' : (hdrOfBytes hf.key.length H').dataChecksum =
      UInt32.ofNat (fromLe ((H'.drop (49 + hf.key.length)).take 4)) := rfl
  have hdc : hf.dataChecksum =
      UInt32.ofNat (fromLe (((serHeader hf).drop (49 + hf.key.length)).take 4)) := by
    conv => lhs; rw [← hself]
    rfl
  have hsplit : ∀ l : List UInt8, l.length = 57 + hf.key.length →
      l = l.take (53 + hf.key.length) ++ (l.drop (53 + hf.key.length)).take 4 := by
    intro l hll
    rw [List.take_of_length_le (l := l.drop _) (by rw [List.length_drop]; omega), List.take_append_drop]
  by_cases hpos : j + w ≤ 53 + hf.key.length
  · -- the checksum field is untouched
    left
    intro hv'
    have hC : ((serHeader hf).drop (53 + hf.key.length)).take 4 = (H'.drop (53 + hf.key.length)).take 4 :=
      slice_agree hout (Or.inr hpos)
    have hA : (serHeader hf).take (53 + hf.key.length) ≠ H'.take (53 + hf.key.length) := by
      intro hA
      apply hne
      rw [hsplit H' hl, hsplit _ hHl, hA, hC]
    have hcne := crc32c_window_pos ((serHeader hf).take (53 + hf.key.length) ++ le32 0)
      (H'.take (53 + hf.key.length) ++ le32 0) (by simp [hl]) j
      (by
        intro k hk
        have hlenA : ((serHeader hf).take (53 + hf.key.length)).length = 53 + hf.key.length := by
          rw [List.length_take]; omega
        have hlenA' : (H'.take (53 + hf.key.length)).length = 53 + hf.key.length := by
          rw [List.length_take]; omega
        by_cases hkB : k < 53 + hf.key.length
        · rw [List.getElem?_append_left (by omega), List.getElem?_append_left (by omega),
            List.getElem?_take, List.getElem?_take, if_pos hkB, if_pos hkB]
          exact hout k (by omega)
        · rw [List.getElem?_append_right (by omega), List.getElem?_append_right (by omega),
            hlenA, hlenA'])
      (by intro h; exact hA (List.append_cancel_right h))
    have h2 := (headerValidate_ok.mp hv').2
    rw [hcrc', hhc', ← hC, ← hhc] at h2
    rw [hcrcf] at hcne
    exact hcne h2.symm
  · -- the window reaches into the checksum field: it starts after byte 49 + klen
    have hj : 50 + hf.key.length ≤ j := by omega
    by_cases hD : ((serHeader hf).drop (49 + hf.key.length)).take 4 = (H'.drop (49 + hf.key.length)).take 4
    · left
      intro hv'
      have hA : (serHeader hf).take (53 + hf.key.length) = H'.take (53 + hf.key.length) := by
        apply List.ext_getElem?
        intro k
        rw [List.getElem?_take, List.getElem?_take]
        split
        · next hkB =>
          by_cases hk49 : k < 49 + hf.key.length
          · exact hout k (by omega)
          · have := congrArg (fun l => l[k - (49 + hf.key.length)]?) hD
            simp only [List.getElem?_take, List.getElem?_drop] at this
            rw [if_pos (by omega), if_pos (by omega),
              show 49 + hf.key.length + (k - (49 + hf.key.length)) = k by omega] at this
            exact this
        · rfl
      have hC : ((serHeader hf).drop (53 + hf.key.length)).take 4 ≠ (H'.drop (53 + hf.key.length)).take 4 := by
        intro hC
        apply hne
        rw [hsplit H' hl, hsplit _ hHl, hA, hC]
      have h2 := (headerValidate_ok.mp hv').2
      rw [hcrc', ← hA, hcrcf, hhc', hhc] at h2
      exact hC (ofNat32_fromLe_inj (slice_length (by omega)) (slice_length (by omega)) h2)
    · right
      rw [hdc', hdc]
      intro h
      exact hD (ofNat32_fromLe_inj (slice_length (by omega)) (slice_length (by omega)) h).symm


/-- a window of a file that lies inside the middle part `M` of the decomposition `X ++ M ++ Y` -/
theorem window_in_middle {p w s X M Y : List UInt8} (h : p ++ w ++ s = X ++ (M ++ Y))
    (h1 : X.length ≤ p.length) (h2 : p.length + w.length ≤ X.length + M.length) :
    ∃ d1 d2, p = X ++ d1 ∧ M = d1 ++ w ++ d2 ∧ s = d2 ++ Y := by
  have hp : p = X ++ p.drop X.length := by
    have := congrArg (List.take X.length) h
    rw [List.append_assoc, List.take_append_of_le_length h1, List.take_left' rfl] at this
    conv => lhs; rw [← List.take_append_drop X.length p, this]
  generalize p.drop X.length = d1 at hp
  subst hp
  rw [List.append_assoc, List.append_assoc, List.append_cancel_left_eq] at h
  simp only [List.length_append] at h2
  have hM : M = (d1 ++ w) ++ M.drop (d1 ++ w).length := by
    have := congrArg (List.take (d1 ++ w).length) h
    rw [← List.append_assoc, List.take_left' rfl,
      List.take_append_of_le_length (by simp only [List.length_append]; omega)] at this
    conv => lhs; rw [← List.take_append_drop (d1 ++ w).length M, ← this]
  refine ⟨d1, M.drop (d1 ++ w).length, rfl, hM, ?_⟩
  generalize M.drop (d1 ++ w).length = d2 at hM
  subst hM
  simp only [List.append_assoc, List.append_cancel_left_eq] at h
  exact h

theorem window_hout (a w1 w2 c : List UInt8) (hl : w1.length = w2.length) :
    ∀ k, (k < a.length ∨ a.length + w1.length ≤ k) → (a ++ w1 ++ c)[k]? = (a ++ w2 ++ c)[k]? := by
  intro k hk
  rcases hk with hk | hk
  · rw [List.append_assoc, List.append_assoc, List.getElem?_append_left hk, List.getElem?_append_left hk]
  · rw [List.getElem?_append_right (by simp only [List.length_append]; omega),
      List.getElem?_append_right (by simp only [List.length_append]; omega)]
    simp only [List.length_append, hl]

/-! ### decomposition of a produced blob around record `i` -/

theorem list_split_at {α} (l : List α) (i : Nat) (hi : i < l.length) :
    l = l.take i ++ l[i] :: l.drop (i + 1) := by
  rw [← List.drop_eq_getElem_cons hi, List.take_append_drop]

theorem blob_split (Rs : List Record) (i : Nat) (hi : i < Rs.length) :
    appendRecords serBlobHeader Rs =
      serBlobHeader ++ (tailOf 20 (Rs.take i) ++
        (Rs[i].image (20 + (tailOf 20 (Rs.take i)).length) ++
          tailOf (20 + (tailOf 20 (Rs.take i)).length +
            (Rs[i].image (20 + (tailOf 20 (Rs.take i)).length)).length) (Rs.drop (i + 1)))) := by
  rw [appendRecords_eq, serBlobHeader_length]
  conv => lhs; rw [list_split_at Rs i hi]
  rw [tailOf_append]
  rfl

theorem writtenHeaders_length (p : List UInt8) (Rs : List Record) :
    (writtenHeaders p Rs).length = Rs.length := by
  rw [writtenHeaders_eq, List.length_map, scanOf_length]

theorem writtenHeaders_getElem? (Rs : List Record) (i : Nat) (hi : i < Rs.length) :
    (writtenHeaders serBlobHeader Rs)[i]? =
      some (Rs[i].header.final (20 + (tailOf 20 (Rs.take i)).length)) := by
  rw [writtenHeaders_eq, serBlobHeader_length]
  conv => lhs; rw [list_split_at Rs i hi]
  rw [scanOf_append, List.map_append,
    List.getElem?_append_right (by simp [scanOf_length]; omega)]
  simp [scanOf_length, Nat.min_eq_left (Nat.le_of_lt hi), scanOf]

theorem blobBytes_eq (klen : Nat) (recs : List (Rec × List UInt8)) :
    blobBytes klen recs = serBlobHeader ++ tailOf 20 (recordsOf klen recs) := by
  rw [blobBytes, appendRecords_eq, serBlobHeader_length]

theorem recordsOf_take (klen : Nat) (recs : List (Rec × List UInt8)) (i : Nat) :
    recordsOf klen (recs.take i) = (recordsOf klen recs).take i := by
  simp [recordsOf, List.map_take]

theorem recordsOf_eraseIdx (klen : Nat) (recs : List (Rec × List UInt8)) (i : Nat) :
    recordsOf klen (recs.eraseIdx i) = (recordsOf klen recs).take i ++ (recordsOf klen recs).drop (i + 1) := by
  simp [recordsOf, List.eraseIdx_eq_take_drop_succ, List.map_take, List.map_drop]

theorem sum_take_le (l : List Nat) (i : Nat) : (l.take i).sum ≤ l.sum := by
  conv => rhs; rw [← List.take_append_drop i l, List.sum_append]
  omega

theorem sum_take_drop_le (l : List Nat) (i : Nat) : (l.take i ++ l.drop (i + 1)).sum ≤ l.sum := by
  by_cases hi : i < l.length
  · conv => rhs; rw [list_split_at l i hi]
    simp only [List.sum_append, List.sum_cons]
    omega
  · rw [List.drop_eq_nil_of_le (by omega), List.append_nil]
    exact sum_take_le l i

theorem blobBytes_length (klen : Nat) (recs : List (Rec × List UInt8)) :
    (blobBytes klen recs).length = 20 + ((recordsOf klen recs).map Record.size).sum := by
  rw [blobBytes_eq, List.length_append, serBlobHeader_length, tailOf_length]

theorem blobBytes_take_length_le (klen : Nat) (recs : List (Rec × List UInt8)) (i : Nat) :
    (blobBytes klen (recs.take i)).length ≤ (blobBytes klen recs).length := by
  rw [blobBytes_length, blobBytes_length, recordsOf_take, List.map_take]
  have := sum_take_le ((recordsOf klen recs).map Record.size) i
  omega

theorem blobBytes_eraseIdx_length_le (klen : Nat) (recs : List (Rec × List UInt8)) (i : Nat) :
    (blobBytes klen (recs.eraseIdx i)).length ≤ (blobBytes klen recs).length := by
  rw [blobBytes_length, blobBytes_length, recordsOf_eraseIdx, List.map_append, List.map_take, List.map_drop]
  have := sum_take_drop_le ((recordsOf klen recs).map Record.size) i
  omega


theorem blobHeaderNew_inRange : BlobHeader.new.InRange := by decide

theorem hfg_id (Rs : List Record) :
    ∀ R ∈ Rs, ∀ off, ∃ r', (fun r => (Except.ok r : Except ToolErr ToolRecord)) (R.toTool off) = .ok r' ∧
      ∀ out, writeRecord out r' = out ++ (id R).image out.length :=
  fun R _ off => ⟨R.toTool off, rfl, fun out => writeRecord_toTool out R off⟩

theorem blobHeaderNew_magic : BlobHeader.new.magicByte = BLOB_MAGIC_BYTE := rfl

theorem processBlobWith_unfold (rest : List UInt8) (skip : Bool)
    (fRec : Nat → ToolRecord → Except ToolErr ToolRecord)
    (fHdr : Nat → BlobHeader → Except ToolErr BlobHeader) (b b' : BlobHeader)
    (hr : b.InRange) (hm : b.magicByte = BLOB_MAGIC_BYTE)
    (hr' : b'.InRange) (hm' : b'.magicByte = BLOB_MAGIC_BYTE) (hfh : fHdr b.version b = .ok b') :
    processBlobWith (serBlobHeader b ++ rest) skip fRec fHdr =
      processLoop (serBlobHeader b ++ rest) skip (fRec b.version) (serBlobHeader b ++ rest).length 20
        (serBlobHeader b') := by
  unfold processBlobWith
  rw [readBlobHeader_ser b _ hr hm]
  simp only [hfh, writeHeader_ok b' hr' hm']

theorem recoveryBlob_unfold (rest : List UInt8) (skip : Bool) :
    recoveryBlob (serBlobHeader ++ rest) skip =
      processLoop (serBlobHeader ++ rest) skip (fun r => .ok r) (serBlobHeader ++ rest).length 20
        serBlobHeader :=
  processBlobWith_unfold rest skip _ _ BlobHeader.new BlobHeader.new blobHeaderNew_inRange
    blobHeaderNew_magic blobHeaderNew_inRange blobHeaderNew_magic rfl

theorem validateBlob_unfold (rest : List UInt8) :
    validateBlob (serBlobHeader ++ rest) = validateLoop (serBlobHeader ++ rest) (serBlobHeader ++ rest).length 20 := by
  unfold validateBlob
  rw [readBlobHeader_ser BlobHeader.new rest blobHeaderNew_inRange blobHeaderNew_magic]

/-- a produced blob whose record after the intact run `Rs1` is damaged (its region `X` does not read),
    followed by the intact run `Rs2` -/
theorem tools_damaged {klen : Nat} (Rs1 Rs2 : List Record) (X : List UInt8) (next : Nat)
    (hn : next = 20 + (tailOf 20 Rs1).length + X.length) (hX : X ≠ []) (input : List UInt8)
    (hf : input = serBlobHeader ++ (tailOf 20 Rs1 ++ (X ++ tailOf next Rs2)))
    (hlen : input.length < 2 ^ 64) (hg1 : GoodRecs klen Rs1) (hg2 : GoodRecs klen Rs2)
    (hd : DamagedAt input (20 + (tailOf 20 Rs1).length) next) :
    (∃ e, validateBlob input = .error e) ∧
    recoveryBlob input false = .ok (appendRecords serBlobHeader Rs1) ∧
    recoveryBlob input true = .ok (appendRecords serBlobHeader (Rs1 ++ Rs2)) := by
  have hXl : 0 < X.length := List.length_pos_iff.mpr hX
  have hil : input.length = 20 + (tailOf 20 Rs1).length + X.length + (tailOf next Rs2).length := by
    rw [hf]; simp only [List.length_append, serBlobHeader_length]; omega
  have hge1 := tailOf_length_ge 20 Rs1
  have hge2 := tailOf_length_ge next Rs2
  obtain ⟨k, hk⟩ : ∃ k, input.length = Rs1.length + (Rs2.length + (k + 1)) :=
    ⟨input.length - Rs1.length - Rs2.length - 1, by omega⟩
  have hk' : input.length = Rs1.length + (Rs2.length + k + 1) := by omega
  have hf' : input = serBlobHeader ++ (tailOf (serBlobHeader).length Rs1 ++ (X ++ tailOf next Rs2)) := by
    rw [serBlobHeader_length]; exact hf
  have hd' : DamagedAt input ((serBlobHeader).length + (tailOf (serBlobHeader).length Rs1).length) next := by
    rw [serBlobHeader_length]; exact hd
  have hsl : ∀ Rs : List Record, serBlobHeader ++ tailOf (serBlobHeader).length Rs =
      appendRecords serBlobHeader Rs := fun Rs => (appendRecords_eq _ _).symm
  refine ⟨?_, ?_, ?_⟩
  · have := validateLoop_damaged (klen := klen) input Rs1 serBlobHeader (X ++ tailOf next Rs2)
      (Rs2.length + k) next hf' hlen hg1 (by simp [hX]) hd'
    rw [serBlobHeader_length] at this
    conv => enter [1, e, 1]; rw [hf, validateBlob_unfold, ← hf, hk']
    exact this
  · have := processLoop_damaged_noskip (klen := klen) input (fun r => .ok r) id Rs1 (hfg_id Rs1)
      serBlobHeader (X ++ tailOf next Rs2) (Rs2.length + k) next serBlobHeader hf' hlen hg1 hd'
    rw [List.map_id, hsl] at this
    conv => lhs; rw [hf, recoveryBlob_unfold, ← hf, hk']
    rw [← this, serBlobHeader_length]
  · have := processLoop_damaged_skip (klen := klen) input (fun r => .ok r) id Rs1 Rs2 (hfg_id _)
      serBlobHeader X k next serBlobHeader (by rw [serBlobHeader_length]; exact hn) hf' hlen hg1 hg2 hd'
    rw [List.map_id, hsl] at this
    conv => lhs; rw [hf, recoveryBlob_unfold, ← hf, hk]
    rw [← this, serBlobHeader_length]


/-! ### vocabulary of the C16 statements -/

/-- the window `[p, p + w)` of the file lies inside the data of the record with index header `h` -/
def InData (h : RecHeader) (p w : Nat) : Prop :=
  h.dataOffset ≤ p ∧ p + w ≤ h.dataOffset + h.dataSize

/-- the window `[p, p + w)` lies inside the serialised header of the record with index header `h`, and
    outside the three length fields (key length: bytes 8..16, meta_size and data_size: the 16 bytes
    after the key) -/
def InHeaderNoLen (h : RecHeader) (p w : Nat) : Prop :=
  h.blobOffset ≤ p ∧ p + w ≤ h.blobOffset + (57 + h.key.length) ∧
  (p + w ≤ h.blobOffset + 8 ∨ (h.blobOffset + 16 ≤ p ∧ p + w ≤ h.blobOffset + 16 + h.key.length) ∨
    h.blobOffset + 32 + h.key.length ≤ p)

/-- `input` is the produced blob with at most 4 adjacent bytes altered inside record `i`: inside its data,
    or inside its header outside the length fields -/
def FlipIn (klen : Nat) (recs : List (Rec × List UInt8)) (i : Nat) (input : List UInt8) : Prop :=
  ∃ p w1 w2 s h, blobBytes klen recs = p ++ w1 ++ s ∧ input = p ++ w2 ++ s ∧ w1.length = w2.length ∧
    w1.length ≤ 4 ∧ w1 ≠ w2 ∧ (blobHeaders klen recs)[i]? = some h ∧
    (InData h p.length w1.length ∨ InHeaderNoLen h p.length w1.length)

theorem flipIn_tools (klen : Nat) (recs : List (Rec × List UInt8)) (i : Nat) (input : List UInt8)
    (hlen : (blobBytes klen recs).length < 2 ^ 64) (hts : ∀ x ∈ recs, x.1.ts < 2 ^ 64)
    (hflip : FlipIn klen recs i input) :
    (∃ e, validateBlob input = .error e) ∧
    recoveryBlob input false = .ok (blobBytes klen (recs.take i)) ∧
    recoveryBlob input true = .ok (blobBytes klen (recs.eraseIdx i)) := by
  obtain ⟨p, w1, w2, s, h, hb, hin, hl, h4, hne, hh, hwhere⟩ := hflip
  have hgood := goodRecs_recordsOf klen recs hts
  have hi : i < (recordsOf klen recs).length := by
    have := (List.getElem?_eq_some_iff.mp hh).1
    rwa [blobHeaders, writtenHeaders_length] at this
  have hhf := writtenHeaders_getElem? (recordsOf klen recs) i hi
  rw [show writtenHeaders serBlobHeader (recordsOf klen recs) = blobHeaders klen recs from rfl, hh] at hhf
  have hhf := Option.some.inj hhf
  have hsplit := blob_split (recordsOf klen recs) i hi
  rw [show appendRecords serBlobHeader (recordsOf klen recs) = blobBytes klen recs from rfl] at hsplit
  have hwf : ((recordsOf klen recs)[i]).WF klen := (hgood _ (List.getElem_mem hi)).1
  have htsR := (hgood _ (List.getElem_mem hi)).2
  -- names
  generalize hT1 : tailOf 20 ((recordsOf klen recs).take i) = T1 at hhf hsplit
  generalize hR : (recordsOf klen recs)[i] = R at hhf hsplit hwf htsR
  generalize hoff : 20 + T1.length = off at hhf hsplit
  generalize hT2 : tailOf (off + (R.image off).length) ((recordsOf klen recs).drop (i + 1)) = T2 at hsplit
  have him := R.image_length off
  rw [hwf.key] at him
  have hble : off + (R.image off).length ≤ (blobBytes klen recs).length := by
    rw [hsplit]; simp only [List.length_append, serBlobHeader_length]; omega
  have hr : (R.header.final off).InRange := final_inRange hwf off htsR (by omega)
  have hkl : (R.header.final off).key.length = klen := hwf.key
  have hms : (R.header.final off).metaSize = (serMeta R.mt).length := hwf.msize
  have hds : (R.header.final off).dataSize = R.data.length := hwf.dsize
  have hpre : (serBlobHeader ++ T1).length = off := by
    rw [List.length_append, serBlobHeader_length, hoff]
  have hinlen : input.length = (blobBytes klen recs).length := by
    rw [hin, hb]; simp [hl]
  have hfin : ∀ (Xd : List UInt8), Xd.length = (R.image off).length →
      input = (serBlobHeader ++ T1) ++ (Xd ++ T2) →
      DamagedAt input off (off + (R.image off).length) →
      (∃ e, validateBlob input = .error e) ∧
      recoveryBlob input false = .ok (blobBytes klen (recs.take i)) ∧
      recoveryBlob input true = .ok (blobBytes klen (recs.eraseIdx i)) := by
    intro Xd hXl hinX hd
    have hres := tools_damaged (klen := klen) ((recordsOf klen recs).take i)
      ((recordsOf klen recs).drop (i + 1)) Xd (off + (R.image off).length)
      (by rw [hT1, hoff, hXl]) (by intro h0; rw [h0] at hXl; simp at hXl; omega) input
      (by rw [hT1, hT2, hinX, List.append_assoc]) (by omega) (hgood.take i) (hgood.drop (i + 1))
      (by rw [hT1, hoff]; exact hd)
    rw [blobBytes, blobBytes, recordsOf_take, recordsOf_eraseIdx]
    exact hres
  subst hhf
  rcases hwhere with ⟨hd1, hd2⟩ | ⟨hh1, hh2, hh3⟩
  · -- inside the data
    have hdo : (R.header.final off).dataOffset = off + (57 + klen) + (serMeta R.mt).length := by
      simp only [RecHeader.dataOffset, RecHeader.metaOffset, RecHeader.serializedSize, hkl, hms]
      rfl
    rw [hdo] at hd1 hd2
    rw [hds] at hd2
    have hX : p ++ w1 ++ s = (serBlobHeader ++ (T1 ++ (serHeader (R.header.final off) ++ serMeta R.mt))) ++
        (R.data ++ T2) := by
      rw [← hb, hsplit, image_eq]; simp only [List.append_assoc]
    have hXlen : (serBlobHeader ++ (T1 ++ (serHeader (R.header.final off) ++ serMeta R.mt))).length =
        off + (57 + klen) + (serMeta R.mt).length := by
      simp only [List.length_append, serBlobHeader_length, serHeader_length, hkl]; omega
    obtain ⟨d1, d2, hp, hdata, hs⟩ := window_in_middle hX (by omega) (by omega)
    have hDl : (d1 ++ w2 ++ d2).length = R.data.length := by
      rw [hdata]; simp [hl]
    have hcrc : crc32c (d1 ++ w2 ++ d2) ≠ (R.header.final off).dataChecksum := by
      rw [show (R.header.final off).dataChecksum = R.header.dataChecksum from rfl, hwf.dcrc, hdata]
      exact (crc32c_window_split d1 w1 w2 d2 hl h4 hne).symm
    have hinX : input = (serBlobHeader ++ T1) ++
        ((serHeader (R.header.final off) ++ (serMeta R.mt ++ (d1 ++ w2 ++ d2))) ++ T2) := by
      rw [hin, hp, hs]; simp only [List.append_assoc]
    have hd := damagedAt_parts (serBlobHeader ++ T1) T2 (R.header.final off) R.mt (d1 ++ w2 ++ d2) off
      hpre hr hms (by rw [hds, hDl]) (by rw [← hinX]; omega) (Or.inr hcrc)
    rw [← hinX, hkl, hDl] at hd
    refine hfin _ ?_ hinX (by rw [him]; simpa only [Nat.add_assoc] using hd)
    rw [him]; simp only [List.length_append, serHeader_length, hkl] at hDl ⊢; omega
  · -- inside the header
    have hbo : (R.header.final off).blobOffset = off := rfl
    rw [hbo] at hh1 hh2 hh3
    rw [hkl] at hh2 hh3
    have hX : p ++ w1 ++ s = (serBlobHeader ++ T1) ++
        (serHeader (R.header.final off) ++ ((serMeta R.mt ++ R.data) ++ T2)) := by
      rw [← hb, hsplit, image_eq]; simp only [List.append_assoc]
    obtain ⟨a, c, hp, hH, hs⟩ := window_in_middle hX (by omega)
      (by rw [serHeader_length, hkl]; omega)
    have hpl : p.length = off + a.length := by rw [hp, List.length_append, hpre]
    have hH'l : (a ++ w2 ++ c).length = (serHeader (R.header.final off)).length := by
      rw [hH]; simp [hl]
    have hv : headerValidate (R.header.final off) = .ok () := headerValidate_final _ _ hwf.magic
    obtain ⟨hser, hr', hkl', hms', hds', hbad⟩ := header_window (R.header.final off) hr hkl hv
      (a ++ w2 ++ c) a.length w1.length h4 hH'l
      (by rw [hH]; exact window_hout a w1 w2 c hl)
      (by rw [hH]; intro he; simp only [List.append_assoc, List.append_cancel_left_eq,
            List.append_cancel_right_eq] at he; exact hne he.symm)
      (by omega)
    have hinX : input = (serBlobHeader ++ T1) ++
        ((serHeader (hdrOfBytes klen (a ++ w2 ++ c)) ++ (serMeta R.mt ++ R.data)) ++ T2) := by
      rw [hser, hin, hp, hs]; simp only [List.append_assoc]
    have hd := damagedAt_parts (serBlobHeader ++ T1) T2 (hdrOfBytes klen (a ++ w2 ++ c)) R.mt R.data off
      hpre hr' (by rw [hms', hms]) (by rw [hds', hds]) (by rw [← hinX]; omega)
      (by
        rcases hbad with hb1 | hb2
        · exact Or.inl hb1
        · right
          rw [← hwf.dcrc]
          exact fun he => hb2 he.symm)
    rw [← hinX, hkl'] at hd
    refine hfin _ ?_ hinX (by rw [him]; simpa only [Nat.add_assoc] using hd)
    rw [him]; simp only [List.length_append, serHeader_length, hkl']; omega


/-- `t` lies strictly inside record `i` of the produced blob -/
def CutIn (klen : Nat) (recs : List (Rec × List UInt8)) (i t : Nat) : Prop :=
  i < recs.length ∧ (blobBytes klen (recs.take i)).length < t ∧
    t < (blobBytes klen (recs.take (i + 1))).length

/-- `t` is the end of record `n - 1` (`n = 0`: the end of the blob header) -/
def IsBoundary (klen : Nat) (recs : List (Rec × List UInt8)) (t : Nat) : Prop :=
  ∃ n, n ≤ recs.length ∧ t = (blobBytes klen (recs.take n)).length

theorem blobBytes_nil_length (klen : Nat) : (blobBytes klen []).length = 20 := by
  rw [blobBytes_length]; simp [recordsOf]

theorem blobBytes_take_succ_length (klen : Nat) (recs : List (Rec × List UInt8)) (i : Nat)
    (hi : i < (recordsOf klen recs).length) :
    (blobBytes klen (recs.take (i + 1))).length =
      (blobBytes klen (recs.take i)).length + ((recordsOf klen recs)[i]).size := by
  rw [blobBytes_length, blobBytes_length, recordsOf_take, recordsOf_take,
    List.take_succ_eq_append_getElem hi, List.map_append, List.sum_append]
  simp; omega

theorem recordsOf_length (klen : Nat) (recs : List (Rec × List UInt8)) :
    (recordsOf klen recs).length = recs.length := by simp [recordsOf]

/-- every position from the end of the blob header up to the end of the blob lies in some record -/
theorem cut_cases (klen : Nat) (recs : List (Rec × List UInt8)) (t : Nat) (h20 : 20 ≤ t)
    (ht : t < (blobBytes klen recs).length) :
    ∃ i, i < recs.length ∧ (blobBytes klen (recs.take i)).length ≤ t ∧
      t < (blobBytes klen (recs.take (i + 1))).length := by
  have key : ∀ n, n ≤ recs.length → t < (blobBytes klen (recs.take n)).length →
      ∃ i, i < n ∧ (blobBytes klen (recs.take i)).length ≤ t ∧
        t < (blobBytes klen (recs.take (i + 1))).length := by
    intro n
    induction n with
    | zero =>
      intro _ h
      rw [List.take_zero, blobBytes_nil_length] at h
      omega
    | succ n ih =>
      intro hn h
      by_cases hc : (blobBytes klen (recs.take n)).length ≤ t
      · exact ⟨n, by omega, hc, h⟩
      · obtain ⟨i, hi, h1, h2⟩ := ih (by omega) (by omega)
        exact ⟨i, by omega, h1, h2⟩
  obtain ⟨i, hi, h1, h2⟩ := key recs.length (Nat.le_refl _) (by rw [List.take_length]; exact ht)
  exact ⟨i, hi, h1, h2⟩

theorem cutIn_of_not_boundary (klen : Nat) (recs : List (Rec × List UInt8)) (t : Nat) (h20 : 20 ≤ t)
    (ht : t < (blobBytes klen recs).length) (hnb : ¬ IsBoundary klen recs t) :
    ∃ i, CutIn klen recs i t := by
  obtain ⟨i, hi, h1, h2⟩ := cut_cases klen recs t h20 ht
  refine ⟨i, hi, ?_, h2⟩
  rcases Nat.lt_or_ge (blobBytes klen (recs.take i)).length t with h | h
  · exact h
  · exact absurd ⟨i, by omega, by omega⟩ hnb

/-- the prefix of a produced blob that ends at a record boundary is the blob of the records before it -/
theorem blobBytes_take_boundary (klen : Nat) (recs : List (Rec × List UInt8)) (n : Nat) :
    (blobBytes klen recs).take (blobBytes klen (recs.take n)).length = blobBytes klen (recs.take n) := by
  rw [blobBytes_eq klen recs, blobBytes_eq klen (recs.take n), recordsOf_take]
  have hsp : tailOf 20 (recordsOf klen recs) = tailOf 20 ((recordsOf klen recs).take n) ++
      tailOf (20 + (tailOf 20 ((recordsOf klen recs).take n)).length) ((recordsOf klen recs).drop n) := by
    conv => lhs; rw [← List.take_append_drop n (recordsOf klen recs)]
    rw [tailOf_append]
  rw [hsp, ← List.append_assoc, List.take_left' rfl]

/-- the prefix of a produced blob cut `k` bytes into record `i` -/
theorem blobBytes_take_cut (klen : Nat) (recs : List (Rec × List UInt8)) (i t : Nat)
    (hc : CutIn klen recs i t) :
    ∃ (hi : i < (recordsOf klen recs).length),
      (blobBytes klen recs).take t = blobBytes klen (recs.take i) ++
        (((recordsOf klen recs)[i]).image (blobBytes klen (recs.take i)).length).take
          (t - (blobBytes klen (recs.take i)).length) ∧
      t - (blobBytes klen (recs.take i)).length <
        (((recordsOf klen recs)[i]).image (blobBytes klen (recs.take i)).length).length := by
  obtain ⟨hi, h1, h2⟩ := hc
  have hi' : i < (recordsOf klen recs).length := by rw [recordsOf_length]; exact hi
  refine ⟨hi', ?_, ?_⟩
  · have hsplit := blob_split (recordsOf klen recs) i hi'
    rw [show appendRecords serBlobHeader (recordsOf klen recs) = blobBytes klen recs from rfl] at hsplit
    have hpre : blobBytes klen (recs.take i) = serBlobHeader ++ tailOf 20 ((recordsOf klen recs).take i) := by
      rw [blobBytes_eq, recordsOf_take]
    have hpl : (blobBytes klen (recs.take i)).length = 20 + (tailOf 20 ((recordsOf klen recs).take i)).length := by
      rw [hpre, List.length_append, serBlobHeader_length]
    rw [blobBytes_take_succ_length klen recs i hi'] at h2
    conv => lhs; rw [hsplit, ← List.append_assoc, ← hpre, ← hpl]
    rw [List.take_append, List.take_of_length_le (by omega), List.take_append_of_le_length
      (by rw [Record.image_length]; unfold Record.size at h2; omega)]
  · rw [blobBytes_take_succ_length klen recs i hi'] at h2
    rw [Record.image_length]; unfold Record.size at h2; omega

theorem cutIn_tools (klen : Nat) (recs : List (Rec × List UInt8)) (i t : Nat)
    (hlen : (blobBytes klen recs).length < 2 ^ 64) (hts : ∀ x ∈ recs, x.1.ts < 2 ^ 64)
    (hc : CutIn klen recs i t) :
    (∃ e, validateBlob ((blobBytes klen recs).take t) = .error e) ∧
    ∀ skip, recoveryBlob ((blobBytes klen recs).take t) skip = .ok (blobBytes klen (recs.take i)) := by
  obtain ⟨hi, htake, hk⟩ := blobBytes_take_cut klen recs i t hc
  have hgood := goodRecs_recordsOf klen recs hts
  have hwf := (hgood _ (List.getElem_mem hi)).1
  have htsR := (hgood _ (List.getElem_mem hi)).2
  have hpre : blobBytes klen (recs.take i) = serBlobHeader ++ tailOf 20 ((recordsOf klen recs).take i) := by
    rw [blobBytes_eq, recordsOf_take]
  have hpl : (blobBytes klen (recs.take i)).length = 20 + (tailOf 20 ((recordsOf klen recs).take i)).length := by
    rw [hpre, List.length_append, serBlobHeader_length]
  have hle := blobBytes_take_succ_length klen recs i hi
  have hle2 := blobBytes_take_length_le klen recs (i + 1)
  generalize hR : (recordsOf klen recs)[i] = R at htake hk hwf htsR hle
  generalize hoff : (blobBytes klen (recs.take i)).length = off at htake hk hpl hle hc
  generalize hkk : t - off = k at htake hk
  have hkpos : 0 < k := by have := hc.2.1; omega
  have him := R.image_length off
  have hsz : off + R.size ≤ (blobBytes klen recs).length := by omega
  unfold Record.size at hsz
  have hr : (R.header.final off).InRange := final_inRange hwf off htsR (by rw [him]; omega)
  have hXl : ((R.image off).take k).length = k := by rw [List.length_take]; omega
  have hinl : ((blobBytes klen recs).take t).length = off + k := by
    rw [htake, List.length_append, hoff, hXl]
  have hread := readSingleRecord_truncated (blobBytes klen (recs.take i)) R hwf off hoff hr
    (by omega) k hk
  rw [← htake] at hread
  have hres := tools_damaged (klen := klen) ((recordsOf klen recs).take i) [] ((R.image off).take k)
    (off + k) (by rw [hXl, hpl]) (by intro h0; rw [h0] at hXl; simp at hXl; omega)
    ((blobBytes klen recs).take t)
    (by rw [htake, hpre]; simp only [tailOf, List.append_nil, List.append_assoc])
    (by rw [hinl]; rw [him] at hk; omega) (hgood.take i)
    (fun _ h => by cases h)
    (by rw [← hpl]; exact damagedAt_other hread (by omega))
  rw [List.append_nil, ← recordsOf_take] at hres
  refine ⟨hres.1, fun skip => ?_⟩
  cases skip
  · exact hres.2.1
  · exact hres.2.2


/-! ### the blob header -/

theorem parseBlobHeader_short {l : List UInt8} (h : l.length < 20) : parseBlobHeader l = none := by
  unfold parseBlobHeader
  split
  · rfl
  · next m r h0 =>
    obtain ⟨e0, l0⟩ := takeN_some h0
    split
    · rfl
    · next v r1 h1 =>
      obtain ⟨e1, l1⟩ := takeN_some h1
      split
      · rfl
      · next f r2 h2 =>
        obtain ⟨e2, l2⟩ := takeN_some h2
        subst e2 e1 e0
        simp only [List.length_append] at h
        omega

theorem readBlobHeader_magic {file : List UInt8} {x : BlobHeader × Nat}
    (h : readBlobHeader file = .ok x) : fromLe (file.take 8) = BLOB_MAGIC_BYTE := by
  unfold readBlobHeader at h
  split at h
  · cases h
  · next b hp =>
    by_cases hm' : b.magicByte = BLOB_MAGIC_BYTE
    · rw [← hm']
      unfold parseBlobHeader at hp
      split at hp
      · cases hp
      · next m r h0 =>
        obtain ⟨e0, l0⟩ := takeN_some h0
        split at hp
        · cases hp
        · split at hp
          · cases hp
          · simp only [Option.some.injEq] at hp
            subst hp
            rw [e0, List.take_left' l0]
    · simp [validateWithoutVersion, hm'] at h

/-- an unreadable blob header fails every tool with that error -/
theorem tools_header_error {file : List UInt8} {e : ToolErr} (h : readBlobHeader file = .error e) :
    validateBlob file = .error e ∧ (∀ skip, recoveryBlob file skip = .error e) ∧
    ∀ target, migrateBlob file target = .error e := by
  refine ⟨?_, fun skip => ?_, fun target => ?_⟩
  · unfold validateBlob; rw [h]
  · unfold recoveryBlob processBlobWith; rw [h]
  · unfold migrateBlob processBlobWith; rw [h]

theorem blobBytes_magic (klen : Nat) (recs : List (Rec × List UInt8)) :
    (blobBytes klen recs).take 8 = le64 BLOB_MAGIC_BYTE := by
  rw [blobBytes_eq]
  have : serBlobHeader = le64 BLOB_MAGIC_BYTE ++ (le32 BLOB_VERSION ++ le64 0) := rfl
  rw [this, List.append_assoc, List.take_left' (le64_length _)]

theorem blobBytes_length_ge (klen : Nat) (recs : List (Rec × List UInt8)) :
    20 ≤ (blobBytes klen recs).length := by
  rw [blobBytes_length]; omega

/-- any change inside the 8 magic bytes of a produced blob makes the blob header unreadable -/
theorem magicFlip_header (klen : Nat) (recs : List (Rec × List UInt8)) (p w1 w2 s : List UInt8)
    (hb : blobBytes klen recs = p ++ w1 ++ s) (hl : w1.length = w2.length) (hne : w1 ≠ w2)
    (h8 : p.length + w1.length ≤ 8) : ∃ e, readBlobHeader (p ++ w2 ++ s) = .error e := by
  cases hres : readBlobHeader (p ++ w2 ++ s) with
  | error e => exact ⟨e, rfl⟩
  | ok x =>
    exfalso
    have hm := readBlobHeader_magic hres
    have h0 := blobBytes_magic klen recs
    have hlen := blobBytes_length_ge klen recs
    rw [hb] at h0 hlen
    have hl1 : ((p ++ w1 ++ s).take 8).length = 8 := by
      rw [List.length_take]; omega
    have hl2 : ((p ++ w2 ++ s).take 8).length = 8 := by
      rw [List.length_take]; simp only [List.length_append] at hlen ⊢; omega
    have heq : (p ++ w2 ++ s).take 8 = (p ++ w1 ++ s).take 8 := by
      apply fromLe_inj (by rw [hl1, hl2])
      rw [hm, h0, fromLe_le64 (by decide)]
    have e1 : ∀ w : List UInt8, w.length = w1.length →
        (p ++ w ++ s).take 8 = p ++ w ++ s.take (8 - (p ++ w).length) := by
      intro w hw
      rw [List.take_append, List.take_of_length_le (by simp only [List.length_append]; omega)]
    rw [e1 w2 hl.symm, e1 w1 rfl] at heq
    have hpw : (p ++ w2).length = (p ++ w1).length := by simp [hl]
    rw [hpw, List.append_cancel_right_eq, List.append_cancel_left_eq] at heq
    exact hne heq.symm

/-! ### migration -/

/-- the record with its key bytes in the version-0 order -/
def Record.revKey (R : Record) : Record :=
  { R with header := { R.header with key := R.header.key.reverse } }

/-- the version-0 image of a produced blob: version field 0, every key reversed, checksums accordingly -/
def blobBytesV0 (klen : Nat) (recs : List (Rec × List UInt8)) : List UInt8 :=
  appendRecords (serBlobHeader { BlobHeader.new with version := 0 }) ((recordsOf klen recs).map Record.revKey)

theorem revKey_revKey (R : Record) : R.revKey.revKey = R := by
  cases R with
  | mk h m d => cases h; simp [Record.revKey]

theorem revKey_size (R : Record) : R.revKey.size = R.size := by
  simp [Record.revKey, Record.size]

theorem revKey_WF {klen : Nat} {R : Record} (h : R.WF klen) : R.revKey.WF klen :=
  ⟨h.magic, by simp [Record.revKey, h.key], h.msize, h.dsize, h.dcrc⟩

theorem goodRecs_revKey {klen : Nat} {Rs : List Record} (h : GoodRecs klen Rs) :
    GoodRecs klen (Rs.map Record.revKey) := by
  intro R hR
  obtain ⟨R0, hR0, rfl⟩ := List.mem_map.mp hR
  exact ⟨revKey_WF (h R0 hR0).1, (h R0 hR0).2⟩

theorem writeRecord_migrated (out : List UInt8) (R : Record) (off : Nat) :
    writeRecord out { header := (R.toTool off).header.withReversedKeyBytes, mt := (R.toTool off).mt,
                      data := (R.toTool off).data } = out ++ R.revKey.image out.length := by
  unfold writeRecord Record.image Record.toTool
  simp only [serMetaEntries_metaEntries]
  rfl

theorem migrate_v0_image (klen : Nat) (recs : List (Rec × List UInt8))
    (hlen : (blobBytes klen recs).length < 2 ^ 64) (hts : ∀ x ∈ recs, x.1.ts < 2 ^ 64) :
    migrateBlob (blobBytesV0 klen recs) = .ok (blobBytes klen recs) := by
  have hgood := goodRecs_revKey (goodRecs_recordsOf klen recs hts)
  have hv0r : ({ BlobHeader.new with version := 0 } : BlobHeader).InRange := by decide
  have hl : (serBlobHeader { BlobHeader.new with version := 0 } ++
      tailOf 20 ((recordsOf klen recs).map Record.revKey)).length < 2 ^ 64 := by
    rw [List.length_append, serBlobHeader_length, tailOf_length, List.map_map]
    rw [blobBytes_length] at hlen
    have : (Record.size ∘ Record.revKey) = Record.size := funext revKey_size
    rw [this]; exact hlen
  have := processBlobWith_intact (klen := klen) false (migrateRecord BLOB_VERSION)
    (migrateBlobHeader BLOB_VERSION) Record.revKey { BlobHeader.new with version := 0 } BlobHeader.new
    ((recordsOf klen recs).map Record.revKey) hv0r rfl blobHeaderNew_inRange rfl rfl
    (fun R _ off => ⟨_, rfl, fun out => writeRecord_migrated out R off⟩) hgood hl
  rw [List.map_map, show (Record.revKey ∘ Record.revKey) = id from funext revKey_revKey, List.map_id] at this
  rw [blobBytesV0, appendRecords_eq, serBlobHeader_length, migrateBlob, this, blobBytes_eq]

theorem migrate_v1_id (klen : Nat) (recs : List (Rec × List UInt8))
    (hlen : (blobBytes klen recs).length < 2 ^ 64) (hts : ∀ x ∈ recs, x.1.ts < 2 ^ 64) :
    migrateBlob (blobBytes klen recs) = .ok (blobBytes klen recs) := by
  have hgood := goodRecs_recordsOf klen recs hts
  rw [blobBytes_eq] at hlen ⊢
  have := processBlobWith_intact (klen := klen) false (migrateRecord BLOB_VERSION)
    (migrateBlobHeader BLOB_VERSION) id BlobHeader.new BlobHeader.new
    (recordsOf klen recs) blobHeaderNew_inRange rfl blobHeaderNew_inRange rfl rfl
    (fun R _ off => ⟨R.toTool off, rfl, fun out => writeRecord_toTool out R off⟩) hgood hlen
  rw [List.map_id] at this
  rw [migrateBlob, this]

/-- recovery of an intact produced blob reproduces it -/
theorem recoveryBlob_intact (klen : Nat) (recs : List (Rec × List UInt8)) (skip : Bool)
    (hlen : (blobBytes klen recs).length < 2 ^ 64) (hts : ∀ x ∈ recs, x.1.ts < 2 ^ 64) :
    recoveryBlob (blobBytes klen recs) skip = .ok (blobBytes klen recs) := by
  have hgood := goodRecs_recordsOf klen recs hts
  rw [blobBytes_eq] at hlen ⊢
  have := processBlobWith_intact (klen := klen) skip (fun _ r => .ok r) (fun _ h => .ok h) id
    BlobHeader.new BlobHeader.new
    (recordsOf klen recs) blobHeaderNew_inRange rfl blobHeaderNew_inRange rfl rfl
    (fun R _ off => ⟨R.toTool off, rfl, fun out => writeRecord_toTool out R off⟩) hgood hlen
  rw [List.map_id] at this
  exact this

theorem validateBlob_produced (klen : Nat) (recs : List (Rec × List UInt8))
    (hlen : (blobBytes klen recs).length < 2 ^ 64) (hts : ∀ x ∈ recs, x.1.ts < 2 ^ 64) :
    validateBlob (blobBytes klen recs) = .ok () := by
  rw [blobBytes_eq] at hlen ⊢
  exact validateBlob_intact (klen := klen) BlobHeader.new _ blobHeaderNew_inRange rfl
    (goodRecs_recordsOf klen recs hts) hlen


end Pearl

namespace Pearl

instance (klen : Nat) (recs : List (Rec × List UInt8)) (i t : Nat) : Decidable (CutIn klen recs i t) := by
  unfold CutIn; infer_instance

instance (h : RecHeader) (p w : Nat) : Decidable (InData h p w) := by
  unfold InData; infer_instance

instance (h : RecHeader) (p w : Nat) : Decidable (InHeaderNoLen h p w) := by
  unfold InHeaderNoLen; infer_instance

/-- every record of a produced blob sits where its header says, parses there to the index header, has a
    valid header checksum and loads with its original bytes -/
theorem produced_addressable (klen : Nat) (S : List (Rec × List UInt8))
    (hlen : (blobBytes klen S).length < 2 ^ 64) (hts : ∀ x ∈ S, x.1.ts < 2 ^ 64)
    (j : Nat) (h : RecHeader) (r : Rec) (d : List UInt8)
    (hh : (blobHeaders klen S)[j]? = some h) (hr : S[j]? = some (r, d)) :
    h.blobOffset = (blobBytes klen (S.take j)).length ∧
    parseHeader klen ((blobBytes klen S).drop h.blobOffset) = some h ∧
    headerValidate h = .ok () ∧
    entryLoad (blobBytes klen S) h = .ok (serMeta r.mt, if r.del then [] else d) := by
  have hR : (recordsOf klen S)[j]? = some (recordOf klen r d) := by
    rw [recordsOf, List.getElem?_map, hr]; rfl
  obtain ⟨post, h1, h2, hwf⟩ := entry_split (klen := klen) serBlobHeader (recordsOf klen S) j h _
    (fun R hR => by
      obtain ⟨x, _, rfl⟩ := List.mem_map.mp hR
      exact recordOf_WF klen x.1 x.2) hh hR
  have hpre : appendRecords serBlobHeader ((recordsOf klen S).take j) = blobBytes klen (S.take j) := by
    rw [blobBytes, recordsOf_take]
  rw [hpre] at h1 h2
  have h1' : blobBytes klen S = blobBytes klen (S.take j) ++
      ((recordOf klen r d).image (blobBytes klen (S.take j)).length ++ post) := h1
  have hts' : (recordOf klen r d).header.timestamp < 2 ^ 64 := by
    rw [recordOf_timestamp]
    exact hts _ (List.mem_of_getElem? hr)
  have hle : (blobBytes klen (S.take j)).length +
      ((recordOf klen r d).image (blobBytes klen (S.take j)).length).length ≤ (blobBytes klen S).length := by
    conv => rhs; rw [h1']
    simp only [List.length_append]; omega
  have hrange := final_inRange hwf (blobBytes klen (S.take j)).length hts' (by omega)
  have hm : (serMeta (recordOf klen r d).mt).length < 2 ^ 64 :=
    Nat.lt_of_le_of_lt (image_le_of_split h1') hlen
  subst h2
  refine ⟨rfl, ?_, headerValidate_final _ _ hwf.magic, ?_⟩
  · rw [show ((recordOf klen r d).header.final (blobBytes klen (S.take j)).length).blobOffset =
        (blobBytes klen (S.take j)).length from rfl]
    conv => lhs; rw [h1', List.drop_left' rfl, image_eq, List.append_assoc]
    exact parseHeader_serHeader klen _ _ hwf.key hrange
  · conv => lhs; rw [h1']
    rw [← recordOf_mt klen r d, ← recordOf_data klen r d]
    exact entryLoad_image _ _ _ hwf _ rfl hm


/-! ### the loop bounds of the model are never the reason for an error -/

theorem readSingleRecord_cases (file : List UInt8) (pos : Nat) :
    (∃ r pos', readSingleRecord file pos = .ok (r, pos') ∧ pos + 57 ≤ pos') ∨
    (∃ h pos1, readSingleRecord file pos = .error (.headerValidation h pos1) ∧ pos ≤ pos1) ∨
    (∃ pos3, readSingleRecord file pos = .error (.recordValidation pos3) ∧ pos ≤ pos3) ∨
    readSingleRecord file pos = .error .other := by
  unfold readSingleRecord
  split
  · exact Or.inr (Or.inr (Or.inr rfl))
  · next h _ =>
    simp only
    split
    · exact Or.inr (Or.inl ⟨_, _, rfl, by omega⟩)
    · split
      · exact Or.inr (Or.inr (Or.inr rfl))
      · split
        · exact Or.inr (Or.inr (Or.inr rfl))
        · split
          · exact Or.inr (Or.inr (Or.inr rfl))
          · split
            · exact Or.inr (Or.inr (Or.inl ⟨_, rfl, by omega⟩))
            · exact Or.inl ⟨_, _, rfl, by simp only [RecHeader.serializedSize]; omega⟩

theorem readRecord_cases (file : List UInt8) (skip : Bool) (pos : Nat) :
    (∃ r pos', readRecord file skip pos = .ok (r, pos') ∧ pos + 57 ≤ pos') ∨
    (∃ e, readRecord file skip pos = .error e ∧ e ≠ .fuel) := by
  have hs : ∀ p, pos ≤ p →
      (∃ r pos', readSingleRecord file p = .ok (r, pos') ∧ pos + 57 ≤ pos') ∨
      (∃ e, readSingleRecord file p = .error e ∧ e ≠ .fuel) := by
    intro p hp
    rcases readSingleRecord_cases file p with ⟨r, pos', h, hl⟩ | ⟨h', p1, h, _⟩ | ⟨p3, h, _⟩ | h
    · exact Or.inl ⟨r, pos', h, by omega⟩
    · exact Or.inr ⟨_, h, by intro c; cases c⟩
    · exact Or.inr ⟨_, h, by intro c; cases c⟩
    · exact Or.inr ⟨_, h, by intro c; cases c⟩
  cases skip
  · exact hs pos (Nat.le_refl _)
  · rcases readSingleRecord_cases file pos with ⟨r, pos', h, hl⟩ | ⟨h', p1, h, hp1⟩ | ⟨p3, h, hp3⟩ | h
    · exact Or.inl ⟨r, pos', by simp only [readRecord, h, ↓reduceIte], hl⟩
    · simp only [readRecord, h, ↓reduceIte, skipWrongRecordData]
      by_cases c1 : 2 ^ 64 ≤ p1 + h'.dataSize + h'.metaSize
      · rw [if_pos c1]; exact Or.inr ⟨_, rfl, by intro c; cases c⟩
      · rw [if_neg c1]
        by_cases c2 : file.length ≤ p1 + h'.dataSize + h'.metaSize
        · rw [if_pos c2]; exact Or.inr ⟨_, rfl, by intro c; cases c⟩
        · rw [if_neg c2]; exact hs _ (by omega)
    · simp only [readRecord, h, ↓reduceIte]
      exact hs _ hp3
    · exact Or.inr ⟨.other, by simp only [readRecord, h, ↓reduceIte], by intro c; cases c⟩

theorem validateLoop_ne_fuel (file : List UInt8) (fuel pos : Nat) (hf : file.length ≤ pos + fuel) :
    validateLoop file fuel pos ≠ .error .fuel := by
  induction fuel generalizing pos with
  | zero =>
    rw [validateLoop, isEof_true (by omega)]
    intro h; cases h
  | succ fuel ih =>
    rw [validateLoop]
    split
    · intro h; cases h
    · rcases readRecord_cases file false pos with ⟨r, pos', h, hl⟩ | ⟨e, h, hne⟩
      · rw [h]; exact ih pos' (by omega)
      · rw [h]; intro c; cases c; exact hne rfl

theorem processLoop_ne_fuel (input : List UInt8) (skip : Bool)
    (f : ToolRecord → Except ToolErr ToolRecord) (fuel pos : Nat) (out : List UInt8)
    (hf : input.length ≤ pos + fuel) : processLoop input skip f fuel pos out ≠ .error .fuel := by
  induction fuel generalizing pos out with
  | zero =>
    rw [processLoop, isEof_true (by omega)]
    intro h; cases h
  | succ fuel ih =>
    rw [processLoop]
    split
    · intro h; cases h
    · rcases readRecord_cases input skip pos with ⟨r, pos', h, hl⟩ | ⟨e, h, hne⟩
      · rw [h]
        simp only
        split
        · intro c; cases c
        · exact ih pos' _ (by omega)
      · rw [h]; intro c; cases c

theorem readBlobHeader_ok {file : List UInt8} {b : BlobHeader} {pos : Nat}
    (h : readBlobHeader file = .ok (b, pos)) : pos = 20 := by
  unfold readBlobHeader at h
  split at h
  · cases h
  · split at h
    · cases h
    · cases h; rfl

theorem readBlobHeader_ne_fuel (file : List UInt8) : readBlobHeader file ≠ .error .fuel := by
  unfold readBlobHeader
  split
  · intro c; cases c
  · unfold validateWithoutVersion
    split
    · next hv =>
      split at hv
      · cases hv; intro c; cases c
      · cases hv
    · intro c; cases c

theorem validateBlob_ne_fuel (file : List UInt8) : validateBlob file ≠ .error .fuel := by
  unfold validateBlob
  split
  · next e he => intro c; cases c; exact readBlobHeader_ne_fuel file he
  · next b pos he => exact validateLoop_ne_fuel file _ _ (by omega)

theorem writeHeader_ne_fuel (b : BlobHeader) : writeHeader b ≠ .error .fuel := by
  unfold writeHeader
  simp only
  split
  · next e he => intro c; cases c; exact readBlobHeader_ne_fuel _ he
  · split <;> (intro c; cases c)

theorem processBlobWith_ne_fuel (input : List UInt8) (skip : Bool)
    (fRec : Nat → ToolRecord → Except ToolErr ToolRecord)
    (fHdr : Nat → BlobHeader → Except ToolErr BlobHeader)
    (hH : ∀ v b, fHdr v b ≠ .error .fuel) : processBlobWith input skip fRec fHdr ≠ .error .fuel := by
  unfold processBlobWith
  split
  · next e he => intro c; cases c; exact readBlobHeader_ne_fuel _ he
  · next hdr pos he =>
    split
    · next e he2 => intro c; cases c; exact hH _ _ he2
    · split
      · next e he3 => intro c; cases c; exact writeHeader_ne_fuel _ he3
      · exact processLoop_ne_fuel _ _ _ _ _ _ (by omega)

theorem recoveryBlob_ne_fuel (input : List UInt8) (skip : Bool) : recoveryBlob input skip ≠ .error .fuel :=
  processBlobWith_ne_fuel _ _ _ _ (fun _ _ c => by cases c)

theorem migrateBlob_ne_fuel (input : List UInt8) (target : Nat) : migrateBlob input target ≠ .error .fuel := by
  apply processBlobWith_ne_fuel
  intro v b
  unfold migrateBlobHeader
  split
  · intro c; cases c
  · split <;> (intro c; cases c)


end Pearl
