import Pearl.Proofs.ToolsWriterShapes
import Pearl.Model.ToolsReaderSt
/-
C16, several damaged records in one blob (helper lemmas for Pearl/Props/C16b.lean).

A damaged produced blob is described slot by slot: a `Slot` is a record of the original blob together
with, if it was altered, the bytes that now stand in its place (`slotsBytes`).  `processTrace_slots`
computes what `process_blob_with` hands to the writer on such a file (`slotsTrace`), for both values of
`skip_wrong_record`; everything else is bookkeeping between that description and the vocabulary of the
C16 statements (`FlipStep`, `FlipMany`).
-/
namespace Pearl

/-! ### slots -/

theorem image_length_size (R : Record) (off : Nat) : (R.image off).length = R.size := by
  rw [Record.image_length, Record.size]

/-- a record of the original blob and, if it was altered, the bytes that replaced its image -/
structure Slot where
  record : Record
  bad : Option (List UInt8)

/-- the bytes of a slot that starts at `off` -/
def Slot.bytes (s : Slot) (off : Nat) : List UInt8 :=
  match s.bad with
  | none => s.record.image off
  | some X => X

/-- the bytes of a run of slots that starts at `off` -/
def slotsBytes : Nat → List Slot → List UInt8
  | _, [] => []
  | off, s :: ss => s.bytes off ++ slotsBytes (off + s.record.size) ss

/-- the total size of a run of slots -/
def slotsSize (ss : List Slot) : Nat := (ss.map (fun s => s.record.size)).sum

/-- the region `X` at `off` does not read as a record, and the reader with `skip_wrong_record` continues
    right after it — whatever precedes and follows it in the file -/
def BadRegion (off : Nat) (X : List UInt8) : Prop :=
  ∀ pre post : List UInt8, pre.length = off → (pre ++ (X ++ post)).length < 2 ^ 64 →
    DamagedAt (pre ++ (X ++ post)) off (off + X.length)

/-- every slot holds a well-formed record; an altered slot has the size of the record and is a
    `BadRegion` -/
def SlotsOK (klen : Nat) : Nat → List Slot → Prop
  | _, [] => True
  | off, s :: ss => (s.record.WF klen ∧ s.record.header.timestamp < 2 ^ 64 ∧
      ∀ X, s.bad = some X → X.length = s.record.size ∧ BadRegion off X) ∧ SlotsOK klen (off + s.record.size) ss

theorem Slot.bytes_length {off : Nat} {s : Slot}
    (h : ∀ X, s.bad = some X → X.length = s.record.size ∧ BadRegion off X) (off' : Nat) :
    (s.bytes off').length = s.record.size := by
  unfold Slot.bytes
  cases hb : s.bad with
  | none => exact image_length_size _ _
  | some X => exact (h X hb).1

theorem slotsBytes_length {klen : Nat} : ∀ (ss : List Slot) (off : Nat), SlotsOK klen off ss →
    ∀ off', (slotsBytes off' ss).length = slotsSize ss
  | [], _, _, _ => rfl
  | s :: ss, off, h, off' => by
    simp only [slotsBytes, slotsSize, List.length_append, List.map_cons, List.sum_cons]
    rw [Slot.bytes_length h.1.2.2, slotsBytes_length ss _ h.2]
    rfl

theorem slotsBytes_append (off : Nat) (a b : List Slot) :
    slotsBytes off (a ++ b) = slotsBytes off a ++ slotsBytes (off + slotsSize a) b := by
  induction a generalizing off with
  | nil => simp [slotsBytes, slotsSize]
  | cons s a ih =>
    simp only [List.cons_append, slotsBytes, ih, List.append_assoc, slotsSize, List.map_cons, List.sum_cons,
      Nat.add_assoc]

theorem slotsOK_append {klen : Nat} (off : Nat) (a b : List Slot) :
    SlotsOK klen off (a ++ b) ↔ SlotsOK klen off a ∧ SlotsOK klen (off + slotsSize a) b := by
  induction a generalizing off with
  | nil => simp [SlotsOK, slotsSize]
  | cons s a ih =>
    simp only [List.cons_append, SlotsOK, ih, slotsSize, List.map_cons, List.sum_cons, Nat.add_assoc,
      and_assoc]

/-! ### what the reader returns, slot by slot -/

/-- the records `process_blob_with` hands to the writer on a run of slots that starts at `off`:
    an intact slot is returned; at an altered slot the reader fails — without `skip_wrong_record` the loop
    stops; with it, `read_record` tries ONCE more, right after the altered slot: an intact slot there is
    returned, anything else (end of file, another altered slot) is an error and the loop stops -/
def slotsTrace (skip : Bool) : Nat → List Slot → List ToolRecord
  | _, [] => []
  | off, ⟨R, none⟩ :: ss => R.toTool off :: slotsTrace skip (off + R.size) ss
  | _, ⟨_, some _⟩ :: [] => []
  | off, ⟨R, some _⟩ :: ⟨R2, none⟩ :: ss =>
    if skip then R2.toTool (off + R.size) :: slotsTrace skip (off + R.size + R2.size) ss else []
  | _, ⟨_, some _⟩ :: ⟨_, some _⟩ :: _ => []

/-- the same as records of the original blob -/
def slotsSurvivors (skip : Bool) : List Slot → List Record
  | [] => []
  | ⟨R, none⟩ :: ss => R :: slotsSurvivors skip ss
  | ⟨_, some _⟩ :: [] => []
  | ⟨_, some _⟩ :: ⟨R2, none⟩ :: ss => if skip then R2 :: slotsSurvivors skip ss else []
  | ⟨_, some _⟩ :: ⟨_, some _⟩ :: _ => []

theorem slotsTrace_foldl (skip : Bool) : ∀ (ss : List Slot) (off : Nat) (out : List UInt8),
    (slotsTrace skip off ss).foldl writeRecord out = out ++ tailOf out.length (slotsSurvivors skip ss)
  | [], _, out => by simp [slotsTrace, slotsSurvivors, tailOf]
  | ⟨R, none⟩ :: ss, off, out => by
    simp only [slotsTrace, slotsSurvivors, List.foldl_cons, tailOf]
    rw [slotsTrace_foldl skip ss, writeRecord_toTool, List.length_append, List.append_assoc]
  | ⟨_, some _⟩ :: [], _, out => by simp [slotsTrace, slotsSurvivors, tailOf]
  | ⟨R, some _⟩ :: ⟨R2, none⟩ :: ss, off, out => by
    cases skip
    · simp [slotsTrace, slotsSurvivors, tailOf]
    · simp only [slotsTrace, slotsSurvivors, ↓reduceIte, List.foldl_cons, tailOf]
      rw [slotsTrace_foldl true ss, writeRecord_toTool, List.length_append, List.append_assoc]
  | ⟨_, some _⟩ :: ⟨_, some _⟩ :: _, _, out => by simp [slotsTrace, slotsSurvivors, tailOf]

theorem slotsSurvivors_size_le (skip : Bool) : ∀ ss : List Slot,
    ((slotsSurvivors skip ss).map Record.size).sum ≤ slotsSize ss
  | [] => by simp [slotsSurvivors, slotsSize]
  | ⟨R, none⟩ :: ss => by
    have := slotsSurvivors_size_le skip ss
    simp only [slotsSurvivors, slotsSize, List.map_cons, List.sum_cons] at this ⊢
    omega
  | ⟨_, some _⟩ :: [] => by simp [slotsSurvivors, slotsSize]
  | ⟨R, some _⟩ :: ⟨R2, none⟩ :: ss => by
    have := slotsSurvivors_size_le skip ss
    cases skip
    · simp [slotsSurvivors, slotsSize]
    · simp only [slotsSurvivors, slotsSize, List.map_cons, List.sum_cons, ↓reduceIte] at this ⊢
      omega
  | ⟨_, some _⟩ :: ⟨_, some _⟩ :: _ => by simp [slotsSurvivors, slotsSize]

/-- reading an intact slot -/
theorem read_good_slot {klen : Nat} {input pre : List UInt8} {R : Record} {ss : List Slot}
    (hf : input = pre ++ slotsBytes pre.length (⟨R, none⟩ :: ss)) (hlen : input.length < 2 ^ 64)
    (hwf : R.WF klen) (hts : R.header.timestamp < 2 ^ 64) :
    readSingleRecord input pre.length = .ok (R.toTool pre.length, pre.length + R.size) ∧
    pre.length < input.length ∧ (R.header.final pre.length).InRange ∧
    input = (pre ++ R.image pre.length) ++ slotsBytes (pre ++ R.image pre.length).length ss := by
  have hf' : input = pre ++ (R.image pre.length ++ slotsBytes (pre.length + R.size) ss) := by
    rw [hf]; simp only [slotsBytes, Slot.bytes]
  have hsz := image_length_size R pre.length
  have hle : pre.length + R.size ≤ input.length := by
    rw [hf']; simp only [List.length_append, hsz]; omega
  have hpos := size_pos R
  have hr : (R.header.final pre.length).InRange := final_inRange hwf _ hts (by omega)
  have hm : (serMeta R.mt).length < 2 ^ 64 := by unfold Record.size at hle; omega
  have hstep := readSingleRecord_image pre (slotsBytes (pre.length + R.size) ss) R hwf pre.length rfl hr hm
  rw [← hf', hsz] at hstep
  refine ⟨hstep, by omega, hr, ?_⟩
  rw [hf', List.length_append, hsz, List.append_assoc]

/-- an altered slot -/
theorem damaged_slot {input pre : List UInt8} {R : Record} {X : List UInt8} {ss : List Slot}
    (hf : input = pre ++ slotsBytes pre.length (⟨R, some X⟩ :: ss)) (hlen : input.length < 2 ^ 64)
    (hX : X.length = R.size ∧ BadRegion pre.length X) :
    DamagedAt input pre.length (pre.length + R.size) ∧ pre.length < input.length ∧
    input = (pre ++ X) ++ slotsBytes (pre ++ X).length ss ∧ (pre ++ X).length = pre.length + R.size := by
  have hf' : input = pre ++ (X ++ slotsBytes (pre.length + R.size) ss) := by
    rw [hf]; simp only [slotsBytes, Slot.bytes]
  have hd := hX.2 pre (slotsBytes (pre.length + R.size) ss) rfl (by rw [← hf']; exact hlen)
  rw [← hf', hX.1] at hd
  have hpos := size_pos R
  have hle : pre.length + R.size ≤ input.length := by
    rw [hf']; simp only [List.length_append, hX.1]; omega
  refine ⟨hd, by omega, ?_, by rw [List.length_append, hX.1]⟩
  rw [hf', List.length_append, hX.1, List.append_assoc]

/-- the loop of `process_blob_with` (identity preprocessor) over a run of slots -/
theorem processTrace_slots {klen : Nat} (input : List UInt8) (skip : Bool) (hlen : input.length < 2 ^ 64) :
    ∀ (ss : List Slot) (pre : List UInt8) (k : Nat), input = pre ++ slotsBytes pre.length ss →
      SlotsOK klen pre.length ss →
      processTrace input skip (fun r => .ok r) (ss.length + k) pre.length = slotsTrace skip pre.length ss
  | [], pre, k, hf, _ => by
    rw [slotsTrace, processTrace_eof (by rw [hf]; simp [slotsBytes])]
  | ⟨R, none⟩ :: ss, pre, k, hf, hok => by
    obtain ⟨hstep, hlt, _, hf2⟩ := read_good_slot hf hlen hok.1.1 hok.1.2.1
    have hok2 := hok.2
    have hl2 : (pre ++ R.image pre.length).length = pre.length + R.size := by
      rw [List.length_append, image_length_size]
    have ih := processTrace_slots input skip hlen ss (pre ++ R.image pre.length) k hf2
      (by rw [hl2]; exact hok2)
    rw [hl2] at ih
    rw [show (({ record := R, bad := none } : Slot) :: ss).length + k = (ss.length + k) + 1 by
      simp only [List.length_cons]; omega,
      processTrace_step hlt (readRecord_of_ok hstep) rfl, ih, slotsTrace]
  | ⟨R, some X⟩ :: [], pre, k, hf, hok => by
    obtain ⟨hd, hlt, hf2, hl2⟩ := damaged_slot hf hlen (hok.1.2.2 X rfl)
    have hend : input.length ≤ pre.length + R.size := by
      rw [hf2, hl2]; simp [slotsBytes, hl2]
    rw [slotsTrace]
    cases skip
    · obtain ⟨e, he⟩ := hd.readRecord_false
      exact processTrace_stop he
    · obtain ⟨e, he⟩ := hd.2.2 hend
      exact processTrace_stop he
  | ⟨R, some X⟩ :: ⟨R2, none⟩ :: ss, pre, k, hf, hok => by
    obtain ⟨hd, hlt, hf2, hl2⟩ := damaged_slot hf hlen (hok.1.2.2 X rfl)
    rw [slotsTrace]
    cases skip
    · obtain ⟨e, he⟩ := hd.readRecord_false
      simp only [Bool.false_eq_true, ↓reduceIte]
      exact processTrace_stop he
    · obtain ⟨hstep, hlt2, _, hf3⟩ := read_good_slot hf2 hlen hok.2.1.1 hok.2.1.2.1
      rw [hl2] at hstep hlt2
      have hrd : readRecord input true pre.length =
          .ok (R2.toTool (pre.length + R.size), pre.length + R.size + R2.size) := by
        rw [hd.2.1 hlt2, hstep]
      have hl3 : ((pre ++ X) ++ R2.image (pre ++ X).length).length = pre.length + R.size + R2.size := by
        rw [List.length_append, image_length_size, hl2]
      have ih := processTrace_slots input true hlen ss ((pre ++ X) ++ R2.image (pre ++ X).length) (k + 1) hf3
        (by rw [hl3]; exact hok.2.2)
      rw [hl3] at ih
      simp only [↓reduceIte]
      rw [show (({ record := R, bad := some X } : Slot) :: ({ record := R2, bad := none } : Slot) :: ss).length + k =
        (ss.length + (k + 1)) + 1 by simp only [List.length_cons]; omega,
        processTrace_step hlt hrd rfl, ih]
  | ⟨R, some X⟩ :: ⟨R2, some X2⟩ :: ss, pre, k, hf, hok => by
    obtain ⟨hd, hlt, hf2, hl2⟩ := damaged_slot hf hlen (hok.1.2.2 X rfl)
    rw [slotsTrace]
    cases skip
    · obtain ⟨e, he⟩ := hd.readRecord_false
      exact processTrace_stop he
    · obtain ⟨hd2, hlt2, _, _⟩ := damaged_slot hf2 hlen (by rw [hl2]; exact hok.2.1.2.2 X2 rfl)
      rw [hl2] at hd2 hlt2
      obtain ⟨e, he⟩ := hd2.1
      exact processTrace_stop (e := e) (by rw [hd.2.1 hlt2, he])

/-! ### whole files -/

theorem slotsSize_ge (ss : List Slot) : 57 * ss.length ≤ slotsSize ss := by
  induction ss with
  | nil => simp [slotsSize]
  | cons s ss ih =>
    have := size_pos s.record
    simp only [slotsSize, List.map_cons, List.sum_cons, List.length_cons] at ih ⊢
    omega

theorem slotsTrace_canon {klen : Nat} (skip : Bool) : ∀ (ss : List Slot) (off : Nat),
    SlotsOK klen off ss → off + slotsSize ss < 2 ^ 64 → ∀ r ∈ slotsTrace skip off ss, r.Canon
  | [], _, _, _, r, hr => by simp [slotsTrace] at hr
  | ⟨R, none⟩ :: ss, off, hok, hsz, r, hr => by
    simp only [slotsSize, List.map_cons, List.sum_cons] at hsz
    rw [slotsTrace] at hr
    rcases List.mem_cons.mp hr with rfl | hr
    · have hwf : R.WF klen := hok.1.1
      have hts : R.header.timestamp < 2 ^ 64 := hok.1.2.1
      exact canon_toTool hwf off (final_inRange hwf off hts (by rw [image_length_size]; omega))
    · exact slotsTrace_canon skip ss _ hok.2 (by simp only [slotsSize]; omega) r hr
  | ⟨_, some _⟩ :: [], _, _, _, r, hr => by simp [slotsTrace] at hr
  | ⟨R, some _⟩ :: ⟨R2, none⟩ :: ss, off, hok, hsz, r, hr => by
    simp only [slotsSize, List.map_cons, List.sum_cons] at hsz
    rw [slotsTrace] at hr
    cases skip
    · simp at hr
    · simp only [↓reduceIte] at hr
      rcases List.mem_cons.mp hr with rfl | hr
      · have hwf : R2.WF klen := hok.2.1.1
        have hts : R2.header.timestamp < 2 ^ 64 := hok.2.1.2.1
        exact canon_toTool hwf _ (final_inRange hwf _ hts (by rw [image_length_size]; omega))
      · exact slotsTrace_canon true ss _ hok.2.2 (by simp only [slotsSize]; omega) r hr
  | ⟨_, some _⟩ :: ⟨_, some _⟩ :: _, _, _, _, r, hr => by simp [slotsTrace] at hr

/-- a blob header followed by a run of slots: what recovery returns, for every `validate_every` -/
theorem slots_tools {klen : Nat} (input : List UInt8) (ss : List Slot)
    (hf : input = serBlobHeader ++ slotsBytes 20 ss) (hlen : input.length < 2 ^ 64)
    (hok : SlotsOK klen 20 ss) (skip : Bool) :
    recoveryBlob input skip = .ok (appendRecords serBlobHeader (slotsSurvivors skip ss)) ∧
    ∀ ve, recoveryBlobV ve input skip = .ok (appendRecords serBlobHeader (slotsSurvivors skip ss)) := by
  have hbl := slotsBytes_length ss 20 hok 20
  have hil : input.length = 20 + slotsSize ss := by
    rw [hf, List.length_append, serBlobHeader_length, hbl]
  have hge := slotsSize_ge ss
  obtain ⟨k, hk⟩ : ∃ k, input.length = ss.length + k := ⟨input.length - ss.length, by omega⟩
  have hf' : input = serBlobHeader ++ slotsBytes (serBlobHeader).length ss := by
    rw [serBlobHeader_length]; exact hf
  have htr : processTrace input skip (fun r => .ok r) input.length 20 = slotsTrace skip 20 ss := by
    have := processTrace_slots (klen := klen) input skip hlen ss serBlobHeader k hf'
      (by rw [serBlobHeader_length]; exact hok)
    rw [serBlobHeader_length] at this
    conv => lhs; rw [hk]
    exact this
  have h0 : recoveryBlob input skip = .ok (appendRecords serBlobHeader (slotsSurvivors skip ss)) := by
    conv => lhs; rw [hf, recoveryBlob_unfold, ← hf]
    rw [processLoop_eq_trace _ _ _ _ _ _ (by omega), htr, slotsTrace_foldl, appendRecords_eq]
  refine ⟨h0, fun ve => ?_⟩
  have hwr : writtenRecords input skip (fun _ r => .ok r) (fun _ h => .ok h) = slotsTrace skip 20 ss := by
    conv => lhs; rw [hf]
    rw [writtenRecords_unfold _ skip _ _ BlobHeader.new BlobHeader.new blobHeaderNew_inRange
      blobHeaderNew_magic blobHeaderNew_inRange blobHeaderNew_magic rfl, ← hf]
    exact htr
  have hV : recoveryBlobV ve input skip = liftW (recoveryBlob input skip) := by
    apply processBlobWithV_eq ve input skip _ _
    · intro _
      rw [hwr]
      exact slotsTrace_canon skip ss 20 hok (by omega)
    · intro _ out hout
      rw [show processBlobWith input skip (fun _ r => .ok r) (fun _ h => .ok h) = recoveryBlob input skip
        from rfl, h0] at hout
      cases hout
      rw [appendRecords_length]
      have := slotsSurvivors_size_le skip ss
      omega
  rw [hV, h0]
  rfl

/-! ### an altered record image is a `BadRegion` -/

/-- at most 4 adjacent bytes of the image of a record at `off` altered, inside the data or inside the
    header outside the length fields (the local content of `flipIn_tools`) -/
theorem flip_region {klen : Nat} {R : Record} (hwf : R.WF klen) (hts : R.header.timestamp < 2 ^ 64)
    (off : Nat) (a w1 w2 c : List UInt8) (hI : R.image off = a ++ w1 ++ c) (hl : w1.length = w2.length)
    (h4 : w1.length ≤ 4) (hne : w1 ≠ w2)
    (hwhere : InData (R.header.final off) (off + a.length) w1.length ∨
      InHeaderNoLen (R.header.final off) (off + a.length) w1.length) :
    (a ++ w2 ++ c).length = R.size ∧ BadRegion off (a ++ w2 ++ c) := by
  have hXl : (a ++ w2 ++ c).length = R.size := by
    rw [← image_length_size R off, hI]; simp [hl]
  refine ⟨hXl, ?_⟩
  intro pre post hpre hlen
  have him := R.image_length off
  rw [hwf.key] at him
  have hsz : R.size = 57 + klen + (serMeta R.mt).length + R.data.length := by
    rw [← image_length_size R off, him]
  have hr : (R.header.final off).InRange := final_inRange hwf off hts (by
    simp only [List.length_append] at hlen hXl ⊢; rw [image_length_size]; omega)
  have hkl : (R.header.final off).key.length = klen := hwf.key
  have hms : (R.header.final off).metaSize = (serMeta R.mt).length := hwf.msize
  have hds : (R.header.final off).dataSize = R.data.length := hwf.dsize
  rcases hwhere with ⟨hd1, hd2⟩ | ⟨hh1, hh2, hh3⟩
  · -- inside the data
    have hdo : (R.header.final off).dataOffset = off + (57 + klen) + (serMeta R.mt).length := by
      simp only [RecHeader.dataOffset, RecHeader.metaOffset, RecHeader.serializedSize, hkl, hms]
      rfl
    rw [hdo] at hd1 hd2
    rw [hds] at hd2
    have hX : a ++ w1 ++ c = (serHeader (R.header.final off) ++ serMeta R.mt) ++ (R.data ++ []) := by
      rw [← hI, image_eq]; simp only [List.append_assoc, List.append_nil]
    have hXlen : (serHeader (R.header.final off) ++ serMeta R.mt).length = (57 + klen) + (serMeta R.mt).length := by
      simp only [List.length_append, serHeader_length, hkl]
    obtain ⟨d1, d2, hp, hdata, hs⟩ := window_in_middle hX (by omega) (by omega)
    rw [List.append_nil] at hs
    have hDl : (d1 ++ w2 ++ d2).length = R.data.length := by
      rw [hdata]; simp [hl]
    have hcrc : crc32c (d1 ++ w2 ++ d2) ≠ (R.header.final off).dataChecksum := by
      rw [show (R.header.final off).dataChecksum = R.header.dataChecksum from rfl, hwf.dcrc, hdata]
      exact (crc32c_window_split d1 w1 w2 d2 hl h4 hne).symm
    have hinX : a ++ w2 ++ c = serHeader (R.header.final off) ++ (serMeta R.mt ++ (d1 ++ w2 ++ d2)) := by
      rw [hp, hs]; simp only [List.append_assoc]
    have hd := damagedAt_parts pre post (R.header.final off) R.mt (d1 ++ w2 ++ d2) off hpre hr hms
      (by rw [hds, hDl]) (by rw [← hinX]; exact hlen) (Or.inr hcrc)
    rw [← hinX, hkl, hDl] at hd
    rw [hXl, hsz]
    simpa only [Nat.add_assoc] using hd
  · -- inside the header
    have hbo : (R.header.final off).blobOffset = off := rfl
    rw [hbo] at hh1 hh2 hh3
    rw [hkl] at hh2 hh3
    have hX : a ++ w1 ++ c = [] ++ (serHeader (R.header.final off) ++ (serMeta R.mt ++ R.data)) := by
      rw [← hI, image_eq]; rfl
    obtain ⟨a', c', hp, hH, hs⟩ := window_in_middle hX (by simp)
      (by rw [serHeader_length, hkl]; simp only [List.length_nil]; omega)
    rw [List.nil_append] at hp
    subst hp
    have hH'l : (a ++ w2 ++ c').length = (serHeader (R.header.final off)).length := by
      rw [hH]; simp [hl]
    have hv : headerValidate (R.header.final off) = .ok () := headerValidate_final _ _ hwf.magic
    obtain ⟨hser, hr', hkl', hms', hds', hbad⟩ := header_window (R.header.final off) hr hkl hv
      (a ++ w2 ++ c') a.length w1.length h4 hH'l
      (by rw [hH]; exact window_hout a w1 w2 c' hl)
      (by rw [hH]; intro he; simp only [List.append_assoc, List.append_cancel_left_eq,
            List.append_cancel_right_eq] at he; exact hne he.symm)
      (by omega)
    have hinX : a ++ w2 ++ c = serHeader (hdrOfBytes klen (a ++ w2 ++ c')) ++ (serMeta R.mt ++ R.data) := by
      rw [hser, hs]; simp only [List.append_assoc]
    have hd := damagedAt_parts pre post (hdrOfBytes klen (a ++ w2 ++ c')) R.mt R.data off
      hpre hr' (by rw [hms', hms]) (by rw [hds', hds]) (by rw [← hinX]; exact hlen)
      (by
        rcases hbad with hb1 | hb2
        · exact Or.inl hb1
        · right
          rw [← hwf.dcrc]
          exact fun he => hb2 he.symm)
    rw [← hinX, hkl'] at hd
    rw [hXl, hsz]
    simpa only [Nat.add_assoc] using hd

/-! ### several altered records -/

/-- `input` is `base` with at most 4 adjacent bytes altered inside the region of record `i` of the produced
    blob: inside its data, or inside its header outside the length fields.  `FlipIn` is the case
    `base = blobBytes klen recs`. -/
def FlipStep (klen : Nat) (recs : List (Rec × List UInt8)) (i : Nat) (base input : List UInt8) : Prop :=
  ∃ p w1 w2 s h, base = p ++ w1 ++ s ∧ input = p ++ w2 ++ s ∧ w1.length = w2.length ∧
    w1.length ≤ 4 ∧ w1 ≠ w2 ∧ (blobHeaders klen recs)[i]? = some h ∧
    (InData h p.length w1.length ∨ InHeaderNoLen h p.length w1.length)

theorem flipIn_iff_flipStep (klen : Nat) (recs : List (Rec × List UInt8)) (i : Nat) (input : List UInt8) :
    FlipIn klen recs i input ↔ FlipStep klen recs i (blobBytes klen recs) input := Iff.rfl

/-- `input` is the produced blob with the records whose indices are listed in `D` altered, one `FlipStep`
    per listed record (so the indices are pairwise distinct; any order) -/
inductive FlipMany (klen : Nat) (recs : List (Rec × List UInt8)) : List Nat → List UInt8 → Prop
  | nil : FlipMany klen recs [] (blobBytes klen recs)
  | cons {D : List Nat} {base input : List UInt8} {i : Nat} : FlipMany klen recs D base → i ∉ D →
      FlipStep klen recs i base input → FlipMany klen recs (i :: D) input

/-- the slot description of such a file -/
structure SlotsFor (klen : Nat) (recs : List (Rec × List UInt8)) (D : List Nat) (input : List UInt8)
    (ss : List Slot) : Prop where
  recs : ss.map Slot.record = recordsOf klen recs
  bad : ∀ j s, ss[j]? = some s → (s.bad.isSome ↔ j ∈ D)
  file : input = serBlobHeader ++ slotsBytes 20 ss
  ok : SlotsOK klen 20 ss

theorem slotsSize_eq (ss : List Slot) : slotsSize ss = ((ss.map Slot.record).map Record.size).sum := by
  rw [slotsSize, List.map_map]; rfl

theorem slotsOK_good {klen : Nat} : ∀ (Rs : List Record) (off : Nat), GoodRecs klen Rs →
    SlotsOK klen off (Rs.map (fun R => ⟨R, none⟩))
  | [], _, _ => trivial
  | R :: Rs, off, hg =>
    ⟨⟨hg.head.1, hg.head.2, fun X hX => by cases hX⟩, slotsOK_good Rs _ hg.tail⟩

theorem slotsBytes_good : ∀ (Rs : List Record) (off : Nat),
    slotsBytes off (Rs.map (fun R => ⟨R, none⟩)) = tailOf off Rs
  | [], _ => rfl
  | R :: Rs, off => by
    simp only [List.map_cons, slotsBytes, tailOf, Slot.bytes, slotsBytes_good Rs, image_length_size]

theorem slotsFor_nil (klen : Nat) (recs : List (Rec × List UInt8)) (hts : ∀ x ∈ recs, x.1.ts < 2 ^ 64) :
    SlotsFor klen recs [] (blobBytes klen recs) ((recordsOf klen recs).map (fun R => ⟨R, none⟩)) := by
  refine ⟨by rw [List.map_map]; exact List.map_id _, ?_, ?_, slotsOK_good _ _ (goodRecs_recordsOf klen recs hts)⟩
  · intro j s hs
    rw [List.getElem?_map] at hs
    cases hR : (recordsOf klen recs)[j]? with
    | none => rw [hR] at hs; cases hs
    | some R => rw [hR] at hs; cases hs; simp
  · rw [slotsBytes_good, blobBytes_eq]

/-- one more altered record -/
theorem SlotsFor.step {klen : Nat} {recs : List (Rec × List UInt8)} {D : List Nat} {base input : List UInt8}
    {ss : List Slot} {i : Nat} (h : SlotsFor klen recs D base ss) (hi : i ∉ D)
    (hflip : FlipStep klen recs i base input) : ∃ ss', SlotsFor klen recs (i :: D) input ss' := by
  obtain ⟨p, w1, w2, s, hh, hb, hin, hl, h4, hne, hhh, hwhere⟩ := hflip
  have hiR : i < (recordsOf klen recs).length := by
    have := (List.getElem?_eq_some_iff.mp hhh).1
    rwa [blobHeaders, writtenHeaders_length] at this
  have hhf := writtenHeaders_getElem? (recordsOf klen recs) i hiR
  rw [show writtenHeaders serBlobHeader (recordsOf klen recs) = blobHeaders klen recs from rfl, hhh] at hhf
  have hhf := Option.some.inj hhf
  have hlen_ss : ss.length = (recordsOf klen recs).length := by rw [← h.recs, List.length_map]
  have his : i < ss.length := by omega
  -- slot `i` is intact
  have hsi : ss[i] = ⟨(recordsOf klen recs)[i], none⟩ := by
    have h1 : (ss[i]).record = (recordsOf klen recs)[i] := by
      have := congrArg (fun l => l[i]?) h.recs
      simp only [List.getElem?_map, List.getElem?_eq_getElem his, List.getElem?_eq_getElem hiR,
        Option.map_some] at this
      exact Option.some.inj this
    have h2 : (ss[i]).bad = none := by
      cases hb : (ss[i]).bad with
      | none => rfl
      | some X => exact absurd ((h.bad i ss[i] (List.getElem?_eq_getElem his)).mp (by rw [hb]; rfl)) hi
    cases hsv : ss[i] with
    | mk r b => rw [hsv] at h1 h2; simp only at h1 h2; rw [h1, h2]
  generalize hR : (recordsOf klen recs)[i] = R at hhf hsi
  have hsplit : ss = ss.take i ++ ⟨R, none⟩ :: ss.drop (i + 1) := by
    conv => lhs; rw [list_split_at ss i his, hsi]
  have hok := h.ok
  rw [hsplit, slotsOK_append] at hok
  obtain ⟨hok1, hokR, hok2⟩ := hok
  have hsz1 : slotsSize (ss.take i) = (tailOf 20 ((recordsOf klen recs).take i)).length := by
    rw [slotsSize_eq, tailOf_length, ← h.recs, List.map_take]
  generalize hoff : 20 + slotsSize (ss.take i) = off at hok1 hokR hok2
  rw [← hsz1, hoff] at hhf
  subst hhf
  have hwf : R.WF klen := hokR.1
  have hts : R.header.timestamp < 2 ^ 64 := hokR.2.1
  have hpre : (serBlobHeader ++ slotsBytes 20 (ss.take i)).length = off := by
    rw [List.length_append, serBlobHeader_length, slotsBytes_length _ _ hok1, hoff]
  have hbase : p ++ w1 ++ s = (serBlobHeader ++ slotsBytes 20 (ss.take i)) ++
      (R.image off ++ slotsBytes (off + R.size) (ss.drop (i + 1))) := by
    rw [← hb, h.file]
    conv => lhs; rw [hsplit, slotsBytes_append, hoff]
    simp only [slotsBytes, Slot.bytes, List.append_assoc]
  have hkl : (R.header.final off).key.length = klen := hwf.key
  have hms : (R.header.final off).metaSize = (serMeta R.mt).length := hwf.msize
  have hds : (R.header.final off).dataSize = R.data.length := hwf.dsize
  have hdo : (R.header.final off).dataOffset = off + (57 + klen) + (serMeta R.mt).length := by
    simp only [RecHeader.dataOffset, RecHeader.metaOffset, RecHeader.serializedSize, hkl, hms]
    rfl
  have hbo : (R.header.final off).blobOffset = off := rfl
  have hsz : R.size = 57 + klen + (serMeta R.mt).length + R.data.length := by
    rw [Record.size, hwf.key]
  have hwin : off ≤ p.length ∧ p.length + w1.length ≤ off + R.size := by
    rcases hwhere with ⟨hd1, hd2⟩ | ⟨hh1, hh2, _⟩
    · rw [hdo] at hd1 hd2; rw [hds] at hd2; omega
    · rw [hbo] at hh1 hh2; rw [hkl] at hh2; omega
  obtain ⟨a, c, hp, hI, hs⟩ := window_in_middle hbase (by omega)
    (by rw [hpre, image_length_size]; exact hwin.2)
  have hpl : p.length = off + a.length := by rw [hp, List.length_append, hpre]
  rw [hpl] at hwhere
  obtain ⟨hXl, hXbad⟩ := flip_region hwf hts off a w1 w2 c hI hl h4 hne hwhere
  refine ⟨ss.take i ++ ⟨R, some (a ++ w2 ++ c)⟩ :: ss.drop (i + 1), ?_, ?_, ?_, ?_⟩
  · conv => rhs; rw [← h.recs, hsplit]
    simp only [List.map_append, List.map_cons]
  · intro j s' hs'
    have hset : ss.take i ++ ⟨R, some (a ++ w2 ++ c)⟩ :: ss.drop (i + 1) =
        ss.set i ⟨R, some (a ++ w2 ++ c)⟩ := by
      rw [List.set_eq_take_append_cons_drop, if_pos his]
    rw [hset, List.getElem?_set] at hs'
    by_cases hij : i = j
    · subst hij
      rw [if_pos rfl, if_pos his] at hs'
      cases hs'
      simp
    · rw [if_neg hij] at hs'
      rw [h.bad j s' hs', List.mem_cons]
      constructor
      · exact Or.inr
      · rintro (hj | hj)
        · exact absurd hj.symm hij
        · exact hj
  · rw [hin, hp, hs, slotsBytes_append, hoff]
    simp only [slotsBytes, Slot.bytes, List.append_assoc]
  · rw [slotsOK_append, hoff]
    exact ⟨hok1, ⟨hwf, hts, fun X hX => by cases hX; exact ⟨hXl, hXbad⟩⟩, hok2⟩

theorem FlipMany.slots {klen : Nat} {recs : List (Rec × List UInt8)} {D : List Nat} {input : List UInt8}
    (hts : ∀ x ∈ recs, x.1.ts < 2 ^ 64) (h : FlipMany klen recs D input) :
    ∃ ss, SlotsFor klen recs D input ss := by
  induction h with
  | nil => exact ⟨_, slotsFor_nil klen recs hts⟩
  | cons _ hi hstep ih =>
    obtain ⟨ss, hss⟩ := ih
    exact hss.step hi hstep

/-! ### which records survive, as a function of the set of altered indices -/

/-- the list without the elements whose index (counted from `n`) is in `D` -/
def dropIdxs {α : Type} (D : List Nat) : Nat → List α → List α
  | _, [] => []
  | n, x :: xs => if n ∈ D then dropIdxs D (n + 1) xs else x :: dropIdxs D (n + 1) xs

/-- `recs` with the records whose index is in `D` erased -/
def eraseIdxs {α : Type} (D : List Nat) (l : List α) : List α := dropIdxs D 0 l

/-- what the reader with `skip_wrong_record` keeps of a list whose elements with index in `D` (counted
    from `n`) do not read: it steps over ONE unreadable element; if the next one is unreadable too (or
    there is none) it gives up -/
def skipKeeps {α : Type} (D : List Nat) : Nat → List α → List α
  | _, [] => []
  | n, [x] => if n ∈ D then [] else [x]
  | n, x :: y :: ys =>
    if n ∈ D then (if n + 1 ∈ D then [] else y :: skipKeeps D (n + 2) ys)
    else x :: skipKeeps D (n + 1) (y :: ys)

theorem skipKeeps_cons_not_mem {α : Type} {D : List Nat} {n : Nat} (h : n ∉ D) (x : α) (xs : List α) :
    skipKeeps D n (x :: xs) = x :: skipKeeps D (n + 1) xs := by
  cases xs <;> simp [skipKeeps, h]

theorem skipKeeps_mem_mem {α : Type} {D : List Nat} {n : Nat} (h : n ∈ D) (h1 : n + 1 ∈ D) (x : α)
    (xs : List α) : skipKeeps D n (x :: xs) = [] := by
  cases xs <;> simp [skipKeeps, h, h1]

theorem skipKeeps_mem_not {α : Type} {D : List Nat} {n : Nat} (h : n ∈ D) (h1 : n + 1 ∉ D) (x y : α)
    (ys : List α) : skipKeeps D n (x :: y :: ys) = y :: skipKeeps D (n + 2) ys := by
  simp [skipKeeps, h, h1]

theorem skipKeeps_map {α β : Type} (f : α → β) (D : List Nat) : ∀ (n : Nat) (l : List α),
    (skipKeeps D n l).map f = skipKeeps D n (l.map f)
  | _, [] => rfl
  | n, [x] => by simp only [skipKeeps, List.map_cons, List.map_nil]; split <;> rfl
  | n, x :: y :: ys => by
    simp only [skipKeeps, List.map_cons]
    split
    · split
      · rfl
      · rw [List.map_cons, skipKeeps_map f D (n + 2) ys]
    · rw [List.map_cons, skipKeeps_map f D (n + 1) (y :: ys), List.map_cons]

theorem dropIdxs_map {α β : Type} (f : α → β) (D : List Nat) : ∀ (n : Nat) (l : List α),
    (dropIdxs D n l).map f = dropIdxs D n (l.map f)
  | _, [] => rfl
  | n, x :: xs => by
    simp only [dropIdxs, List.map_cons]
    split
    · exact dropIdxs_map f D (n + 1) xs
    · rw [List.map_cons, dropIdxs_map f D (n + 1) xs]

/-- no two altered records adjacent: everything else survives -/
theorem skipKeeps_separated {α : Type} {D : List Nat} (hsep : ∀ a ∈ D, a + 1 ∉ D) : ∀ (n : Nat) (l : List α),
    skipKeeps D n l = dropIdxs D n l
  | _, [] => rfl
  | n, [x] => by simp only [skipKeeps, dropIdxs]
  | n, x :: y :: ys => by
    by_cases h : n ∈ D
    · rw [skipKeeps_mem_not h (hsep n h), skipKeeps_separated hsep (n + 2) ys]
      simp only [dropIdxs, if_pos h, if_neg (hsep n h)]
    · rw [skipKeeps_cons_not_mem h, skipKeeps_separated hsep (n + 1) (y :: ys)]
      simp only [dropIdxs, if_neg h]

/-- the first adjacent pair of altered records is `c, c + 1`: nothing from `c` on survives -/
theorem skipKeeps_adjacent {α : Type} {D : List Nat} {c : Nat} (hc : c ∈ D) (hc1 : c + 1 ∈ D) :
    ∀ (l : List α) (n d : Nat), n + d = c → (∀ a, n ≤ a → a < c → a ∈ D → a + 1 ∉ D) →
      skipKeeps D n l = dropIdxs D n (l.take d)
  | [], _, _, _, _ => by simp [skipKeeps, dropIdxs]
  | [x], n, d, hnd, hmin => by
    cases d with
    | zero =>
      have : n = c := by omega
      subst this
      simp [skipKeeps, dropIdxs, hc]
    | succ d => simp [skipKeeps, dropIdxs]
  | x :: y :: ys, n, d, hnd, hmin => by
    cases d with
    | zero =>
      have : n = c := by omega
      subst this
      rw [skipKeeps_mem_mem hc hc1]; rfl
    | succ d =>
      by_cases h : n ∈ D
      · have h1 : n + 1 ∉ D := hmin n (Nat.le_refl _) (by omega) h
        cases d with
        | zero => exact absurd (by rw [show n + 1 = c by omega]; exact hc) h1
        | succ d =>
          rw [skipKeeps_mem_not h h1,
            skipKeeps_adjacent hc hc1 ys (n + 2) d (by omega) (fun a ha => hmin a (by omega))]
          simp only [List.take_succ_cons, dropIdxs, if_pos h, if_neg h1]
      · rw [skipKeeps_cons_not_mem h,
          skipKeeps_adjacent hc hc1 (y :: ys) (n + 1) d (by omega) (fun a ha => hmin a (by omega))]
        simp only [List.take_succ_cons, dropIdxs, if_neg h]

theorem dropIdxs_of_lt {α : Type} {D : List Nat} : ∀ (l : List α) (n : Nat), (∀ a ∈ D, a < n) →
    dropIdxs D n l = l
  | [], _, _ => rfl
  | x :: xs, n, h => by
    have hn : n ∉ D := fun hn => Nat.lt_irrefl _ (h n hn)
    rw [dropIdxs, if_neg hn, dropIdxs_of_lt xs (n + 1) (fun a ha => Nat.lt_succ_of_lt (h a ha))]

theorem dropIdxs_singleton {α : Type} : ∀ (l : List α) (n d : Nat), dropIdxs [n + d] n l = l.eraseIdx d
  | [], _, _ => rfl
  | x :: xs, n, 0 => by
    rw [dropIdxs, if_pos (by simp), dropIdxs_of_lt xs (n + 1) (by simp)]
    rfl
  | x :: xs, n, d + 1 => by
    rw [dropIdxs, if_neg (by simp), show n + (d + 1) = (n + 1) + d by omega, dropIdxs_singleton xs (n + 1) d]
    rfl

theorem eraseIdxs_singleton {α : Type} (i : Nat) (l : List α) : eraseIdxs [i] l = l.eraseIdx i := by
  have := dropIdxs_singleton l 0 i
  rwa [Nat.zero_add] at this

theorem eraseIdxs_nil {α : Type} (l : List α) : eraseIdxs [] l = l := dropIdxs_of_lt l 0 (by simp)

theorem dropIdxs_sublist {α : Type} (D : List Nat) : ∀ (n : Nat) (l : List α), (dropIdxs D n l).Sublist l
  | _, [] => List.Sublist.slnil
  | n, x :: xs => by
    rw [dropIdxs]
    split
    · exact (dropIdxs_sublist D (n + 1) xs).cons _
    · exact (dropIdxs_sublist D (n + 1) xs).cons_cons _

/-- the records before the first altered one are kept -/
theorem dropIdxs_take_prefix {α : Type} {D : List Nat} : ∀ (l : List α) (n d : Nat),
    (∀ a ∈ D, n + d ≤ a) → l.take d <+: dropIdxs D n l
  | [], _, _, _ => by simp [dropIdxs]
  | x :: xs, n, 0, _ => by simp
  | x :: xs, n, d + 1, h => by
    have hn : n ∉ D := fun hn => by have := h n hn; omega
    rw [dropIdxs, if_neg hn, List.take_succ_cons, List.prefix_cons_inj]
    exact dropIdxs_take_prefix xs (n + 1) d (fun a ha => by have := h a ha; omega)

theorem sublist_sum_le {l1 l2 : List Nat} (h : l1.Sublist l2) : l1.sum ≤ l2.sum := by
  induction h with
  | slnil => exact Nat.le_refl _
  | cons a _ ih => rw [List.sum_cons]; omega
  | cons_cons a _ ih => rw [List.sum_cons, List.sum_cons]; omega

theorem mem_dropIdxs {α : Type} {D : List Nat} : ∀ (l : List α) (n d : Nat) (x : α), n + d ∉ D →
    l[d]? = some x → x ∈ dropIdxs D n l
  | [], _, _, _, _, h => by simp at h
  | y :: ys, n, 0, x, hn, h => by
    simp only [List.getElem?_cons_zero, Option.some.injEq] at h
    subst h
    rw [dropIdxs, if_neg (by simpa using hn)]
    exact List.mem_cons_self ..
  | y :: ys, n, d + 1, x, hn, h => by
    rw [List.getElem?_cons_succ] at h
    have := mem_dropIdxs ys (n + 1) d x (by rwa [show n + 1 + d = n + (d + 1) by omega]) h
    rw [dropIdxs]
    split
    · exact this
    · exact List.mem_cons_of_mem _ this

/-! ### from slots to indices -/

theorem slots_shift {D : List Nat} {n : Nat} {s0 : Slot} {ss : List Slot}
    (hb : ∀ j s, (s0 :: ss)[j]? = some s → (s.bad.isSome ↔ n + j ∈ D)) :
    ∀ j s, ss[j]? = some s → (s.bad.isSome ↔ (n + 1) + j ∈ D) := by
  intro j s hs
  have := hb (j + 1) s (by rw [List.getElem?_cons_succ]; exact hs)
  rwa [show n + (j + 1) = n + 1 + j by omega] at this

theorem slotsSurvivors_skip {D : List Nat} : ∀ (ss : List Slot) (n : Nat),
    (∀ j s, ss[j]? = some s → (s.bad.isSome ↔ n + j ∈ D)) →
    slotsSurvivors true ss = skipKeeps D n (ss.map Slot.record)
  | [], _, _ => rfl
  | ⟨R, none⟩ :: ss, n, hb => by
    have h0 : n ∉ D := fun h => by
      have := (hb 0 ⟨R, none⟩ rfl).mpr h
      simp at this
    rw [slotsSurvivors, List.map_cons, skipKeeps_cons_not_mem h0,
      slotsSurvivors_skip ss (n + 1) (slots_shift hb)]
  | ⟨R, some X⟩ :: [], n, hb => by
    have h0 : n ∈ D := (hb 0 ⟨R, some X⟩ rfl).mp rfl
    simp [slotsSurvivors, skipKeeps, h0]
  | ⟨R, some X⟩ :: ⟨R2, none⟩ :: ss, n, hb => by
    have h0 : n ∈ D := (hb 0 ⟨R, some X⟩ rfl).mp rfl
    have h1 : n + 1 ∉ D := fun h => by
      have := (hb 1 ⟨R2, none⟩ rfl).mpr h
      simp at this
    rw [slotsSurvivors, List.map_cons, List.map_cons, skipKeeps_mem_not h0 h1,
      slotsSurvivors_skip ss (n + 2) (slots_shift (slots_shift hb))]
    rfl
  | ⟨R, some X⟩ :: ⟨R2, some X2⟩ :: ss, n, hb => by
    have h0 : n ∈ D := (hb 0 ⟨R, some X⟩ rfl).mp rfl
    have h1 : n + 1 ∈ D := (hb 1 ⟨R2, some X2⟩ rfl).mp rfl
    rw [slotsSurvivors, List.map_cons, skipKeeps_mem_mem h0 h1]

theorem slotsSurvivors_noskip {D : List Nat} : ∀ (ss : List Slot) (n d : Nat),
    (∀ j s, ss[j]? = some s → (s.bad.isSome ↔ n + j ∈ D)) → n + d ∈ D → (∀ a ∈ D, n + d ≤ a) →
    slotsSurvivors false ss = (ss.map Slot.record).take d
  | [], _, _, _, _, _ => by simp [slotsSurvivors]
  | ⟨R, none⟩ :: ss, n, d, hb, hd, hmin => by
    have h0 : n ∉ D := fun h => by
      have := (hb 0 ⟨R, none⟩ rfl).mpr h
      simp at this
    cases d with
    | zero => exact absurd hd h0
    | succ d =>
      rw [slotsSurvivors, List.map_cons, List.take_succ_cons,
        slotsSurvivors_noskip ss (n + 1) d (slots_shift hb) (by rwa [show n + 1 + d = n + (d + 1) by omega])
          (fun a ha => by have := hmin a ha; omega)]
  | ⟨R, some X⟩ :: ss, n, d, hb, hd, hmin => by
    have h0 : n ∈ D := (hb 0 ⟨R, some X⟩ rfl).mp rfl
    have : d = 0 := by have := hmin n h0; omega
    subst this
    match ss with
    | [] => rfl
    | ⟨_, none⟩ :: _ => simp [slotsSurvivors]
    | ⟨_, some _⟩ :: _ => simp [slotsSurvivors]

/-- `validate_blob` over a run of slots one of which is altered -/
theorem validateLoop_slots {klen : Nat} (input : List UInt8) (hlen : input.length < 2 ^ 64) :
    ∀ (ss : List Slot) (pre : List UInt8) (k : Nat), input = pre ++ slotsBytes pre.length ss →
      SlotsOK klen pre.length ss → (∃ s ∈ ss, s.bad.isSome) →
      ∃ e, validateLoop input (ss.length + (k + 1)) pre.length = .error e
  | [], _, _, _, _, hex => by obtain ⟨s, hs, _⟩ := hex; cases hs
  | ⟨R, none⟩ :: ss, pre, k, hf, hok, hex => by
    obtain ⟨hstep, hlt, _, hf2⟩ := read_good_slot hf hlen hok.1.1 hok.1.2.1
    have hl2 : (pre ++ R.image pre.length).length = pre.length + R.size := by
      rw [List.length_append, image_length_size]
    have hex2 : ∃ s ∈ ss, s.bad.isSome := by
      obtain ⟨s, hs, hb⟩ := hex
      rcases List.mem_cons.mp hs with rfl | hs
      · simp at hb
      · exact ⟨s, hs, hb⟩
    have ih := validateLoop_slots input hlen ss (pre ++ R.image pre.length) k hf2
      (by rw [hl2]; exact hok.2) hex2
    rw [hl2] at ih
    rw [show (({ record := R, bad := none } : Slot) :: ss).length + (k + 1) = (ss.length + (k + 1)) + 1 by
      simp only [List.length_cons]; omega, validateLoop, isEof_false hlt, readRecord_false, hstep]
    exact ih
  | ⟨R, some X⟩ :: ss, pre, k, hf, hok, _ => by
    obtain ⟨hd, hlt, _, _⟩ := damaged_slot hf hlen (hok.1.2.2 X rfl)
    obtain ⟨e, he⟩ := hd.readRecord_false
    rw [show (({ record := R, bad := some X } : Slot) :: ss).length + (k + 1) = (ss.length + (k + 1)) + 1 by
      simp only [List.length_cons]; omega, validateLoop, isEof_false hlt, he]
    exact ⟨e, rfl⟩

/-! ### the tools on a blob with several altered records -/

theorem recordsOf_skipKeeps (klen : Nat) (D : List Nat) (n : Nat) (recs : List (Rec × List UInt8)) :
    recordsOf klen (skipKeeps D n recs) = skipKeeps D n (recordsOf klen recs) :=
  skipKeeps_map _ D n recs

theorem SlotsFor.length_eq {klen : Nat} {recs : List (Rec × List UInt8)} {D : List Nat} {input : List UInt8}
    {ss : List Slot} (h : SlotsFor klen recs D input ss) : input.length = (blobBytes klen recs).length := by
  rw [h.file, List.length_append, serBlobHeader_length, slotsBytes_length ss 20 h.ok, slotsSize_eq, h.recs,
    blobBytes_length]

/-- recovery of a produced blob with the records listed in `D` altered (pairwise distinct, otherwise
    arbitrary), for every `validate_every`: with `skip_wrong_record` the output is the blob of
    `skipKeeps D 0 recs`; without, of the records before the least element of `D` -/
theorem flipMany_tools (klen : Nat) (recs : List (Rec × List UInt8)) (D : List Nat) (input : List UInt8)
    (hlen : (blobBytes klen recs).length < 2 ^ 64) (hts : ∀ x ∈ recs, x.1.ts < 2 ^ 64)
    (hflip : FlipMany klen recs D input) (ve : Nat) :
    recoveryBlob input true = .ok (blobBytes klen (skipKeeps D 0 recs)) ∧
    recoveryBlobV ve input true = .ok (blobBytes klen (skipKeeps D 0 recs)) ∧
    ∀ m ∈ D, (∀ j ∈ D, m ≤ j) →
      recoveryBlob input false = .ok (blobBytes klen (recs.take m)) ∧
      recoveryBlobV ve input false = .ok (blobBytes klen (recs.take m)) := by
  obtain ⟨ss, hss⟩ := hflip.slots hts
  have hil := hss.length_eq
  have hb0 : ∀ j s, ss[j]? = some s → (s.bad.isSome ↔ 0 + j ∈ D) := by
    intro j s hs; rw [Nat.zero_add]; exact hss.bad j s hs
  have ht := slots_tools (klen := klen) input ss hss.file (by omega) hss.ok true
  rw [slotsSurvivors_skip ss 0 hb0, hss.recs, ← recordsOf_skipKeeps] at ht
  refine ⟨ht.1, ht.2 ve, fun m hm hmin => ?_⟩
  have hf := slots_tools (klen := klen) input ss hss.file (by omega) hss.ok false
  rw [slotsSurvivors_noskip ss 0 m hb0 (by rwa [Nat.zero_add]) (by rwa [Nat.zero_add]), hss.recs,
    ← recordsOf_take] at hf
  exact ⟨hf.1, hf.2 ve⟩

/-- `validate_blob` rejects a produced blob with at least one altered record -/
theorem flipMany_validate (klen : Nat) (recs : List (Rec × List UInt8)) (D : List Nat) (input : List UInt8)
    (hlen : (blobBytes klen recs).length < 2 ^ 64) (hts : ∀ x ∈ recs, x.1.ts < 2 ^ 64)
    (hflip : FlipMany klen recs D input) (hD : D ≠ []) : ∃ e, validateBlob input = .error e := by
  obtain ⟨ss, hss⟩ := hflip.slots hts
  have hil := hss.length_eq
  have hlen' : input.length < 2 ^ 64 := by omega
  have hex : ∃ s ∈ ss, s.bad.isSome := by
    cases hflip with
    | nil => exact absurd rfl hD
    | @cons D' base _ i' h0 hni hstep =>
      obtain ⟨_, _, _, _, hh, _, _, _, _, _, hhh, _⟩ := hstep
      have hiR : i' < (recordsOf klen recs).length := by
        have := (List.getElem?_eq_some_iff.mp hhh).1
        rwa [blobHeaders, writtenHeaders_length] at this
      have his : i' < ss.length := by
        have : ss.length = (recordsOf klen recs).length := by rw [← hss.recs, List.length_map]
        omega
      exact ⟨ss[i'], List.getElem_mem his,
        (hss.bad i' ss[i'] (List.getElem?_eq_getElem his)).mpr (List.mem_cons_self ..)⟩
  have hbl := slotsBytes_length ss 20 hss.ok 20
  have hsl : input.length = 20 + slotsSize ss := by
    rw [hss.file, List.length_append, serBlobHeader_length, hbl]
  have hge := slotsSize_ge ss
  have hne : ss ≠ [] := by
    obtain ⟨s, hs, _⟩ := hex
    exact List.ne_nil_of_mem hs
  have hpos : 0 < ss.length := List.length_pos_iff.mpr hne
  obtain ⟨k, hk⟩ : ∃ k, input.length = ss.length + (k + 1) := ⟨input.length - ss.length - 1, by omega⟩
  have hf' : input = serBlobHeader ++ slotsBytes (serBlobHeader).length ss := by
    rw [serBlobHeader_length]; exact hss.file
  have := validateLoop_slots (klen := klen) input hlen' ss serBlobHeader k hf'
    (by rw [serBlobHeader_length]; exact hss.ok) hex
  rw [serBlobHeader_length] at this
  conv => enter [1, e, 1]; rw [hss.file, validateBlob_unfold, ← hss.file, hk]
  exact this

/-- `FlipIn` is the singleton case -/
theorem flipMany_singleton (klen : Nat) (recs : List (Rec × List UInt8)) (i : Nat) (input : List UInt8) :
    FlipMany klen recs [i] input ↔ FlipIn klen recs i input := by
  constructor
  · intro h
    cases h with
    | cons h0 _ hstep =>
      cases h0
      exact hstep
  · intro h
    exact FlipMany.cons FlipMany.nil (by simp) h

/-! ### the reader with the field `latest_wrong_header` explicit (Model/ToolsReaderSt.lean) -/

/-- the variants of the reader that never read the field stale: data failures are not routed to the skip
    routine, or the field is cleared after every valid header and an empty field is not an error -/
def ReaderVariant.Harmless (v : ReaderVariant) : Prop :=
  v.dataFailSkips = false ∨ (v.clearOnValid = true ∧ v.noneIsOk = true)

instance (v : ReaderVariant) : Decidable v.Harmless := by unfold ReaderVariant.Harmless; infer_instance

/-- `read_single_record` with explicit state against the model without: same result, same position, and
    what happens to the field -/
theorem readSingleRecordSt_spec (v : ReaderVariant) (file : List UInt8) (st : ReaderSt) :
    (∃ r p, readSingleRecord file st.pos = .ok (r, p) ∧
      readSingleRecordSt v file st = (.ok r, ⟨p, if v.clearOnValid then none else st.lwh⟩)) ∨
    (∃ h p, readSingleRecord file st.pos = .error (.headerValidation h p) ∧
      readSingleRecordSt v file st = (.error (.headerValidation h p), ⟨p, some h⟩)) ∨
    (∃ p, readSingleRecord file st.pos = .error (.recordValidation p) ∧
      readSingleRecordSt v file st =
        (.error (.recordValidation p), ⟨p, if v.clearOnValid then none else st.lwh⟩)) ∨
    (readSingleRecord file st.pos = .error .other ∧
      ∃ st', readSingleRecordSt v file st = (.error .other, st')) := by
  unfold readSingleRecordSt readSingleRecord
  cases deserHeader (List.drop st.pos file) with
  | none => exact Or.inr (Or.inr (Or.inr ⟨rfl, _, rfl⟩))
  | some h =>
    simp only
    cases headerValidate h with
    | error e => exact Or.inr (Or.inl ⟨_, _, rfl, rfl⟩)
    | ok u =>
      simp only
      cases readExactAt file h.metaSize (st.pos + h.serializedSize) with
      | none => exact Or.inr (Or.inr (Or.inr ⟨rfl, _, rfl⟩))
      | some mb =>
        simp only
        cases deserMeta mb with
        | none => exact Or.inr (Or.inr (Or.inr ⟨rfl, _, rfl⟩))
        | some es =>
          simp only
          cases readExactAt file h.dataSize (st.pos + h.serializedSize + h.metaSize) with
          | none => exact Or.inr (Or.inr (Or.inr ⟨rfl, _, rfl⟩))
          | some d =>
            simp only
            cases dataChecksumAudit h d with
            | error e => exact Or.inr (Or.inr (Or.inl ⟨_, rfl, rfl⟩))
            | ok u => exact Or.inl ⟨_, _, rfl, rfl⟩

/-- what the loop of `process_blob_with` can observe of a read -/
def ReadAgree (a : Except ToolErr (ToolRecord × Nat)) (b : Except ToolErr ToolRecord × ReaderSt) : Prop :=
  (∃ r p l, a = .ok (r, p) ∧ b = (.ok r, ⟨p, l⟩)) ∨ (∃ e e' st', a = .error e ∧ b = (.error e', st'))

theorem readSingleRecordSt_agree (v : ReaderVariant) (file : List UInt8) (st : ReaderSt) :
    ReadAgree (readSingleRecord file st.pos) (readSingleRecordSt v file st) := by
  rcases readSingleRecordSt_spec v file st with ⟨r, p, h1, h2⟩ | ⟨h, p, h1, h2⟩ | ⟨p, h1, h2⟩ | ⟨h1, st', h2⟩
  · exact Or.inl ⟨r, p, _, h1, h2⟩
  · exact Or.inr ⟨_, _, _, h1, h2⟩
  · exact Or.inr ⟨_, _, _, h1, h2⟩
  · exact Or.inr ⟨_, _, _, h1, h2⟩

/-- `read_record`: for a harmless variant — in particular for the real code — the reader with the explicit
    field and the model that carries the wrong header in the error value agree, WHATEVER the field holds
    on entry: the field is only read right after it was written -/
theorem readRecordSt_agree (v : ReaderVariant) (hv : v.Harmless) (file : List UInt8) (skip : Bool)
    (st : ReaderSt) : ReadAgree (readRecord file skip st.pos) (readRecordSt v file skip st) := by
  cases skip
  · exact readSingleRecordSt_agree v file st
  · unfold readRecord readRecordSt
    simp only [↓reduceIte]
    rcases readSingleRecordSt_spec v file st with ⟨r, p, h1, h2⟩ | ⟨h, p, h1, h2⟩ | ⟨p, h1, h2⟩ | ⟨h1, st', h2⟩
    · rw [h1, h2]; exact Or.inl ⟨r, p, _, rfl, rfl⟩
    · rw [h1, h2]
      simp only [skipWrongRecordData, skipWrongRecordDataSt]
      by_cases c1 : 2 ^ 64 ≤ p + h.dataSize + h.metaSize
      · rw [if_pos c1, if_pos c1]; exact Or.inr ⟨_, _, _, rfl, rfl⟩
      · rw [if_neg c1, if_neg c1]
        by_cases c2 : file.length ≤ p + h.dataSize + h.metaSize
        · rw [if_pos c2, if_pos c2]; exact Or.inr ⟨_, _, _, rfl, rfl⟩
        · rw [if_neg c2, if_neg c2]
          exact readSingleRecordSt_agree v file ⟨p + h.dataSize + h.metaSize, some h⟩
    · rw [h1, h2]
      simp only
      rcases hv with hv | ⟨hv1, hv2⟩
      · rw [hv]
        exact readSingleRecordSt_agree v file ⟨p, _⟩
      · rw [hv1]
        simp only [↓reduceIte, skipWrongRecordDataSt, hv2]
        cases v.dataFailSkips
        · exact readSingleRecordSt_agree v file ⟨p, none⟩
        · exact readSingleRecordSt_agree v file ⟨p, none⟩
    · rw [h1, h2]; exact Or.inr ⟨_, _, _, rfl, rfl⟩

theorem processLoopSt_harmless (v : ReaderVariant) (hv : v.Harmless) (input : List UInt8) (skip : Bool) :
    ∀ (fuel : Nat) (st : ReaderSt) (out : List UInt8),
      processLoopSt v input skip fuel st out = processLoop input skip (fun r => .ok r) fuel st.pos out := by
  intro fuel
  induction fuel with
  | zero => intro st out; rfl
  | succ fuel ih =>
    intro st out
    rw [processLoopSt, processLoop]
    split
    · rfl
    · rcases readRecordSt_agree v hv input skip st with ⟨r, p, l, h1, h2⟩ | ⟨e, e', st', h1, h2⟩
      · rw [h1, h2]
        exact ih ⟨p, l⟩ _
      · rw [h1, h2]

/-- the model of `Model/Tools.lean` carries `latest_wrong_header` faithfully: on EVERY file, recovery over
    the reader with the field explicit returns what `recoveryBlob` returns — for the real code, and for each
    of the two edits of the seeded change alone -/
theorem recoveryBlobSt_harmless (v : ReaderVariant) (hv : v.Harmless) (input : List UInt8) (skip : Bool) :
    recoveryBlobSt v input skip = recoveryBlob input skip := by
  unfold recoveryBlobSt recoveryBlob processBlobWith
  cases readBlobHeader input with
  | error e => rfl
  | ok x =>
    obtain ⟨hdr, pos⟩ := x
    simp only
    cases writeHeader hdr with
    | error e => rfl
    | ok out => exact processLoopSt_harmless v hv input skip _ _ _

/-! ### the seeded variant, one `read_record` at a time -/

/-- the seeded variant agrees with the real reader on a `read_record` call unless the field is set AND the
    record at the position fails its data checksum -/
theorem readRecordSt_stale_agree (file : List UInt8) (st : ReaderSt)
    (hc : st.lwh = none ∨ ∀ p, readSingleRecord file st.pos ≠ .error (.recordValidation p)) :
    ReadAgree (readRecord file true st.pos) (readRecordSt .stale file true st) := by
  unfold readRecord readRecordSt
  simp only [↓reduceIte]
  rcases readSingleRecordSt_spec .stale file st with ⟨r, p, h1, h2⟩ | ⟨h, p, h1, h2⟩ | ⟨p, h1, h2⟩ | ⟨h1, st', h2⟩
  · rw [h1, h2]; exact Or.inl ⟨r, p, _, rfl, rfl⟩
  · rw [h1, h2]
    simp only [skipWrongRecordData, skipWrongRecordDataSt]
    by_cases c1 : 2 ^ 64 ≤ p + h.dataSize + h.metaSize
    · rw [if_pos c1, if_pos c1]; exact Or.inr ⟨_, _, _, rfl, rfl⟩
    · rw [if_neg c1, if_neg c1]
      by_cases c2 : file.length ≤ p + h.dataSize + h.metaSize
      · rw [if_pos c2, if_pos c2]; exact Or.inr ⟨_, _, _, rfl, rfl⟩
      · rw [if_neg c2, if_neg c2]
        exact readSingleRecordSt_agree .stale file ⟨p + h.dataSize + h.metaSize, some h⟩
  · rcases hc with hc | hc
    · rw [h1, h2, hc]
      simp only [ReaderVariant.stale, Bool.false_eq_true, ↓reduceIte, skipWrongRecordDataSt]
      exact readSingleRecordSt_agree _ file ⟨p, none⟩
    · exact absurd h1 (hc p)
  · rw [h1, h2]; exact Or.inr ⟨_, _, _, rfl, rfl⟩

/-- ... and in that case it does NOT continue at the end `p` of the failed record, as the real reader
    does, but `data_size + meta_size` of the remembered header further on -/
theorem readRecordSt_stale_diverges (file : List UInt8) (st : ReaderSt) (h0 : RecHeader) (p : Nat)
    (hl : st.lwh = some h0) (hd : readSingleRecord file st.pos = .error (.recordValidation p)) :
    readRecord file true st.pos = readSingleRecord file p ∧
    readRecordSt .stale file true st =
      match skipWrongRecordData file.length h0 p with
      | .error e => (.error e, ⟨p, some h0⟩)
      | .ok p' => readSingleRecordSt .stale file ⟨p', some h0⟩ := by
  refine ⟨by simp only [readRecord, hd, ↓reduceIte], ?_⟩
  unfold readRecordSt
  simp only [↓reduceIte]
  rcases readSingleRecordSt_spec .stale file st with ⟨r, p', h1, _⟩ | ⟨h, p', h1, _⟩ | ⟨p', h1, h2⟩ | ⟨h1, _, _⟩
  · rw [hd] at h1; cases h1
  · rw [hd] at h1; cases h1
  · rw [hd] at h1
    cases h1
    rw [h2, hl]
    simp only [ReaderVariant.stale, Bool.false_eq_true, ↓reduceIte, skipWrongRecordDataSt,
      skipWrongRecordData]
    by_cases c1 : 2 ^ 64 ≤ p + h0.dataSize + h0.metaSize
    · rw [if_pos c1, if_pos c1]
    · rw [if_neg c1, if_neg c1]
      by_cases c2 : file.length ≤ p + h0.dataSize + h0.metaSize
      · rw [if_pos c2, if_pos c2]
      · rw [if_neg c2, if_neg c2]
  · rw [hd] at h1; cases h1

/-- the field of the seeded variant: set by a header failure, never cleared -/
theorem readSingleRecordSt_stale_field (file : List UInt8) (st : ReaderSt) :
    (readSingleRecordSt .stale file st).2.lwh = st.lwh ∨
    ∃ h p, readSingleRecord file st.pos = .error (.headerValidation h p) ∧
      (readSingleRecordSt .stale file st).2.lwh = some h := by
  rcases readSingleRecordSt_spec .stale file st with ⟨r, p, _, h2⟩ | ⟨h, p, h1, h2⟩ | ⟨p, _, h2⟩ | ⟨h1, st', h2⟩
  · left; rw [h2]; rfl
  · right; exact ⟨h, p, h1, by rw [h2]⟩
  · left; rw [h2]; rfl
  · left
    unfold readSingleRecordSt at h2 ⊢
    cases hdh : deserHeader (List.drop st.pos file) with
    | none => rfl
    | some h =>
      rw [hdh] at h2
      simp only at h2 ⊢
      cases hhv : headerValidate h with
      | error e => rw [hhv] at h2; simp only at h2; cases h2
      | ok u =>
        simp only
        cases readExactAt file h.metaSize (st.pos + h.serializedSize) with
        | none => rfl
        | some mb =>
          simp only
          cases deserMeta mb with
          | none => rfl
          | some es =>
            simp only
            cases readExactAt file h.dataSize (st.pos + h.serializedSize + h.metaSize) with
            | none => rfl
            | some d =>
              simp only
              cases dataChecksumAudit h d <;> rfl

end Pearl
