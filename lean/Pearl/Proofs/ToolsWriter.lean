import Pearl.Model.ToolsWriter
import Pearl.Proofs.ToolsLemmas
/-
Helper lemmas for the `BlobWriter` model with read-back validation (C16, `validate_every ≠ 0`).

  * `ToolRecord.Canon`: a record that reads back as itself after `write_record`;
  * `Writer.Inv`: the invariant of the writer (cursor = `written` = length of the file; the cache holds
    exactly the records written since `written - written_cached`);
  * `processTrace`: the records `process_blob_with` hands to the writer;
  * `processLoopW_real`: with the real writer operations the loop never fails in the read-back and writes
    what the `validate_every = 0` model writes.
-/
namespace Pearl

/-! ### records that read back as themselves -/

/-- what `write_record` + `read_single_record` need for the record to come back unchanged: the header's
    sizes are those of the re-serialised meta and of the data, the data checksum matches, the meta
    re-serialises canonically, and the `u64` fields are `u64`s -/
structure ToolRecord.Canon (r : ToolRecord) : Prop where
  magic : r.header.magicByte = RECORD_MAGIC_BYTE
  klen : r.header.key.length < 2 ^ 64
  ts : r.header.timestamp < 2 ^ 64
  msize : r.header.metaSize = (serMetaEntries r.mt).length
  dsize : r.header.dataSize = r.data.length
  dcrc : crc32c r.data = r.header.dataChecksum
  mrt : deserMeta (serMetaEntries r.mt) = some r.mt

/-- the record `write_record` pushes into the cache -/
def ToolRecord.addressed (r : ToolRecord) (off : Nat) : ToolRecord :=
  { r with header := r.header.final off }

theorem final_key (h : RecHeader) (off : Nat) : (h.final off).key = h.key := finalWith_key _ _ _

theorem recordImage_length (r : ToolRecord) (off : Nat) :
    (Writer.recordImage r off).length =
      57 + r.header.key.length + (serMetaEntries r.mt).length + r.data.length := by
  simp only [Writer.recordImage, List.length_append, serHeader_length, final_key]
  omega

theorem recordImage_length_indep (r : ToolRecord) (a b : Nat) :
    (Writer.recordImage r a).length = (Writer.recordImage r b).length := by
  rw [recordImage_length, recordImage_length]

theorem recordImage_pos (r : ToolRecord) (off : Nat) : 57 ≤ (Writer.recordImage r off).length := by
  rw [recordImage_length]; omega

theorem tools_writeRecord_eq (out : List UInt8) (r : ToolRecord) :
    Pearl.writeRecord out r = out ++ Writer.recordImage r out.length := rfl

theorem ToolRecord.Canon.final_inRange {r : ToolRecord} (hc : r.Canon) (off : Nat)
    (hlen : off + (Writer.recordImage r off).length < 2 ^ 64) : (r.header.final off).InRange := by
  rw [recordImage_length] at hlen
  have h1 := hc.msize
  have h2 := hc.dsize
  refine ⟨?_, ?_, ?_, ?_, ?_, ?_⟩
  · show r.header.magicByte < 2 ^ 64
    rw [hc.magic]; decide
  · show r.header.key.length < 2 ^ 64
    exact hc.klen
  · show r.header.metaSize < 2 ^ 64
    omega
  · show r.header.dataSize < 2 ^ 64
    omega
  · show off < 2 ^ 64
    omega
  · exact hc.ts

/-- reading back what `write_record` wrote at `off` gives the cached record -/
theorem readSingleRecord_recordImage (pre post : List UInt8) (r : ToolRecord) (hc : r.Canon)
    (off : Nat) (hoff : pre.length = off) (hlen : off + (Writer.recordImage r off).length < 2 ^ 64) :
    readSingleRecord (pre ++ (Writer.recordImage r off ++ post)) off =
      .ok (r.addressed off, off + (Writer.recordImage r off).length) := by
  have hr := hc.final_inRange off hlen
  have hk : (r.header.final off).key.length = r.header.key.length := by rw [final_key]
  have hms : (r.header.final off).metaSize = (serMetaEntries r.mt).length := hc.msize
  have hds : (r.header.final off).dataSize = r.data.length := hc.dsize
  have hss : (r.header.final off).serializedSize = 57 + r.header.key.length := by
    simp [RecHeader.serializedSize, hk]
  have hdrop : (pre ++ (Writer.recordImage r off ++ post)).drop off =
      serHeader (r.header.final off) ++ ((serMetaEntries r.mt ++ r.data) ++ post) := by
    rw [List.drop_left' hoff, Writer.recordImage, List.append_assoc]
  have hfile1 : pre ++ (Writer.recordImage r off ++ post) =
      (pre ++ serHeader (r.header.final off)) ++ (serMetaEntries r.mt ++ (r.data ++ post)) := by
    simp [Writer.recordImage, List.append_assoc]
  have hfile2 : pre ++ (Writer.recordImage r off ++ post) =
      (pre ++ (serHeader (r.header.final off) ++ serMetaEntries r.mt)) ++ (r.data ++ post) := by
    simp [Writer.recordImage, List.append_assoc]
  have hp1 : (pre ++ serHeader (r.header.final off)).length = off + (57 + r.header.key.length) := by
    simp [hk, hoff]
  have hp2 : (pre ++ (serHeader (r.header.final off) ++ serMetaEntries r.mt)).length =
      off + (57 + r.header.key.length) + (serMetaEntries r.mt).length := by
    simp [hk, hoff]; omega
  have haud : dataChecksumAudit (r.header.final off) r.data = .ok () := by
    rw [dataChecksumAudit_ok]; exact hc.dcrc
  have hnext : off + (57 + r.header.key.length) + (serMetaEntries r.mt).length + r.data.length =
      off + (Writer.recordImage r off).length := by
    rw [recordImage_length]; omega
  unfold readSingleRecord
  rw [hdrop, deserHeader_serHeader _ _ hr]
  simp only [headerValidate_final _ _ hc.magic, hss, hms, hds]
  rw [hfile1, readExactAt_append hp1 rfl]
  simp only [hc.mrt]
  rw [← hfile1, hfile2, readExactAt_append hp2 rfl]
  simp only [haud, hnext]
  rfl

/-! ### a run of records written one after the other -/

/-- the bytes of the records `rs` written one after the other starting at `off` -/
def imagesOf : Nat → List ToolRecord → List UInt8
  | _, [] => []
  | off, r :: rs => Writer.recordImage r off ++ imagesOf (off + (Writer.recordImage r off).length) rs

/-- what the cache holds after these writes -/
def cachedOf : Nat → List ToolRecord → List ToolRecord
  | _, [] => []
  | off, r :: rs => r.addressed off :: cachedOf (off + (Writer.recordImage r off).length) rs

theorem imagesOf_append (off : Nat) (rs1 rs2 : List ToolRecord) :
    imagesOf off (rs1 ++ rs2) = imagesOf off rs1 ++ imagesOf (off + (imagesOf off rs1).length) rs2 := by
  induction rs1 generalizing off with
  | nil => simp [imagesOf]
  | cons r rs ih =>
    simp only [List.cons_append, imagesOf, ih, List.append_assoc, List.length_append]
    rw [Nat.add_assoc]

theorem cachedOf_append (off : Nat) (rs1 rs2 : List ToolRecord) :
    cachedOf off (rs1 ++ rs2) = cachedOf off rs1 ++ cachedOf (off + (imagesOf off rs1).length) rs2 := by
  induction rs1 generalizing off with
  | nil => simp [imagesOf, cachedOf]
  | cons r rs ih =>
    simp only [List.cons_append, imagesOf, cachedOf, ih, List.length_append]
    rw [Nat.add_assoc]

theorem cachedOf_length (off : Nat) (rs : List ToolRecord) : (cachedOf off rs).length = rs.length := by
  induction rs generalizing off with
  | nil => rfl
  | cons r rs ih => simp [cachedOf, ih]

theorem cachedOf_eq_nil {off : Nat} {rs : List ToolRecord} : cachedOf off rs = [] ↔ rs = [] := by
  cases rs <;> simp [cachedOf]

theorem imagesOf_length_ge (off : Nat) (rs : List ToolRecord) : 57 * rs.length ≤ (imagesOf off rs).length := by
  induction rs generalizing off with
  | nil => simp [imagesOf]
  | cons r rs ih =>
    simp only [imagesOf, List.length_append, List.length_cons]
    have := ih (off + (Writer.recordImage r off).length)
    have := recordImage_pos r off
    omega

/-- the read-back loop of `validate_written_records` succeeds on a run of canonical records, wherever
    the run lies in the file and whatever follows it -/
theorem readback_imagesOf (rs : List ToolRecord) :
    ∀ (base post : List UInt8), (∀ r ∈ rs, r.Canon) →
      base.length + (imagesOf base.length rs).length < 2 ^ 64 →
      Writer.readback (base ++ (imagesOf base.length rs ++ post)) (cachedOf base.length rs) base.length =
        .ok (base.length + (imagesOf base.length rs).length) := by
  induction rs with
  | nil => intro base post _ _; simp [imagesOf, cachedOf, Writer.readback]
  | cons r rs ih =>
    intro base post hc hlen
    simp only [imagesOf, List.length_append] at hlen
    have hstep := readSingleRecord_recordImage base
      (imagesOf (base.length + (Writer.recordImage r base.length).length) rs ++ post) r
      (hc r (List.mem_cons_self ..)) base.length rfl (by omega)
    have hrest := ih (base ++ Writer.recordImage r base.length) post
      (fun x hx => hc x (List.mem_cons_of_mem _ hx))
      (by simp only [List.length_append]; omega)
    simp only [List.length_append] at hrest
    simp only [imagesOf, cachedOf, Writer.readback, List.append_assoc]
    rw [hstep]
    simp only [ne_eq, not_true_eq_false, ↓reduceIte]
    simp only [List.append_assoc] at hrest
    rw [hrest, List.length_append, Nat.add_assoc]

/-! ### the invariant of the writer -/

/-- cursor, `written` and the length of the file coincide; if there is a cache, it holds the records written
    since `written - written_cached`, and they are canonical -/
structure Writer.Inv (w : Writer) : Prop where
  cur : w.cursor = w.file.length
  wr : w.written = w.file.length
  cached : ∀ c, w.cache = some c → ∃ base rs, w.file = base ++ imagesOf base.length rs ∧
    c = cachedOf base.length rs ∧ w.writtenCached = (imagesOf base.length rs).length ∧ ∀ r ∈ rs, r.Canon

theorem Writer.writeRecord_file {w : Writer} (hi : w.Inv) (r : ToolRecord) :
    (w.writeRecord r).file = Pearl.writeRecord w.file r := by
  simp only [Writer.writeRecord, hi.cur, hi.wr, pwrite_end]
  rfl

theorem Writer.writeRecord_cache_isSome (w : Writer) (r : ToolRecord) :
    (w.writeRecord r).cache.isSome = w.cache.isSome := by
  unfold Writer.writeRecord
  cases w.cache <;> rfl

theorem Writer.Inv.writeRecord {w : Writer} (hi : w.Inv) {r : ToolRecord}
    (hc : w.cache.isSome → r.Canon) : (w.writeRecord r).Inv := by
  have hf := Writer.writeRecord_file hi r
  rw [tools_writeRecord_eq] at hf
  refine ⟨?_, ?_, ?_⟩
  · rw [hf]; simp only [Writer.writeRecord, hi.cur, hi.wr, List.length_append]
  · rw [hf]; simp only [Writer.writeRecord, hi.wr, List.length_append]
  · intro c hcache
    cases hw : w.cache with
    | none => simp [Writer.writeRecord, hw] at hcache
    | some c0 =>
      obtain ⟨base, rs, hfile, hc0, hwc, hcan⟩ := hi.cached c0 hw
      have hlen : w.file.length = base.length + (imagesOf base.length rs).length := by
        rw [hfile, List.length_append]
      refine ⟨base, rs ++ [r], ?_, ?_, ?_, ?_⟩
      · rw [hf, imagesOf_append, hfile]
        simp only [imagesOf, List.append_nil, List.append_assoc, List.length_append]
      · simp only [Writer.writeRecord, hw, Option.some.injEq] at hcache
        rw [← hcache, cachedOf_append, hc0, hi.wr, hlen]
        rfl
      · simp only [Writer.writeRecord, hw, hwc, hi.wr]
        rw [imagesOf_append, List.length_append, hlen]
        simp only [imagesOf, List.append_nil]
      · intro x hx
        rcases List.mem_append.mp hx with h | h
        · exact hcan x h
        · simp only [List.mem_singleton] at h; subst h; exact hc (by rw [hw]; rfl)

theorem Writer.Inv.clearCache {w : Writer} (hi : w.Inv) : w.clearCache.Inv := by
  unfold Writer.clearCache
  cases hw : w.cache with
  | none => simpa only using hi
  | some c0 =>
    refine ⟨hi.cur, hi.wr, ?_⟩
    intro c hc
    simp only [Option.some.injEq] at hc
    exact ⟨w.file, [], by simp [imagesOf], by simp [cachedOf, hc], by simp [imagesOf], by simp⟩

theorem Writer.clearCache_file (w : Writer) : w.clearCache.file = w.file := by
  unfold Writer.clearCache; cases w.cache <;> rfl

theorem Writer.clearCache_cache_isSome (w : Writer) : w.clearCache.cache.isSome = w.cache.isSome := by
  unfold Writer.clearCache
  cases h : w.cache <;> simp [h]

/-- (2) of the task, as a statement about states: in a state that satisfies the invariant,
    `validate_written_records` succeeds and changes nothing -/
theorem Writer.Inv.validate_ok {w : Writer} (hi : w.Inv) (hlen : w.cache.isSome → w.file.length < 2 ^ 64) :
    w.validateWrittenRecords = .ok w := by
  unfold Writer.validateWrittenRecords
  cases hw : w.cache with
  | none => rfl
  | some c =>
    simp only
    have hlen := hlen (by rw [hw]; rfl)
    obtain ⟨base, rs, hfile, hc, hwc, hcan⟩ := hi.cached c hw
    have hl : w.file.length = base.length + (imagesOf base.length rs).length := by
      rw [hfile, List.length_append]
    split
    · rfl
    · rw [if_neg (by rw [hi.wr, hwc]; omega)]
      have hstart : w.written - w.writtenCached = base.length := by rw [hi.wr, hwc]; omega
      have hrb := readback_imagesOf rs base [] hcan (by omega)
      rw [List.append_nil, ← hfile, ← hc] at hrb
      rw [hstart, hrb]
      simp only
      have hcw : w.written = w.cursor := by rw [hi.wr, hi.cur]
      cases w
      simp only at hcw hw ⊢
      subst hcw hw
      rfl

theorem validateAndClear_real {w : Writer} (hi : w.Inv) (hlen : w.cache.isSome → w.file.length < 2 ^ 64) :
    validateAndClear .real w = .ok w.clearCache := by
  unfold validateAndClear
  rw [hi.validate_ok hlen]
  rfl

/-! ### the records handed to the writer -/

/-- the records `process_blob_with` passes to `write_record`, in order (same loop as `processLoop`) -/
def processTrace (input : List UInt8) (skip : Bool) (f : ToolRecord → Except ToolErr ToolRecord) :
    Nat → Nat → List ToolRecord
  | 0, _ => []
  | fuel+1, pos =>
    if isEof input pos then []
    else
      match readRecord input skip pos with
      | .error _ => []
      | .ok (r, pos') =>
        match f r with
        | .error _ => []
        | .ok r' => r' :: processTrace input skip f fuel pos'

/-- the `validate_every = 0` model writes the trace -/
theorem processLoop_eq_trace (input : List UInt8) (skip : Bool) (f : ToolRecord → Except ToolErr ToolRecord) :
    ∀ (fuel pos : Nat) (out : List UInt8), input.length ≤ pos + fuel →
      processLoop input skip f fuel pos out =
        .ok ((processTrace input skip f fuel pos).foldl Pearl.writeRecord out) := by
  intro fuel
  induction fuel with
  | zero =>
    intro pos out hf
    rw [processLoop, isEof_true (by omega)]
    rfl
  | succ fuel ih =>
    intro pos out hf
    rw [processLoop, processTrace]
    split
    · rfl
    · rcases readRecord_cases input skip pos with ⟨r, pos', h, hl⟩ | ⟨e, h, _⟩
      · rw [h]
        simp only
        cases hfr : f r with
        | error e => rfl
        | ok r' =>
          simp only
          rw [ih pos' _ (by omega)]
          rfl
      · rw [h]
        rfl

theorem foldl_writeRecord_length_le (t : List ToolRecord) (out : List UInt8) :
    out.length ≤ (t.foldl Pearl.writeRecord out).length := by
  induction t generalizing out with
  | nil => exact Nat.le_refl _
  | cons r t ih =>
    have := ih (Pearl.writeRecord out r)
    rw [tools_writeRecord_eq, List.length_append] at this
    simp only [List.foldl_cons, tools_writeRecord_eq]
    omega

theorem foldl_writeRecord_eq (t : List ToolRecord) (out : List UInt8) :
    t.foldl Pearl.writeRecord out = out ++ imagesOf out.length t := by
  induction t generalizing out with
  | nil => simp [imagesOf]
  | cons r t ih =>
    simp only [List.foldl_cons, imagesOf]
    rw [ih, tools_writeRecord_eq, List.length_append, List.append_assoc]

/-- with the real writer operations the loop does not fail, keeps the invariant, and the output file is
    what the `validate_every = 0` loop produces.  The two hypotheses on the records are needed only if
    there is a cache (`validate_every ≠ 0`) -/
theorem processLoopW_real (ve : Nat) (input : List UInt8) (skip : Bool)
    (f : ToolRecord → Except ToolErr ToolRecord) :
    ∀ (fuel pos count : Nat) (w : Writer), w.Inv → input.length ≤ pos + fuel →
      (w.cache.isSome → ∀ r ∈ processTrace input skip f fuel pos, r.Canon) →
      (w.cache.isSome → ((processTrace input skip f fuel pos).foldl Pearl.writeRecord w.file).length < 2 ^ 64) →
      ∃ w', processLoopW .real ve input skip f fuel pos count w = .ok w' ∧ w'.Inv ∧
        w'.file = (processTrace input skip f fuel pos).foldl Pearl.writeRecord w.file ∧
        w'.cache.isSome = w.cache.isSome := by
  intro fuel
  induction fuel with
  | zero =>
    intro pos count w hi hf _ _
    rw [processLoopW, isEof_true (by omega)]
    exact ⟨w, rfl, hi, rfl, rfl⟩
  | succ fuel ih =>
    intro pos count w hi hf hcan hsz
    rw [processLoopW]
    by_cases heof : isEof input pos = true
    · have htr : processTrace input skip f (fuel + 1) pos = [] := by rw [processTrace, if_pos heof]
      rw [if_pos heof, htr]
      exact ⟨w, rfl, hi, rfl, rfl⟩
    · rw [if_neg heof]
      rcases readRecord_cases input skip pos with ⟨r, pos', h, hl⟩ | ⟨e, h, _⟩
      · rw [h]
        simp only
        cases hfr : f r with
        | error e =>
          have htr : processTrace input skip f (fuel + 1) pos = [] := by
            rw [processTrace, if_neg heof, h]; simp only [hfr]
          rw [htr]
          exact ⟨w, rfl, hi, rfl, rfl⟩
        | ok r' =>
          have htr : processTrace input skip f (fuel + 1) pos = r' :: processTrace input skip f fuel pos' := by
            rw [processTrace, if_neg heof, h]; simp only [hfr]
          rw [htr] at hcan hsz ⊢
          simp only [List.foldl_cons] at hsz ⊢
          have hc' : w.cache.isSome → r'.Canon := fun hs => hcan hs r' (List.mem_cons_self ..)
          have hi1 : (w.writeRecord r').Inv := hi.writeRecord hc'
          have hf1 := Writer.writeRecord_file hi r'
          have hs1 := Writer.writeRecord_cache_isSome w r'
          have hcan' : w.cache.isSome → ∀ x ∈ processTrace input skip f fuel pos', x.Canon :=
            fun hs x hx => hcan hs x (List.mem_cons_of_mem _ hx)
          have hlt : (w.writeRecord r').cache.isSome → (w.writeRecord r').file.length < 2 ^ 64 := by
            intro hs
            rw [hf1]
            exact Nat.lt_of_le_of_lt (foldl_writeRecord_length_le _ _) (hsz (by rw [← hs1]; exact hs))
          show ∃ w', (if ve ≠ 0 ∧ (count + 1) % ve = 0 then
              match validateAndClear .real (w.writeRecord r') with
              | .error e => .error e
              | .ok w2 => processLoopW .real ve input skip f fuel pos' (count + 1) w2
            else processLoopW .real ve input skip f fuel pos' (count + 1) (w.writeRecord r')) = .ok w' ∧ _
          split
          · rw [validateAndClear_real hi1 hlt]
            simp only
            have hs2 := Writer.clearCache_cache_isSome (w.writeRecord r')
            obtain ⟨w', h1, h2, h3, h4⟩ := ih pos' (count + 1) (w.writeRecord r').clearCache
              hi1.clearCache (by omega) (fun hs => hcan' (by rw [← hs1, ← hs2]; exact hs))
              (fun hs => by rw [Writer.clearCache_file, hf1]; exact hsz (by rw [← hs1, ← hs2]; exact hs))
            refine ⟨w', h1, h2, ?_, ?_⟩
            · rw [h3, Writer.clearCache_file, hf1]
            · rw [h4, hs2, hs1]
          · obtain ⟨w', h1, h2, h3, h4⟩ := ih pos' (count + 1) (w.writeRecord r')
              hi1 (by omega) (fun hs => hcan' (by rw [← hs1]; exact hs))
              (fun hs => by rw [hf1]; exact hsz (by rw [← hs1]; exact hs))
            refine ⟨w', h1, h2, ?_, ?_⟩
            · rw [h3, hf1]
            · rw [h4, hs1]
      · have htr : processTrace input skip f (fuel + 1) pos = [] := by
          rw [processTrace, if_neg heof, h]
        rw [h, htr]
        exact ⟨w, rfl, hi, rfl, rfl⟩

/-- the loop and the final validation -/
theorem processRunW_real (ve : Nat) (input : List UInt8) (skip : Bool)
    (f : ToolRecord → Except ToolErr ToolRecord) (fuel pos count : Nat) (w : Writer) (hi : w.Inv)
    (hf : input.length ≤ pos + fuel)
    (hcan : w.cache.isSome → ∀ r ∈ processTrace input skip f fuel pos, r.Canon)
    (hsz : w.cache.isSome → ((processTrace input skip f fuel pos).foldl Pearl.writeRecord w.file).length < 2 ^ 64) :
    processRunW .real ve input skip f fuel pos count w =
      .ok ((processTrace input skip f fuel pos).foldl Pearl.writeRecord w.file) := by
  obtain ⟨w', h1, h2, h3, h4⟩ := processLoopW_real ve input skip f fuel pos count w hi hf hcan hsz
  unfold processRunW finishW
  rw [h1]
  simp only
  split
  · rw [validateAndClear_real h2 (fun hs => by rw [h3]; exact hsz (by rw [← h4]; exact hs))]
    simp only [Writer.clearCache_file, h3]
  · rw [h3]

/-! ### the whole of `process_blob_with` -/

theorem pwrite_nil_zero (b : List UInt8) : pwrite [] 0 b = b := by simp [pwrite]

/-- the writer after a successful `write_header` on the fresh file -/
def Writer.afterHeader (c : Bool) (out : List UInt8) : Writer :=
  { file := out, cursor := 20, written := 20, writtenCached := 0, cache := if c then some [] else none }

theorem Writer.writeHeader_fromPath (c : Bool) (b : BlobHeader) :
    (Writer.fromPath c).writeHeader b =
      match Pearl.writeHeader b with
      | .error e => .error (.tool e)
      | .ok out => .ok (Writer.afterHeader c out) := by
  unfold Writer.writeHeader Pearl.writeHeader Writer.fromPath
  simp only [pwrite_nil_zero]
  cases readBlobHeader (serBlobHeader b) with
  | error e => rfl
  | ok x =>
    obtain ⟨b', p⟩ := x
    simp only
    by_cases hb : b' = b
    · simp [hb, Writer.afterHeader, blobHeaderSize]
    · simp [hb]

theorem writeHeader_out {b : BlobHeader} {out : List UInt8} (h : Pearl.writeHeader b = .ok out) :
    out = serBlobHeader b := by
  unfold Pearl.writeHeader at h
  simp only at h
  split at h
  · cases h
  · split at h
    · cases h; rfl
    · cases h

theorem Writer.afterHeader_inv (c : Bool) {out : List UInt8} (h : out.length = 20) :
    (Writer.afterHeader c out).Inv := by
  refine ⟨by simp [Writer.afterHeader, h], by simp [Writer.afterHeader, h], ?_⟩
  intro c0 hc0
  refine ⟨out, [], by simp [imagesOf, Writer.afterHeader], ?_, by simp [imagesOf, Writer.afterHeader], by simp⟩
  cases c <;> simp [Writer.afterHeader] at hc0
  simp [cachedOf, hc0]

/-- the records a run of `process_blob_with` hands to `write_record` -/
def writtenRecords (input : List UInt8) (skip : Bool)
    (fRec : Nat → ToolRecord → Except ToolErr ToolRecord)
    (fHdr : Nat → BlobHeader → Except ToolErr BlobHeader) : List ToolRecord :=
  match readBlobHeader input with
  | .error _ => []
  | .ok (hdr, pos) =>
    match fHdr hdr.version hdr with
    | .error _ => []
    | .ok hdr' =>
      match Pearl.writeHeader hdr' with
      | .error _ => []
      | .ok _ => processTrace input skip (fRec hdr.version) input.length pos

/-- the output of the `validate_every = 0` model is the (rewritten) blob header followed by the written
    records -/
theorem processBlobWith_eq_written {input : List UInt8} {skip : Bool}
    {fRec : Nat → ToolRecord → Except ToolErr ToolRecord}
    {fHdr : Nat → BlobHeader → Except ToolErr BlobHeader} {out : List UInt8}
    (h : processBlobWith input skip fRec fHdr = .ok out) :
    ∃ hdr', out = serBlobHeader hdr' ++ imagesOf 20 (writtenRecords input skip fRec fHdr) := by
  unfold processBlobWith at h
  unfold writtenRecords
  cases hrb : readBlobHeader input with
  | error e => rw [hrb] at h; cases h
  | ok x =>
    obtain ⟨hdr, pos⟩ := x
    have hpos := readBlobHeader_ok hrb
    subst hpos
    rw [hrb] at h
    simp only at h ⊢
    cases hfh : fHdr hdr.version hdr with
    | error e => rw [hfh] at h; cases h
    | ok hdr' =>
      rw [hfh] at h
      simp only at h ⊢
      cases hwh : Pearl.writeHeader hdr' with
      | error e => rw [hwh] at h; cases h
      | ok o =>
        rw [hwh] at h
        simp only at h ⊢
        have ho := writeHeader_out hwh
        rw [processLoop_eq_trace _ _ _ _ _ _ (by omega), foldl_writeRecord_eq] at h
        cases h
        exact ⟨hdr', by rw [ho, serBlobHeader_length]⟩

/-- (1) of the task in its general form: whatever the batch size, `process_blob_with` with the read-back
    validation returns what the `validate_every = 0` model returns, provided the records handed to the
    writer are canonical and the output stays below 2^64 bytes.  (Without the first hypothesis the
    statement is false: `C16.validate_every_relevant_for_noncanonical_meta`.)  For `validate_every = 0`
    nothing is assumed. -/
theorem processBlobWithV_eq (ve : Nat) (input : List UInt8) (skip : Bool)
    (fRec : Nat → ToolRecord → Except ToolErr ToolRecord)
    (fHdr : Nat → BlobHeader → Except ToolErr BlobHeader)
    (hcan : ve ≠ 0 → ∀ r ∈ writtenRecords input skip fRec fHdr, r.Canon)
    (hsz : ve ≠ 0 → ∀ out, processBlobWith input skip fRec fHdr = .ok out → out.length < 2 ^ 64) :
    processBlobWithV ve input skip fRec fHdr = liftW (processBlobWith input skip fRec fHdr) := by
  unfold processBlobWithV processBlobWithW
  unfold processBlobWith at hsz ⊢
  unfold writtenRecords at hcan
  cases hrb : readBlobHeader input with
  | error e => rfl
  | ok x =>
    obtain ⟨hdr, pos⟩ := x
    have hpos := readBlobHeader_ok hrb
    subst hpos
    rw [hrb] at hcan hsz
    simp only at hcan hsz ⊢
    cases hfh : fHdr hdr.version hdr with
    | error e => rfl
    | ok hdr' =>
      rw [hfh] at hcan hsz
      simp only at hcan hsz ⊢
      rw [Writer.writeHeader_fromPath]
      cases hwh : Pearl.writeHeader hdr' with
      | error e => rfl
      | ok o =>
        rw [hwh] at hcan hsz
        simp only at hcan hsz ⊢
        have ho : o.length = 20 := by rw [writeHeader_out hwh, serBlobHeader_length]
        have hpl := processLoop_eq_trace input skip (fRec hdr.version) input.length 20 o (by omega)
        rw [hpl] at hsz ⊢
        have hve : (Writer.afterHeader (ve != 0) o).cache.isSome → ve ≠ 0 := by
          intro hs hz
          subst hz
          simp [Writer.afterHeader] at hs
        rw [processRunW_real ve input skip (fRec hdr.version) input.length 20 0
          (Writer.afterHeader (ve != 0) o) (Writer.afterHeader_inv _ ho) (by omega)
          (fun hs => hcan (hve hs)) (fun hs => hsz (hve hs) _ rfl)]
        rfl

end Pearl
