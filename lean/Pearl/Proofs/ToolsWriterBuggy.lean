import Pearl.Proofs.ToolsWriter
/-
The two seeded variants of `BlobWriter` as counter-models, with the exact conditions under which each is
invisible:

  * `stepBuggyOffset` (`written` advances only when there is a cache): identical to the real writer for
    every `validate_every ≠ 0`; with `validate_every = 0` every record is addressed to offset 20, so the
    output differs as soon as two records are written;
  * `stepBuggyClear` (`clear_cache` keeps `written_cached`): identical to the real writer for
    `validate_every = 0` and whenever at most `validate_every` records are written; otherwise the second
    non-empty read-back starts at offset 20 and fails with "Written and cached records is not equal".
-/
namespace Pearl

/-! ### one iteration of the loop, for any writer operations -/

theorem processRunW_zero (ops : WriterOps) (ve : Nat) {input : List UInt8} (skip : Bool)
    (f : ToolRecord → Except ToolErr ToolRecord) {pos : Nat} (count : Nat) (w : Writer)
    (hf : input.length ≤ pos) : processRunW ops ve input skip f 0 pos count w = finishW ops ve w := by
  unfold processRunW
  rw [processLoopW, isEof_true hf]
  rfl

/-- either the loop ends here, or one record is written and (if the batch is full) validated -/
theorem processRunW_succ (input : List UInt8) (skip : Bool) (f : ToolRecord → Except ToolErr ToolRecord)
    (fuel pos : Nat) :
    (processTrace input skip f (fuel + 1) pos = [] ∧
      ∀ ops ve count w, processRunW ops ve input skip f (fuel + 1) pos count w = finishW ops ve w) ∨
    (∃ r' pos', pos + 57 ≤ pos' ∧
      processTrace input skip f (fuel + 1) pos = r' :: processTrace input skip f fuel pos' ∧
      ∀ ops ve count w, processRunW ops ve input skip f (fuel + 1) pos count w =
        if ve ≠ 0 ∧ (count + 1) % ve = 0 then
          match validateAndClear ops (ops.write w r') with
          | .error e => .error e
          | .ok w2 => processRunW ops ve input skip f fuel pos' (count + 1) w2
        else processRunW ops ve input skip f fuel pos' (count + 1) (ops.write w r')) := by
  by_cases heof : isEof input pos = true
  · left
    refine ⟨by rw [processTrace, if_pos heof], fun ops ve count w => ?_⟩
    unfold processRunW
    rw [processLoopW, if_pos heof]
  · rcases readRecord_cases input skip pos with ⟨r, pos', h, hl⟩ | ⟨e, h, _⟩
    · cases hfr : f r with
      | error e =>
        left
        refine ⟨by rw [processTrace, if_neg heof, h]; simp only [hfr], fun ops ve count w => ?_⟩
        unfold processRunW
        rw [processLoopW, if_neg heof, h]
        simp only [hfr]
      | ok r' =>
        right
        refine ⟨r', pos', hl, by rw [processTrace, if_neg heof, h]; simp only [hfr],
          fun ops ve count w => ?_⟩
        unfold processRunW
        rw [processLoopW, if_neg heof, h]
        simp only [hfr]
        by_cases hc : ve ≠ 0 ∧ (count + 1) % ve = 0
        · rw [if_pos hc, if_pos hc]
          cases validateAndClear ops (ops.write w r') <;> rfl
        · rw [if_neg hc, if_neg hc]
    · left
      refine ⟨by rw [processTrace, if_neg heof, h], fun ops ve count w => ?_⟩
      unfold processRunW
      rw [processLoopW, if_neg heof, h]

/-- the header phase, for any writer operations -/
theorem processBlobWithW_cases (input : List UInt8) (skip : Bool)
    (fRec : Nat → ToolRecord → Except ToolErr ToolRecord)
    (fHdr : Nat → BlobHeader → Except ToolErr BlobHeader) :
    (∃ e, processBlobWith input skip fRec fHdr = .error e ∧ writtenRecords input skip fRec fHdr = [] ∧
      ∀ ops ve, processBlobWithW ops ve input skip fRec fHdr = .error (.tool e)) ∨
    (∃ (v : Nat) (o : List UInt8), o.length = 20 ∧
      writtenRecords input skip fRec fHdr = processTrace input skip (fRec v) input.length 20 ∧
      processBlobWith input skip fRec fHdr =
        .ok ((processTrace input skip (fRec v) input.length 20).foldl Pearl.writeRecord o) ∧
      ∀ ops ve, processBlobWithW ops ve input skip fRec fHdr =
        processRunW ops ve input skip (fRec v) input.length 20 0 (Writer.afterHeader (ve != 0) o)) := by
  unfold processBlobWith writtenRecords processBlobWithW
  cases hrb : readBlobHeader input with
  | error e => exact Or.inl ⟨e, rfl, rfl, fun _ _ => rfl⟩
  | ok x =>
    obtain ⟨hdr, pos⟩ := x
    have hpos := readBlobHeader_ok hrb
    subst hpos
    simp only
    cases hfh : fHdr hdr.version hdr with
    | error e => exact Or.inl ⟨e, rfl, rfl, fun _ _ => rfl⟩
    | ok hdr' =>
      simp only
      cases hwh : Pearl.writeHeader hdr' with
      | error e =>
        refine Or.inl ⟨e, rfl, rfl, fun _ ve => ?_⟩
        rw [Writer.writeHeader_fromPath, hwh]
      | ok o =>
        have ho : o.length = 20 := by rw [writeHeader_out hwh, serBlobHeader_length]
        refine Or.inr ⟨hdr.version, o, ho, rfl,
          processLoop_eq_trace input skip (fRec hdr.version) input.length 20 o (by omega), fun _ ve => ?_⟩
        rw [Writer.writeHeader_fromPath, hwh]

theorem Writer.validateWrittenRecords_cache {w w' : Writer} (h : w.validateWrittenRecords = .ok w') :
    w'.cache = w.cache := by
  unfold Writer.validateWrittenRecords at h
  split at h
  · cases h; rfl
  · split at h
    · cases h; rfl
    · simp only at h
      split at h
      · cases h
      · split at h
        · cases h
        · cases h; rfl

/-! ## variant 1: `written` advances only when there is a cache -/

theorem writeRecordBuggyOffset_of_cache {w : Writer} (h : w.cache.isSome = true) (r : ToolRecord) :
    w.writeRecordBuggyOffset r = w.writeRecord r := by
  unfold Writer.writeRecordBuggyOffset Writer.writeRecord
  cases hw : w.cache with
  | none => rw [hw] at h; cases h
  | some c => rfl

theorem validateAndClear_real_cache {w w' : Writer} (h : validateAndClear .real w = .ok w') :
    w'.cache.isSome = w.cache.isSome := by
  unfold validateAndClear at h
  cases hv : w.validateWrittenRecords with
  | error e => rw [hv] at h; cases h
  | ok w1 =>
    rw [hv] at h
    cases h
    show w1.clearCache.cache.isSome = _
    rw [Writer.clearCache_cache_isSome, Writer.validateWrittenRecords_cache hv]

/-- with a cache (i.e. `validate_every ≠ 0`) the variant IS the real writer -/
theorem processRunW_buggyOffset_cache (ve : Nat) (input : List UInt8) (skip : Bool)
    (f : ToolRecord → Except ToolErr ToolRecord) :
    ∀ (fuel pos count : Nat) (w : Writer), w.cache.isSome = true → input.length ≤ pos + fuel →
      processRunW stepBuggyOffset ve input skip f fuel pos count w =
        processRunW .real ve input skip f fuel pos count w := by
  intro fuel
  induction fuel with
  | zero =>
    intro pos count w _ hf
    rw [processRunW_zero _ _ _ _ _ _ (by omega), processRunW_zero _ _ _ _ _ _ (by omega)]
    rfl
  | succ fuel ih =>
    intro pos count w hs hf
    rcases processRunW_succ input skip f fuel pos with ⟨_, h⟩ | ⟨r', pos', hl, _, h⟩
    · rw [h, h]; rfl
    · rw [h, h]
      have hw : stepBuggyOffset.write w r' = WriterOps.real.write w r' :=
        writeRecordBuggyOffset_of_cache hs r'
      have hs1 : (WriterOps.real.write w r').cache.isSome = true := by
        rw [show WriterOps.real.write w r' = w.writeRecord r' from rfl, Writer.writeRecord_cache_isSome]
        exact hs
      rw [hw]
      have hvc : validateAndClear stepBuggyOffset (WriterOps.real.write w r') =
          validateAndClear .real (WriterOps.real.write w r') := rfl
      split
      · rw [hvc]
        cases hv : validateAndClear .real (WriterOps.real.write w r') with
        | error e => rfl
        | ok w2 =>
          simp only
          exact ih pos' (count + 1) w2 (by rw [validateAndClear_real_cache hv]; exact hs1) (by omega)
      · exact ih pos' (count + 1) _ hs1 (by omega)

/-- for every `validate_every ≠ 0`, on every input, variant 1 behaves as the real code -/
theorem buggyOffset_invisible_of_ne_zero (ve : Nat) (hve : ve ≠ 0) (input : List UInt8) (skip : Bool)
    (fRec : Nat → ToolRecord → Except ToolErr ToolRecord)
    (fHdr : Nat → BlobHeader → Except ToolErr BlobHeader) :
    processBlobWithW stepBuggyOffset ve input skip fRec fHdr = processBlobWithV ve input skip fRec fHdr := by
  unfold processBlobWithV
  rcases processBlobWithW_cases input skip fRec fHdr with ⟨e, _, _, h⟩ | ⟨v, o, _, _, _, h⟩
  · rw [h, h]
  · rw [h, h]
    apply processRunW_buggyOffset_cache _ _ _ _ _ _ _ _ _ (by omega)
    have : (ve != 0) = true := by simpa using hve
    simp [Writer.afterHeader, this]

/-- the records written one after the other, all addressed to the same `off` -/
def flatImages (off : Nat) : List ToolRecord → List UInt8
  | [] => []
  | r :: rs => Writer.recordImage r off ++ flatImages off rs

/-- with `validate_every = 0` (no cache) `written` never moves: every record is addressed to the position
    after the blob header -/
theorem processRunW_buggyOffset_zero (input : List UInt8) (skip : Bool)
    (f : ToolRecord → Except ToolErr ToolRecord) :
    ∀ (fuel pos count : Nat) (w : Writer), w.cache = none → w.cursor = w.file.length →
      input.length ≤ pos + fuel →
      processRunW stepBuggyOffset 0 input skip f fuel pos count w =
        .ok (w.file ++ flatImages w.written (processTrace input skip f fuel pos)) := by
  intro fuel
  induction fuel with
  | zero =>
    intro pos count w _ _ hf
    rw [processRunW_zero _ _ _ _ _ _ (by omega), processTrace]
    simp [finishW, flatImages]
  | succ fuel ih =>
    intro pos count w hc hcur hf
    rcases processRunW_succ input skip f fuel pos with ⟨htr, h⟩ | ⟨r', pos', hl, htr, h⟩
    · rw [h, htr]
      simp [finishW, flatImages]
    · rw [h, htr, if_neg (by simp)]
      have hw : stepBuggyOffset.write w r' =
          { file := w.file ++ Writer.recordImage r' w.written,
            cursor := w.cursor + (Writer.recordImage r' w.written).length,
            written := w.written, writtenCached := w.writtenCached, cache := none } := by
        show w.writeRecordBuggyOffset r' = _
        unfold Writer.writeRecordBuggyOffset
        simp only [hc, hcur, pwrite_end]
      rw [hw, ih pos' (count + 1) _ rfl (by simp only [List.length_append, hcur]) (by omega)]
      simp only [flatImages, List.append_assoc]

theorem serHeader_final_inj_off (h : RecHeader) (a b : Nat) (ha : a < 2 ^ 64) (hb : b < 2 ^ 64)
    (X Y : List UInt8) (he : serHeader (h.final a) ++ X = serHeader (h.final b) ++ Y) : a = b := by
  have hpa : serHeaderPre (h.final a) = serHeaderPre h := rfl
  have hpb : serHeaderPre (h.final b) = serHeaderPre h := rfl
  unfold serHeader at he
  rw [hpa, hpb] at he
  simp only [List.append_assoc] at he
  have he := List.append_cancel_left he
  have h8 := (List.append_inj he (by simp)).1
  have := congrArg fromLe h8
  rwa [show (h.final a).blobOffset = a from rfl, show (h.final b).blobOffset = b from rfl,
    fromLe_le64 ha, fromLe_le64 hb] at this

/-- the two layouts coincide exactly when at most one record is written -/
theorem flatImages_eq_imagesOf_iff (t : List ToolRecord)
    (hsz : ∀ r ∈ t.head?, 20 + (Writer.recordImage r 20).length < 2 ^ 64) :
    flatImages 20 t = imagesOf 20 t ↔ t.length ≤ 1 := by
  constructor
  · intro he
    match t, hsz, he with
    | [], _, _ => simp
    | [_], _, _ => simp
    | r1 :: r2 :: t', hsz, he =>
      exfalso
      have h1 := hsz r1 (by simp)
      simp only [flatImages, imagesOf] at he
      have he := List.append_cancel_left he
      unfold Writer.recordImage at he
      simp only [List.append_assoc] at he
      have := serHeader_final_inj_off r2.header 20 _ (by omega) h1 _ _ he
      have := recordImage_pos r1 20
      omega
  · intro hl
    match t, hl with
    | [], _ => rfl
    | [r], _ => simp [flatImages, imagesOf]
    | _ :: _ :: _, hl => simp at hl

/-- what variant 1 returns with `validate_every = 0`, in terms of the real result -/
theorem processBlobWithW_buggyOffset_zero (input : List UInt8) (skip : Bool)
    (fRec : Nat → ToolRecord → Except ToolErr ToolRecord)
    (fHdr : Nat → BlobHeader → Except ToolErr BlobHeader) :
    processBlobWithW stepBuggyOffset 0 input skip fRec fHdr =
      match processBlobWith input skip fRec fHdr with
      | .error e => .error (.tool e)
      | .ok out => .ok (out.take 20 ++ flatImages 20 (writtenRecords input skip fRec fHdr)) := by
  rcases processBlobWithW_cases input skip fRec fHdr with ⟨e, h1, _, h⟩ | ⟨v, o, ho, h1, h2, h⟩
  · rw [h, h1]
  · rw [h, h2, h1]
    simp only
    rw [processRunW_buggyOffset_zero _ _ _ _ _ _ _ (by simp [Writer.afterHeader])
      (by simp [Writer.afterHeader, ho]) (by omega), foldl_writeRecord_eq, List.take_left' ho]
    rfl

/-- the exact condition under which variant 1 is invisible: `validate_every ≠ 0`, or at most one record
    written.  (`hsz`: the first record ends below 2^64.) -/
theorem buggyOffset_invisible_iff (ve : Nat) (input : List UInt8) (skip : Bool)
    (fRec : Nat → ToolRecord → Except ToolErr ToolRecord)
    (fHdr : Nat → BlobHeader → Except ToolErr BlobHeader)
    (hsz : ∀ r ∈ (writtenRecords input skip fRec fHdr).head?,
      20 + (Writer.recordImage r 20).length < 2 ^ 64) :
    processBlobWithW stepBuggyOffset ve input skip fRec fHdr = processBlobWithV ve input skip fRec fHdr ↔
      (ve ≠ 0 ∨ (writtenRecords input skip fRec fHdr).length ≤ 1) := by
  by_cases hve : ve = 0
  · subst hve
    rw [processBlobWithW_buggyOffset_zero,
      processBlobWithV_eq 0 input skip fRec fHdr (fun h => absurd rfl h) (fun h => absurd rfl h)]
    simp only [ne_eq, not_true_eq_false, false_or]
    rw [← flatImages_eq_imagesOf_iff _ hsz]
    cases hp : processBlobWith input skip fRec fHdr with
    | error e => simp only [liftW, true_iff]
                 rcases processBlobWithW_cases input skip fRec fHdr with ⟨_, _, h0, _⟩ | ⟨_, _, _, _, h2, _⟩
                 · rw [h0]; rfl
                 · rw [h2] at hp; cases hp
    | ok out =>
      obtain ⟨hdr', hout⟩ := processBlobWith_eq_written hp
      simp only [liftW, Except.ok.injEq]
      have h20 : out.take 20 = serBlobHeader hdr' := by
        rw [hout, List.take_left' (serBlobHeader_length hdr')]
      rw [h20]
      conv => lhs; rhs; rw [hout]
      exact List.append_right_inj _
  · simp only [ne_eq, hve, not_false_eq_true, true_or, iff_true]
    exact buggyOffset_invisible_of_ne_zero ve hve input skip fRec fHdr

/-! ## variant 2: `clear_cache` keeps `written_cached` -/

/-- with `validate_every = 0` `clear_cache` is never called -/
theorem processRunW_buggyClear_zero (input : List UInt8) (skip : Bool)
    (f : ToolRecord → Except ToolErr ToolRecord) :
    ∀ (fuel pos count : Nat) (w : Writer), input.length ≤ pos + fuel →
      processRunW stepBuggyClear 0 input skip f fuel pos count w =
        processRunW .real 0 input skip f fuel pos count w := by
  intro fuel
  induction fuel with
  | zero =>
    intro pos count w hf
    rw [processRunW_zero _ _ _ _ _ _ (by omega), processRunW_zero _ _ _ _ _ _ (by omega)]
    simp [finishW]
  | succ fuel ih =>
    intro pos count w hf
    rcases processRunW_succ input skip f fuel pos with ⟨_, h⟩ | ⟨r', pos', hl, _, h⟩
    · rw [h, h]; simp [finishW]
    · rw [h, h, if_neg (by simp), if_neg (by simp)]
      exact ih pos' (count + 1) _ (by omega)

theorem buggyClear_invisible_zero (input : List UInt8) (skip : Bool)
    (fRec : Nat → ToolRecord → Except ToolErr ToolRecord)
    (fHdr : Nat → BlobHeader → Except ToolErr BlobHeader) :
    processBlobWithW stepBuggyClear 0 input skip fRec fHdr = processBlobWithV 0 input skip fRec fHdr := by
  unfold processBlobWithV
  rcases processBlobWithW_cases input skip fRec fHdr with ⟨e, _, _, h⟩ | ⟨v, o, _, _, _, h⟩
  · rw [h, h]
  · rw [h, h]
    exact processRunW_buggyClear_zero _ _ _ _ _ _ _ (by omega)

/-- the writer of variant 2 after its first `clear_cache`: `written_cached` still counts from the end of
    the blob header, where the first record `r1` lies, but the cache only holds later records -/
structure Writer.StaleInv (w : Writer) : Prop where
  cur : w.cursor = w.file.length
  wr : w.written = w.file.length
  wc : w.written = 20 + w.writtenCached
  first : ∃ H r1 rest, H.length = 20 ∧ r1.Canon ∧ w.file = H ++ (Writer.recordImage r1 20 ++ rest)
  cache : ∃ c, w.cache = some c ∧ ∀ x ∈ c, x.header.blobOffset ≠ 20

/-- the read-back of a non-empty cache starts at the first record of the file and fails -/
theorem Writer.StaleInv.validate_fail {w : Writer} (hs : w.StaleInv) {c : List ToolRecord}
    (hc : w.cache = some c) (hne : c ≠ []) (hlen : w.file.length < 2 ^ 64) :
    w.validateWrittenRecords = .error .notEqual := by
  unfold Writer.validateWrittenRecords
  rw [hc]
  simp only
  have hwc := hs.wc
  rw [if_neg hne, if_neg (by omega)]
  have hstart : w.written - w.writtenCached = 20 := by omega
  rw [hstart]
  obtain ⟨H, r1, rest, hH, hcan, hfile⟩ := hs.first
  have hrd := readSingleRecord_recordImage H rest r1 hcan 20 hH
    (by rw [hfile] at hlen; simp only [List.length_append] at hlen; omega)
  rw [← hfile] at hrd
  obtain ⟨c', hc', hoff⟩ := hs.cache
  rw [hc] at hc'
  cases hc'
  cases c with
  | nil => exact absurd rfl hne
  | cons x xs =>
    have hx : x ≠ r1.addressed 20 := by
      intro he
      exact hoff x (List.mem_cons_self ..) (by rw [he]; rfl)
    simp only [Writer.readback, hrd, ne_eq, hx, not_false_eq_true, ↓reduceIte]

theorem Writer.validate_nil {w : Writer} (hc : w.cache = some []) : w.validateWrittenRecords = .ok w := by
  unfold Writer.validateWrittenRecords
  rw [hc]
  simp

theorem Writer.StaleInv.writeRecord {w : Writer} (hs : w.StaleInv) (r : ToolRecord) :
    (w.writeRecord r).StaleInv ∧ ∃ c, (w.writeRecord r).cache = some c ∧ c ≠ [] := by
  obtain ⟨c, hc, hoff⟩ := hs.cache
  obtain ⟨H, r1, rest, hH, hcan, hfile⟩ := hs.first
  have hfl : 77 ≤ w.file.length := by
    rw [hfile]; simp only [List.length_append, hH]
    have := recordImage_pos r1 20
    omega
  have hf : (w.writeRecord r).file = w.file ++ Writer.recordImage r w.written := by
    simp only [Writer.writeRecord, hs.cur, pwrite_end]
  have hwc := hs.wc
  refine ⟨⟨?_, ?_, ?_, ?_, ?_⟩, ?_⟩
  · rw [hf]; simp only [Writer.writeRecord, hs.cur, List.length_append]
  · rw [hf]; simp only [Writer.writeRecord, hs.wr, List.length_append]
  · simp only [Writer.writeRecord, hc]; omega
  · exact ⟨H, r1, rest ++ Writer.recordImage r w.written, hH, hcan,
      by rw [hf, hfile]; simp only [List.append_assoc]⟩
  · refine ⟨c ++ [{ r with header := r.header.final w.written }], by simp only [Writer.writeRecord, hc], ?_⟩
    intro x hx
    rcases List.mem_append.mp hx with h | h
    · exact hoff x h
    · simp only [List.mem_singleton] at h
      subst h
      show w.written ≠ 20
      rw [hs.wr]; omega
  · exact ⟨c ++ [{ r with header := r.header.final w.written }], by simp only [Writer.writeRecord, hc],
      by simp⟩

theorem Writer.StaleInv.clearCacheBuggy {w : Writer} (hs : w.StaleInv) :
    w.clearCacheBuggy.StaleInv ∧ w.clearCacheBuggy.cache = some [] ∧ w.clearCacheBuggy.file = w.file := by
  obtain ⟨c, hc, _⟩ := hs.cache
  unfold Writer.clearCacheBuggy
  rw [hc]
  exact ⟨⟨hs.cur, hs.wr, hs.wc, hs.first, [], rfl, by simp⟩, rfl, rfl⟩

theorem finishW_stale {ve : Nat} (hve : ve ≠ 0) {w : Writer} (hs : w.StaleInv) {c : List ToolRecord}
    (hc : w.cache = some c) (hlen : w.file.length < 2 ^ 64) :
    finishW stepBuggyClear ve w = if c = [] then .ok w.file else .error .notEqual := by
  unfold finishW validateAndClear
  rw [if_pos hve]
  by_cases hn : c = []
  · subst hn
    rw [Writer.validate_nil hc, if_pos rfl]
    exact congrArg Except.ok hs.clearCacheBuggy.2.2
  · rw [hs.validate_fail hc hn hlen, if_neg hn]

/-- after the first `clear_cache` of variant 2: the run succeeds only if nothing more is written -/
theorem processRunW_stale (ve : Nat) (hve : ve ≠ 0) (input : List UInt8) (skip : Bool)
    (f : ToolRecord → Except ToolErr ToolRecord) :
    ∀ (fuel pos count : Nat) (w : Writer) (c : List ToolRecord), w.StaleInv → w.cache = some c →
      input.length ≤ pos + fuel →
      ((processTrace input skip f fuel pos).foldl Pearl.writeRecord w.file).length < 2 ^ 64 →
      processRunW stepBuggyClear ve input skip f fuel pos count w =
        if c = [] ∧ processTrace input skip f fuel pos = [] then .ok w.file else .error .notEqual := by
  intro fuel
  induction fuel with
  | zero =>
    intro pos count w c hs hc hf hsz
    rw [processRunW_zero _ _ _ _ _ _ (by omega), finishW_stale hve hs hc hsz]
    simp [processTrace]
  | succ fuel ih =>
    intro pos count w c hs hc hf hsz
    rcases processRunW_succ input skip f fuel pos with ⟨htr, h⟩ | ⟨r', pos', hl, htr, h⟩
    · rw [htr] at hsz
      rw [h, htr, finishW_stale hve hs hc hsz]
      simp
    · rw [htr] at hsz
      simp only [List.foldl_cons] at hsz
      rw [h, htr, show (if c = [] ∧ (r' :: processTrace input skip f fuel pos') = []
        then (Except.ok w.file : Except WriterErr (List UInt8)) else .error .notEqual) = .error .notEqual
        from if_neg (by simp)]
      obtain ⟨hs1, c1, hc1, hne1⟩ := hs.writeRecord r'
      have hf1 : (w.writeRecord r').file = Pearl.writeRecord w.file r' := by
        simp only [Writer.writeRecord, hs.cur, hs.wr, pwrite_end]; rfl
      have hlt : (w.writeRecord r').file.length < 2 ^ 64 := by
        rw [hf1]; exact Nat.lt_of_le_of_lt (foldl_writeRecord_length_le _ _) hsz
      show (if ve ≠ 0 ∧ (count + 1) % ve = 0 then
          match validateAndClear stepBuggyClear (w.writeRecord r') with
          | .error e => .error e
          | .ok w2 => processRunW stepBuggyClear ve input skip f fuel pos' (count + 1) w2
        else processRunW stepBuggyClear ve input skip f fuel pos' (count + 1) (w.writeRecord r')) = _
      split
      · unfold validateAndClear
        rw [hs1.validate_fail hc1 hne1 hlt]
      · rw [ih pos' (count + 1) _ c1 hs1 hc1 (by omega) (by rw [hf1]; exact hsz), if_neg (by simp [hne1])]

/-- the writer of variant 2 before its first `clear_cache`: as the real one, the cache holding all `count`
    records written so far -/
structure Writer.FreshInv (w : Writer) (count : Nat) : Prop where
  cur : w.cursor = w.file.length
  wr : w.written = w.file.length
  run : ∃ base rs, base.length = 20 ∧ w.file = base ++ imagesOf 20 rs ∧ w.cache = some (cachedOf 20 rs) ∧
    w.writtenCached = (imagesOf 20 rs).length ∧ (∀ r ∈ rs, r.Canon) ∧ rs.length = count

theorem Writer.FreshInv.inv {w : Writer} {n : Nat} (h : w.FreshInv n) : w.Inv := by
  obtain ⟨base, rs, hb, hfile, hc, hwc, hcan, _⟩ := h.run
  refine ⟨h.cur, h.wr, fun c hc' => ⟨base, rs, ?_, ?_, ?_, hcan⟩⟩
  · rw [hb]; exact hfile
  · rw [hc] at hc'; cases hc'; rw [hb]
  · rw [hb]; exact hwc

theorem Writer.FreshInv.writeRecord {w : Writer} {n : Nat} (h : w.FreshInv n) {r : ToolRecord}
    (hcr : r.Canon) : (w.writeRecord r).FreshInv (n + 1) := by
  obtain ⟨base, rs, hb, hfile, hc, hwc, hcan, hn⟩ := h.run
  have hf : (w.writeRecord r).file = w.file ++ Writer.recordImage r w.written := by
    simp only [Writer.writeRecord, h.cur, pwrite_end]
  have hlen : w.file.length = 20 + (imagesOf 20 rs).length := by
    rw [hfile, List.length_append, hb]
  refine ⟨?_, ?_, base, rs ++ [r], hb, ?_, ?_, ?_, ?_, by simp [hn]⟩
  · rw [hf]; simp only [Writer.writeRecord, h.cur, List.length_append]
  · rw [hf]; simp only [Writer.writeRecord, h.wr, List.length_append]
  · rw [hf, imagesOf_append, hfile, h.wr, hlen]
    simp only [imagesOf, List.append_nil, List.append_assoc]
  · simp only [Writer.writeRecord, hc]
    rw [cachedOf_append, h.wr, hlen]
    rfl
  · simp only [Writer.writeRecord, hc, hwc, h.wr]
    rw [imagesOf_append, List.length_append, hlen]
    simp only [imagesOf, List.append_nil]
  · intro x hx
    rcases List.mem_append.mp hx with h' | h'
    · exact hcan x h'
    · simp only [List.mem_singleton] at h'; subst h'; exact hcr

theorem Writer.FreshInv.stale {w : Writer} {n : Nat} (h : w.FreshInv (n + 1)) :
    w.clearCacheBuggy.StaleInv ∧ w.clearCacheBuggy.cache = some [] ∧ w.clearCacheBuggy.file = w.file := by
  obtain ⟨base, rs, hb, hfile, hc, hwc, hcan, hn⟩ := h.run
  unfold Writer.clearCacheBuggy
  rw [hc]
  refine ⟨⟨h.cur, h.wr, ?_, ?_, [], rfl, by simp⟩, rfl, rfl⟩
  · show w.written = 20 + w.writtenCached
    rw [h.wr, hwc, hfile, List.length_append, hb]
  · cases rs with
    | nil => simp at hn
    | cons r1 rs' =>
      exact ⟨base, r1, imagesOf (20 + (Writer.recordImage r1 20).length) rs', hb,
        hcan r1 (List.mem_cons_self ..), by rw [hfile]; rfl⟩

theorem finishW_fresh {ve : Nat} {w : Writer} {n : Nat} (h : w.FreshInv n) (hlen : w.file.length < 2 ^ 64) :
    finishW stepBuggyClear ve w = .ok w.file := by
  unfold finishW validateAndClear
  split
  · rw [h.inv.validate_ok (fun _ => hlen)]
    obtain ⟨_, _, _, _, hc, _⟩ := h.run
    show Except.ok w.clearCacheBuggy.file = _
    unfold Writer.clearCacheBuggy
    rw [hc]
  · rfl

/-- before the first `clear_cache` of variant 2 -/
theorem processRunW_fresh (ve : Nat) (hve : ve ≠ 0) (input : List UInt8) (skip : Bool)
    (f : ToolRecord → Except ToolErr ToolRecord) :
    ∀ (fuel pos count : Nat) (w : Writer), w.FreshInv count → count < ve → input.length ≤ pos + fuel →
      (∀ r ∈ processTrace input skip f fuel pos, r.Canon) →
      ((processTrace input skip f fuel pos).foldl Pearl.writeRecord w.file).length < 2 ^ 64 →
      processRunW stepBuggyClear ve input skip f fuel pos count w =
        if count + (processTrace input skip f fuel pos).length ≤ ve
        then .ok ((processTrace input skip f fuel pos).foldl Pearl.writeRecord w.file)
        else .error .notEqual := by
  intro fuel
  induction fuel with
  | zero =>
    intro pos count w hfr hlt hf _ hsz
    rw [processRunW_zero _ _ _ _ _ _ (by omega), finishW_fresh hfr hsz,
      show processTrace input skip f 0 pos = [] from rfl, if_pos (by simp only [List.length_nil]; omega)]
    rfl
  | succ fuel ih =>
    intro pos count w hfr hlt hf hcan hsz
    rcases processRunW_succ input skip f fuel pos with ⟨htr, h⟩ | ⟨r', pos', hl, htr, h⟩
    · rw [htr] at hsz
      rw [h, htr, finishW_fresh hfr hsz, if_pos (by simp only [List.length_nil]; omega)]
      rfl
    · rw [htr] at hsz hcan
      simp only [List.foldl_cons] at hsz
      rw [h, htr]
      have hfr1 := hfr.writeRecord (hcan r' (List.mem_cons_self ..))
      have hf1 : (w.writeRecord r').file = Pearl.writeRecord w.file r' := Writer.writeRecord_file hfr.inv r'
      have hlt1 : (w.writeRecord r').file.length < 2 ^ 64 := by
        rw [hf1]; exact Nat.lt_of_le_of_lt (foldl_writeRecord_length_le _ _) hsz
      have hcan' : ∀ x ∈ processTrace input skip f fuel pos', x.Canon :=
        fun x hx => hcan x (List.mem_cons_of_mem _ hx)
      simp only [List.length_cons, List.foldl_cons]
      show (if ve ≠ 0 ∧ (count + 1) % ve = 0 then
          match validateAndClear stepBuggyClear (w.writeRecord r') with
          | .error e => .error e
          | .ok w2 => processRunW stepBuggyClear ve input skip f fuel pos' (count + 1) w2
        else processRunW stepBuggyClear ve input skip f fuel pos' (count + 1) (w.writeRecord r')) = _
      by_cases hfull : (count + 1) % ve = 0
      · have hcv : count + 1 = ve := by
          rcases Nat.lt_or_ge (count + 1) ve with hlt' | hge
          · rw [Nat.mod_eq_of_lt hlt'] at hfull; omega
          · omega
        rw [if_pos ⟨hve, hfull⟩]
        obtain ⟨hst, hcn, hfl⟩ := hfr1.stale
        have hvc : validateAndClear stepBuggyClear (w.writeRecord r') = .ok (w.writeRecord r').clearCacheBuggy := by
          unfold validateAndClear
          rw [hfr1.inv.validate_ok (fun _ => hlt1)]
          rfl
        rw [hvc]
        simp only
        rw [processRunW_stale ve hve input skip f fuel pos' (count + 1) _ [] hst hcn (by omega)
          (by rw [hfl, hf1]; exact hsz)]
        by_cases hnil : processTrace input skip f fuel pos' = []
        · rw [hnil, if_pos ⟨rfl, rfl⟩, if_pos (by simp; omega), hfl, hf1]
          rfl
        · rw [if_neg (by simp [hnil]), if_neg]
          have : 0 < (processTrace input skip f fuel pos').length := List.length_pos_iff.mpr hnil
          omega
      · have hcv : count + 1 < ve := by
          rcases Nat.lt_or_ge (count + 1) ve with hlt' | hge
          · exact hlt'
          · have : count + 1 = ve := by omega
            rw [this, Nat.mod_self] at hfull
            exact absurd rfl hfull
        rw [if_neg (by simp [hfull])]
        rw [ih pos' (count + 1) _ hfr1 hcv (by omega) hcan' (by rw [hf1]; exact hsz), hf1]
        have : count + 1 + (processTrace input skip f fuel pos').length =
            count + ((processTrace input skip f fuel pos').length + 1) := by omega
        rw [this]

theorem Writer.afterHeader_fresh {o : List UInt8} (ho : o.length = 20) :
    (Writer.afterHeader true o).FreshInv 0 :=
  ⟨by simp [Writer.afterHeader, ho], by simp [Writer.afterHeader, ho],
    o, [], ho, by simp [imagesOf, Writer.afterHeader], by simp [cachedOf, Writer.afterHeader],
    by simp [imagesOf, Writer.afterHeader], by simp, rfl⟩

/-- what variant 2 returns for `validate_every ≠ 0`: the real result if at most `validate_every` records
    are written, the read-back failure otherwise -/
theorem processBlobWithW_buggyClear (ve : Nat) (hve : ve ≠ 0) (input : List UInt8) (skip : Bool)
    (fRec : Nat → ToolRecord → Except ToolErr ToolRecord)
    (fHdr : Nat → BlobHeader → Except ToolErr BlobHeader)
    (hcan : ∀ r ∈ writtenRecords input skip fRec fHdr, r.Canon)
    (hsz : ∀ out, processBlobWith input skip fRec fHdr = .ok out → out.length < 2 ^ 64) :
    processBlobWithW stepBuggyClear ve input skip fRec fHdr =
      if (writtenRecords input skip fRec fHdr).length ≤ ve then processBlobWithV ve input skip fRec fHdr
      else .error .notEqual := by
  unfold processBlobWithV
  rcases processBlobWithW_cases input skip fRec fHdr with ⟨e, _, h0, h⟩ | ⟨v, o, ho, h1, h2, h⟩
  · rw [h, h, h0, if_pos (by simp)]
  · have hb : (ve != 0) = true := by simpa using hve
    rw [h1] at hcan ⊢
    have hlt := hsz _ h2
    rw [h, h, hb]
    rw [processRunW_fresh ve hve input skip (fRec v) input.length 20 0 _ (Writer.afterHeader_fresh ho)
      (by omega) (by omega) hcan hlt]
    rw [processRunW_real ve input skip (fRec v) input.length 20 0 _ (Writer.afterHeader_inv _ ho)
      (by omega) (fun _ => hcan) (fun _ => hlt)]
    simp only [Nat.zero_add]

theorem liftW_ne_notEqual (x : Except ToolErr (List UInt8)) : liftW x ≠ .error .notEqual := by
  cases x <;> (intro h; cases h)

/-- the exact condition under which variant 2 is invisible: `validate_every = 0`, or at most
    `validate_every` records written -/
theorem buggyClear_invisible_iff (ve : Nat) (input : List UInt8) (skip : Bool)
    (fRec : Nat → ToolRecord → Except ToolErr ToolRecord)
    (fHdr : Nat → BlobHeader → Except ToolErr BlobHeader)
    (hcan : ∀ r ∈ writtenRecords input skip fRec fHdr, r.Canon)
    (hsz : ∀ out, processBlobWith input skip fRec fHdr = .ok out → out.length < 2 ^ 64) :
    processBlobWithW stepBuggyClear ve input skip fRec fHdr = processBlobWithV ve input skip fRec fHdr ↔
      (ve = 0 ∨ (writtenRecords input skip fRec fHdr).length ≤ ve) := by
  by_cases hve : ve = 0
  · subst hve
    simp only [true_or, iff_true]
    exact buggyClear_invisible_zero input skip fRec fHdr
  · rw [processBlobWithW_buggyClear ve hve input skip fRec fHdr hcan hsz]
    by_cases hle : (writtenRecords input skip fRec fHdr).length ≤ ve
    · simp [hle]
    · rw [if_neg hle]
      simp only [hve, hle, or_self, iff_false]
      rw [processBlobWithV_eq ve input skip fRec fHdr (fun _ => hcan) (fun _ => hsz)]
      exact fun h => liftW_ne_notEqual _ h.symm

/-- the size hypothesis of `buggyOffset_invisible_iff` follows from a bound on the real output -/
theorem head_size_of_output {input : List UInt8} {skip : Bool}
    {fRec : Nat → ToolRecord → Except ToolErr ToolRecord}
    {fHdr : Nat → BlobHeader → Except ToolErr BlobHeader} {out : List UInt8}
    (h : processBlobWith input skip fRec fHdr = .ok out) (hlen : out.length < 2 ^ 64) :
    ∀ r ∈ (writtenRecords input skip fRec fHdr).head?, 20 + (Writer.recordImage r 20).length < 2 ^ 64 := by
  obtain ⟨hdr', hout⟩ := processBlobWith_eq_written h
  intro r hr
  cases hw : writtenRecords input skip fRec fHdr with
  | nil => rw [hw] at hr; cases hr
  | cons r1 t =>
    rw [hw] at hr hout
    simp only [List.head?_cons, Option.mem_def, Option.some.injEq] at hr
    subst hr
    rw [hout] at hlen
    simp only [imagesOf, List.length_append, serBlobHeader_length] at hlen
    omega

end Pearl
