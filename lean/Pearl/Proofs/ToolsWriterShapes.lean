import Pearl.Proofs.ToolsWriter
/-
The records `process_blob_with` hands to the writer on the inputs of the C16 statements (produced blobs,
intact, altered in one record, or truncated), and the transfer of the C16 results to every
`validate_every`.
-/
namespace Pearl

/-! ### the records of a produced blob are canonical -/

theorem canon_toTool {klen : Nat} {R : Record} (hwf : R.WF klen) (off : Nat)
    (hr : (R.header.final off).InRange) : (R.toTool off).Canon := by
  obtain ⟨_, h2, h3, _, _, h6⟩ := hr
  have hms : (serMeta R.mt).length < 2 ^ 64 := by
    have : (R.header.final off).metaSize = (serMeta R.mt).length := hwf.msize
    omega
  refine ⟨hwf.magic, h2, h6, ?_, hwf.dsize, hwf.dcrc.symm, ?_⟩
  · show R.header.metaSize = (serMetaEntries (metaEntries R.mt)).length
    rw [serMetaEntries_metaEntries]; exact hwf.msize
  · show deserMeta (serMetaEntries (metaEntries R.mt)) = some (metaEntries R.mt)
    have := deserMeta_serMeta R.mt hms []
    rwa [List.append_nil, ← serMetaEntries_metaEntries] at this

theorem canon_migrated {klen : Nat} {R : Record} (hwf : R.WF klen) (off : Nat)
    (hr : (R.header.final off).InRange) :
    ToolRecord.Canon { header := (R.toTool off).header.withReversedKeyBytes, mt := (R.toTool off).mt,
                       data := (R.toTool off).data } := by
  have hc := canon_toTool hwf off hr
  refine ⟨hc.magic, ?_, hc.ts, hc.msize, hc.dsize, hc.dcrc, hc.mrt⟩
  show ((R.toTool off).header.key.reverse).length < 2 ^ 64
  rw [List.length_reverse]; exact hc.klen

/-! ### the trace over an intact run, and past a damaged record -/

theorem processTrace_eof {input : List UInt8} {pos : Nat} (h : input.length ≤ pos) (skip : Bool)
    (f : ToolRecord → Except ToolErr ToolRecord) (k : Nat) : processTrace input skip f k pos = [] := by
  cases k <;> simp [processTrace, isEof_true h]

theorem processTrace_step {input : List UInt8} {skip : Bool} {f : ToolRecord → Except ToolErr ToolRecord}
    {pos pos' k : Nat} {r r' : ToolRecord} (hlt : pos < input.length)
    (hrd : readRecord input skip pos = .ok (r, pos')) (hf : f r = .ok r') :
    processTrace input skip f (k + 1) pos = r' :: processTrace input skip f k pos' := by
  rw [processTrace, isEof_false hlt, hrd]
  simp only [Bool.false_eq_true, ↓reduceIte, hf]

theorem processTrace_stop {input : List UInt8} {skip : Bool} {f : ToolRecord → Except ToolErr ToolRecord}
    {pos k : Nat} {e : ToolErr} (hrd : readRecord input skip pos = .error e) :
    processTrace input skip f k pos = [] := by
  cases k with
  | zero => rfl
  | succ k =>
    rw [processTrace, hrd]
    split <;> rfl

/-- over an intact run of records, one record is handed to the writer per record of the run, and it is `f`
    of it -/
theorem processTrace_tail_eq {klen : Nat} (input : List UInt8) (skip : Bool)
    (f : ToolRecord → Except ToolErr ToolRecord) (P : ToolRecord → Prop) (Rs : List Record)
    (hfg : ∀ R ∈ Rs, ∀ off, (R.header.final off).InRange → ∃ r', f (R.toTool off) = .ok r' ∧ P r') :
    ∀ (pre rest : List UInt8) (k : Nat),
      input = pre ++ (tailOf pre.length Rs ++ rest) → input.length < 2 ^ 64 → GoodRecs klen Rs →
      ∃ L, processTrace input skip f (Rs.length + k) pre.length =
          L ++ processTrace input skip f k (pre.length + (tailOf pre.length Rs).length) ∧
        L.length = Rs.length ∧ ∀ r ∈ L, P r := by
  induction Rs with
  | nil => intro pre rest k _ _ _; exact ⟨[], by simp [tailOf], rfl, by simp⟩
  | cons R Rs ih =>
    intro pre rest k hf hlen hg
    obtain ⟨hf', hrng, hm, hlt⟩ := head_facts hf hlen hg
    have hstep := readSingleRecord_image pre (tailOf (pre ++ R.image pre.length).length Rs ++ rest) R
      hg.head.1 pre.length rfl hrng hm
    rw [← hf'] at hstep
    obtain ⟨r', hfr, hP⟩ := hfg R (List.mem_cons_self ..) pre.length hrng
    obtain ⟨L, hL, hLl, hLP⟩ := ih (fun R' hR' => hfg R' (List.mem_cons_of_mem _ hR'))
      (pre ++ R.image pre.length) rest k (by rw [hf']; simp only [List.append_assoc]) hlen hg.tail
    rw [List.length_append] at hL
    refine ⟨r' :: L, ?_, by simp [hLl], ?_⟩
    · rw [show (R :: Rs).length + k = (Rs.length + k) + 1 by simp only [List.length_cons]; omega,
        processTrace_step hlt (readRecord_of_ok hstep) hfr, hL]
      simp only [tailOf, List.length_append, Nat.add_assoc, List.cons_append]
    · intro r hr
      rcases List.mem_cons.mp hr with rfl | hr
      · exact hP
      · exact hLP r hr

theorem processTrace_tail {klen : Nat} (input : List UInt8) (skip : Bool)
    (f : ToolRecord → Except ToolErr ToolRecord) (P : ToolRecord → Prop) (Rs : List Record)
    (hfg : ∀ R ∈ Rs, ∀ off, (R.header.final off).InRange → ∃ r', f (R.toTool off) = .ok r' ∧ P r')
    (pre rest : List UInt8) (k : Nat)
    (hf : input = pre ++ (tailOf pre.length Rs ++ rest)) (hlen : input.length < 2 ^ 64)
    (hg : GoodRecs klen Rs) :
    ∀ r ∈ processTrace input skip f (Rs.length + k) pre.length,
      P r ∨ r ∈ processTrace input skip f k (pre.length + (tailOf pre.length Rs).length) := by
  obtain ⟨L, hL, _, hLP⟩ := processTrace_tail_eq (klen := klen) input skip f P Rs hfg pre rest k hf hlen hg
  intro r hr
  rw [hL] at hr
  rcases List.mem_append.mp hr with h | h
  · exact Or.inl (hLP r h)
  · exact Or.inr h

/-- without skipping, nothing is written after the damaged record -/
theorem processTrace_damaged_noskip {klen : Nat} (input : List UInt8)
    (f : ToolRecord → Except ToolErr ToolRecord) (P : ToolRecord → Prop) (Rs : List Record)
    (hfg : ∀ R ∈ Rs, ∀ off, (R.header.final off).InRange → ∃ r', f (R.toTool off) = .ok r' ∧ P r')
    (pre rest : List UInt8) (k next : Nat)
    (hf : input = pre ++ (tailOf pre.length Rs ++ rest)) (hlen : input.length < 2 ^ 64)
    (hg : GoodRecs klen Rs)
    (hd : DamagedAt input (pre.length + (tailOf pre.length Rs).length) next) :
    ∀ r ∈ processTrace input false f (Rs.length + k) pre.length, P r := by
  intro r hr
  rcases processTrace_tail (klen := klen) input false f P Rs hfg pre rest k hf hlen hg r hr with h | h
  · exact h
  · obtain ⟨e, he⟩ := hd.readRecord_false
    rw [processTrace_stop he] at h
    cases h

/-- with skipping, the records after the damaged one follow -/
theorem processTrace_damaged_skip {klen : Nat} (input : List UInt8)
    (f : ToolRecord → Except ToolErr ToolRecord) (P : ToolRecord → Prop) (Rs1 Rs2 : List Record)
    (hfg : ∀ R ∈ Rs1 ++ Rs2, ∀ off, (R.header.final off).InRange →
      ∃ r', f (R.toTool off) = .ok r' ∧ P r')
    (pre X : List UInt8) (k next : Nat)
    (hn : next = pre.length + (tailOf pre.length Rs1).length + X.length)
    (hf : input = pre ++ (tailOf pre.length Rs1 ++ (X ++ tailOf next Rs2))) (hlen : input.length < 2 ^ 64)
    (hg1 : GoodRecs klen Rs1) (hg2 : GoodRecs klen Rs2)
    (hd : DamagedAt input (pre.length + (tailOf pre.length Rs1).length) next) :
    ∀ r ∈ processTrace input true f (Rs1.length + (Rs2.length + k)) pre.length, P r := by
  intro r hr
  rcases processTrace_tail (klen := klen) input true f P Rs1
    (fun R hR => hfg R (List.mem_append_left _ hR)) pre (X ++ tailOf next Rs2) _ hf hlen hg1 r hr with h | h
  · exact h
  have hil : input.length = next + (tailOf next Rs2).length := by
    rw [hf, hn]; simp only [List.length_append]; omega
  cases Rs2 with
  | nil =>
    obtain ⟨e, he⟩ := hd.2.2 (by rw [hil]; simp [tailOf])
    rw [processTrace_stop he] at h
    cases h
  | cons R2 Rs2 =>
    have hpre2 : (pre ++ (tailOf pre.length Rs1 ++ X)).length = next := by
      rw [hn]; simp only [List.length_append]; omega
    have hf2 : input = (pre ++ (tailOf pre.length Rs1 ++ X)) ++
        (tailOf (pre ++ (tailOf pre.length Rs1 ++ X)).length (R2 :: Rs2) ++ []) := by
      rw [hpre2, hf]; simp only [List.append_assoc, List.append_nil]
    obtain ⟨hf2', hrng, hm, hlt⟩ := head_facts hf2 hlen hg2
    rw [hpre2] at hlt hf2' hrng
    have hstep := readSingleRecord_image (pre ++ (tailOf pre.length Rs1 ++ X))
      (tailOf (pre ++ (tailOf pre.length Rs1 ++ X) ++ R2.image next).length Rs2 ++ []) R2
      hg2.head.1 next hpre2 hrng hm
    rw [← hf2'] at hstep
    obtain ⟨r', hfr, hP⟩ := hfg R2 (List.mem_append_right _ (List.mem_cons_self ..)) next hrng
    have hlt1 : pre.length + (tailOf pre.length Rs1).length < input.length := by omega
    have hrd : readRecord input true (pre.length + (tailOf pre.length Rs1).length) =
        .ok (R2.toTool next, next + (R2.image next).length) := by
      rw [hd.2.1 hlt, hstep]
    rw [show (R2 :: Rs2).length + k = (Rs2.length + k) + 1 by simp only [List.length_cons]; omega,
      processTrace_step hlt1 hrd hfr] at h
    rcases List.mem_cons.mp h with rfl | h
    · exact hP
    have hl2 : ((pre ++ (tailOf pre.length Rs1 ++ X)) ++ R2.image next).length =
        next + (R2.image next).length := by rw [List.length_append, hpre2]
    have hrest := processTrace_tail (klen := klen) input true f P Rs2
      (fun R hR => hfg R (List.mem_append_right _ (List.mem_cons_of_mem _ hR)))
      ((pre ++ (tailOf pre.length Rs1 ++ X)) ++ R2.image next) [] k
      (by
        rw [hl2, List.append_nil]
        conv => lhs; rw [hf]
        simp only [tailOf, List.append_assoc])
      hlen hg2.tail r (by rw [hl2]; exact h)
    rcases hrest with h' | h'
    · exact h'
    · rw [hl2, processTrace_eof (by rw [hil]; simp only [tailOf, List.length_append]; omega)] at h'
      cases h'

/-! ### whole files -/

theorem writtenRecords_unfold (rest : List UInt8) (skip : Bool)
    (fRec : Nat → ToolRecord → Except ToolErr ToolRecord)
    (fHdr : Nat → BlobHeader → Except ToolErr BlobHeader) (b b' : BlobHeader)
    (hr : b.InRange) (hm : b.magicByte = BLOB_MAGIC_BYTE)
    (hr' : b'.InRange) (hm' : b'.magicByte = BLOB_MAGIC_BYTE) (hfh : fHdr b.version b = .ok b') :
    writtenRecords (serBlobHeader b ++ rest) skip fRec fHdr =
      processTrace (serBlobHeader b ++ rest) skip (fRec b.version) (serBlobHeader b ++ rest).length 20 := by
  unfold writtenRecords
  rw [readBlobHeader_ser b _ hr hm]
  simp only [hfh, writeHeader_ok b' hr' hm']

/-- on an intact blob every record handed to the writer is `fRec` of one of its records -/
theorem writtenRecords_intact {klen : Nat} (skip : Bool)
    (fRec : Nat → ToolRecord → Except ToolErr ToolRecord)
    (fHdr : Nat → BlobHeader → Except ToolErr BlobHeader) (P : ToolRecord → Prop)
    (b b' : BlobHeader) (Rs : List Record) (hr : b.InRange) (hm : b.magicByte = BLOB_MAGIC_BYTE)
    (hr' : b'.InRange) (hm' : b'.magicByte = BLOB_MAGIC_BYTE) (hfh : fHdr b.version b = .ok b')
    (hfg : ∀ R ∈ Rs, ∀ off, (R.header.final off).InRange →
      ∃ r', fRec b.version (R.toTool off) = .ok r' ∧ P r')
    (hg : GoodRecs klen Rs) (hlen : (serBlobHeader b ++ tailOf 20 Rs).length < 2 ^ 64) :
    ∀ r ∈ writtenRecords (serBlobHeader b ++ tailOf 20 Rs) skip fRec fHdr, P r := by
  rw [writtenRecords_unfold _ skip fRec fHdr b b' hr hm hr' hm' hfh]
  have hl : (serBlobHeader b ++ tailOf 20 Rs).length = 20 + (tailOf 20 Rs).length := by
    simp [serBlobHeader_length]
  have hge := tailOf_length_ge 20 Rs
  obtain ⟨k, hk⟩ : ∃ k, (serBlobHeader b ++ tailOf 20 Rs).length = Rs.length + k :=
    ⟨(serBlobHeader b ++ tailOf 20 Rs).length - Rs.length, by omega⟩
  intro r hr0
  rw [hk] at hr0
  have := processTrace_tail (klen := klen) (serBlobHeader b ++ tailOf 20 Rs) skip (fRec b.version) P Rs hfg
    (serBlobHeader b) [] k (by simp [serBlobHeader_length]) hlen hg r
    (by rw [serBlobHeader_length]; exact hr0)
  rcases this with h | h
  · exact h
  · rw [serBlobHeader_length, processTrace_eof (by omega)] at h
    cases h

/-- on an intact blob one record is handed to the writer per record of the blob -/
theorem writtenRecords_intact_length {klen : Nat} (skip : Bool)
    (fRec : Nat → ToolRecord → Except ToolErr ToolRecord)
    (fHdr : Nat → BlobHeader → Except ToolErr BlobHeader)
    (b b' : BlobHeader) (Rs : List Record) (hr : b.InRange) (hm : b.magicByte = BLOB_MAGIC_BYTE)
    (hr' : b'.InRange) (hm' : b'.magicByte = BLOB_MAGIC_BYTE) (hfh : fHdr b.version b = .ok b')
    (hfg : ∀ R ∈ Rs, ∀ off, (R.header.final off).InRange →
      ∃ r', fRec b.version (R.toTool off) = .ok r' ∧ True)
    (hg : GoodRecs klen Rs) (hlen : (serBlobHeader b ++ tailOf 20 Rs).length < 2 ^ 64) :
    (writtenRecords (serBlobHeader b ++ tailOf 20 Rs) skip fRec fHdr).length = Rs.length := by
  rw [writtenRecords_unfold _ skip fRec fHdr b b' hr hm hr' hm' hfh]
  have hl : (serBlobHeader b ++ tailOf 20 Rs).length = 20 + (tailOf 20 Rs).length := by
    simp [serBlobHeader_length]
  have hge := tailOf_length_ge 20 Rs
  obtain ⟨k, hk⟩ : ∃ k, (serBlobHeader b ++ tailOf 20 Rs).length = Rs.length + k :=
    ⟨(serBlobHeader b ++ tailOf 20 Rs).length - Rs.length, by omega⟩
  obtain ⟨L, hL, hLl, _⟩ := processTrace_tail_eq (klen := klen) (serBlobHeader b ++ tailOf 20 Rs) skip
    (fRec b.version) (fun _ => True) Rs hfg (serBlobHeader b) [] k (by simp [serBlobHeader_length]) hlen hg
  rw [serBlobHeader_length] at hL
  rw [hk, hL, processTrace_eof (by omega), List.append_nil, hLl]

/-- the inputs of `tools_damaged`: a produced blob whose record after the intact run `Rs1` does not read,
    followed by the intact run `Rs2` -/
structure DamagedShape (klen : Nat) (input : List UInt8) (Rs1 Rs2 : List Record) : Prop where
  shape : ∃ (X : List UInt8) (next : Nat), next = 20 + (tailOf 20 Rs1).length + X.length ∧ X ≠ [] ∧
    input = serBlobHeader ++ (tailOf 20 Rs1 ++ (X ++ tailOf next Rs2)) ∧
    DamagedAt input (20 + (tailOf 20 Rs1).length) next
  len : input.length < 2 ^ 64
  good1 : GoodRecs klen Rs1
  good2 : GoodRecs klen Rs2

theorem DamagedShape.tools {klen : Nat} {input : List UInt8} {Rs1 Rs2 : List Record}
    (h : DamagedShape klen input Rs1 Rs2) :
    (∃ e, validateBlob input = .error e) ∧
    recoveryBlob input false = .ok (appendRecords serBlobHeader Rs1) ∧
    recoveryBlob input true = .ok (appendRecords serBlobHeader (Rs1 ++ Rs2)) := by
  obtain ⟨X, next, hn, hX, hf, hd⟩ := h.shape
  exact tools_damaged Rs1 Rs2 X next hn hX input hf h.len h.good1 h.good2 hd

theorem hfg_id_canon {klen : Nat} {Rs : List Record} (hg : GoodRecs klen Rs) :
    ∀ R ∈ Rs, ∀ off, (R.header.final off).InRange →
      ∃ r', (fun r => (Except.ok r : Except ToolErr ToolRecord)) (R.toTool off) = .ok r' ∧ r'.Canon :=
  fun R hR off hr => ⟨R.toTool off, rfl, canon_toTool (hg R hR).1 off hr⟩

/-- on such an input recovery hands only canonical records to the writer -/
theorem DamagedShape.written_canon {klen : Nat} {input : List UInt8} {Rs1 Rs2 : List Record}
    (h : DamagedShape klen input Rs1 Rs2) (skip : Bool) :
    ∀ r ∈ writtenRecords input skip (fun _ r => .ok r) (fun _ h => .ok h), r.Canon := by
  obtain ⟨X, next, hn, hX, hf, hd⟩ := h.shape
  have hlen := h.len
  have hXl : 0 < X.length := List.length_pos_iff.mpr hX
  have hil : input.length = 20 + (tailOf 20 Rs1).length + X.length + (tailOf next Rs2).length := by
    rw [hf]; simp only [List.length_append, serBlobHeader_length]; omega
  have hge1 := tailOf_length_ge 20 Rs1
  have hge2 := tailOf_length_ge next Rs2
  obtain ⟨k, hk⟩ : ∃ k, input.length = Rs1.length + (Rs2.length + k) :=
    ⟨input.length - Rs1.length - Rs2.length, by omega⟩
  have hf' : input = serBlobHeader ++ (tailOf (serBlobHeader).length Rs1 ++ (X ++ tailOf next Rs2)) := by
    rw [serBlobHeader_length]; exact hf
  have hd' : DamagedAt input ((serBlobHeader).length + (tailOf (serBlobHeader).length Rs1).length) next := by
    rw [serBlobHeader_length]; exact hd
  have hwr : writtenRecords input skip (fun _ r => .ok r) (fun _ h => .ok h) =
      processTrace input skip (fun r => .ok r) input.length 20 := by
    conv => lhs; rw [hf]
    rw [writtenRecords_unfold _ skip _ _ BlobHeader.new BlobHeader.new blobHeaderNew_inRange
      blobHeaderNew_magic blobHeaderNew_inRange blobHeaderNew_magic rfl, ← hf]
  rw [hwr]
  cases skip
  · have := processTrace_damaged_noskip (klen := klen) input (fun r => .ok r) ToolRecord.Canon Rs1
      (hfg_id_canon h.good1) serBlobHeader (X ++ tailOf next Rs2) (Rs2.length + k) next hf' hlen
      h.good1 hd'
    rw [serBlobHeader_length, ← hk] at this
    exact this
  · have := processTrace_damaged_skip (klen := klen) input (fun r => .ok r) ToolRecord.Canon Rs1 Rs2
      (hfg_id_canon (h.good1.append h.good2)) serBlobHeader X k next
      (by rw [serBlobHeader_length]; exact hn) hf' hlen h.good1 h.good2 hd'
    rw [serBlobHeader_length, ← hk] at this
    exact this

theorem appendRecords_length (Rs : List Record) :
    (appendRecords serBlobHeader Rs).length = 20 + (Rs.map Record.size).sum := by
  rw [appendRecords_eq, List.length_append, serBlobHeader_length, tailOf_length]

/-- (1) on a damaged produced blob -/
theorem DamagedShape.recoveryV {klen : Nat} {input : List UInt8} {Rs1 Rs2 : List Record}
    (h : DamagedShape klen input Rs1 Rs2) (ve : Nat) (skip : Bool) :
    recoveryBlobV ve input skip = liftW (recoveryBlob input skip) := by
  apply processBlobWithV_eq ve input skip _ _ (fun _ => h.written_canon skip)
  intro _ out hout
  obtain ⟨X, next, hn, hX, hf, hd⟩ := h.shape
  have hil : input.length = 20 + (tailOf 20 Rs1).length + X.length + (tailOf next Rs2).length := by
    rw [hf]; simp only [List.length_append, serBlobHeader_length]; omega
  have hlen := h.len
  rw [tailOf_length, tailOf_length] at hil
  obtain ⟨_, h1, h2⟩ := h.tools
  cases skip
  · rw [show processBlobWith input false (fun _ r => .ok r) (fun _ h => .ok h) = recoveryBlob input false
      from rfl, h1] at hout
    cases hout
    rw [appendRecords_length]; omega
  · rw [show processBlobWith input true (fun _ r => .ok r) (fun _ h => .ok h) = recoveryBlob input true
      from rfl, h2] at hout
    cases hout
    rw [appendRecords_length, List.map_append, List.sum_append]; omega

/-! ### the C16 inputs -/

/-- a produced blob with record `i` altered has the shape `tools_damaged` needs (the proof is that of
    `flipIn_tools`, which only exports the results of the tools) -/
theorem flipIn_shape (klen : Nat) (recs : List (Rec × List UInt8)) (i : Nat) (input : List UInt8)
    (hlen : (blobBytes klen recs).length < 2 ^ 64) (hts : ∀ x ∈ recs, x.1.ts < 2 ^ 64)
    (hflip : FlipIn klen recs i input) :
    DamagedShape klen input ((recordsOf klen recs).take i) ((recordsOf klen recs).drop (i + 1)) := by
  obtain ⟨p, w1, w2, s, h, hb, hin, hl, h4, hne, hh, hwhere⟩ := hflip
  have hgood := goodRecs_recordsOf klen recs hts
  have hi : i < (recordsOf klen recs).length := by
    have := (List.getElem?_eq_some_iff.mp hh).1
    rwa [blobHeaders, writtenHeaders_length] at this
  have hhf := writtenHeaders_getElem? (recordsOf klen recs) i hi
  rw [show writtenHeaders serBlobHeader (recordsOf klen recs) = blobHeaders klen recs from rfl, hh] at hhf
  have hhf := Option.some.inj hhf
  have hsplit := blob_split (recordsOf klen recs) i hi
  rw [show appendRecords serBlobHeader (recordsOf klen recs) = blobBytes klen recs from rfl] at hsplit
  have hwf : ((recordsOf klen recs)[i]).WF klen := (hgood _ (List.getElem_mem hi)).1
  have htsR := (hgood _ (List.getElem_mem hi)).2
  -- names
  generalize hT1 : tailOf 20 ((recordsOf klen recs).take i) = T1 at hhf hsplit
  generalize hR : (recordsOf klen recs)[i] = R at hhf hsplit hwf htsR
  generalize hoff : 20 + T1.length = off at hhf hsplit
  generalize hT2 : tailOf (off + (R.image off).length) ((recordsOf klen recs).drop (i + 1)) = T2 at hsplit
  have him := R.image_length off
  rw [hwf.key] at him
  have hble : off + (R.image off).length ≤ (blobBytes klen recs).length := by
    rw [hsplit]; simp only [List.length_append, serBlobHeader_length]; omega
  have hr : (R.header.final off).InRange := final_inRange hwf off htsR (by omega)
  have hkl : (R.header.final off).key.length = klen := hwf.key
  have hms : (R.header.final off).metaSize = (serMeta R.mt).length := hwf.msize
  have hds : (R.header.final off).dataSize = R.data.length := hwf.dsize
  have hpre : (serBlobHeader ++ T1).length = off := by
    rw [List.length_append, serBlobHeader_length, hoff]
  have hinlen : input.length = (blobBytes klen recs).length := by
    rw [hin, hb]; simp [hl]
  have hfin : ∀ (Xd : List UInt8), Xd.length = (R.image off).length →
      input = (serBlobHeader ++ T1) ++ (Xd ++ T2) →
      DamagedAt input off (off + (R.image off).length) →
      DamagedShape klen input ((recordsOf klen recs).take i) ((recordsOf klen recs).drop (i + 1)) := by
    intro Xd hXl hinX hd
    exact ⟨⟨Xd, off + (R.image off).length, by rw [hT1, hoff, hXl],
      by intro h0; rw [h0] at hXl; simp at hXl; omega,
      by rw [hT1, hT2, hinX, List.append_assoc], by rw [hT1, hoff]; exact hd⟩,
      by omega, hgood.take i, hgood.drop (i + 1)⟩
  subst hhf
  rcases hwhere with ⟨hd1, hd2⟩ | ⟨hh1, hh2, hh3⟩
  · -- inside the data
    have hdo : (R.header.final off).dataOffset = off + (57 + klen) + (serMeta R.mt).length := by
      simp only [RecHeader.dataOffset, RecHeader.metaOffset, RecHeader.serializedSize, hkl, hms]
      rfl
    rw [hdo] at hd1 hd2
    rw [hds] at hd2
    have hX : p ++ w1 ++ s = (serBlobHeader ++ (T1 ++ (serHeader (R.header.final off) ++ serMeta R.mt))) ++
        (R.data ++ T2) := by
      rw [← hb, hsplit, image_eq]; simp only [List.append_assoc]
    have hXlen : (serBlobHeader ++ (T1 ++ (serHeader (R.header.final off) ++ serMeta R.mt))).length =
        off + (57 + klen) + (serMeta R.mt).length := by
      simp only [List.length_append, serBlobHeader_length, serHeader_length, hkl]; omega
    obtain ⟨d1, d2, hp, hdata, hs⟩ := window_in_middle hX (by omega) (by omega)
    have hDl : (d1 ++ w2 ++ d2).length = R.data.length := by
      rw [hdata]; simp [hl]
    have hcrc : crc32c (d1 ++ w2 ++ d2) ≠ (R.header.final off).dataChecksum := by
      rw [show (R.header.final off).dataChecksum = R.header.dataChecksum from rfl, hwf.dcrc, hdata]
      exact (crc32c_window_split d1 w1 w2 d2 hl h4 hne).symm
    have hinX : input = (serBlobHeader ++ T1) ++
        ((serHeader (R.header.final off) ++ (serMeta R.mt ++ (d1 ++ w2 ++ d2))) ++ T2) := by
      rw [hin, hp, hs]; simp only [List.append_assoc]
    have hd := damagedAt_parts (serBlobHeader ++ T1) T2 (R.header.final off) R.mt (d1 ++ w2 ++ d2) off
      hpre hr hms (by rw [hds, hDl]) (by rw [← hinX]; omega) (Or.inr hcrc)
    rw [← hinX, hkl, hDl] at hd
    refine hfin _ ?_ hinX (by rw [him]; simpa only [Nat.add_assoc] using hd)
    rw [him]; simp only [List.length_append, serHeader_length, hkl] at hDl ⊢; omega
  · -- inside the header
    have hbo : (R.header.final off).blobOffset = off := rfl
    rw [hbo] at hh1 hh2 hh3
    rw [hkl] at hh2 hh3
    have hX : p ++ w1 ++ s = (serBlobHeader ++ T1) ++
        (serHeader (R.header.final off) ++ ((serMeta R.mt ++ R.data) ++ T2)) := by
      rw [← hb, hsplit, image_eq]; simp only [List.append_assoc]
    obtain ⟨a, c, hp, hH, hs⟩ := window_in_middle hX (by omega)
      (by rw [serHeader_length, hkl]; omega)
    have hpl : p.length = off + a.length := by rw [hp, List.length_append, hpre]
    have hH'l : (a ++ w2 ++ c).length = (serHeader (R.header.final off)).length := by
      rw [hH]; simp [hl]
    have hv : headerValidate (R.header.final off) = .ok () := headerValidate_final _ _ hwf.magic
    obtain ⟨hser, hr', hkl', hms', hds', hbad⟩ := header_window (R.header.final off) hr hkl hv
      (a ++ w2 ++ c) a.length w1.length h4 hH'l
      (by rw [hH]; exact window_hout a w1 w2 c hl)
      (by rw [hH]; intro he; simp only [List.append_assoc, List.append_cancel_left_eq,
            List.append_cancel_right_eq] at he; exact hne he.symm)
      (by omega)
    have hinX : input = (serBlobHeader ++ T1) ++
        ((serHeader (hdrOfBytes klen (a ++ w2 ++ c)) ++ (serMeta R.mt ++ R.data)) ++ T2) := by
      rw [hser, hin, hp, hs]; simp only [List.append_assoc]
    have hd := damagedAt_parts (serBlobHeader ++ T1) T2 (hdrOfBytes klen (a ++ w2 ++ c)) R.mt R.data off
      hpre hr' (by rw [hms', hms]) (by rw [hds', hds]) (by rw [← hinX]; omega)
      (by
        rcases hbad with hb1 | hb2
        · exact Or.inl hb1
        · right
          rw [← hwf.dcrc]
          exact fun he => hb2 he.symm)
    rw [← hinX, hkl'] at hd
    refine hfin _ ?_ hinX (by rw [him]; simpa only [Nat.add_assoc] using hd)
    rw [him]; simp only [List.length_append, serHeader_length, hkl']; omega

/-- a produced blob truncated inside record `i` has the shape `tools_damaged` needs (the proof is that of
    `cutIn_tools`) -/
theorem cutIn_shape (klen : Nat) (recs : List (Rec × List UInt8)) (i t : Nat)
    (hlen : (blobBytes klen recs).length < 2 ^ 64) (hts : ∀ x ∈ recs, x.1.ts < 2 ^ 64)
    (hc : CutIn klen recs i t) :
    DamagedShape klen ((blobBytes klen recs).take t) ((recordsOf klen recs).take i) [] := by
  obtain ⟨hi, htake, hk⟩ := blobBytes_take_cut klen recs i t hc
  have hgood := goodRecs_recordsOf klen recs hts
  have hwf := (hgood _ (List.getElem_mem hi)).1
  have htsR := (hgood _ (List.getElem_mem hi)).2
  have hpre : blobBytes klen (recs.take i) = serBlobHeader ++ tailOf 20 ((recordsOf klen recs).take i) := by
    rw [blobBytes_eq, recordsOf_take]
  have hpl : (blobBytes klen (recs.take i)).length = 20 + (tailOf 20 ((recordsOf klen recs).take i)).length := by
    rw [hpre, List.length_append, serBlobHeader_length]
  have hle := blobBytes_take_succ_length klen recs i hi
  have hle2 := blobBytes_take_length_le klen recs (i + 1)
  generalize hR : (recordsOf klen recs)[i] = R at htake hk hwf htsR hle
  generalize hoff : (blobBytes klen (recs.take i)).length = off at htake hk hpl hle hc
  generalize hkk : t - off = k at htake hk
  have hkpos : 0 < k := by have := hc.2.1; omega
  have him := R.image_length off
  have hsz : off + R.size ≤ (blobBytes klen recs).length := by omega
  unfold Record.size at hsz
  have hr : (R.header.final off).InRange := final_inRange hwf off htsR (by rw [him]; omega)
  have hXl : ((R.image off).take k).length = k := by rw [List.length_take]; omega
  have hinl : ((blobBytes klen recs).take t).length = off + k := by
    rw [htake, List.length_append, hoff, hXl]
  have hread := readSingleRecord_truncated (blobBytes klen (recs.take i)) R hwf off hoff hr
    (by omega) k hk
  rw [← htake] at hread
  exact ⟨⟨(R.image off).take k, off + k, by rw [hXl, hpl],
    by intro h0; rw [h0] at hXl; simp at hXl; omega,
    by rw [htake, hpre]; simp only [tailOf, List.append_nil, List.append_assoc],
    by rw [← hpl]; exact damagedAt_other hread (by omega)⟩,
    by rw [hinl]; rw [him] at hk; omega, hgood.take i, fun _ h => by cases h⟩

/-! ### the C16 results for every `validate_every` -/

theorem written_canon_produced (klen : Nat) (recs : List (Rec × List UInt8)) (skip : Bool)
    (hlen : (blobBytes klen recs).length < 2 ^ 64) (hts : ∀ x ∈ recs, x.1.ts < 2 ^ 64) :
    ∀ r ∈ writtenRecords (blobBytes klen recs) skip (fun _ r => .ok r) (fun _ h => .ok h), r.Canon := by
  have hgood := goodRecs_recordsOf klen recs hts
  rw [blobBytes_eq] at hlen ⊢
  exact writtenRecords_intact (klen := klen) skip _ _ ToolRecord.Canon BlobHeader.new BlobHeader.new
    (recordsOf klen recs) blobHeaderNew_inRange rfl blobHeaderNew_inRange rfl rfl
    (hfg_id_canon hgood) hgood hlen

theorem written_length_produced (klen : Nat) (recs : List (Rec × List UInt8)) (skip : Bool)
    (hlen : (blobBytes klen recs).length < 2 ^ 64) (hts : ∀ x ∈ recs, x.1.ts < 2 ^ 64) :
    (writtenRecords (blobBytes klen recs) skip (fun _ r => .ok r) (fun _ h => .ok h)).length =
      recs.length := by
  have hgood := goodRecs_recordsOf klen recs hts
  rw [blobBytes_eq] at hlen ⊢
  rw [writtenRecords_intact_length (klen := klen) skip _ _ BlobHeader.new BlobHeader.new
    (recordsOf klen recs) blobHeaderNew_inRange rfl blobHeaderNew_inRange rfl rfl
    (fun R _ off _ => ⟨R.toTool off, rfl, trivial⟩) hgood hlen, recordsOf_length]

theorem recoveryBlobV_intact (klen : Nat) (recs : List (Rec × List UInt8)) (ve : Nat) (skip : Bool)
    (hlen : (blobBytes klen recs).length < 2 ^ 64) (hts : ∀ x ∈ recs, x.1.ts < 2 ^ 64) :
    recoveryBlobV ve (blobBytes klen recs) skip = .ok (blobBytes klen recs) := by
  have hgood := goodRecs_recordsOf klen recs hts
  have hres := recoveryBlob_intact klen recs skip hlen hts
  have hcan : ∀ r ∈ writtenRecords (blobBytes klen recs) skip (fun _ r => .ok r) (fun _ h => .ok h),
      r.Canon := by
    rw [blobBytes_eq] at hlen ⊢
    exact writtenRecords_intact (klen := klen) skip _ _ ToolRecord.Canon BlobHeader.new BlobHeader.new
      (recordsOf klen recs) blobHeaderNew_inRange rfl blobHeaderNew_inRange rfl rfl
      (hfg_id_canon hgood) hgood hlen
  have := processBlobWithV_eq ve (blobBytes klen recs) skip (fun _ r => .ok r) (fun _ h => .ok h) (fun _ => hcan)
    (by
      intro _ out hout
      rw [show processBlobWith (blobBytes klen recs) skip (fun _ r => .ok r) (fun _ h => .ok h) =
        recoveryBlob (blobBytes klen recs) skip from rfl, hres] at hout
      cases hout; exact hlen)
  rw [show processBlobWith (blobBytes klen recs) skip (fun _ r => .ok r) (fun _ h => .ok h) =
    recoveryBlob (blobBytes klen recs) skip from rfl, hres] at this
  exact this

theorem recoveryBlobV_flip (klen : Nat) (recs : List (Rec × List UInt8)) (i : Nat) (input : List UInt8)
    (ve : Nat) (hlen : (blobBytes klen recs).length < 2 ^ 64) (hts : ∀ x ∈ recs, x.1.ts < 2 ^ 64)
    (hflip : FlipIn klen recs i input) :
    recoveryBlobV ve input false = .ok (blobBytes klen (recs.take i)) ∧
    recoveryBlobV ve input true = .ok (blobBytes klen (recs.eraseIdx i)) := by
  have hsh := flipIn_shape klen recs i input hlen hts hflip
  obtain ⟨_, h1, h2⟩ := flipIn_tools klen recs i input hlen hts hflip
  exact ⟨by rw [hsh.recoveryV ve false, h1]; rfl, by rw [hsh.recoveryV ve true, h2]; rfl⟩

theorem recoveryBlobV_truncated (klen : Nat) (recs : List (Rec × List UInt8)) (i t : Nat) (ve : Nat)
    (skip : Bool) (hlen : (blobBytes klen recs).length < 2 ^ 64) (hts : ∀ x ∈ recs, x.1.ts < 2 ^ 64)
    (hc : CutIn klen recs i t) :
    recoveryBlobV ve ((blobBytes klen recs).take t) skip = .ok (blobBytes klen (recs.take i)) := by
  have hsh := cutIn_shape klen recs i t hlen hts hc
  rw [hsh.recoveryV ve skip, (cutIn_tools klen recs i t hlen hts hc).2 skip]
  rfl

theorem migrateBlobV_v0_image (klen : Nat) (recs : List (Rec × List UInt8)) (ve : Nat)
    (hlen : (blobBytes klen recs).length < 2 ^ 64) (hts : ∀ x ∈ recs, x.1.ts < 2 ^ 64) :
    migrateBlobV ve (blobBytesV0 klen recs) = .ok (blobBytes klen recs) := by
  have hgood := goodRecs_revKey (goodRecs_recordsOf klen recs hts)
  have hv0r : ({ BlobHeader.new with version := 0 } : BlobHeader).InRange := by decide
  have hl : (serBlobHeader { BlobHeader.new with version := 0 } ++
      tailOf 20 ((recordsOf klen recs).map Record.revKey)).length < 2 ^ 64 := by
    rw [List.length_append, serBlobHeader_length, tailOf_length, List.map_map]
    rw [blobBytes_length] at hlen
    have : (Record.size ∘ Record.revKey) = Record.size := funext revKey_size
    rw [this]; exact hlen
  have hres := migrate_v0_image klen recs hlen hts
  have hcan : ∀ r ∈ writtenRecords (blobBytesV0 klen recs) false (migrateRecord BLOB_VERSION)
      (migrateBlobHeader BLOB_VERSION), r.Canon := by
    rw [blobBytesV0, appendRecords_eq, serBlobHeader_length]
    exact writtenRecords_intact (klen := klen) false _ _ ToolRecord.Canon
      { BlobHeader.new with version := 0 } BlobHeader.new
      ((recordsOf klen recs).map Record.revKey) hv0r rfl blobHeaderNew_inRange rfl rfl
      (fun R hR off hr => ⟨_, rfl, canon_migrated (hgood R hR).1 off hr⟩) hgood hl
  have := processBlobWithV_eq ve (blobBytesV0 klen recs) false (migrateRecord BLOB_VERSION)
    (migrateBlobHeader BLOB_VERSION) (fun _ => hcan)
    (by
      intro _ out hout
      rw [show processBlobWith (blobBytesV0 klen recs) false (migrateRecord BLOB_VERSION)
        (migrateBlobHeader BLOB_VERSION) = migrateBlob (blobBytesV0 klen recs) from rfl, hres] at hout
      cases hout; exact hlen)
  rw [show processBlobWith (blobBytesV0 klen recs) false (migrateRecord BLOB_VERSION)
    (migrateBlobHeader BLOB_VERSION) = migrateBlob (blobBytesV0 klen recs) from rfl, hres] at this
  exact this

theorem migrateBlobV_v1_id (klen : Nat) (recs : List (Rec × List UInt8)) (ve : Nat)
    (hlen : (blobBytes klen recs).length < 2 ^ 64) (hts : ∀ x ∈ recs, x.1.ts < 2 ^ 64) :
    migrateBlobV ve (blobBytes klen recs) = .ok (blobBytes klen recs) := by
  have hgood := goodRecs_recordsOf klen recs hts
  have hres := migrate_v1_id klen recs hlen hts
  have hcan : ∀ r ∈ writtenRecords (blobBytes klen recs) false (migrateRecord BLOB_VERSION)
      (migrateBlobHeader BLOB_VERSION), r.Canon := by
    rw [blobBytes_eq] at hlen ⊢
    exact writtenRecords_intact (klen := klen) false _ _ ToolRecord.Canon BlobHeader.new BlobHeader.new
      (recordsOf klen recs) blobHeaderNew_inRange rfl blobHeaderNew_inRange rfl rfl
      (fun R hR off hr => ⟨R.toTool off, rfl, canon_toTool (hgood R hR).1 off hr⟩) hgood hlen
  have := processBlobWithV_eq ve (blobBytes klen recs) false (migrateRecord BLOB_VERSION)
    (migrateBlobHeader BLOB_VERSION) (fun _ => hcan)
    (by
      intro _ out hout
      rw [show processBlobWith (blobBytes klen recs) false (migrateRecord BLOB_VERSION)
        (migrateBlobHeader BLOB_VERSION) = migrateBlob (blobBytes klen recs) from rfl, hres] at hout
      cases hout; exact hlen)
  rw [show processBlobWith (blobBytes klen recs) false (migrateRecord BLOB_VERSION)
    (migrateBlobHeader BLOB_VERSION) = migrateBlob (blobBytes klen recs) from rfl, hres] at this
  exact this

end Pearl
