import Pearl.Model.Worker
/-
Helper lemmas for C13 (background worker).
-/
namespace Pearl
namespace Worker

/-! ### basic facts about the pieces of `process_msg` -/

theorem tryRunDump_alive (w : WState) : (tryRunDump w).1.alive = w.alive := by
  unfold tryRunDump; split <;> rfl

theorem tryRunDump_store (w : WState) : (tryRunDump w).1.store = w.store := by
  unfold tryRunDump; split <;> rfl

theorem tryRunDump_dumpRunning (w : WState) : (tryRunDump w).1.dumpRunning = true := by
  unfold tryRunDump; split <;> simp_all

theorem tryRunDump_deferred (w : WState) : (tryRunDump w).1.deferred = w.deferred := by
  unfold tryRunDump; split <;> rfl

theorem tryRunFsync_alive (w : WState) : (tryRunFsync w).1.alive = w.alive := by
  unfold tryRunFsync; split <;> rfl

theorem tryUpdateActive_alive (lim : Limits) (w : WState) : (tryUpdateActive lim w).1.alive = w.alive := by
  unfold tryUpdateActive; split
  · rfl
  · split <;> rfl

theorem processDeferred_alive (w : WState) : (processDeferred w).alive = w.alive := by
  unfold processDeferred; split
  · simp [tryRunDump_alive]
  · rfl

/-- a message that is processed successfully never changes `alive` -/
theorem processOp_alive {lim : Limits} {w w' : WState} {t : OpType} {pred : Option BlobPred}
    (h : processOp lim w t pred = .ok w') : w'.alive = w.alive := by
  unfold processOp at h
  split at h
  · cases h; rfl
  · cases t <;> simp only at h
    · -- create
      cases hs : w.store.tryCreateActive with
      | error e => simp [hs, bind, Except.bind] at h
      | ok s => simp [hs, bind, Except.bind] at h; cases h; rfl
    · cases hs : w.store.closeActive with
      | error e => simp [hs, bind, Except.bind] at h
      | ok s => simp [hs, bind, Except.bind] at h; cases h; rfl
    · cases hs : w.store.restoreActive with
      | error e => simp [hs, bind, Except.bind] at h
      | ok s => simp [hs, bind, Except.bind] at h; cases h; rfl
    · cases h; rfl
    · -- tryDump: started, or deferred
      have hb := tryRunDump_alive w
      revert h hb
      generalize tryRunDump w = r2
      obtain ⟨w2, st⟩ := r2
      intro h hb
      simp only at h hb
      split at h <;> cases h <;> simp [deferDump, hb]
    · -- tryUpdate
      have ha := tryUpdateActive_alive lim w
      revert h ha
      generalize tryUpdateActive lim w = r
      obtain ⟨w1, sw⟩ := r
      intro h ha
      simp only at h ha
      split at h
      · split at h
        · cases h; simpa [deferDump] using ha
        · have hb := tryRunDump_alive w1
          revert h hb
          generalize tryRunDump w1 = r2
          obtain ⟨w2, st⟩ := r2
          intro h hb
          simp only at h hb
          split at h <;> cases h <;> simp [deferDump, hb, ha]
      · cases h; exact ha
    · cases h; rfl
    · cases h; exact tryRunFsync_alive w

theorem processE_alive {lim : Limits} {w w' : WState} {m : Msg}
    (h : processE lim w m = .ok w') : w'.alive = w.alive := by
  cases m with
  | op t pred => exact processOp_alive h
  | deadlineDue => simp [processE] at h; cases h; exact processDeferred_alive w
  | dumpDone => simp [processE] at h; cases h; split <;> rfl
  | fsyncDone => simp [processE] at h; cases h; rfl

/-- `process_defered` has no failing path: the `?` that still leads from it to `panic!` is never taken.
    The same holds for the two task-completion events. -/
theorem processE_nonop_ok (lim : Limits) (w : WState) (m : Msg) (h : ∀ t pred, m ≠ .op t pred) :
    ∃ w', processE lim w m = .ok w' := by
  cases m with
  | op t pred => exact absurd rfl (h t pred)
  | deadlineDue => exact ⟨_, rfl⟩
  | dumpDone => exact ⟨_, rfl⟩
  | fsyncDone => exact ⟨_, rfl⟩

/-- the only requests that can fail are create / close / restore -/
theorem processOp_error_arms {lim : Limits} {w : WState} {t : OpType} {pred : Option BlobPred} {e : ErrKind}
    (h : processOp lim w t pred = .error e) :
    (t = .createActiveBlob ∧ w.store.tryCreateActive = .error e) ∨
    (t = .closeActiveBlob ∧ w.store.closeActive = .error e) ∨
    (t = .restoreActiveBlob ∧ w.store.restoreActive = .error e) := by
  unfold processOp at h
  split at h
  · cases h
  · cases t <;> simp only at h
    · cases hs : w.store.tryCreateActive with
      | error e' => simp [hs, bind, Except.bind] at h; subst h; exact Or.inl ⟨rfl, rfl⟩
      | ok s => simp [hs, bind, Except.bind] at h
    · cases hs : w.store.closeActive with
      | error e' => simp [hs, bind, Except.bind] at h; subst h; exact Or.inr (Or.inl ⟨rfl, rfl⟩)
      | ok s => simp [hs, bind, Except.bind] at h
    · cases hs : w.store.restoreActive with
      | error e' => simp [hs, bind, Except.bind] at h; subst h; exact Or.inr (Or.inr ⟨rfl, rfl⟩)
      | ok s => simp [hs, bind, Except.bind] at h
    · cases h
    · -- tryDump never fails
      revert h
      generalize tryRunDump w = r2
      obtain ⟨w2, st⟩ := r2
      intro h
      simp only at h
      split at h <;> cases h
    · -- tryUpdate never fails
      revert h
      generalize tryUpdateActive lim w = r
      obtain ⟨w1, sw⟩ := r
      intro h
      simp only at h
      split at h
      · split at h
        · cases h
        · revert h
          generalize tryRunDump w1 = r2
          obtain ⟨w2, st⟩ := r2
          intro h
          simp only at h
          split at h <;> cases h
      · cases h
    · cases h
    · cases h

end Worker

open Worker

/-! ### the loop -/

theorem processMsgWith_dead (p : ErrorPolicy) (lim : Limits) (w : WState) (m : Msg) (h : w.alive = false) :
    processMsgWith p lim w m = w := by
  simp [processMsgWith, h]

theorem runWorkerWith_dead (p : ErrorPolicy) (lim : Limits) (w : WState) (msgs : List Msg) (h : w.alive = false) :
    runWorkerWith p lim w msgs = w := by
  induction msgs with
  | nil => rfl
  | cons m ms ih => simp only [runWorkerWith, List.foldl_cons, processMsgWith_dead p lim w m h]; exact ih

theorem runWorkerWith_nil (p : ErrorPolicy) (lim : Limits) (w : WState) : runWorkerWith p lim w [] = w := rfl

theorem runWorkerWith_cons (p : ErrorPolicy) (lim : Limits) (w : WState) (m : Msg) (ms : List Msg) :
    runWorkerWith p lim w (m :: ms) = runWorkerWith p lim (processMsgWith p lim w m) ms := rfl

theorem runWorkerWith_append (p : ErrorPolicy) (lim : Limits) (w : WState) (a b : List Msg) :
    runWorkerWith p lim w (a ++ b) = runWorkerWith p lim (runWorkerWith p lim w a) b := by
  simp [runWorkerWith, List.foldl_append]

/-- under `logAndContinue` one iteration keeps the worker alive -/
theorem processMsgWith_continue_alive (lim : Limits) (w : WState) (m : Msg) (h : w.alive = true) :
    (processMsgWith .logAndContinue lim w m).alive = true := by
  unfold processMsgWith
  simp only [h, Bool.not_true, Bool.false_eq_true, ↓reduceIte]
  cases he : processE lim w m with
  | error e => simpa using h
  | ok w' => simp only; rw [processE_alive he]; exact h

/-- under `logAndContinue` a failed message leaves the whole worker state unchanged -/
theorem processMsgWith_continue_error (lim : Limits) (w : WState) (m : Msg) (e : ErrKind)
    (he : processE lim w m = .error e) : processMsgWith .logAndContinue lim w m = w := by
  unfold processMsgWith
  split
  · rfl
  · simp [he]

/-- under `panic` a failed message kills a live worker -/
theorem processMsgWith_panic_error (lim : Limits) (w : WState) (m : Msg) (e : ErrKind)
    (ha : w.alive = true) (he : processE lim w m = .error e) : (processMsgWith .panic lim w m).alive = false := by
  simp [processMsgWith, ha, he]

/-- both policies agree on a message that succeeds -/
theorem processMsgWith_ok (p : ErrorPolicy) (lim : Limits) (w w' : WState) (m : Msg)
    (ha : w.alive = true) (he : processE lim w m = .ok w') : processMsgWith p lim w m = w' := by
  simp [processMsgWith, ha, he]

/-! ### `settle` -/

theorem mem_closed_settle {s : Store} {b : Blob} (h : b ∈ s.settle.closed) :
    ∃ b0 ∈ s.closed, b = (if b0.recs.isEmpty then b0 else { b0 with onDisk := true }) := by
  unfold Store.closed Store.settle at h
  simp only [List.mem_filterMap, List.mem_map, id] at h
  obtain ⟨o, ⟨o0, ho0, rfl⟩, ho⟩ := h
  cases o0 with
  | none => simp at ho
  | some b0 =>
    simp only [Option.map_some, Option.some.injEq] at ho
    refine ⟨b0, ?_, ho.symm⟩
    unfold Store.closed
    simp only [List.mem_filterMap, id]
    exact ⟨some b0, ho0, rfl⟩

theorem settle_onDisk {s : Store} {b : Blob} (h : b ∈ s.settle.closed) (hne : b.recs ≠ []) : b.onDisk = true := by
  obtain ⟨b0, _, rfl⟩ := mem_closed_settle h
  split
  · rename_i he
    split at hne
    · simp_all
    · simp_all
  · rfl

/-- dumping keeps every closed blob (same id, same records) -/
theorem settle_preserves {s : Store} {b : Blob} (h : b ∈ s.closed) :
    ∃ b' ∈ s.settle.closed, b'.id = b.id ∧ b'.recs = b.recs := by
  unfold Store.closed at h
  simp only [List.mem_filterMap, id] at h
  obtain ⟨o, ho, hob⟩ := h
  subst hob
  refine ⟨if b.recs.isEmpty then b else { b with onDisk := true }, ?_, ?_⟩
  · unfold Store.closed Store.settle
    simp only [List.mem_filterMap, List.mem_map, id]
    exact ⟨_, ⟨some b, ho, rfl⟩, rfl⟩
  · split <;> exact ⟨rfl, rfl⟩

theorem mem_closed_replaceActive {s : Store} {a : Blob} (h : s.active = some a) : a ∈ s.replaceActive.closed := by
  simp [Store.closed, Store.replaceActive, Store.createActive, h]

/-! ### the small-step loop -/

theorem loopN_not_running (p : ErrorPolicy) (lim : Limits) (n : Nat) (c : Cfg) (h : c.phase ≠ .running) :
    loopN p lim n c = c := by
  induction n generalizing c with
  | zero => rfl
  | succ n ih =>
    have : loopStep p lim c = c := by
      unfold loopStep
      split
      · rename_i hp; exact absurd hp h
      · rfl
    simp only [loopN, this]; exact ih c h

/-- the loop reaches a terminal phase after at most `queue.length + 1` iterations and computes `shutdownWith` -/
theorem loopN_spec (p : ErrorPolicy) (lim : Limits) (q : List Msg) (w : WState) (ha : w.alive = true) :
    let c := loopN p lim (q.length + 1) { w := w, queue := q, phase := .running }
    c.w = shutdownWith p lim w q ∧
    c.phase = (if (runWorkerWith p lim w q).alive then Phase.stopped else Phase.panicked) := by
  induction q generalizing w with
  | nil =>
    simp [loopN, loopStep, shutdownWith, runWorkerWith, ha]
  | cons m ms ih =>
    show
      (loopN p lim (ms.length + 1) (loopStep p lim { w := w, queue := m :: ms, phase := .running })).w =
        shutdownWith p lim w (m :: ms) ∧
      (loopN p lim (ms.length + 1) (loopStep p lim { w := w, queue := m :: ms, phase := .running })).phase =
        (if (runWorkerWith p lim w (m :: ms)).alive then Phase.stopped else Phase.panicked)
    rw [show loopStep p lim { w := w, queue := m :: ms, phase := .running } =
          { w := processMsgWith p lim w m, queue := ms,
            phase := if (processMsgWith p lim w m).alive then .running else .panicked } from rfl]
    cases hal : (processMsgWith p lim w m).alive with
    | true =>
      have := ih (processMsgWith p lim w m) hal
      simp only [↓reduceIte, shutdownWith, runWorkerWith_cons] at this ⊢
      exact this
    | false =>
      have hdead := runWorkerWith_dead p lim _ ms hal
      rw [loopN_not_running p lim _ _ (by simp)]
      simp [shutdownWith, runWorkerWith_cons, hdead, hal]

end Pearl
