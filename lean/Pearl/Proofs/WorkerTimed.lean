import Pearl.Model.WorkerTimed
import Pearl.Proofs.WorkerLemmas
/-
Helper lemmas for the timed worker model (`Pearl/Model/WorkerTimed.lean`); the headline theorems are in
`Pearl/Props/C13.lean`.
-/
namespace Pearl
namespace WorkerTimed

open Worker

/-! ## field lemmas -/

/-- `update_deadline` arms the minimum of the old and the new deadline -/
theorem updateDeadline_eq (s : TState) (dl : Nat) :
    updateDeadline s dl =
      { s with nextDeadline := some (match s.nextDeadline with | none => dl | some p => min dl p) } := by
  unfold updateDeadline
  cases h : s.nextDeadline with
  | none => rfl
  | some p =>
    simp only
    split
    · congr; omega
    · have : min dl p = p := by omega
      rw [this, ← h]

/-! ## the invariant of the time fields (all three variants) -/

/-- * a registered record is ordered and lies in the past: `first ≤ last ≤ now`;
    * a deadline is armed only while a record is registered, and lies between
      `first + min(min, max)` and `next_deadline(min, max) = min(first + max, last + min)`. -/
def Inv (cfg : TCfg) (s : TState) : Prop :=
  match s.deferredInfo, s.nextDeadline with
  | none, none => True
  | none, some _ => False
  | some d, none => d.first ≤ d.last ∧ d.last ≤ s.now
  | some d, some dl =>
    d.first ≤ d.last ∧ d.last ≤ s.now ∧ d.first + min cfg.minT cfg.maxT ≤ dl ∧
      dl ≤ d.nextDeadline cfg.minT cfg.maxT

theorem inv_init (cfg : TCfg) (store : Store) : Inv cfg (TState.init store) := by
  simp [Inv, TState.init]

theorem inv_setNow {cfg : TCfg} {s : TState} (h : Inv cfg s) (t : Nat) (ht : s.now ≤ t) :
    Inv cfg { s with now := t } := by
  obtain ⟨st, al, dr, fr, now, di, nd, ds⟩ := s
  cases di <;> cases nd <;> simp_all [Inv] <;> omega

theorem inv_deferDumpT (v : Variant) {cfg : TCfg} {s : TState} (h : Inv cfg s) : Inv cfg (deferDumpT v cfg s) := by
  obtain ⟨st, al, dr, fr, now, di, nd, ds⟩ := s
  cases v <;> cases di <;> cases nd <;>
    simp_all [Inv, deferDumpT, updateDeadline_eq, Deferred.new, Deferred.nextDeadline] <;> omega

theorem inv_processDeferredT (v : Variant) {cfg : TCfg} {s : TState} (h : Inv cfg s) (hn : s.nextDeadline = none) :
    Inv cfg (processDeferredT v cfg s) := by
  obtain ⟨st, al, dr, fr, now, di, nd, ds⟩ := s
  simp only at hn
  subst hn
  cases di with
  | none => simpa [processDeferredT] using h
  | some d =>
    simp only [processDeferredT, tryRunDumpT]
    by_cases hdue : d.due cfg.minT cfg.maxT now = true
    · cases dr <;> cases v <;>
        simp_all [Inv, updateDeadline_eq, Deferred.new, Deferred.nextDeadline] <;> omega
    · simp_all [Inv, updateDeadline_eq, Deferred.nextDeadline]
      omega

/-- the invariant only reads the three time fields -/
theorem inv_congr {cfg : TCfg} {s s' : TState} (h : Inv cfg s) (h1 : s'.deferredInfo = s.deferredInfo)
    (h2 : s'.nextDeadline = s.nextDeadline) (h3 : s'.now = s.now) : Inv cfg s' := by
  unfold Inv at *
  rw [h1, h2, h3]
  exact h

theorem inv_tryRunDumpT {cfg : TCfg} {s : TState} (h : Inv cfg s) : Inv cfg (tryRunDumpT s).1 := by
  unfold tryRunDumpT
  split
  · exact h
  · exact inv_congr h rfl rfl rfl

theorem inv_tryUpdateActiveT {cfg : TCfg} (lim : Limits) {s : TState} (h : Inv cfg s) :
    Inv cfg (tryUpdateActiveT lim s).1 := by
  unfold tryUpdateActiveT
  split
  · exact h
  · split
    · exact inv_congr h rfl rfl rfl
    · exact h

/-- a property of the time fields that `defer_blob_indexes_dump` keeps is kept by every `process_msg` arm -/
theorem processOpT_fields {v : Variant} {cfg : TCfg} (P : TState → Prop)
    (hcongr : ∀ x x' : TState, P x → x'.deferredInfo = x.deferredInfo → x'.nextDeadline = x.nextDeadline →
      x'.now = x.now → P x')
    (hdefer : ∀ x, P x → P (deferDumpT v cfg x))
    {s s' : TState} {t : OpType} {pred : Option BlobPred}
    (h : P s) (he : processOpT v cfg s t pred = .ok s') : P s' := by
  have hr : ∀ x, P x → P (tryRunDumpT x).1 := by
    intro x hx
    unfold tryRunDumpT
    split
    · exact hx
    · exact hcongr _ _ hx rfl rfl rfl
  unfold processOpT at he
  split at he
  · cases he; exact h
  · cases t with
    | forceUpdateActiveBlob => cases he; exact hcongr _ _ h rfl rfl rfl
    | closeActiveBlob =>
      simp only [bind, Except.bind] at he
      split at he
      · cases he
      · cases he; exact hcongr _ _ h rfl rfl rfl
    | createActiveBlob =>
      simp only [bind, Except.bind] at he
      split at he
      · cases he
      · cases he; exact hcongr _ _ h rfl rfl rfl
    | restoreActiveBlob =>
      simp only [bind, Except.bind] at he
      split at he
      · cases he
      · cases he; exact hcongr _ _ h rfl rfl rfl
    | tryDumpBlobIndexes =>
      simp only at he
      split at he
      · cases he; exact hr _ h
      · cases he; exact hdefer _ (hr _ h)
    | tryFsyncData =>
      cases he
      unfold tryRunFsyncT
      split
      · exact h
      · exact hcongr _ _ h rfl rfl rfl
    | tryUpdateActiveBlob =>
      simp only at he
      have h1 : P (tryUpdateActiveT cfg.lim s).1 := by
        unfold tryUpdateActiveT
        split
        · exact h
        · split
          · exact hcongr _ _ h rfl rfl rfl
          · exact h
      split at he
      · split at he
        · cases he; exact hdefer _ h1
        · split at he
          · cases he; exact hr _ h1
          · cases he; exact hdefer _ (hr _ h1)
      · cases he; exact h1
    | deferredDumpBlobIndexes => cases he; exact hdefer _ h

theorem inv_processOpT (v : Variant) {cfg : TCfg} {s s' : TState} {t : OpType} {pred : Option BlobPred}
    (h : Inv cfg s) (he : processOpT v cfg s t pred = .ok s') : Inv cfg s' :=
  processOpT_fields (Inv cfg) (fun _ _ hx h1 h2 h3 => inv_congr hx h1 h2 h3) (fun _ hx => inv_deferDumpT v hx) h he

theorem enabled_now {s : TState} {e : TEvent} (h : enabled s e = true) : s.now ≤ e.time := by
  simp only [enabled, Bool.and_eq_true, decide_eq_true_eq] at h
  exact h.1.2

theorem enabled_alive {s : TState} {e : TEvent} (h : enabled s e = true) : s.alive = true := by
  simp only [enabled, Bool.and_eq_true, decide_eq_true_eq] at h
  exact h.1.1

theorem stepV_disabled (v : Variant) (cfg : TCfg) (s : TState) (e : TEvent) (h : enabled s e = false) :
    stepV v cfg s e = s := by
  simp [stepV, h]

theorem inv_stepV (v : Variant) {cfg : TCfg} {s : TState} (e : TEvent) (h : Inv cfg s) : Inv cfg (stepV v cfg s e) := by
  by_cases hen : enabled s e = true
  · have hnow := enabled_now hen
    have h0 := inv_setNow h e.time hnow
    unfold stepV
    simp only [hen, Bool.not_true, Bool.false_eq_true, ↓reduceIte]
    cases e with
    | recv t op pred =>
      simp only
      split
      · rename_i s' he; exact inv_processOpT v h0 he
      · exact h0
    | timeout t =>
      simp only
      refine inv_processDeferredT v ?_ rfl
      -- dropping the deadline keeps the invariant
      obtain ⟨st, al, dr, fr, now, di, nd, ds⟩ := s
      cases di <;> cases nd <;> simp_all [Inv, TEvent.time]
    | dumpDone t => exact inv_congr h0 rfl rfl rfl
    | fsyncDone t => exact inv_congr h0 rfl rfl rfl
    | wait t => exact h0
  · rw [stepV_disabled v cfg s e (by simpa using hen)]
    exact h

theorem runV_nil (v : Variant) (cfg : TCfg) (s : TState) : runV v cfg s [] = s := rfl

theorem runV_cons (v : Variant) (cfg : TCfg) (s : TState) (e : TEvent) (es : List TEvent) :
    runV v cfg s (e :: es) = runV v cfg (stepV v cfg s e) es := rfl

theorem runV_append (v : Variant) (cfg : TCfg) (s : TState) (a b : List TEvent) :
    runV v cfg s (a ++ b) = runV v cfg (runV v cfg s a) b := by
  simp [runV, List.foldl_append]

theorem inv_runV (v : Variant) {cfg : TCfg} {s : TState} (es : List TEvent) (h : Inv cfg s) :
    Inv cfg (runV v cfg s es) := by
  induction es generalizing s with
  | nil => exact h
  | cons e es ih => exact ih (inv_stepV v e h)

theorem inv_reachable {v : Variant} {cfg : TCfg} {s : TState} (h : Reachable v cfg s) : Inv cfg s := by
  obtain ⟨store, es, rfl⟩ := h
  exact inv_runV v es (inv_init cfg store)

/-! ## `deferred_has_deadline`: a registered record has an armed deadline -/

/-- the invariant the seeded change C13-5 breaks -/
def Armed (s : TState) : Prop := s.deferredInfo.isSome = true → s.nextDeadline.isSome = true

/-- what is left of it in /repo HEAD: a record without a deadline is a freshly re-created one -/
def OrphanFresh (s : TState) : Prop :=
  ∀ d, s.deferredInfo = some d → s.nextDeadline = none → d.first = d.last

/-- the `timeout` at time `t` finds the deferred dump due while the dump task is still running: the branch of
    `process_deferred_blob_index_dump` that re-creates the record -/
def blocked (cfg : TCfg) (s : TState) : TEvent → Bool
  | .timeout t => firesDue cfg s t && s.dumpRunning
  | _ => false

theorem armed_congr {s s' : TState} (h : Armed s) (h1 : s'.deferredInfo = s.deferredInfo)
    (h2 : s'.nextDeadline = s.nextDeadline) : Armed s' := by
  unfold Armed at *
  rw [h1, h2]
  exact h

/-- outside the seeded variant `defer_blob_indexes_dump` always leaves a deadline armed -/
theorem deferDumpT_armed {v : Variant} (hv : v ≠ .seeded) (cfg : TCfg) (s : TState) :
    (deferDumpT v cfg s).nextDeadline.isSome = true ∧ (deferDumpT v cfg s).deferredInfo.isSome = true := by
  obtain ⟨st, al, dr, fr, now, di, nd, ds⟩ := s
  cases v <;> cases di <;> simp_all [deferDumpT, updateDeadline_eq]

theorem deferDumpT_deferred (v : Variant) (cfg : TCfg) (s : TState) :
    (deferDumpT v cfg s).deferredInfo.isSome = true := by
  obtain ⟨st, al, dr, fr, now, di, nd, ds⟩ := s
  cases v <;> cases di <;> simp_all [deferDumpT, updateDeadline_eq]

theorem processDeferredT_armed_repaired (cfg : TCfg) (s : TState) : Armed (processDeferredT .repaired cfg s) := by
  obtain ⟨st, al, dr, fr, now, di, nd, ds⟩ := s
  cases di with
  | none => simp [processDeferredT, Armed]
  | some d =>
    by_cases hdue : d.due cfg.minT cfg.maxT now = true <;> cases dr <;>
      simp_all [processDeferredT, tryRunDumpT, Armed, updateDeadline_eq]

/-- every variant: `process_deferred_blob_index_dump` leaves an armed deadline unless it takes the re-create
    branch -/
theorem processDeferredT_armed (v : Variant) (cfg : TCfg) (s : TState)
    (hnb : ∀ d, s.deferredInfo = some d → d.due cfg.minT cfg.maxT s.now = true → s.dumpRunning = false) :
    Armed (processDeferredT v cfg s) := by
  obtain ⟨st, al, dr, fr, now, di, nd, ds⟩ := s
  cases di with
  | none => simp [processDeferredT, Armed]
  | some d =>
    by_cases hdue : d.due cfg.minT cfg.maxT now = true
    · have := hnb d rfl hdue
      simp only at this
      subst this
      simp_all [processDeferredT, tryRunDumpT, Armed]
    · simp_all [processDeferredT, Armed, updateDeadline_eq]

theorem armed_processOpT {v : Variant} (hv : v ≠ .seeded) {cfg : TCfg} {s s' : TState} {t : OpType}
    {pred : Option BlobPred} (h : Armed s) (he : processOpT v cfg s t pred = .ok s') : Armed s' :=
  processOpT_fields Armed (fun _ _ hx h1 h2 _ => armed_congr hx h1 h2)
    (fun x _ _ => (deferDumpT_armed hv cfg x).1) h he

/-- one iteration keeps `Armed` — in the repaired variant always, in the shipped one unless the iteration is a
    `blocked` timeout -/
theorem armed_stepV {v : Variant} (hv : v ≠ .seeded) {cfg : TCfg} {s : TState} (e : TEvent) (h : Armed s)
    (hb : v = .repaired ∨ blocked cfg s e = false) : Armed (stepV v cfg s e) := by
  by_cases hen : enabled s e = true
  · have h0 : Armed { s with now := e.time } := armed_congr h rfl rfl
    unfold stepV
    simp only [hen, Bool.not_true, Bool.false_eq_true, ↓reduceIte]
    cases e with
    | recv t op pred =>
      simp only
      split
      · rename_i s' he; exact armed_processOpT hv h0 he
      · exact h0
    | timeout t =>
      simp only
      rcases hb with rfl | hb
      · exact processDeferredT_armed_repaired _ _
      · apply processDeferredT_armed
        intro d hd hdue
        simp only [blocked, firesDue, dueAt, hen, Bool.true_and, Bool.and_eq_false_iff] at hb
        change s.deferredInfo = some d at hd
        change d.due cfg.minT cfg.maxT t = true at hdue
        change s.dumpRunning = false
        rw [hd] at hb
        rcases hb with hb | hb
        · simp only [hdue] at hb; cases hb
        · exact hb
    | dumpDone t => exact armed_congr h0 rfl rfl
    | fsyncDone t => exact armed_congr h0 rfl rfl
    | wait t => exact h0
  · rw [stepV_disabled v cfg s e (by simpa using hen)]
    exact h

theorem armed_init (store : Store) : Armed (TState.init store) := by simp [Armed, TState.init]

theorem armed_runV_repaired {cfg : TCfg} {s : TState} (es : List TEvent) (h : Armed s) :
    Armed (runV .repaired cfg s es) := by
  induction es generalizing s with
  | nil => exact h
  | cons e es ih => exact ih (armed_stepV (by decide) e h (Or.inl rfl))

/-- no iteration of the run is a `blocked` timeout -/
def NoBlocked (v : Variant) (cfg : TCfg) : TState → List TEvent → Prop
  | _, [] => True
  | s, e :: es => blocked cfg s e = false ∧ NoBlocked v cfg (stepV v cfg s e) es

theorem armed_runV_noBlocked {v : Variant} (hv : v ≠ .seeded) {cfg : TCfg} {s : TState} (es : List TEvent)
    (h : Armed s) (hnb : NoBlocked v cfg s es) : Armed (runV v cfg s es) := by
  induction es generalizing s with
  | nil => exact h
  | cons e es ih => exact ih (armed_stepV hv e h (Or.inr hnb.1)) hnb.2

/-! ### what is left of `Armed` in /repo HEAD -/

theorem orphanFresh_congr {s s' : TState} (h : OrphanFresh s) (h1 : s'.deferredInfo = s.deferredInfo)
    (h2 : s'.nextDeadline = s.nextDeadline) : OrphanFresh s' := by
  unfold OrphanFresh at *
  rw [h1, h2]
  exact h

theorem processDeferredT_orphanFresh (v : Variant) (cfg : TCfg) (s : TState) :
    OrphanFresh (processDeferredT v cfg { s with nextDeadline := none }) := by
  obtain ⟨st, al, dr, fr, now, di, nd, ds⟩ := s
  cases di with
  | none => simp [processDeferredT, OrphanFresh]
  | some d =>
    by_cases hdue : d.due cfg.minT cfg.maxT now = true <;> cases dr <;> cases v <;>
      simp_all [processDeferredT, tryRunDumpT, OrphanFresh, updateDeadline_eq, Deferred.new]

theorem orphanFresh_stepV {v : Variant} (hv : v ≠ .seeded) {cfg : TCfg} {s : TState} (e : TEvent)
    (h : OrphanFresh s) : OrphanFresh (stepV v cfg s e) := by
  by_cases hen : enabled s e = true
  · have h0 : OrphanFresh { s with now := e.time } := orphanFresh_congr h rfl rfl
    unfold stepV
    simp only [hen, Bool.not_true, Bool.false_eq_true, ↓reduceIte]
    cases e with
    | recv t op pred =>
      simp only
      split
      · rename_i s' he
        refine processOpT_fields OrphanFresh (fun _ _ hx h1 h2 _ => orphanFresh_congr hx h1 h2) ?_ h0 he
        intro x _ d _ hnd
        have := (deferDumpT_armed hv cfg x).1
        rw [hnd] at this
        cases this
      · exact h0
    | timeout t =>
      simp only
      exact processDeferredT_orphanFresh v cfg { s with now := t }
    | dumpDone t => exact orphanFresh_congr h0 rfl rfl
    | fsyncDone t => exact orphanFresh_congr h0 rfl rfl
    | wait t => exact h0
  · rw [stepV_disabled v cfg s e (by simpa using hen)]
    exact h

theorem orphanFresh_runV {v : Variant} (hv : v ≠ .seeded) {cfg : TCfg} {s : TState} (es : List TEvent)
    (h : OrphanFresh s) : OrphanFresh (runV v cfg s es) := by
  induction es generalizing s with
  | nil => exact h
  | cons e es ih => exact ih (orphanFresh_stepV hv e h)

theorem orphanFresh_init (store : Store) : OrphanFresh (TState.init store) := by simp [OrphanFresh, TState.init]

/-! ## simulation: erasing the clock gives a run of the untimed model -/

theorem erase_tryRunDumpT (s : TState) :
    erase (tryRunDumpT s).1 = (tryRunDump (erase s)).1 ∧ (tryRunDumpT s).2 = (tryRunDump (erase s)).2 := by
  unfold tryRunDumpT tryRunDump
  cases h : s.dumpRunning <;> simp [erase, h]

theorem erase_tryRunFsyncT (s : TState) : erase (tryRunFsyncT s).1 = (tryRunFsync (erase s)).1 := by
  unfold tryRunFsyncT tryRunFsync
  cases h : s.fsyncRunning <;> simp [erase, h]

theorem erase_deferDumpT (v : Variant) (cfg : TCfg) (s : TState) : erase (deferDumpT v cfg s) = deferDump (erase s) := by
  obtain ⟨st, al, dr, fr, now, di, nd, ds⟩ := s
  cases v <;> cases di <;> simp [deferDumpT, deferDump, erase, updateDeadline_eq]

theorem erase_tryUpdateActiveT (lim : Limits) (s : TState) :
    erase (tryUpdateActiveT lim s).1 = (tryUpdateActive lim (erase s)).1 ∧
    (tryUpdateActiveT lim s).2 = (tryUpdateActive lim (erase s)).2 := by
  unfold tryUpdateActiveT tryUpdateActive
  have hs : (erase s).store = s.store := rfl
  rw [hs]
  cases h : s.store.active with
  | none => exact ⟨rfl, rfl⟩
  | some a =>
    simp only
    split
    · exact ⟨rfl, rfl⟩
    · exact ⟨rfl, rfl⟩

theorem erase_processOpT (v : Variant) (cfg : TCfg) (s : TState) (t : OpType) (pred : Option BlobPred) :
    (processOpT v cfg s t pred).map erase = processOp cfg.lim (erase s) t pred := by
  unfold processOpT processOp
  have hs : (erase s).store = s.store := rfl
  rw [hs]
  split
  · rfl
  · cases t with
    | forceUpdateActiveBlob => rfl
    | closeActiveBlob =>
      simp only [bind, Except.bind]
      cases s.store.closeActive <;> rfl
    | createActiveBlob =>
      simp only [bind, Except.bind]
      cases s.store.tryCreateActive <;> rfl
    | restoreActiveBlob =>
      simp only [bind, Except.bind]
      cases s.store.restoreActive <;> rfl
    | tryDumpBlobIndexes =>
      simp only
      have h2 := erase_tryRunDumpT s
      rw [← h2.2]
      split
      · simp only [Except.map, h2.1]
      · simp only [Except.map, erase_deferDumpT, h2.1]
    | tryFsyncData => simp only [Except.map, erase_tryRunFsyncT s]
    | tryUpdateActiveBlob =>
      simp only
      have h1 := erase_tryUpdateActiveT cfg.lim s
      have h2 := erase_tryRunDumpT (tryUpdateActiveT cfg.lim s).1
      have hdef : (tryUpdateActive cfg.lim (erase s)).1.deferred = (tryUpdateActiveT cfg.lim s).1.deferredInfo.isSome := by
        rw [← h1.1]; rfl
      rw [← h1.2, hdef, ← h1.1, ← h2.2]
      split
      · split
        · simp only [Except.map, erase_deferDumpT]
        · split
          · simp only [Except.map, h2.1]
          · simp only [Except.map, erase_deferDumpT, h2.1]
      · rfl
    | deferredDumpBlobIndexes => simp only [Except.map, erase_deferDumpT]

/-- the `Err(_)` arm of `tick_with_deadline`, clock erased -/
theorem erase_timeout (v : Variant) (cfg : TCfg) (s : TState) (t : Nat) :
    erase (processDeferredT v cfg { s with now := t, nextDeadline := none }) =
      if dueAt cfg s t = true then processDeferred (erase s) else erase s := by
  obtain ⟨st, al, dr, fr, now, di, nd, ds⟩ := s
  unfold dueAt
  cases di with
  | none => simp [processDeferredT, erase]
  | some d =>
    by_cases hdue : d.due cfg.minT cfg.maxT t = true
    · cases dr <;> cases v <;>
        simp [processDeferredT, processDeferred, tryRunDumpT, tryRunDump, erase, hdue, updateDeadline_eq]
    · simp [processDeferredT, erase, hdue, updateDeadline_eq]

/-- one timed iteration is the untimed iteration on the message it stands for, or a stutter -/
theorem erase_stepV (v : Variant) (cfg : TCfg) (s : TState) (e : TEvent) :
    erase (stepV v cfg s e) =
      match msgOf cfg s e with
      | some m => processMsgFixed cfg.lim (erase s) m
      | none => erase s := by
  by_cases hen : enabled s e = true
  · have hal : (erase s).alive = true := enabled_alive hen
    unfold stepV msgOf
    simp only [hen, Bool.not_true, Bool.false_eq_true, ↓reduceIte]
    cases e with
    | recv t op pred =>
      simp only [processMsgFixed, processMsgWith, hal, Bool.not_true, Bool.false_eq_true, ↓reduceIte, processE]
      have h := erase_processOpT v cfg { s with now := t } op pred
      have he : erase { s with now := t } = erase s := rfl
      rw [he] at h
      rw [← h]
      simp only [TEvent.time]
      cases processOpT v cfg { s with now := t } op pred <;> rfl
    | timeout t =>
      simp only [firesDue, hen, Bool.true_and, TEvent.time]
      rw [erase_timeout]
      by_cases hc : dueAt cfg s t = true
      · simp only [hc, ↓reduceIte]
        exact (processMsgWith_ok .logAndContinue cfg.lim (erase s) _ .deadlineDue hal rfl).symm
      · simp only [hc, Bool.false_eq_true, ↓reduceIte]
    | dumpDone t =>
      have hr : s.dumpRunning = true := by
        simp only [enabled, Bool.and_eq_true] at hen
        exact hen.2
      have hr' : (erase s).dumpRunning = true := hr
      simp only
      refine (processMsgWith_ok .logAndContinue cfg.lim (erase s) _ .dumpDone hal ?_).symm
      simp only [processE, hr', ↓reduceIte]
      rfl
    | fsyncDone t =>
      simp only
      exact (processMsgWith_ok .logAndContinue cfg.lim (erase s) _ .fsyncDone hal rfl).symm
    | wait t => rfl
  · have hen' : enabled s e = false := by simpa using hen
    rw [stepV_disabled v cfg s e hen']
    simp [msgOf, hen']

theorem traceV_nil (v : Variant) (cfg : TCfg) (s : TState) : traceV v cfg s [] = [] := rfl

theorem traceV_cons (v : Variant) (cfg : TCfg) (s : TState) (e : TEvent) (es : List TEvent) :
    traceV v cfg s (e :: es) = (msgOf cfg s e).toList ++ traceV v cfg (stepV v cfg s e) es := rfl

theorem traceV_append (v : Variant) (cfg : TCfg) (s : TState) (a b : List TEvent) :
    traceV v cfg s (a ++ b) = traceV v cfg s a ++ traceV v cfg (runV v cfg s a) b := by
  induction a generalizing s with
  | nil => rfl
  | cons e es ih => simp [traceV_cons, runV_cons, ih]

/-- a timed run, with the clock erased, is the untimed run over its trace -/
theorem erase_runV (v : Variant) (cfg : TCfg) (s : TState) (es : List TEvent) :
    erase (runV v cfg s es) = runWorkerFixed cfg.lim (erase s) (traceV v cfg s es) := by
  induction es generalizing s with
  | nil => rfl
  | cons e es ih =>
    rw [runV_cons, ih, traceV_cons, erase_stepV]
    cases h : msgOf cfg s e with
    | none => rfl
    | some m => rfl

/-! ## progress: what a `timeout` does -/

theorem enabled_timeout_iff (s : TState) (t : Nat) :
    enabled s (.timeout t) = true ↔ s.alive = true ∧ s.now ≤ t ∧ ∃ dl, s.nextDeadline = some dl ∧ dl + EPS ≤ t := by
  unfold enabled deadlineElapsed
  cases h : s.nextDeadline with
  | none => simp
  | some dl =>
    simp only [TEvent.time, Bool.and_eq_true, decide_eq_true_eq, Option.some.injEq]
    constructor
    · rintro ⟨⟨h1, h2⟩, h3⟩
      exact ⟨h1, of_decide_eq_true h2, dl, rfl, h3⟩
    · rintro ⟨h1, h2, dl', rfl, h3⟩
      exact ⟨⟨h1, decide_eq_true h2⟩, h3⟩

/-- a deadline that is not earlier than `next_deadline(min, max)` of the record has, once elapsed, made the
    condition of `process_deferred_blob_index_dump` true (this is what `DEFERRED_PROCESS_DEADLINE_EPS` is for) -/
theorem due_of_elapsed {d : Deferred} {minT maxT dl t : Nat} (h : d.nextDeadline minT maxT ≤ dl) (ht : dl + EPS ≤ t) :
    d.due minT maxT t = true := by
  simp only [Deferred.nextDeadline, EPS] at h ht
  simp only [Deferred.due, Bool.or_eq_true, decide_eq_true_eq]
  omega

/-- conversely the deferred path never starts a dump before `last + min` unless `first + max` is reached -/
theorem due_iff (d : Deferred) (minT maxT t : Nat) :
    d.due minT maxT t = true ↔ (minT ≤ t - d.last ∨ maxT ≤ t - d.first) := by
  simp [Deferred.due]

theorem stepV_timeout (v : Variant) (cfg : TCfg) (s : TState) (t : Nat) (hen : enabled s (.timeout t) = true) :
    stepV v cfg s (.timeout t) = processDeferredT v cfg { s with now := t, nextDeadline := none } := by
  simp [stepV, hen, TEvent.time]

/-- the deadline elapsed, the record is due, no dump task is running: the dump starts -/
theorem timeout_starts (v : Variant) (cfg : TCfg) (s : TState) (t : Nat) (d : Deferred)
    (hen : enabled s (.timeout t) = true) (hd : s.deferredInfo = some d) (hdue : d.due cfg.minT cfg.maxT t = true)
    (hr : s.dumpRunning = false) :
    stepV v cfg s (.timeout t) =
      { s with now := t, nextDeadline := none, deferredInfo := none, dumpRunning := true,
               dumpStarts := s.dumpStarts + 1 } := by
  rw [stepV_timeout v cfg s t hen]
  obtain ⟨st, al, dr, fr, now, di, nd, ds⟩ := s
  simp only at hd hr
  subst hd hr
  simp [processDeferredT, tryRunDumpT, hdue]

/-- the deadline elapsed but the record is not yet due (the armed deadline was a stale, earlier one): the
    deadline is re-armed to exactly `next_deadline(min, max)` -/
theorem timeout_early (v : Variant) (cfg : TCfg) (s : TState) (t : Nat) (d : Deferred)
    (hen : enabled s (.timeout t) = true) (hd : s.deferredInfo = some d) (hdue : d.due cfg.minT cfg.maxT t = false) :
    stepV v cfg s (.timeout t) = { s with now := t, nextDeadline := some (d.nextDeadline cfg.minT cfg.maxT) } := by
  rw [stepV_timeout v cfg s t hen]
  obtain ⟨st, al, dr, fr, now, di, nd, ds⟩ := s
  simp only at hd
  subst hd
  simp [processDeferredT, hdue, updateDeadline_eq]

/-- the deadline elapsed, the record is due, but the dump task is still running: the record is re-created;
    only the repaired variant re-arms the deadline -/
theorem timeout_blocked (v : Variant) (cfg : TCfg) (s : TState) (t : Nat) (d : Deferred)
    (hen : enabled s (.timeout t) = true) (hd : s.deferredInfo = some d) (hdue : d.due cfg.minT cfg.maxT t = true)
    (hr : s.dumpRunning = true) :
    stepV v cfg s (.timeout t) =
      { s with now := t, deferredInfo := some (Deferred.new t),
               nextDeadline := if v = .repaired then some ((Deferred.new t).nextDeadline cfg.minT cfg.maxT) else none } := by
  rw [stepV_timeout v cfg s t hen]
  obtain ⟨st, al, dr, fr, now, di, nd, ds⟩ := s
  simp only at hd hr
  subst hd hr
  cases v <;> simp [processDeferredT, tryRunDumpT, hdue, updateDeadline_eq]

/-! ### events that leave the deferred machinery alone -/

theorem quiet_stepV (v : Variant) (cfg : TCfg) (s : TState) (e : TEvent) (hq : e.quiet = true) :
    (stepV v cfg s e).deferredInfo = s.deferredInfo ∧ (stepV v cfg s e).nextDeadline = s.nextDeadline ∧
    (stepV v cfg s e).dumpStarts = s.dumpStarts ∧ (stepV v cfg s e).alive = s.alive ∧
    s.now ≤ (stepV v cfg s e).now ∧ (s.dumpRunning = false → (stepV v cfg s e).dumpRunning = false) := by
  by_cases hen : enabled s e = true
  · have hnow := enabled_now hen
    unfold stepV
    simp only [hen, Bool.not_true, Bool.false_eq_true, ↓reduceIte]
    cases e with
    | recv t op pred => cases hq
    | timeout t => cases hq
    | dumpDone t => exact ⟨rfl, rfl, rfl, rfl, hnow, fun _ => rfl⟩
    | fsyncDone t => exact ⟨rfl, rfl, rfl, rfl, hnow, fun h => h⟩
    | wait t => exact ⟨rfl, rfl, rfl, rfl, hnow, fun h => h⟩
  · rw [stepV_disabled v cfg s e (by simpa using hen)]
    exact ⟨rfl, rfl, rfl, rfl, Nat.le_refl _, fun h => h⟩

theorem quiet_runV (v : Variant) (cfg : TCfg) (s : TState) (es : List TEvent) (hq : ∀ e ∈ es, e.quiet = true) :
    (runV v cfg s es).deferredInfo = s.deferredInfo ∧ (runV v cfg s es).nextDeadline = s.nextDeadline ∧
    (runV v cfg s es).dumpStarts = s.dumpStarts ∧ (runV v cfg s es).alive = s.alive ∧
    s.now ≤ (runV v cfg s es).now ∧ (s.dumpRunning = false → (runV v cfg s es).dumpRunning = false) := by
  induction es generalizing s with
  | nil => exact ⟨rfl, rfl, rfl, rfl, Nat.le_refl _, fun h => h⟩
  | cons e es ih =>
    have h1 := quiet_stepV v cfg s e (hq e (by simp))
    have h2 := ih (stepV v cfg s e) (fun x hx => hq x (by simp [hx]))
    rw [runV_cons]
    refine ⟨h2.1.trans h1.1, h2.2.1.trans h1.2.1, h2.2.2.1.trans h1.2.2.1, h2.2.2.2.1.trans h1.2.2.2.1,
      Nat.le_trans h1.2.2.2.2.1 h2.2.2.2.2.1, fun h => h2.2.2.2.2.2 (h1.2.2.2.2.2 h)⟩

/-- the end of the dump task, when enabled, leaves no task running -/
theorem dumpDone_stops (v : Variant) (cfg : TCfg) (s : TState) (t : Nat) (hal : s.alive = true) (ht : s.now ≤ t) :
    (stepV v cfg s (.dumpDone t)).dumpRunning = false := by
  cases hr : s.dumpRunning with
  | false =>
    rw [stepV_disabled v cfg s _ (by simp [enabled, hr])]
    exact hr
  | true => simp [stepV, enabled, hal, hr, TEvent.time, ht]

/-! ### a record without a deadline: the worker sleeps in `tick()` -/

/-- without an armed deadline and without messages nothing ever happens to the record: no `timeout` is enabled -/
theorem noDeadline_stepV (v : Variant) (cfg : TCfg) (s : TState) (e : TEvent) (hn : s.nextDeadline = none)
    (hq : e.noRecv = true) :
    (stepV v cfg s e).deferredInfo = s.deferredInfo ∧ (stepV v cfg s e).nextDeadline = none ∧
    (stepV v cfg s e).dumpStarts = s.dumpStarts ∧ (∀ m ∈ msgOf cfg s e, isDue m = false) := by
  cases e with
  | recv t op pred => cases hq
  | timeout t =>
    have hen : enabled s (.timeout t) = false := by simp [enabled, deadlineElapsed, hn]
    rw [stepV_disabled v cfg s _ hen]
    refine ⟨rfl, hn, rfl, ?_⟩
    simp [msgOf, hen]
  | dumpDone t =>
    have h := quiet_stepV v cfg s (.dumpDone t) rfl
    refine ⟨h.1, h.2.1.trans hn, h.2.2.1, ?_⟩
    intro m hm
    simp only [msgOf] at hm
    split at hm
    · cases hm
    · cases hm; rfl
  | fsyncDone t =>
    have h := quiet_stepV v cfg s (.fsyncDone t) rfl
    refine ⟨h.1, h.2.1.trans hn, h.2.2.1, ?_⟩
    intro m hm
    simp only [msgOf] at hm
    split at hm
    · cases hm
    · cases hm; rfl
  | wait t =>
    have h := quiet_stepV v cfg s (.wait t) rfl
    refine ⟨h.1, h.2.1.trans hn, h.2.2.1, ?_⟩
    intro m hm
    simp only [msgOf] at hm
    split at hm
    · cases hm
    · cases hm

theorem noDeadline_runV (v : Variant) (cfg : TCfg) (s : TState) (es : List TEvent) (hn : s.nextDeadline = none)
    (hq : ∀ e ∈ es, e.noRecv = true) :
    (runV v cfg s es).deferredInfo = s.deferredInfo ∧ (runV v cfg s es).nextDeadline = none ∧
    (runV v cfg s es).dumpStarts = s.dumpStarts ∧ (∀ m ∈ traceV v cfg s es, isDue m = false) := by
  induction es generalizing s with
  | nil => exact ⟨rfl, hn, rfl, by simp [traceV]⟩
  | cons e es ih =>
    have h1 := noDeadline_stepV v cfg s e hn (hq e (by simp))
    have h2 := ih (stepV v cfg s e) h1.2.1 (fun x hx => hq x (by simp [hx]))
    rw [runV_cons, traceV_cons]
    refine ⟨h2.1.trans h1.1, h2.2.1, h2.2.2.1.trans h1.2.2.1, ?_⟩
    intro m hm
    rcases List.mem_append.1 hm with hm | hm
    · exact h1.2.2.2 m (by simpa using hm)
    · exact h2.2.2.2 m hm

/-! ### the seeded variant: a record without a deadline is never armed again, whatever arrives -/

def Orphan (s : TState) : Prop := s.deferredInfo.isSome = true ∧ s.nextDeadline = none

theorem orphan_congr {s s' : TState} (h : Orphan s) (h1 : s'.deferredInfo = s.deferredInfo)
    (h2 : s'.nextDeadline = s.nextDeadline) : Orphan s' := by
  unfold Orphan at *
  rw [h1, h2]
  exact h

theorem orphan_deferDumpT_seeded (cfg : TCfg) (s : TState) (h : Orphan s) : Orphan (deferDumpT .seeded cfg s) := by
  obtain ⟨st, al, dr, fr, now, di, nd, ds⟩ := s
  cases di <;> simp_all [Orphan, deferDumpT]

theorem orphan_stepV_seeded (cfg : TCfg) (s : TState) (e : TEvent) (h : Orphan s) :
    Orphan (stepV .seeded cfg s e) ∧ (∀ m ∈ msgOf cfg s e, isDue m = false) := by
  by_cases hen : enabled s e = true
  · have h0 : Orphan { s with now := e.time } := orphan_congr h rfl rfl
    cases e with
    | recv t op pred =>
      refine ⟨?_, ?_⟩
      · unfold stepV
        simp only [hen, Bool.not_true, Bool.false_eq_true, ↓reduceIte]
        split
        · rename_i s' he
          exact processOpT_fields Orphan (fun _ _ hx h1 h2 _ => orphan_congr hx h1 h2)
            (fun x hx => orphan_deferDumpT_seeded cfg x hx) h0 he
        · exact h0
      · intro m hm
        simp only [msgOf, hen, Bool.not_true, Bool.false_eq_true, ↓reduceIte] at hm
        cases hm; rfl
    | timeout t =>
      have : enabled s (.timeout t) = false := by simp [enabled, deadlineElapsed, h.2]
      rw [this] at hen; cases hen
    | dumpDone t =>
      have hx := noDeadline_stepV .seeded cfg s (.dumpDone t) h.2 rfl
      exact ⟨⟨by rw [hx.1]; exact h.1, hx.2.1⟩, hx.2.2.2⟩
    | fsyncDone t =>
      have hx := noDeadline_stepV .seeded cfg s (.fsyncDone t) h.2 rfl
      exact ⟨⟨by rw [hx.1]; exact h.1, hx.2.1⟩, hx.2.2.2⟩
    | wait t =>
      have hx := noDeadline_stepV .seeded cfg s (.wait t) h.2 rfl
      exact ⟨⟨by rw [hx.1]; exact h.1, hx.2.1⟩, hx.2.2.2⟩
  · have hen' : enabled s e = false := by simpa using hen
    rw [stepV_disabled .seeded cfg s e hen']
    exact ⟨h, by simp [msgOf, hen']⟩

theorem orphan_runV_seeded (cfg : TCfg) (s : TState) (es : List TEvent) (h : Orphan s) :
    Orphan (runV .seeded cfg s es) ∧ (∀ m ∈ traceV .seeded cfg s es, isDue m = false) := by
  induction es generalizing s with
  | nil => exact ⟨h, by simp [traceV]⟩
  | cons e es ih =>
    have h1 := orphan_stepV_seeded cfg s e h
    have h2 := ih (stepV .seeded cfg s e) h1.1
    rw [runV_cons, traceV_cons]
    refine ⟨h2.1, ?_⟩
    intro m hm
    rcases List.mem_append.1 hm with hm | hm
    · exact h1.2 m (by simpa using hm)
    · exact h2.2 m hm

theorem deferDumpT_dumpStarts (v : Variant) (cfg : TCfg) (s : TState) :
    (deferDumpT v cfg s).dumpStarts = s.dumpStarts := by
  obtain ⟨st, al, dr, fr, now, di, nd, ds⟩ := s
  cases v <;> cases di <;> simp [deferDumpT, updateDeadline_eq]

/-- a delete never spawns a dump task itself -/
theorem delete_stepV_dumpStarts (v : Variant) (cfg : TCfg) (s : TState) (e : TEvent) (he : e.isDelete = true) :
    (stepV v cfg s e).dumpStarts = s.dumpStarts := by
  cases e with
  | recv t op pred =>
    cases op <;> first | cases he | skip
    by_cases hen : enabled s (.recv t .deferredDumpBlobIndexes pred) = true
    · cases hp : predOk pred s.store
      · simp [stepV, hen, processOpT, hp]
      · simp [stepV, hen, processOpT, hp, deferDumpT_dumpStarts]
    · rw [stepV_disabled v cfg s _ (by simpa using hen)]
  | timeout t => cases he
  | dumpDone t => cases he
  | fsyncDone t => cases he
  | wait t => cases he

/-- seeded variant, record without a deadline: deletes and silence never start a dump -/
theorem orphan_runV_seeded_noStart (cfg : TCfg) (s : TState) (es : List TEvent) (h : Orphan s)
    (hes : ∀ e ∈ es, e.noRecv = true ∨ e.isDelete = true) :
    (runV .seeded cfg s es).dumpStarts = s.dumpStarts := by
  induction es generalizing s with
  | nil => rfl
  | cons e es ih =>
    rw [runV_cons, ih _ (orphan_stepV_seeded cfg s e h).1 (fun x hx => hes x (by simp [hx]))]
    rcases hes e (by simp) with he | he
    · exact (noDeadline_stepV .seeded cfg s e h.2 he).2.2.1
    · exact delete_stepV_dumpStarts .seeded cfg s e he

/-! ## reachability is closed under runs -/

theorem reachable_init (v : Variant) (cfg : TCfg) (store : Store) : Reachable v cfg (TState.init store) :=
  ⟨store, [], rfl⟩

theorem reachable_runV {v : Variant} {cfg : TCfg} {s : TState} (h : Reachable v cfg s) (es : List TEvent) :
    Reachable v cfg (runV v cfg s es) := by
  obtain ⟨store, es0, rfl⟩ := h
  exact ⟨store, es0 ++ es, (runV_append v cfg _ es0 es).symm⟩

theorem reachable_stepV {v : Variant} {cfg : TCfg} {s : TState} (h : Reachable v cfg s) (e : TEvent) :
    Reachable v cfg (stepV v cfg s e) := reachable_runV h [e]

/-! ## the untimed `deadlineDue` is eventually enabled -/

theorem msgOf_timeout (cfg : TCfg) (s : TState) (t : Nat) (hen : enabled s (.timeout t) = true) :
    msgOf cfg s (.timeout t) = if dueAt cfg s t = true then some .deadlineDue else none := by
  simp [msgOf, firesDue, hen]

theorem msgOf_deadlineDue_iff (cfg : TCfg) (s : TState) (e : TEvent) :
    msgOf cfg s e = some .deadlineDue ↔ ∃ t, e = .timeout t ∧ firesDue cfg s t = true := by
  unfold msgOf
  by_cases hen : enabled s e = true
  · simp only [hen, Bool.not_true, Bool.false_eq_true, ↓reduceIte]
    cases e with
    | recv t op pred => simp
    | timeout t =>
      by_cases hf : firesDue cfg s t = true
      · simp [hf]
      · simp [hf]
    | dumpDone t => simp
    | fsyncDone t => simp
    | wait t => simp
  · have hen' : enabled s e = false := by simpa using hen
    simp only [hen', Bool.not_false, ↓reduceIte]
    constructor
    · intro h; cases h
    · rintro ⟨t, rfl, hf⟩
      simp [firesDue, hen'] at hf

/-- with a record registered and a deadline armed, at most two elapsing deadlines make the deferred dump due -/
theorem due_within_two_timeouts' (v : Variant) (cfg : TCfg) (s : TState) (hal : s.alive = true)
    (d : Deferred) (dl : Nat) (hd : s.deferredInfo = some d) (hdl : s.nextDeadline = some dl)
    (t1 t2 : Nat) (h1 : s.now ≤ t1) (h1' : dl + EPS ≤ t1) (h2 : t1 ≤ t2)
    (h2' : d.nextDeadline cfg.minT cfg.maxT + EPS ≤ t2) :
    traceV v cfg s [.timeout t1] = [.deadlineDue] ∨ traceV v cfg s [.timeout t1, .timeout t2] = [.deadlineDue] := by
  have hen1 : enabled s (.timeout t1) = true := by
    rw [enabled_timeout_iff]
    exact ⟨hal, h1, dl, hdl, h1'⟩
  by_cases hdue : d.due cfg.minT cfg.maxT t1 = true
  · left
    simp [traceV, msgOf_timeout, hen1, dueAt, hd, hdue]
  · right
    have hdue' : d.due cfg.minT cfg.maxT t1 = false := by simpa using hdue
    have hs1 := timeout_early v cfg s _ d hen1 hd hdue'
    have hen2 : enabled (stepV v cfg s (.timeout t1)) (.timeout t2) = true := by
      rw [enabled_timeout_iff, hs1]
      exact ⟨hal, h2, _, rfl, h2'⟩
    have hdue2 : d.due cfg.minT cfg.maxT t2 = true := due_of_elapsed (Nat.le_refl _) h2'
    have hd1 : (stepV v cfg s (.timeout t1)).deferredInfo = some d := by rw [hs1]; exact hd
    simp only [traceV, msgOf_timeout, hen1, hen2, dueAt, hd, hd1, hdue', hdue2]
    rfl

theorem due_within_two_timeouts (v : Variant) (cfg : TCfg) (s : TState) (hal : s.alive = true)
    (d : Deferred) (dl : Nat) (hd : s.deferredInfo = some d) (hdl : s.nextDeadline = some dl) :
    ∃ es : List TEvent, es.length ≤ 2 ∧ (∀ e ∈ es, ∃ t, e = .timeout t) ∧ traceV v cfg s es = [.deadlineDue] := by
  rcases due_within_two_timeouts' v cfg s hal d dl hd hdl (max s.now (dl + EPS))
    (max (max s.now (dl + EPS)) (d.nextDeadline cfg.minT cfg.maxT + EPS))
    (Nat.le_max_left _ _) (Nat.le_max_right _ _) (Nat.le_max_left _ _) (Nat.le_max_right _ _) with h | h
  · exact ⟨_, by simp, by simp, h⟩
  · exact ⟨_, by simp, by simp, h⟩

end WorkerTimed
end Pearl
