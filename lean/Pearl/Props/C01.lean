import Pearl.Proofs.StoreLemmas
/-
C01: `read` / `contains` answer with the first-ranked record of the key
(greatest timestamp, then most recently created blob, then most recently appended),
for every history and after every prefix of it.
-/
namespace Pearl

/-! ### `Spec.all` is the rank order -/

/-- `Spec.all h k` is strictly sorted by rank (blob ids of the history pairwise distinct) -/
theorem Spec.all_sorted (h : History) (k : Key) (hn : (h.map (·.1)).Nodup) :
    (Spec.all h k).Pairwise (fun a b => rankBefore a b = true) :=
  sortedBy_sorted _ hn

/-- `Spec.all h k` consists exactly of the positioned records of key `k` -/
theorem Spec.all_perm (h : History) (k : Key) :
    (Spec.all h k).Perm (h.positioned.filter (fun p => p.r.key == k)) :=
  sortedBy_perm _ h

/-- and it is the only such list -/
theorem Spec.all_unique (h : History) (k : Key) (hn : (h.map (·.1)).Nodup) (l : List PRec)
    (hp : l.Perm (h.positioned.filter (fun p => p.r.key == k)))
    (hs : l.Pairwise (fun a b => rankBefore a b = true)) : l = Spec.all h k :=
  sortedBy_unique hn hp hs

example :
    Spec.all [(0, [⟨1, 5, false, none, ⟨1, 1⟩⟩, ⟨1, 5, true, none, ⟨0, 0⟩⟩]), (1, [⟨1, 3, false, none, ⟨2, 2⟩⟩])] 1
      = [⟨⟨1, 5, true, none, ⟨0, 0⟩⟩, 0, 1⟩, ⟨⟨1, 5, false, none, ⟨1, 1⟩⟩, 0, 0⟩, ⟨⟨1, 3, false, none, ⟨2, 2⟩⟩, 1, 0⟩] := by
  symm
  refine Spec.all_unique _ _ (by decide) _ ?_ (by decide)
  decide

/-! ### `read`, `contains` -/

theorem read_eq_spec {s : Store} (hwf : s.WF) (k : Key) :
    s.read k none = (Spec.latest s.history k).map (·.r) := by
  rw [Spec.latest_eq, Spec.all_eq_sortedBy]
  exact Store.getLatestEntry_eq_sortedBy hwf k none _ (fun b => b.getLatest_eq k)

theorem contains_eq_spec {s : Store} (hwf : s.WF) (k : Key) :
    s.contains k = (Spec.latest s.history k).map (·.r.ts) := by
  have := read_eq_spec hwf k
  unfold Store.read at this
  unfold Store.contains
  rw [this, ReadResult.map_map]

theorem read_notFound_iff {s : Store} (hwf : s.WF) (k : Key) :
    s.read k none = .notFound ↔ ∀ b ∈ s.blobs, ∀ r ∈ b.recs, r.key ≠ k := by
  rw [read_eq_spec hwf, Spec.latest_eq, classify_map_eq_notFound, List.head?_eq_none_iff,
    Spec.all_eq_sortedBy, sortedBy_eq_nil_iff, Store.no_key_iff]

/-- filters that never reject a stored key do not change answers -/
theorem prune_transparent (s : Store) (prune : Blob → Key → Bool) (k : Key) (m : Option Meta)
    (hp : ∀ b ∈ s.blobs, prune b k = true → ∀ r ∈ b.recs, r.key ≠ k) :
    s.getLatestEntryP prune k m = s.getLatestEntry k m := by
  unfold Store.getLatestEntry Store.getLatestEntryP
  rw [foldl_filter_neutral, foldl_filter_neutral]
  · intro b _ h; simp at h
  · intro b hb h acc
    have hpr : prune b k = true := by simpa using h
    rw [Blob.getLatestEntry_of_no_key (hp b (Store.mem_visit.1 hb) hpr), ReadResult.latest_notFound]

/-! ### well-formedness and the log -/

theorem init_WF (d : Bool) : (Store.init d).WF := Store.init_WF' d

theorem apply_WF {s : Store} (hwf : s.WF) (op : Op) : (s.apply op).WF := Store.apply_WF' hwf op

theorem run_WF (d : Bool) (ops : List Op) : ((Store.init d).run ops).WF :=
  (Store.run_inv (init_WF d) (Store.init_blobs_ne_nil d) ops).1

/-- nothing is ever lost or reordered: every blob is continued by a blob with the same id whose
    records extend the old ones (by at most one record) … -/
theorem apply_log {s : Store} (hwf : s.WF) (op : Op) :
    ∀ b ∈ s.blobs, ∃ b' ∈ (s.apply op).blobs,
      b'.id = b.id ∧ b.recs <+: b'.recs ∧ b'.recs.length ≤ b.recs.length + 1 := by
  rcases Store.apply_shape hwf op with h | h
  · cases h with
    | same hc _ => exact hc.fwd
    | new nb _ _ hc _ =>
      intro b hb
      exact hc.fwd b (List.mem_append_left _ hb)
  · intro b hb; rw [h.1] at hb; simp at hb

/-- … and every blob of the new state is such a continuation or a brand-new blob with the next id
    holding at most the one record this operation appended.
    (`s.blobs ≠ []` holds on every run from `init`, see `run_blobs_ne_nil`; without it the statement
    fails for `restart false` on a storage without blobs, see `apply_log_new_needs_blobs`.
    The new blob need not be empty, see `apply_log_new_blob_nonempty`.) -/
theorem apply_log_new {s : Store} (hwf : s.WF) (hne : s.blobs ≠ []) (op : Op) :
    ∀ b' ∈ (s.apply op).blobs,
      (∃ b ∈ s.blobs, b'.id = b.id ∧ b.recs <+: b'.recs ∧ b'.recs.length ≤ b.recs.length + 1) ∨
        (b'.id = s.nextId ∧ b'.recs.length ≤ 1) := by
  rcases Store.apply_shape hwf op with h | h
  · cases h with
    | same hc _ => intro b' hb'; exact Or.inl (hc.bwd b' hb')
    | new nb hid hrecs hc _ =>
      intro b' hb'
      obtain ⟨x, hx, h1, h2, h3⟩ := hc.bwd b' hb'
      rcases List.mem_append.1 hx with hx | hx
      · exact Or.inl ⟨x, hx, h1, h2, h3⟩
      · simp only [List.mem_singleton] at hx
        subst hx
        rw [hrecs] at h3
        exact Or.inr ⟨h1.trans hid, by simpa using h3⟩
  · exact absurd h.1 hne

theorem run_blobs_ne_nil (d : Bool) (ops : List Op) : ((Store.init d).run ops).blobs ≠ [] :=
  (Store.run_inv (init_WF d) (Store.init_blobs_ne_nil d) ops).2

/-- under `WF` alone (a storage without any blob, not reachable from `init`) `restart false`
    creates blob `0`, which is neither a continuation nor numbered `nextId` -/
theorem apply_log_new_needs_blobs :
    ∃ s : Store, s.WF ∧ ∃ b' ∈ (s.apply (.restart false)).blobs,
      (∀ b ∈ s.blobs, b'.id ≠ b.id) ∧ b'.id ≠ s.nextId :=
  ⟨{ nextId := 5 }, ⟨by decide, by decide⟩, { id := 0, recs := [] }, by decide, by decide, by decide⟩

/-- the brand-new blob is not always empty: a write without an active blob creates the blob and
    appends to it in one operation -/
theorem apply_log_new_blob_nonempty :
    ∃ s : Store, s.WF ∧ s.blobs ≠ [] ∧ ∃ b' ∈ (s.apply (.write 1 5 none ⟨1, 1⟩)).blobs,
      b'.id = s.nextId ∧ b'.recs ≠ [] :=
  ⟨(Store.init false).run [.closeActive], run_WF _ _, run_blobs_ne_nil _ _,
    { id := 1, recs := [⟨1, 5, false, none, ⟨1, 1⟩⟩] }, by decide, by decide, by decide⟩

/-! ### for every history, after every prefix -/

theorem run_read_eq_spec (d : Bool) (ops : List Op) (k : Key) :
    let s := (Store.init d).run ops
    s.read k none = (Spec.latest s.history k).map (·.r) :=
  read_eq_spec (run_WF d ops) k

theorem run_contains_eq_spec (d : Bool) (ops : List Op) (k : Key) :
    let s := (Store.init d).run ops
    s.contains k = (Spec.latest s.history k).map (·.r.ts) :=
  contains_eq_spec (run_WF d ops) k

theorem run_read_notFound_iff (d : Bool) (ops : List Op) (k : Key) :
    let s := (Store.init d).run ops
    s.read k none = .notFound ↔ ∀ b ∈ s.blobs, ∀ r ∈ b.recs, r.key ≠ k :=
  read_notFound_iff (run_WF d ops) k

/-- the log of a run only grows, operation by operation -/
theorem run_log (d : Bool) (ops : List Op) (op : Op) :
    let s := (Store.init d).run ops
    ∀ b ∈ s.blobs, ∃ b' ∈ ((Store.init d).run (ops ++ [op])).blobs,
      b'.id = b.id ∧ b.recs <+: b'.recs ∧ b'.recs.length ≤ b.recs.length + 1 := by
  intro s
  have : (Store.init d).run (ops ++ [op]) = s.apply op := by
    simp [Store.run, List.foldl_append, s]
  rw [this]
  exact apply_log (run_WF d ops) op

/-! ### non-vacuity -/

-- the hypotheses hold on real runs and the answers are not trivial
example : Demo.s2.WF := run_WF true Demo.ops2

-- cross-blob tie at ts 5: the record of the newer blob is served
example : Demo.s1.read 1 none = .found ⟨1, 5, false, some [7], ⟨3, 3⟩⟩ := by decide
example : (Spec.latest Demo.s1.history 1).map (·.r) = .found ⟨1, 5, false, some [7], ⟨3, 3⟩⟩ := by
  rw [← read_eq_spec Demo.s1_WF]; decide
example : (Spec.latest ((Store.init true).run (Demo.ops1 ++ [.delete 1 9 none true])).history 1).map (·.r.ts)
    = .deleted 9 := by
  rw [← contains_eq_spec (run_WF _ _)]; decide
example : Demo.s2.contains 1 = .found 12 := by decide
example : Demo.s2.read 3 none = .notFound ∧ Demo.s2.read 2 none ≠ .notFound := by decide
example : ∀ b ∈ Demo.s2.blobs, ∀ r ∈ b.recs, r.key ≠ 3 :=
  (read_notFound_iff Demo.s2_WF 3).1 (by decide)
-- a pruning predicate that is allowed to reject (blob 1 holds no key 2) and does reject
example : Demo.s1.getLatestEntryP (fun b k => b.id == 1 && k == 2) 2 none
    = .found ⟨2, 6, false, none, ⟨2, 2⟩⟩ := by
  rw [prune_transparent _ _ _ _ (by decide)]; decide
-- the log grows: new blob (replaceActive) and appended records
example : ∃ b' ∈ (Demo.s1.apply (.write 2 8 none ⟨5, 5⟩)).blobs, b'.id = 1 ∧ b'.recs.length = 2 := by decide
example : (Demo.s1.apply .replaceActive).blobs.length = Demo.s1.blobs.length + 1 := by decide

end Pearl
