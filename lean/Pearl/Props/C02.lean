import Pearl.Proofs.StoreLemmas
/-
C02: `read_all_with_deletion_marker`, `read_all`, `read_with`, `delete`, and the duplicate check of
`write`, against the rank order of the specification.
-/
namespace Pearl

/-! ### `read_all_with_deletion_marker`, `read_all` -/

theorem readAllMarked_eq_spec {s : Store} (hwf : s.WF) (k : Key) :
    s.readAllMarked k = (Spec.allCut s.history k).map (·.r) := by
  rw [Store.readAllMarked_eq_P]
  exact congrArg (List.map (·.r)) (Store.readAllMarkedP_eq hwf k)

theorem readAll_eq_spec {s : Store} (hwf : s.WF) (k : Key) :
    s.readAll k = (Spec.allLive s.history k).map (·.r) := by
  rw [Store.readAll_def, readAllMarked_eq_spec hwf k]
  unfold Spec.allLive Spec.allCut
  rw [← cutHdrs_map_r, stripLastR_cutHdrs, cutHdrs_map_r, List.filter_map]
  rfl

/-! ### `read_with` -/

/-- per blob: first match above the local marker, else `Deleted(local marker)`; merged with
    `ReadResult::latest` (strict `>`, first seen wins) newest blob first -/
theorem readWith_eq_spec {s : Store} (hwf : s.WF) (k : Key) (m : Meta) :
    s.read k (some m) = (Spec.readWith s.history k m).map (·.r) := by
  rw [Spec.readWith_eq, ← List.head?_filter, Spec.all_eq_sortedBy,
    filter_sortedBy _ _ hwf.history_nodup]
  exact Store.getLatestEntry_eq_sortedBy hwf k (some m) _ (fun b => b.getWithMeta_eq k m)

/-! ### `delete` -/

/-- the liveness test of the specification is the one `Blob::delete` performs -/
theorem liveIn_iff_getLatest (b : Blob) (k : Key) :
    Spec.liveIn b.id b.recs k = (b.getLatest k).isFound := b.liveIn_eq k

/-- `delete` appends the marker to the active blob when `!only_if_presented`, and to every blob in
    which the key is live; everything else is unchanged; the returned number counts the marked blobs -/
theorem delete_spec (s : Store) (k : Key) (ts : Nat) (m : Option Meta) (oip : Bool) :
    let s0 := if oip then s else s.ensureActive
    let mk := fun b : Blob =>
      ({ b with
          recs := b.recs ++ [{ key := k, ts := ts, del := true, mt := m.getD none, data := ⟨0, 0⟩ }]
          onDisk := false } : Blob)
    let hitClosed := fun b : Blob => Spec.liveIn b.id b.recs k
    let hitActive := fun b : Blob => !oip || Spec.liveIn b.id b.recs k
    (s.delete k ts m oip).1.blobs =
        s0.closed.map (fun b => if hitClosed b then mk b else b) ++
          s0.active.toList.map (fun b => if hitActive b then mk b else b) ∧
      (s.delete k ts m oip).2 =
        (s0.closed.filter hitClosed).length + (s0.active.toList.filter hitActive).length ∧
      (s.delete k ts m oip).1.nextId = s0.nextId ∧
      (s.delete k ts m oip).1.allowDup = s0.allowDup := by
  intro s0 mk hitClosed hitActive
  refine ⟨?_, ?_, Store.delete_nextId s k ts m oip, Store.delete_allowDup s k ts m oip⟩
  · rw [Store.delete_blobs]
    congr 1
    · apply List.map_congr_left
      intro b _
      rw [Store.blobDelete_fst, ← b.liveIn_eq k]
      rfl
    · apply List.map_congr_left
      intro b _
      rw [Store.blobDelete_fst, ← b.liveIn_eq k]
      rfl
  · rw [Store.delete_count, Nat.add_comm]
    congr 2
    · apply List.filter_congr
      intro b _
      rw [Store.blobDelete_snd, ← b.liveIn_eq k]
      rfl
    · apply List.filter_congr
      intro b _
      rw [Store.blobDelete_snd, ← b.liveIn_eq k]

/-! ### `write` -/

theorem dedup_write (s : Store) (k : Key) (ts : Nat) (m : Option Meta) (d : Data)
    (hd : s.allowDup = false) (hf : (s.ensureActive.getLatestEntry k m).isFound = true) :
    s.write k ts m d = s.ensureActive := by
  simp [Store.write, Store.ensureActive_allowDup, hd, hf]

/-- otherwise the record is appended to the active blob of `s.ensureActive`; nothing else changes -/
theorem write_appends (s : Store) (k : Key) (ts : Nat) (m : Option Meta) (d : Data)
    (h : s.allowDup = true ∨ (s.ensureActive.getLatestEntry k m).isFound = false) :
    ∃ a, s.ensureActive.active = some a ∧
      s.write k ts m d =
        { s.ensureActive with
          active := some (a.append { key := k, ts := ts, del := false, mt := m.getD none, data := d }) } := by
  obtain ⟨a, ha⟩ := s.ensureActive_active
  refine ⟨a, ha, ?_⟩
  have hc : (!s.ensureActive.allowDup && (s.ensureActive.getLatestEntry k m).isFound) = false := by
    rw [Store.ensureActive_allowDup]
    rcases h with h | h <;> simp [h]
  simp only [Store.write, hc, Bool.false_eq_true, if_false, ha]

/-- the duplicate check in the specification's terms (no metadata given): with duplicates
    disallowed a key whose first-ranked record is not a marker is not written again -/
theorem dedup_write_spec {s : Store} (hwf : s.WF) (k : Key) (ts : Nat) (d : Data)
    (hd : s.allowDup = false) (hf : (Spec.latest s.ensureActive.history k).isFound = true) :
    s.write k ts none d = s.ensureActive := by
  apply dedup_write s k ts none d hd
  have := Store.getLatestEntry_eq_sortedBy (Store.ensureActive_WF hwf) k none _
    (fun b => b.getLatest_eq k)
  rw [this, ReadResult.isFound_map, ← Spec.all_eq_sortedBy, ← Spec.latest_eq]
  exact hf

/-! ### for every history, after every prefix -/

theorem run_readAllMarked_eq_spec (d : Bool) (ops : List Op) (k : Key) :
    let s := (Store.init d).run ops
    s.readAllMarked k = (Spec.allCut s.history k).map (·.r) :=
  readAllMarked_eq_spec (Store.run_inv (Store.init_WF' d) (Store.init_blobs_ne_nil d) ops).1 k

theorem run_readAll_eq_spec (d : Bool) (ops : List Op) (k : Key) :
    let s := (Store.init d).run ops
    s.readAll k = (Spec.allLive s.history k).map (·.r) :=
  readAll_eq_spec (Store.run_inv (Store.init_WF' d) (Store.init_blobs_ne_nil d) ops).1 k

theorem run_readWith_eq_spec (d : Bool) (ops : List Op) (k : Key) (m : Meta) :
    let s := (Store.init d).run ops
    s.read k (some m) = (Spec.readWith s.history k m).map (·.r) :=
  readWith_eq_spec (Store.run_inv (Store.init_WF' d) (Store.init_blobs_ne_nil d) ops).1 k m

/-! ### non-vacuity -/

-- cross-blob tie at ts 5 (stable sort keeps the newer blob's record first)
example : Demo.s1.readAllMarked 1 =
    [⟨1, 5, false, some [7], ⟨3, 3⟩⟩, ⟨1, 5, false, none, ⟨1, 1⟩⟩] := by decide
example : (Spec.allCut Demo.s1.history 1).map (·.r) =
    [⟨1, 5, false, some [7], ⟨3, 3⟩⟩, ⟨1, 5, false, none, ⟨1, 1⟩⟩] := by
  rw [← readAllMarked_eq_spec Demo.s1_WF]; decide
-- three blobs, two markers at ts 9, a newer record: the list is cut after the first marker
example : Demo.s2.readAllMarked 1 = [⟨1, 12, false, none, ⟨4, 4⟩⟩, ⟨1, 9, true, none, ⟨0, 0⟩⟩] := by
  decide
example : (Spec.allLive Demo.s2.history 1).map (·.r) = [⟨1, 12, false, none, ⟨4, 4⟩⟩] := by
  rw [← readAll_eq_spec Demo.s2_WF]; decide
-- `read_with`: found below a non-matching newer record; `Deleted` when the match is below the marker
example : (Spec.readWith Demo.s1.history 1 none).map (·.r) = .found ⟨1, 5, false, none, ⟨1, 1⟩⟩ := by
  rw [← readWith_eq_spec Demo.s1_WF]; decide
example : (Spec.readWith Demo.s2.history 1 (some [7])).map (·.r) = .deleted 9 := by
  rw [← readWith_eq_spec Demo.s2_WF]; decide
-- `delete` with `only_if_presented` marks both blobs holding key 1 and reports 2
example : (Demo.s1.delete 1 9 none true).2 = 2 := by decide
example : ((Demo.s1.delete 1 9 none true).1.blobs.map (·.recs.length)) = [3, 2] := by decide
example : (Demo.s1.delete 2 9 none false).2 = 2 ∧ (Demo.s1.delete 3 9 none false).2 = 1 := by decide
example : Spec.liveIn 0 [⟨1, 5, false, none, ⟨1, 1⟩⟩] 1 = true := by
  rw [liveIn_iff_getLatest ⟨0, [⟨1, 5, false, none, ⟨1, 1⟩⟩], false⟩]; decide
-- duplicate check: hypotheses of `dedup_write` are satisfiable, and so are those of `write_appends`
example : ∃ s : Store, s.allowDup = false ∧ (s.ensureActive.getLatestEntry 1 none).isFound = true :=
  ⟨(Store.init false).run [.write 1 5 none ⟨1, 1⟩, .closeActive], by decide, by decide⟩
example : (((Store.init false).run [.write 1 5 none ⟨1, 1⟩]).write 1 6 none ⟨2, 2⟩).recordsCount = 1 := by
  decide
example : (Demo.s1.write 1 6 none ⟨2, 2⟩).recordsCount = Demo.s1.recordsCount + 1 := by decide

end Pearl
