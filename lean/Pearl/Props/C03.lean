import Pearl.Proofs.MaintLemmas
import Pearl.Props.C04
import Pearl.Props.C15
/-
C03, logical level: closing the storage and opening it again on the same (undamaged) directory is
invisible.  `Store.restart lazy` is the model of close + init; the byte-level statement (what is on
disk after close is what init reads back) belongs to the layers below.
-/
namespace Pearl

/-! ### `restart` as a maintenance operation -/

theorem restart_WF {s : Store} (hwf : s.WF) (lazy : Bool) : (s.restart lazy).WF :=
  apply_WF hwf (.restart lazy)

/-- the history is literally unchanged (a storage with at least one blob, as on every run) -/
theorem restart_history {s : Store} (hwf : s.WF) (hne : s.blobs ≠ []) (lazy : Bool) :
    (s.restart lazy).history = s.history :=
  (Store.restart_of_ne_nil hwf lazy hne).1

/-- without any blob, `restart false` creates blob 0 (`init_new`): the only way the history changes -/
theorem restart_history_needs_blobs :
    ∃ s : Store, s.WF ∧ (s.restart false).history ≠ s.history :=
  ⟨{ nextId := 5 }, ⟨by decide, by decide⟩, by decide⟩

/-- the records are unchanged, with or without blobs -/
theorem restart_records {s : Store} (hwf : s.WF) (lazy : Bool) :
    History.positioned (s.restart lazy).history = History.positioned s.history ∧
      (History.positioned (s.restart lazy).history).Perm (History.positioned s.history) :=
  ⟨maint_records_eq (m := .restart lazy) hwf rfl, maint_records (m := .restart lazy) hwf rfl⟩

/-- all queries: `read`, `read_with`, `contains`, `read_all_with_deletion_marker`, `read_all`,
    `get_latest_entry` -/
theorem restart_answers {s : Store} (hwf : s.WF) (lazy : Bool) (k : Key) :
    (s.restart lazy).read k none = s.read k none ∧
      (∀ mt, (s.restart lazy).read k (some mt) = s.read k (some mt)) ∧
      (s.restart lazy).contains k = s.contains k ∧
      (s.restart lazy).readAllMarked k = s.readAllMarked k ∧
      (s.restart lazy).readAll k = s.readAll k ∧
      (∀ mo, (s.restart lazy).getLatestEntry k mo = s.getLatestEntry k mo) :=
  maint_answers (m := .restart lazy) hwf rfl k

theorem restart_counts {s : Store} (hwf : s.WF) (lazy : Bool) :
    (s.restart lazy).recordsCount = s.recordsCount :=
  maint_counts (m := .restart lazy) hwf rfl

/-- with at least one blob, also the per-blob counts and the number of blobs -/
theorem restart_counts_detailed {s : Store} (hwf : s.WF) (hne : s.blobs ≠ []) (lazy : Bool) :
    (s.restart lazy).recordsCountDetailed = s.recordsCountDetailed ∧
      (s.restart lazy).blobsCount = s.blobsCount := by
  rw [recordsCountDetailed_eq, recordsCountDetailed_eq, blobsCount_eq, blobsCount_eq,
    restart_history hwf hne lazy]
  exact ⟨rfl, rfl⟩

/-- the write duplicate check behaves as before -/
theorem restart_dedups {s : Store} (hwf : s.WF) (lazy : Bool) (k : Key) (mo : Option Meta) :
    (s.restart lazy).dedups k mo = s.dedups k mo :=
  maint_dedups (m := .restart lazy) hwf rfl k mo

/-! ### `nextId` after `restart` -/

/-- `next_blob_id` is recomputed as greatest id + 1, hence above every id present -/
theorem restart_nextId {s : Store} (hwf : s.WF) (hne : s.blobs ≠ []) (lazy : Bool) :
    (s.restart lazy).nextId = s.maxId + 1 ∧
      (∀ b ∈ s.blobs, b.id < (s.restart lazy).nextId) ∧
      (∀ b ∈ (s.restart lazy).blobs, b.id < (s.restart lazy).nextId) := by
  have h := restart_nextId_eq hwf hne lazy
  refine ⟨h, ?_, (restart_WF hwf lazy).2⟩
  intro b hb
  rw [h, ← Store.idBound_eq_maxId hne]
  exact Store.idBound_gt s b hb

/-- on every state reachable from `init`, `restart` does not move `nextId` at all -/
theorem run_restart_nextId (d : Bool) (ops : List Op) (lazy : Bool) :
    let s := (Store.init d).run ops
    (s.restart lazy).nextId = s.nextId := by
  intro s
  rw [(restart_nextId (run_WF d ops) (run_blobs_ne_nil d ops) lazy).1]
  exact (run_nextId_tight d ops).2.symm

/-! ### restarting twice -/

theorem restart_idempotent_answers {s : Store} (hwf : s.WF) (l₁ l₂ : Bool) (k : Key) :
    (∀ mo, ((s.restart l₁).restart l₂).read k mo = (s.restart l₁).read k mo) ∧
      ((s.restart l₁).restart l₂).contains k = (s.restart l₁).contains k ∧
      ((s.restart l₁).restart l₂).readAllMarked k = (s.restart l₁).readAllMarked k ∧
      ((s.restart l₁).restart l₂).readAll k = (s.restart l₁).readAll k ∧
      ((s.restart l₁).restart l₂).recordsCount = (s.restart l₁).recordsCount := by
  have hwf₁ := restart_WF hwf l₁
  have h := restart_answers hwf₁ l₂ k
  exact ⟨fun mo => h.2.2.2.2.2 mo, h.2.2.1, h.2.2.2.1, h.2.2.2.2.1, restart_counts hwf₁ l₂⟩

/-- in the same mode even the state is a fixed point -/
theorem restart_idempotent {s : Store} (hwf : s.WF) (lazy : Bool) :
    (s.restart lazy).restart lazy = s.restart lazy :=
  Store.restart_restart hwf lazy

/-- history and `nextId` are fixed points after the first restart -/
theorem restart_idempotent_history {s : Store} (hwf : s.WF) (hne : s.blobs ≠ []) (l₁ l₂ : Bool) :
    ((s.restart l₁).restart l₂).history = (s.restart l₁).history ∧
      ((s.restart l₁).restart l₂).nextId = (s.restart l₁).nextId := by
  have hwf₁ := restart_WF hwf l₁
  have hh₁ := restart_history hwf hne l₁
  have hne₁ : (s.restart l₁).blobs ≠ [] := by
    intro h0
    have : (s.restart l₁).history = [] := by rw [Store.history_eq, h0]; rfl
    rw [hh₁, Store.history_eq] at this
    exact hne (List.map_eq_nil_iff.1 this)
  refine ⟨restart_history hwf₁ hne₁ l₂, ?_⟩
  have hids : (s.restart l₁).ids = s.ids := by rw [← Store.history_ids, hh₁, Store.history_ids]
  rw [restart_nextId_eq hwf₁ hne₁ l₂, restart_nextId_eq hwf hne l₁]
  unfold Store.maxId
  exact congrArg (fun l => List.foldl max 0 l + 1) hids

/-! ### the answers do not depend on how the index is represented or where it resides -/

/-- the restart equivalence in its general form: any two well-formed stores holding the same
    records (per blob id and position) answer every query identically — whatever `init` rebuilds,
    as long as it finds the same records in the same blobs -/
theorem answers_of_same_records {s s' : Store} (hwf : s.WF) (hwf' : s'.WF)
    (hp : (History.positioned s'.history).Perm (History.positioned s.history)) (k : Key) :
    (∀ mo, s'.read k mo = s.read k mo) ∧ s'.contains k = s.contains k ∧
      s'.readAllMarked k = s.readAllMarked k ∧ s'.readAll k = s.readAll k := by
  have ha : Spec.all s'.history k = Spec.all s.history k :=
    spec_all_of_perm hwf.history_nodup hp k
  have hcut : Spec.allCut s'.history k = Spec.allCut s.history k := by unfold Spec.allCut; rw [ha]
  have hlive : Spec.allLive s'.history k = Spec.allLive s.history k := by unfold Spec.allLive; rw [hcut]
  have hlat : Spec.latest s'.history k = Spec.latest s.history k := by unfold Spec.latest; rw [ha]
  have hrw : ∀ mt, Spec.readWith s'.history k mt = Spec.readWith s.history k mt := by
    intro mt; unfold Spec.readWith; rw [hcut]
  refine ⟨?_, ?_, ?_, ?_⟩
  · intro mo
    cases mo with
    | none => rw [read_eq_spec hwf', read_eq_spec hwf, hlat]
    | some mt => rw [readWith_eq_spec hwf', readWith_eq_spec hwf, hrw]
  · rw [contains_eq_spec hwf', contains_eq_spec hwf, hlat]
  · rw [readAllMarked_eq_spec hwf', readAllMarked_eq_spec hwf, hcut]
  · rw [readAll_eq_spec hwf', readAll_eq_spec hwf, hlive]

/-- the model's per-key index vector is a function of the blob's records only … -/
theorem vec_is_function_of_recs (b b' : Blob) (k : Key) (h : b.recs = b'.recs) : b.vec k = b'.vec k := by
  unfold Blob.vec; rw [h]

/-- … so are all per-blob answers … -/
theorem blob_answers_function_of_recs (b b' : Blob) (k : Key) (mo : Option Meta) (h : b.recs = b'.recs) :
    b.getLatestEntry k mo = b'.getLatestEntry k mo ∧ b.getAllCut k = b'.getAllCut k := by
  have hv := vec_is_function_of_recs b b' k h
  constructor
  · cases mo with
    | none => show latestOfVec (b.vec k) = latestOfVec (b'.vec k); rw [hv]
    | some m => unfold Blob.getLatestEntry Blob.getWithMeta Blob.getAllCut; rw [hv]
  · unfold Blob.getAllCut; rw [hv]

/-- … in particular they do not depend on index residence (memory / disk) -/
theorem onDisk_irrelevant (b : Blob) (x : Bool) (k : Key) (mo : Option Meta) :
    ({ b with onDisk := x } : Blob).getLatestEntry k mo = b.getLatestEntry k mo ∧
      ({ b with onDisk := x } : Blob).getAllCut k = b.getAllCut k :=
  blob_answers_function_of_recs _ _ k mo rfl

/-- an index regenerated by scanning the blob file (push every header, in file order, into the
    vector of its key) is the index the blob had -/
theorem regen_eq (b : Blob) (k : Key) : rebuildIndex b.recs k = b.vec k :=
  foldl_rebuild k b.recs _

/-- documented hypothesis-theorem: if reopening yields, for every blob, the records that were in
    its file (`hrecs`: same ids, same records, i.e. close flushed everything and init read it back),
    then with a *regenerated* index every answer is the old one.  `hrecs` is what the byte-level
    properties have to supply; the index itself needs no hypothesis (`regen_eq`). -/
theorem restart_with_regenerated_index {s s' : Store} (hwf : s.WF) (hwf' : s'.WF)
    (hrecs : s'.history = s.history) (k : Key) :
    (∀ b' ∈ s'.blobs, rebuildIndex b'.recs k = b'.vec k) ∧
      (∀ mo, s'.read k mo = s.read k mo) ∧ s'.contains k = s.contains k ∧
      s'.readAllMarked k = s.readAllMarked k ∧ s'.readAll k = s.readAll k :=
  ⟨fun b' _ => regen_eq b' k, answers_of_same_records hwf hwf' (by rw [hrecs]) k⟩

/-! ### non-vacuity -/

-- restart changes the representation (blob 1 was active with its index in memory) …
example : (Demo.s1.restart true).active = none ∧ Demo.s1.active ≠ none ∧
    (Demo.s1.restart true).blobs ≠ Demo.s1.blobs := by decide
example : (Demo.s1.restart false).blobs.map (·.onDisk) = [true, false] := by decide
-- … not the history, the answers, the counts
example : (Demo.s1.restart true).history = Demo.s1.history := restart_history Demo.s1_WF (by decide) true
example : (Demo.s1.restart true).read 1 none = .found ⟨1, 5, false, some [7], ⟨3, 3⟩⟩ := by
  rw [(restart_answers Demo.s1_WF true 1).1]; decide
example : (Demo.s2.restart false).readAll 1 = [⟨1, 12, false, none, ⟨4, 4⟩⟩] := by
  rw [(restart_answers Demo.s2_WF false 1).2.2.2.2.1]; decide
example : (Demo.s2.restart true).recordsCountDetailed = [3, 2, 1] := by
  rw [(restart_counts_detailed Demo.s2_WF (by decide) true).1]; decide
example : (Demo.s2.restart true).nextId = 3 ∧ Demo.s2.maxId = 2 := by decide
example : ((Demo.s2.restart true).restart true).blobs = (Demo.s2.restart true).blobs ∧
    (Demo.s2.restart true).blobs ≠ Demo.s2.blobs := by decide
-- the regenerated index of a blob with out-of-order timestamps
example : rebuildIndex [⟨1, 7, false, none, ⟨1, 1⟩⟩, ⟨2, 1, false, none, ⟨1, 1⟩⟩, ⟨1, 3, true, none, ⟨0, 0⟩⟩] 1
    = [⟨1, 3, true, none, ⟨0, 0⟩⟩, ⟨1, 7, false, none, ⟨1, 1⟩⟩] := by decide
-- `answers_of_same_records` applies to genuinely different states
example : (∀ mo, (Demo.s1.apply .closeActive).read 2 mo = Demo.s1.read 2 mo) :=
  (answers_of_same_records Demo.s1_WF (apply_WF Demo.s1_WF .closeActive) (by decide) 2).1

end Pearl
