import Pearl.Proofs.IndexValidateLemmas
/-
C03, byte level — "an index file never contributes information that is not recomputed from its blob …
when any subset of index files is missing, truncated at any length, left half-written, or stale".

Model: `Pearl/Model/IndexValidate.lean`, `acceptIndex K blobSize file` = start-up (`Blob::from_file` →
`IndexStruct::from_file` → `BPTreeFileIndex::from_file` + `validate`) USES the index file `file` for a
blob file of `blobSize` bytes; `false` = the index is regenerated from the blob (`indexSource`).
`f` below is always the byte image `indexFileBytes (build (Params.real K) metaLen m) metaBuf hash blobSize`
of the file `from_records` leaves on disk (`Pearl/Model/BPTreeBytes.lean`, compared byte for byte with
real `.index` files by `Pearl/Model/BPTreeFileCheck.lean`).

Standing hypotheses: `K ≤ 2032` (as in C09: the fan-out is at least 3, so the written nodes have the
size the offset arithmetic assumes; it implies `K < 2^16`), `metaBuf.length = metaLen`,
`hash.length = 32`, file size `< 2^64`; `blobSize < 2^64` where the recorded size must be read back.
`m` need not be well-formed or non-empty for any of the statements (for an empty map the Rust code
writes no file at all).

Only property theorems and, beside each, an example showing that it is not vacuous.
-/
namespace Pearl.C03b
open Pearl Pearl.BPTree

/-! ### the running example: 1-byte keys, 3 headers, a 2-byte filter section, a 100-byte blob -/

def hd (k ts : Nat) : RawHeader := ⟨k, 0, 3, 0, 40 + ts, ts, 1, 2⟩
def m1 : InMem RawHeader := [(3, [hd 3 1, hd 3 2]), (7, [hd 7 3])]
def F1 : IndexFile RawHeader := build (Params.real 1) 2 m1
def hash1 : List Nat := List.replicate 32 0
/-- 83 (header) + 2 (filters) + 16 (tree meta) + 3 · 58 (record headers) = 275 bytes -/
def f1 : List Nat := indexFileBytes F1 [9, 9] hash1 100

theorem F1_size : F1.fileSize < 2 ^ 64 := by decide

set_option maxRecDepth 100000 in
theorem f1_length : f1.length = 275 := by decide
example : F1.nodes = [] ∧ F1.leavesOffset = 101 ∧ F1.treeOffset = 101 := by decide

/-! ### what the storage wrote is accepted -/

/-- the file `from_records` leaves on disk is used at the next start-up, when the blob has the recorded
    size and the key size is the compile-time one -/
theorem accept_produced (K : Nat) (hK : K ≤ 2032) (metaLen : Nat) (m : InMem RawHeader)
    (metaBuf hash : List Nat) (blobSize : Nat) (hmeta : metaBuf.length = metaLen) (hhash : hash.length = 32)
    (hsize : (build (Params.real K) metaLen m).fileSize < 2 ^ 64) (hblob : blobSize < 2 ^ 64) :
    acceptIndex K blobSize (indexFileBytes (build (Params.real K) metaLen m) metaBuf hash blobSize) = true := by
  rw [indexFileBytes_eq_V]
  exact (accept_full_iff _ metaBuf hash (build_imageOK K hK metaLen m metaBuf hash hmeta hhash hsize)
    13 blobSize K blobSize).2 ⟨rfl, rfl, Nat.mod_eq_of_lt (by rw [pow_256_8]; omega)⟩

example : acceptIndex 1 100 f1 = true :=
  accept_produced 1 (by decide) 2 m1 [9, 9] hash1 100 rfl rfl F1_size (by decide)
set_option maxRecDepth 100000 in
example : acceptIndex 1 100 f1 = true := by decide
example : indexSource 1 100 (some f1) = .file := by
  have h : acceptIndex 1 100 f1 = true :=
    accept_produced 1 (by decide) 2 m1 [9, 9] hash1 100 rfl rfl F1_size (by decide)
  simp [indexSource, h]
/-- a missing index file: regenerated -/
example : indexSource 1 100 none = .regenerated := rfl

/-! ### truncated -/

/-- EVERY proper prefix of the file is rejected — for any key size and any blob size.  This is what
    `check_file_size` guarantees: the header and the tree meta fix the length of the file. -/
theorem index_validate_rejects_truncated (K : Nat) (hK : K ≤ 2032) (metaLen : Nat) (m : InMem RawHeader)
    (metaBuf hash : List Nat) (blobSize : Nat) (hmeta : metaBuf.length = metaLen) (hhash : hash.length = 32)
    (hsize : (build (Params.real K) metaLen m).fileSize < 2 ^ 64) (K' actual : Nat) :
    ∀ t, t < (indexFileBytes (build (Params.real K) metaLen m) metaBuf hash blobSize).length →
      acceptIndex K' actual ((indexFileBytes (build (Params.real K) metaLen m) metaBuf hash blobSize).take t)
        = false := by
  intro t ht
  have ok := build_imageOK K hK metaLen m metaBuf hash hmeta hhash hsize
  rw [indexFileBytes_eq_V] at ht ⊢
  rw [List.length_append, indexHeaderBytesV_length _ _ _ _ hhash] at ht
  rw [Bool.eq_false_iff]
  intro h
  have := ((accept_image_iff _ metaBuf hash ok 13 blobSize K' actual t).1 h).1
  omega

example : ∀ t, t < 275 → acceptIndex 1 100 (f1.take t) = false := fun t ht =>
  index_validate_rejects_truncated 1 (by decide) 2 m1 [9, 9] hash1 100 rfl rfl F1_size 1 100 t
    (show t < f1.length from f1_length ▸ ht)
set_option maxRecDepth 100000 in
/-- cut inside the record headers, inside the tree meta, inside the header, and the empty file -/
example : acceptIndex 1 100 (f1.take 200) = false ∧ acceptIndex 1 100 (f1.take 90) = false ∧
    acceptIndex 1 100 (f1.take 50) = false ∧ acceptIndex 1 100 [] = false := by decide

set_option maxRecDepth 100000 in
/-- WITHOUT the size check (the code before the repair) a file cut inside the record-header region was
    accepted — here after the first of three headers, in the middle of the second, and with no header
    left at all: the index would answer `NotFound` for keys the blob holds -/
theorem truncated_accepted_before_fix :
    acceptIndexNoSizeCheck 1 100 (f1.take 159) = true ∧ acceptIndexNoSizeCheck 1 100 (f1.take 200) = true ∧
    acceptIndexNoSizeCheck 1 100 (f1.take 101) = true ∧ f1.length = 275 ∧ F1.leavesOffset = 101 := by
  decide

/-- a larger file: 80 keys, two leaves, one inner node (the root, bytes 99 … 123), 4764 bytes -/
def m2 : InMem RawHeader := (List.range 80).map fun i => (i + 1, [hd (i + 1) i])
def F2 : IndexFile RawHeader := build (Params.real 1) 0 m2
def f2 : List Nat := indexFileBytes F2 [] hash1 5000

/-- before the repair even a file cut in the middle of the ROOT NODE was accepted (`read_root` reads
    "whatever is there"); now the complete file is accepted and both cuts are rejected -/
theorem truncated_in_tree_accepted_before_fix :
    F2.nodes.length = 1 ∧ F2.treeOffset = 99 ∧ F2.leavesOffset = 124 ∧ f2.length = 4764 ∧
    acceptIndexNoSizeCheck 1 5000 (f2.take 110) = true ∧ acceptIndexNoSizeCheck 1 5000 (f2.take 4763) = true ∧
    acceptIndex 1 5000 (f2.take 110) = false ∧ acceptIndex 1 5000 (f2.take 4763) = false ∧
    acceptIndex 1 5000 f2 = true := by
  decide +kernel

/-! ### half-written -/

/-- the image `from_records` leaves when it is interrupted after writing the buffer and before rewriting
    the header with the `written` bit: rejected -/
theorem written_clear_rejects (K : Nat) (hK : K ≤ 2032) (metaLen : Nat) (m : InMem RawHeader)
    (metaBuf hash : List Nat) (blobSize : Nat) (hmeta : metaBuf.length = metaLen) (hhash : hash.length = 32)
    (hsize : (build (Params.real K) metaLen m).fileSize < 2 ^ 64) (K' actual : Nat) :
    acceptIndex K' actual
      (indexHeaderBytes (build (Params.real K) metaLen m) hash false blobSize ++ metaBuf
        ++ treeMetaBytes (build (Params.real K) metaLen m)
        ++ (build (Params.real K) metaLen m).nodes.flatMap (Node.bytes K)
        ++ (build (Params.real K) metaLen m).leaves.flatMap (RawHeader.bytes K)) = false := by
  have ok := build_imageOK K hK metaLen m metaBuf hash hmeta hhash hsize
  have h := accept_unwritten_header _ metaBuf hash ok blobSize K' actual
    (indexBodyBytes (build (Params.real K) metaLen m) metaBuf)
  simp only [indexBodyBytes, ← List.append_assoc] at h
  exact h

/-- … and so is every prefix of it (the buffer write itself was interrupted) -/
theorem written_clear_prefix_rejects (K : Nat) (hK : K ≤ 2032) (metaLen : Nat) (m : InMem RawHeader)
    (metaBuf hash : List Nat) (blobSize : Nat) (hmeta : metaBuf.length = metaLen) (hhash : hash.length = 32)
    (hsize : (build (Params.real K) metaLen m).fileSize < 2 ^ 64) (K' actual t : Nat) :
    acceptIndex K' actual
      ((indexFileBytesUnwritten (build (Params.real K) metaLen m) metaBuf hash blobSize).take t) = false := by
  have ok := build_imageOK K hK metaLen m metaBuf hash hmeta hhash hsize
  rw [indexFileBytesUnwritten_eq_V, Bool.eq_false_iff]
  intro h
  have := ((accept_image_iff _ metaBuf hash ok 12 blobSize K' actual t).1 h).2.1
  omega

set_option maxRecDepth 100000 in
example : acceptIndex 1 100 (indexFileBytesUnwritten F1 [9, 9] hash1 100) = false ∧
    (indexFileBytesUnwritten F1 [9, 9] hash1 100).length = 275 ∧
    (indexFileBytesUnwritten F1 [9, 9] hash1 100).drop 73 = f1.drop 73 ∧
    (indexFileBytesUnwritten F1 [9, 9] hash1 100).take 72 = f1.take 72 ∧
    (indexFileBytesUnwritten F1 [9, 9] hash1 100)[72]? = some 12 ∧ f1[72]? = some 13 := by decide

/-- header only: the first 83 bytes of the file (an instance of truncation), and the header with the
    `written` bit clear followed by anything at all -/
theorem header_only_rejects (K : Nat) (hK : K ≤ 2032) (metaLen : Nat) (m : InMem RawHeader)
    (metaBuf hash : List Nat) (blobSize : Nat) (hmeta : metaBuf.length = metaLen) (hhash : hash.length = 32)
    (hsize : (build (Params.real K) metaLen m).fileSize < 2 ^ 64) (K' actual : Nat) :
    acceptIndex K' actual ((indexFileBytes (build (Params.real K) metaLen m) metaBuf hash blobSize).take 83)
      = false ∧
    ∀ rest, acceptIndex K' actual
      (indexHeaderBytes (build (Params.real K) metaLen m) hash false blobSize ++ rest) = false := by
  have ok := build_imageOK K hK metaLen m metaBuf hash hmeta hhash hsize
  constructor
  · apply index_validate_rejects_truncated K hK metaLen m metaBuf hash blobSize hmeta hhash hsize
    rw [indexFileBytes_eq_V, List.length_append, indexHeaderBytesV_length _ _ _ _ hhash]
    have := indexBodyBytes_length_ge (build (Params.real K) metaLen m) metaBuf
    omega
  · intro rest
    exact accept_unwritten_header _ metaBuf hash ok blobSize K' actual rest

set_option maxRecDepth 100000 in
example : acceptIndex 1 100 (f1.take 83) = false ∧
    acceptIndex 1 100 (indexHeaderBytes F1 hash1 false 100 ++ f1.drop 83) = false ∧
    acceptIndex 1 100 (indexHeaderBytes F1 hash1 false 100) = false := by decide

/-! ### stale -/

/-- the index describes a blob of another size (shorter: records were appended after the dump;
    longer: the blob was truncated or replaced): rejected, in both directions -/
theorem stale_size_rejects (K : Nat) (hK : K ≤ 2032) (metaLen : Nat) (m : InMem RawHeader)
    (metaBuf hash : List Nat) (blobSize : Nat) (hmeta : metaBuf.length = metaLen) (hhash : hash.length = 32)
    (hsize : (build (Params.real K) metaLen m).fileSize < 2 ^ 64) (hblob : blobSize < 2 ^ 64)
    (blobSize' : Nat) (hne : blobSize' ≠ blobSize) :
    acceptIndex K blobSize' (indexFileBytes (build (Params.real K) metaLen m) metaBuf hash blobSize) = false := by
  have ok := build_imageOK K hK metaLen m metaBuf hash hmeta hhash hsize
  rw [indexFileBytes_eq_V, Bool.eq_false_iff]
  intro h
  have h3 := ((accept_full_iff _ metaBuf hash ok 13 blobSize K blobSize').1 h).2.2
  rw [Nat.mod_eq_of_lt (by rw [pow_256_8]; omega)] at h3
  exact hne h3.symm

set_option maxRecDepth 100000 in
example : acceptIndex 1 99 f1 = false ∧ acceptIndex 1 101 f1 = false ∧ acceptIndex 1 0 f1 = false := by decide
example : acceptIndex 1 158 f1 = false :=
  stale_size_rejects 1 (by decide) 2 m1 [9, 9] hash1 100 rfl rfl F1_size (by decide) 158 (by decide)

/-! ### written by another build -/

theorem key_size_mismatch_rejects (K : Nat) (hK : K ≤ 2032) (metaLen : Nat) (m : InMem RawHeader)
    (metaBuf hash : List Nat) (blobSize : Nat) (hmeta : metaBuf.length = metaLen) (hhash : hash.length = 32)
    (hsize : (build (Params.real K) metaLen m).fileSize < 2 ^ 64) (K' : Nat) (hne : K' ≠ K) (actual : Nat) :
    acceptIndex K' actual (indexFileBytes (build (Params.real K) metaLen m) metaBuf hash blobSize) = false := by
  have ok := build_imageOK K hK metaLen m metaBuf hash hmeta hhash hsize
  rw [indexFileBytes_eq_V, Bool.eq_false_iff]
  intro h
  exact hne ((accept_full_iff _ metaBuf hash ok 13 blobSize K' actual).1 h).2.1

set_option maxRecDepth 100000 in
example : acceptIndex 2 100 f1 = false ∧ acceptIndex 0 100 f1 = false := by decide

/-- any other value of the version byte (`version << 1 | written`): another `HEADER_VERSION`, written or
    not, and version 6 not written -/
theorem version_mismatch_rejects (K : Nat) (hK : K ≤ 2032) (metaLen : Nat) (m : InMem RawHeader)
    (metaBuf hash : List Nat) (blobSize : Nat) (hmeta : metaBuf.length = metaLen) (hhash : hash.length = 32)
    (hsize : (build (Params.real K) metaLen m).fileSize < 2 ^ 64) (vb : Nat)
    (hne : vb ≠ indexHeaderVersion * 2 + 1) (K' actual : Nat) :
    acceptIndex K' actual
      (indexHeaderBytesV (build (Params.real K) metaLen m) hash vb blobSize
        ++ indexBodyBytes (build (Params.real K) metaLen m) metaBuf) = false := by
  have ok := build_imageOK K hK metaLen m metaBuf hash hmeta hhash hsize
  rw [Bool.eq_false_iff]
  intro h
  exact hne ((accept_full_iff _ metaBuf hash ok vb blobSize K' actual).1 h).1

/-- (the image with version byte 13 is the file itself, so the theorem is about real alternatives) -/
example : indexHeaderBytesV F1 hash1 13 100 ++ indexBodyBytes F1 [9, 9] = f1 :=
  (indexFileBytes_eq_V F1 [9, 9] hash1 100).symm
set_option maxRecDepth 100000 in
/-- version 5 written, version 7 written -/
example : acceptIndex 1 100 (indexHeaderBytesV F1 hash1 11 100 ++ indexBodyBytes F1 [9, 9]) = false ∧
    acceptIndex 1 100 (indexHeaderBytesV F1 hash1 15 100 ++ indexBodyBytes F1 [9, 9]) = false := by decide

/-! ### the property: no damaged image is ever used -/

/-- the damage patterns of the property, applied to the file the storage wrote (and their combinations
    with truncation) -/
inductive Damage where
  | intact
  /-- truncated at any length -/
  | truncated (t : Nat)
  /-- half-written: buffer written, header not yet rewritten with the `written` bit -/
  | halfWritten
  /-- half-written, the buffer write itself cut short -/
  | halfWrittenTruncated (t : Nat)
  /-- the not-yet-rewritten header followed by anything -/
  | headerThenAnything (rest : List Nat)
  /-- stale: the `blob_size` field is that of another blob -/
  | blobSizeField (b : Nat)
  /-- stale and truncated -/
  | blobSizeFieldTruncated (b t : Nat)

/-- the bytes found on disk -/
def Damage.image (f : IndexFile RawHeader) (metaBuf hash : List Nat) (blobSize : Nat) : Damage → List Nat
  | .intact => indexFileBytes f metaBuf hash blobSize
  | .truncated t => (indexFileBytes f metaBuf hash blobSize).take t
  | .halfWritten => indexFileBytesUnwritten f metaBuf hash blobSize
  | .halfWrittenTruncated t => (indexFileBytesUnwritten f metaBuf hash blobSize).take t
  | .headerThenAnything rest => indexHeaderBytes f hash false blobSize ++ rest
  | .blobSizeField b => indexFileBytes f metaBuf hash b
  | .blobSizeFieldTruncated b t => (indexFileBytes f metaBuf hash b).take t

/-- whatever the damage and whatever the actual size of the blob: the image found on disk is used at
    start-up if and only if it is, byte for byte, the file the storage writes for a blob of exactly the
    actual size.  Every other image is discarded and the index is recomputed from the blob. -/
theorem damage_never_accepted (K : Nat) (hK : K ≤ 2032) (metaLen : Nat) (m : InMem RawHeader)
    (metaBuf hash : List Nat) (blobSize : Nat) (hmeta : metaBuf.length = metaLen) (hhash : hash.length = 32)
    (hsize : (build (Params.real K) metaLen m).fileSize < 2 ^ 64) (d : Damage) (actual : Nat) :
    acceptIndex K actual (d.image (build (Params.real K) metaLen m) metaBuf hash blobSize) = true ↔
      (actual < 2 ^ 64 ∧ d.image (build (Params.real K) metaLen m) metaBuf hash blobSize
        = indexFileBytes (build (Params.real K) metaLen m) metaBuf hash actual) := by
  have ok := build_imageOK K hK metaLen m metaBuf hash hmeta hhash hsize
  constructor
  · -- an accepted image of the family `(header with byte vb, field b ++ body).take t`
    have key : ∀ vb b t,
        acceptIndex K actual ((indexHeaderBytesV (build (Params.real K) metaLen m) hash vb b
          ++ indexBodyBytes (build (Params.real K) metaLen m) metaBuf).take t) = true →
        actual < 2 ^ 64 ∧ (indexHeaderBytesV (build (Params.real K) metaLen m) hash vb b
          ++ indexBodyBytes (build (Params.real K) metaLen m) metaBuf).take t
          = indexFileBytes (build (Params.real K) metaLen m) metaBuf hash actual := by
      intro vb b t h
      obtain ⟨h1, h2, _, h4⟩ := (accept_image_iff _ metaBuf hash ok vb b K actual t).1 h
      subst h2
      refine ⟨?_, ?_⟩
      · have := Nat.mod_lt b (show 0 < 256 ^ 8 by decide)
        rw [pow_256_8] at this; omega
      · rw [List.take_of_length_le (by
          rw [List.length_append, indexHeaderBytesV_length _ _ _ _ hhash]; exact h1), indexFileBytes_eq_V]
        have : leBytes 8 b = leBytes 8 actual := by rw [← h4, leBytes_mod]
        simp only [indexHeaderBytesV, this]
    have full : ∀ (l : List Nat), l = l.take l.length := fun l => (List.take_length).symm
    intro h
    cases d with
    | intact =>
      simp only [Damage.image, indexFileBytes_eq_V] at h ⊢
      rw [full (_ ++ _)] at h ⊢
      simpa only [indexFileBytes_eq_V] using key 13 blobSize _ h
    | truncated t =>
      simp only [Damage.image, indexFileBytes_eq_V] at h ⊢
      simpa only [indexFileBytes_eq_V] using key 13 blobSize t h
    | halfWritten =>
      simp only [Damage.image, indexFileBytesUnwritten_eq_V] at h
      rw [full (_ ++ _)] at h
      have := ((accept_image_iff _ metaBuf hash ok 12 blobSize K actual _).1 h).2.1
      omega
    | halfWrittenTruncated t =>
      simp only [Damage.image, indexFileBytesUnwritten_eq_V] at h
      have := ((accept_image_iff _ metaBuf hash ok 12 blobSize K actual t).1 h).2.1
      omega
    | headerThenAnything rest =>
      simp only [Damage.image] at h
      rw [show indexHeaderBytes (build (Params.real K) metaLen m) hash false blobSize
          = indexHeaderBytesV _ hash 12 blobSize from rfl,
        accept_unwritten_header _ metaBuf hash ok blobSize K actual rest] at h
      cases h
    | blobSizeField b =>
      simp only [Damage.image, indexFileBytes_eq_V] at h ⊢
      rw [full (_ ++ _)] at h ⊢
      simpa only [indexFileBytes_eq_V] using key 13 b _ h
    | blobSizeFieldTruncated b t =>
      simp only [Damage.image, indexFileBytes_eq_V] at h ⊢
      simpa only [indexFileBytes_eq_V] using key 13 b t h
  · rintro ⟨hlt, heq⟩
    rw [heq]
    exact accept_produced K hK metaLen m metaBuf hash actual hmeta hhash hsize hlt

/-- with the blob unchanged: the only accepted image is the undamaged file -/
theorem damage_never_accepted_same_blob (K : Nat) (hK : K ≤ 2032) (metaLen : Nat) (m : InMem RawHeader)
    (metaBuf hash : List Nat) (blobSize : Nat) (hmeta : metaBuf.length = metaLen) (hhash : hash.length = 32)
    (hsize : (build (Params.real K) metaLen m).fileSize < 2 ^ 64) (hblob : blobSize < 2 ^ 64) (d : Damage) :
    acceptIndex K blobSize (d.image (build (Params.real K) metaLen m) metaBuf hash blobSize) = true ↔
      d.image (build (Params.real K) metaLen m) metaBuf hash blobSize
        = indexFileBytes (build (Params.real K) metaLen m) metaBuf hash blobSize := by
  rw [damage_never_accepted K hK metaLen m metaBuf hash blobSize hmeta hhash hsize d blobSize]
  exact ⟨fun h => h.2, fun h => ⟨hblob, h⟩⟩

set_option maxRecDepth 100000 in
/-- both sides of the equivalence occur: a cut file is not the file, and is rejected; a "stale" field that
    happens to be the right one gives the file back, and is accepted -/
example :
    acceptIndex 1 100 ((Damage.truncated 200).image F1 [9, 9] hash1 100) = false ∧
    (Damage.truncated 200).image F1 [9, 9] hash1 100 ≠ f1 ∧
    acceptIndex 1 100 ((Damage.blobSizeField 100).image F1 [9, 9] hash1 100) = true ∧
    acceptIndex 1 100 ((Damage.blobSizeField 99).image F1 [9, 9] hash1 100) = false ∧
    acceptIndex 1 100 ((Damage.truncated 275).image F1 [9, 9] hash1 100) = true := by decide
example (d : Damage) (h : acceptIndex 1 100 (d.image F1 [9, 9] hash1 100) = true) :
    d.image F1 [9, 9] hash1 100 = f1 :=
  (damage_never_accepted_same_blob 1 (by decide) 2 m1 [9, 9] hash1 100 rfl rfl F1_size (by decide) d).1 h

/-! ### arbitrary byte strings -/

/-- whatever bytes are found: if start-up uses them, then the header has the `written` bit, the current
    version, the compile-time key size and the size of the blob file, and the length of the file is the
    one its own header and tree meta declare -/
theorem accepted_has_declared_length (K blobSize : Nat) (g : List Nat) (h : acceptIndex K blobSize g = true) :
    ∃ hd tm, readIndexHeader g = some hd ∧ readTreeMeta g hd = some tm ∧
      hd.isWritten = true ∧ hd.version = indexHeaderVersion ∧ hd.keySize = K ∧ hd.blobSize = blobSize ∧
      hd.magic = magicByte ∧ tm.treeOffset ≤ tm.leavesOffset ∧
      g.length = hd.recordsCount * hd.recordHeaderSize + tm.leavesOffset ∧
      hd.serializedSize + hd.metaSize + treeMetaSize ≤ g.length :=
  accept_sound K blobSize g h

/-- `accepted_is_faithful`, the part that holds: ANY byte string `g` that start-up uses and that agrees
    with a produced file on the header, the filter section and the tree meta (the first
    `83 + metaLen + 16` bytes) has exactly the length of that file, and the key size and the blob size
    are the recorded ones.  (So no shorter or longer file can pass for it.) -/
theorem accepted_is_faithful_partial (K : Nat) (hK : K ≤ 2032) (metaLen : Nat) (m : InMem RawHeader)
    (metaBuf hash : List Nat) (blobSize : Nat) (hmeta : metaBuf.length = metaLen) (hhash : hash.length = 32)
    (hsize : (build (Params.real K) metaLen m).fileSize < 2 ^ 64) (hblob : blobSize < 2 ^ 64)
    (K' actual : Nat) (g : List Nat)
    (hpre : g.take (83 + metaLen + 16)
      = (indexFileBytes (build (Params.real K) metaLen m) metaBuf hash blobSize).take (83 + metaLen + 16))
    (h : acceptIndex K' actual g = true) :
    g.length = (indexFileBytes (build (Params.real K) metaLen m) metaBuf hash blobSize).length ∧
      K' = K ∧ actual = blobSize := by
  have ok := build_imageOK K hK metaLen m metaBuf hash hmeta hhash hsize
  rw [indexFileBytes_eq_V] at hpre ⊢
  obtain ⟨h1, h2, h3⟩ := accept_same_prefix _ metaBuf hash ok blobSize K' actual g hpre h
  rw [Nat.mod_eq_of_lt (by rw [pow_256_8]; omega)] at h3
  refine ⟨?_, h2, h3⟩
  rw [h1, List.length_append, indexHeaderBytesV_length _ _ _ _ hhash]

/-- the file with every byte after the first record header replaced -/
def g1 : List Nat := f1.take 159 ++ List.replicate 116 255

set_option maxRecDepth 100000 in
/-- `accepted_is_faithful` for arbitrary byte strings is FALSE of the code: the start-up test does not
    look at the tree or at the record headers (`validate`: "FIXME: check hash here?"; the SHA-256 of the
    header is compared only by `get_records_headers`, when the whole index is loaded).  A file of the
    right length whose record headers were overwritten is used.  This damage — content changed, length
    kept — is not among the patterns of the property (missing, truncated, half-written, stale). -/
theorem accepted_is_faithful_general_false :
    g1 ≠ f1 ∧ g1.length = f1.length ∧ g1.take 159 = f1.take 159 ∧ acceptIndex 1 100 g1 = true := by
  decide

example : g1.length = f1.length :=
  (accepted_is_faithful_partial 1 (by decide) 2 m1 [9, 9] hash1 100 rfl rfl F1_size (by decide) 1 100 g1
    (by decide +kernel) accepted_is_faithful_general_false.2.2.2).1

end Pearl.C03b
