import Pearl.Proofs.MaintLemmas
import Pearl.Props.C01
import Pearl.Props.C02
import Pearl.Proofs.AbstractRefine
/-
C04: representation transparency.  Lifecycle and maintenance operations (`closeActive`,
`createActive`, `restoreActive`, `replaceActive`, `settle`, `restart`; `Op.isMaint`) never change
the answer of any query, nor the record counts; afterwards the storage accepts writes and deletes
exactly as before; lifecycle calls succeed whenever their documented precondition holds.
-/
namespace Pearl

/-! ### the history -/

/-- a maintenance operation leaves the history alone, except that empty blobs may appear at its end
    (in particular blobs keep their relative order, although they may move between the closed
    container and the active slot) -/
theorem maint_history {s : Store} (hwf : s.WF) {m : Op} (hm : m.isMaint = true) :
    ∃ e : History, (s.apply m).history = s.history ++ e ∧ ∀ b ∈ e, b.2 = [] :=
  (Store.apply_maint_step hwf hm).history_ext

/-- the positioned records are literally the same list … -/
theorem maint_records_eq {s : Store} (hwf : s.WF) {m : Op} (hm : m.isMaint = true) :
    History.positioned (s.apply m).history = History.positioned s.history := by
  obtain ⟨e, he, hempty⟩ := maint_history hwf hm
  rw [he, positioned_append_empty _ hempty]

/-- … in particular the same multiset -/
theorem maint_records {s : Store} (hwf : s.WF) {m : Op} (hm : m.isMaint = true) :
    (History.positioned (s.apply m).history).Perm (History.positioned s.history) := by
  rw [maint_records_eq hwf hm]

/-! ### the specification -/

/-- any two histories with pairwise distinct blob ids and the same multiset of positioned records
    have the same rank order (uniqueness of rank-sorted permutations) -/
theorem spec_all_of_perm {h h' : History} (hn' : (h'.map (·.1)).Nodup)
    (hp : h.positioned.Perm h'.positioned) (k : Key) : Spec.all h k = Spec.all h' k :=
  Spec.all_congr_perm hn' hp k

theorem maint_spec {s : Store} (hwf : s.WF) {m : Op} (hm : m.isMaint = true) (k : Key) :
    Spec.all (s.apply m).history k = Spec.all s.history k ∧
      Spec.allCut (s.apply m).history k = Spec.allCut s.history k ∧
      Spec.allLive (s.apply m).history k = Spec.allLive s.history k ∧
      Spec.latest (s.apply m).history k = Spec.latest s.history k ∧
      ∀ mt, Spec.readWith (s.apply m).history k mt = Spec.readWith s.history k mt :=
  have hp := maint_records_eq hwf hm
  ⟨Spec.all_congr hp k, Spec.allCut_congr hp k, Spec.allLive_congr hp k, Spec.latest_congr hp k,
    fun mt => Spec.readWith_congr hp k mt⟩

/-- the same conclusion through the multiset argument (`maint_records` + `WF` of the new state) -/
theorem maint_spec_all_via_perm {s : Store} (hwf : s.WF) {m : Op} (hm : m.isMaint = true) (k : Key) :
    Spec.all (s.apply m).history k = Spec.all s.history k :=
  spec_all_of_perm hwf.history_nodup (maint_records hwf hm) k

/-! ### the answers -/

/-- `read` (`mo = none`) and `read_with` (`mo = some meta`) -/
theorem maint_read {s : Store} (hwf : s.WF) {m : Op} (hm : m.isMaint = true) (k : Key)
    (mo : Option Meta) : (s.apply m).read k mo = s.read k mo := by
  have hwf' := apply_WF hwf m
  have hs := maint_spec hwf hm k
  cases mo with
  | none => rw [read_eq_spec hwf', read_eq_spec hwf, hs.2.2.2.1]
  | some mt => rw [readWith_eq_spec hwf', readWith_eq_spec hwf, hs.2.2.2.2 mt]

theorem maint_contains {s : Store} (hwf : s.WF) {m : Op} (hm : m.isMaint = true) (k : Key) :
    (s.apply m).contains k = s.contains k := by
  rw [contains_eq_spec (apply_WF hwf m), contains_eq_spec hwf, (maint_spec hwf hm k).2.2.2.1]

theorem maint_readAllMarked {s : Store} (hwf : s.WF) {m : Op} (hm : m.isMaint = true) (k : Key) :
    (s.apply m).readAllMarked k = s.readAllMarked k := by
  rw [readAllMarked_eq_spec (apply_WF hwf m), readAllMarked_eq_spec hwf, (maint_spec hwf hm k).2.1]

theorem maint_readAll {s : Store} (hwf : s.WF) {m : Op} (hm : m.isMaint = true) (k : Key) :
    (s.apply m).readAll k = s.readAll k := by
  rw [readAll_eq_spec (apply_WF hwf m), readAll_eq_spec hwf, (maint_spec hwf hm k).2.2.1]

/-- the merged index lookup all point queries go through, also when filters prune blobs
    (`prune` may reject a blob only if it does not hold the key, cf. `prune_transparent`) -/
theorem maint_getLatestEntryP {s : Store} (hwf : s.WF) {m : Op} (hm : m.isMaint = true) (k : Key)
    (mo : Option Meta) (prune prune' : Blob → Key → Bool)
    (hp : ∀ b ∈ s.blobs, prune b k = true → ∀ r ∈ b.recs, r.key ≠ k)
    (hp' : ∀ b ∈ (s.apply m).blobs, prune' b k = true → ∀ r ∈ b.recs, r.key ≠ k) :
    (s.apply m).getLatestEntryP prune' k mo = s.getLatestEntryP prune k mo := by
  rw [prune_transparent _ _ _ _ hp, prune_transparent _ _ _ _ hp']
  exact maint_read hwf hm k mo

/-- all query functions: `read`, `read_with`, `contains`, `read_all_with_deletion_marker`,
    `read_all`, and the underlying `get_latest_entry` -/
theorem maint_answers {s : Store} (hwf : s.WF) {m : Op} (hm : m.isMaint = true) (k : Key) :
    (s.apply m).read k none = s.read k none ∧
      (∀ mt, (s.apply m).read k (some mt) = s.read k (some mt)) ∧
      (s.apply m).contains k = s.contains k ∧
      (s.apply m).readAllMarked k = s.readAllMarked k ∧
      (s.apply m).readAll k = s.readAll k ∧
      (∀ mo, (s.apply m).getLatestEntry k mo = s.getLatestEntry k mo) :=
  ⟨maint_read hwf hm k none, fun mt => maint_read hwf hm k (some mt), maint_contains hwf hm k,
    maint_readAllMarked hwf hm k, maint_readAll hwf hm k, fun mo => maint_read hwf hm k mo⟩

/-! ### the counts -/

theorem maint_counts {s : Store} (hwf : s.WF) {m : Op} (hm : m.isMaint = true) :
    (s.apply m).recordsCount = s.recordsCount := by
  obtain ⟨e, he, hempty⟩ := maint_history hwf hm
  rw [Store.recordsCount_eq_count, Store.recordsCount_eq_count, he, count_append_empty _ hempty]

/-- per blob: the old counts, followed by zeros for the blobs that appeared -/
theorem maint_counts_detailed {s : Store} (hwf : s.WF) {m : Op} (hm : m.isMaint = true) :
    ∃ n, (s.apply m).recordsCountDetailed = s.recordsCountDetailed ++ List.replicate n 0 := by
  obtain ⟨e, he, hempty⟩ := maint_history hwf hm
  refine ⟨e.length, ?_⟩
  have h1 : ∀ t : Store, t.recordsCountDetailed = t.history.map (·.2.length) := by
    intro t; simp only [Store.recordsCountDetailed, Store.history, List.map_map]; rfl
  rw [h1, h1, he, List.map_append]
  congr 1
  rw [List.eq_replicate_iff]
  refine ⟨by simp, ?_⟩
  intro x hx
  obtain ⟨b, hb, rfl⟩ := List.mem_map.1 hx
  rw [hempty b hb]; rfl

/-! ### afterwards the storage accepts writes and deletes as before -/

/-- whether a write is refused as a duplicate is not changed by maintenance -/
theorem maint_dedups {s : Store} (hwf : s.WF) {m : Op} (hm : m.isMaint = true) (k : Key)
    (mo : Option Meta) : (s.apply m).dedups k mo = s.dedups k mo := by
  unfold Store.dedups
  rw [Store.apply_allowDup, Store.ensureActive_eq_apply, Store.ensureActive_eq_apply]
  have h1 : ((s.apply m).apply .createActive).getLatestEntry k mo = (s.apply m).getLatestEntry k mo :=
    maint_read (apply_WF hwf m) rfl k mo
  have h2 : (s.apply .createActive).getLatestEntry k mo = s.getLatestEntry k mo :=
    maint_read hwf rfl k mo
  have h3 : (s.apply m).getLatestEntry k mo = s.getLatestEntry k mo := maint_read hwf hm k mo
  rw [h1, h2, h3]

/-- after any maintenance operation: a write is stored (one more record, appended to the active
    blob) unless it is refused as a duplicate, and it is refused exactly when it would have been
    refused before; a delete without `only_if_presented` always appends at least one marker -/
theorem maint_then_accepts {s : Store} (hwf : s.WF) {m : Op} (hm : m.isMaint = true)
    (k : Key) (ts : Nat) (mo : Option Meta) (d : Data) :
    let s' := s.apply m
    (((s'.write k ts mo d).recordsCount = s'.recordsCount + 1 ∧
        ∃ a, s'.ensureActive.active = some a ∧
          (s'.write k ts mo d).active =
            some (a.append { key := k, ts := ts, del := false, mt := mo.getD none, data := d })) ∨
      (s.dedups k mo = true ∧ s'.allowDup = false ∧
        (s'.ensureActive.getLatestEntry k mo).isFound = true ∧
        s'.write k ts mo d = s'.ensureActive ∧ (s'.write k ts mo d).recordsCount = s'.recordsCount)) ∧
    1 ≤ (s'.delete k ts mo false).2 ∧
    (s'.delete k ts mo false).1.recordsCount = s'.recordsCount + (s'.delete k ts mo false).2 := by
  intro s'
  refine ⟨?_, Store.delete_false_pos s' k ts mo, Store.delete_recordsCount s' k ts mo false⟩
  have hd : s'.dedups k mo = s.dedups k mo := maint_dedups hwf hm k mo
  have hc := Store.write_recordsCount s' k ts mo d
  cases hdd : s'.dedups k mo with
  | false =>
    left
    rw [hdd] at hc
    refine ⟨by simpa using hc, ?_⟩
    have hcond : s'.allowDup = true ∨ (s'.ensureActive.getLatestEntry k mo).isFound = false := by
      unfold Store.dedups at hdd
      cases ha : s'.allowDup with
      | true => exact Or.inl rfl
      | false => right; simpa [ha] using hdd
    obtain ⟨a, ha, hw⟩ := write_appends s' k ts mo d hcond
    exact ⟨a, ha, by rw [hw]⟩
  | true =>
    right
    rw [hdd] at hc
    have h2 : s'.allowDup = false ∧ (s'.ensureActive.getLatestEntry k mo).isFound = true := by
      unfold Store.dedups at hdd
      simpa using hdd
    exact ⟨by rw [← hd, hdd], h2.1, h2.2, dedup_write s' k ts mo d h2.1 h2.2, by simpa using hc⟩

/-- `delete` with `only_if_presented` marks exactly the blobs in which the key is live, and their
    number is not changed by maintenance (new blobs are empty) -/
theorem maint_delete_present_count {s : Store} (hwf : s.WF) {m : Op} (hm : m.isMaint = true)
    (k : Key) (ts : Nat) (mo : Option Meta) :
    (s.delete k ts mo true).2 = (s.history.filter (fun h => Spec.liveIn h.1 h.2 k)).length ∧
      ((s.apply m).delete k ts mo true).2 = (s.delete k ts mo true).2 := by
  refine ⟨Store.delete_true_count s k ts mo, ?_⟩
  obtain ⟨e, he, hempty⟩ := maint_history hwf hm
  rw [Store.delete_true_count, Store.delete_true_count, he, List.filter_append, List.length_append]
  have : e.filter (fun h => Spec.liveIn h.1 h.2 k) = [] := by
    rw [List.filter_eq_nil_iff]
    intro b hb
    rw [hempty b hb, liveIn_nil]
    simp
  rw [this]; rfl

/-! ### lifecycle calls succeed whenever their documented precondition holds -/

theorem lifecycle_preconditions (s : Store) :
    ((∃ s', s.closeActive = .ok s') ↔ s.active.isSome = true) ∧
      ((∃ s', s.tryCreateActive = .ok s') ↔ s.active.isNone = true) ∧
      ((∃ s', s.restoreActive = .ok s') ↔ s.active.isNone = true ∧ s.closed ≠ []) := by
  refine ⟨?_, ?_, ?_⟩
  · unfold Store.closeActive
    cases s.active <;> simp
  · unfold Store.tryCreateActive
    cases s.active <;> simp
  · unfold Store.restoreActive
    cases s.active with
    | some a => simp
    | none =>
      cases hl : Store.lastPresent s.slots with
      | none => simp [Store.closed, Store.lastPresent_none hl]
      | some p =>
        obtain ⟨i, b⟩ := p
        have := Store.lastPresent_some hl
        simp only [Except.ok.injEq, exists_eq', Option.isNone_none, true_and, true_iff]
        unfold Store.closed
        rw [← this]; simp

/-- and they fail with the documented error otherwise -/
theorem lifecycle_errors (s : Store) :
    (s.active = none → s.closeActive = .error .activeBlobDoesntExist) ∧
      (s.active.isSome = true → s.tryCreateActive = .error .activeBlobExists) ∧
      (s.active.isSome = true → s.restoreActive = .error .activeBlobExists) ∧
      (s.active = none → s.closed = [] → s.restoreActive = .error .uninitialized) := by
  refine ⟨?_, ?_, ?_, ?_⟩
  · intro h; simp [Store.closeActive, h]
  · intro h; unfold Store.tryCreateActive; cases ha : s.active <;> simp_all
  · intro h; unfold Store.restoreActive; cases ha : s.active <;> simp_all
  · intro h hc
    unfold Store.restoreActive
    rw [h]
    cases hl : Store.lastPresent s.slots with
    | none => rfl
    | some p =>
      obtain ⟨i, b⟩ := p
      have := Store.lastPresent_some hl
      unfold Store.closed at hc
      rw [hc] at this
      simp at this

/-! ### after every history -/

theorem run_maint_answers (d : Bool) (ops : List Op) (m : Op) (hm : m.isMaint = true) (k : Key) :
    let s := (Store.init d).run ops
    (s.apply m).read k none = s.read k none ∧
      (∀ mt, (s.apply m).read k (some mt) = s.read k (some mt)) ∧
      (s.apply m).contains k = s.contains k ∧
      (s.apply m).readAllMarked k = s.readAllMarked k ∧
      (s.apply m).readAll k = s.readAll k ∧
      (∀ mo, (s.apply m).getLatestEntry k mo = s.getLatestEntry k mo) :=
  maint_answers (run_WF d ops) hm k

theorem run_maint_counts (d : Bool) (ops : List Op) (m : Op) (hm : m.isMaint = true) :
    let s := (Store.init d).run ops
    (s.apply m).recordsCount = s.recordsCount :=
  maint_counts (run_WF d ops) hm

/-- any block of maintenance operations: records, hence answers and counts, unchanged -/
theorem maints_records {s : Store} (hwf : s.WF) :
    ∀ ms : List Op, (∀ m ∈ ms, m.isMaint = true) →
      History.positioned (s.run ms).history = History.positioned s.history
  | [], _ => rfl
  | m :: ms, h => by
    rw [Store.run_cons, maints_records (apply_WF hwf m) ms (fun x hx => h x (by simp [hx])),
      maint_records_eq hwf (h m (by simp))]

theorem maints_answers {s : Store} (hwf : s.WF) (ms : List Op) (hms : ∀ m ∈ ms, m.isMaint = true)
    (k : Key) :
    (∀ mo, (s.run ms).read k mo = s.read k mo) ∧
      (s.run ms).contains k = s.contains k ∧
      (s.run ms).readAllMarked k = s.readAllMarked k ∧
      (s.run ms).readAll k = s.readAll k := by
  have hp := maints_records hwf ms hms
  have hwf' := Store.run_WF_from hwf ms
  refine ⟨?_, ?_, ?_, ?_⟩
  · intro mo
    cases mo with
    | none => rw [read_eq_spec hwf', read_eq_spec hwf, Spec.latest_congr hp]
    | some mt => rw [readWith_eq_spec hwf', readWith_eq_spec hwf, Spec.readWith_congr hp]
  · rw [contains_eq_spec hwf', contains_eq_spec hwf, Spec.latest_congr hp]
  · rw [readAllMarked_eq_spec hwf', readAllMarked_eq_spec hwf, Spec.allCut_congr hp]
  · rw [readAll_eq_spec hwf', readAll_eq_spec hwf, Spec.allLive_congr hp]

/-- after every history, any block of maintenance operations is invisible to all queries -/
theorem run_maints_answers (d : Bool) (ops ms : List Op) (hms : ∀ m ∈ ms, m.isMaint = true) (k : Key) :
    let s := (Store.init d).run ops
    let s' := (Store.init d).run (ops ++ ms)
    (∀ mo, s'.read k mo = s.read k mo) ∧ s'.contains k = s.contains k ∧
      s'.readAllMarked k = s.readAllMarked k ∧ s'.readAll k = s.readAll k := by
  intro s s'
  have : s' = s.run ms := by simp [s, s', Store.run, List.foldl_append]
  rw [this]
  exact maints_answers (run_WF d ops) ms hms k

/-- what is *not* true: maintenance commutes with later data operations only as far as the answers
    go; a later `delete` (without `only_if_presented`) marks the closed old blob *and* the new active
    one, so the record count of a history does depend on where maintenance was interleaved -/
theorem counts_depend_on_interleaved_maintenance :
    ((Store.init true).run [.write 1 5 none ⟨1, 1⟩, .delete 1 9 none false]).recordsCount = 2 ∧
      ((Store.init true).run [.write 1 5 none ⟨1, 1⟩, .replaceActive, .delete 1 9 none false]).recordsCount = 3 ∧
      ((Store.init true).run [.write 1 5 none ⟨1, 1⟩, .delete 1 9 none false]).readAllMarked 1 =
        ((Store.init true).run [.write 1 5 none ⟨1, 1⟩, .replaceActive, .delete 1 9 none false]).readAllMarked 1 := by
  decide

/-! ### non-vacuity -/

-- the operations are maintenance operations, the hypotheses hold, the states do change …
example : (Op.closeActive).isMaint = true ∧ (Op.restart true).isMaint = true ∧
    (Op.write 1 1 none ⟨1, 1⟩).isMaint = false := by decide
example : (Demo.s1.apply .closeActive).active = none ∧ Demo.s1.active ≠ none := by decide
example : (Demo.s1.apply .replaceActive).history = Demo.s1.history ++ [(2, [])] := by decide
example : ((Demo.s1.apply .closeActive).apply .restoreActive).blobs = Demo.s1.blobs := by decide
example : (Demo.s2.apply (.restart true)).blobs ≠ Demo.s2.blobs := by decide
-- … and the answers are non-trivial and unchanged
example : (Demo.s1.apply .closeActive).read 1 none = .found ⟨1, 5, false, some [7], ⟨3, 3⟩⟩ := by
  rw [maint_read Demo.s1_WF rfl]; decide
example : (Demo.s2.apply (.restart true)).readAllMarked 1 =
    [⟨1, 12, false, none, ⟨4, 4⟩⟩, ⟨1, 9, true, none, ⟨0, 0⟩⟩] := by
  rw [maint_readAllMarked Demo.s2_WF rfl]; decide
example : (Demo.s2.apply .settle).recordsCount = 6 := by
  rw [maint_counts Demo.s2_WF rfl]; decide
-- `write` / `delete` are not maintenance operations and do change answers
example : (Demo.s1.apply (.delete 1 9 none true)).read 1 none ≠ Demo.s1.read 1 none := by decide
-- both alternatives of `maint_then_accepts` occur
example : ((Store.init false).run [.write 1 5 none ⟨1, 1⟩, .closeActive]).dedups 1 none = true ∧
    ((Store.init false).run [.write 1 5 none ⟨1, 1⟩, .closeActive]).dedups 2 none = false := by decide
example : ((Demo.s1.apply .closeActive).delete 1 9 none true).2 = 2 := by
  rw [(maint_delete_present_count Demo.s1_WF rfl 1 9 none).2]; decide
-- lifecycle preconditions: both sides occur
example : ∃ s', Demo.s1.closeActive = .ok s' := (lifecycle_preconditions Demo.s1).1.2 (by decide)
example : ¬ ∃ s', Demo.s1.tryCreateActive = .ok s' :=
  fun h => absurd ((lifecycle_preconditions Demo.s1).2.1.1 h) (by decide)
example : ∃ s', (Demo.s1.apply .closeActive).restoreActive = .ok s' :=
  (lifecycle_preconditions _).2.2.2 (by decide)

/-! ### the answers are a function of the data operations (refinement of `Pearl/Model/Abstract.lean`)

The abstract specification `Abs` has no blobs: its state is the list of data operations applied so
far (`dataOps ops`: the writes and deletes of the history `ops`, everything else erased), and
`Abs.read`, `Abs.contains`, `Abs.readAll`, `Abs.readAllMarked` are functions of that list.

Failing data operations: a `write` / `delete` never fails for want of an active blob in the model
(`Storage::write` and `delete(only_if_presented = false)` create one), so no `create_active`-style
precondition is needed; the only refusals are the duplicate check of `write` and the liveness test
of `delete(only_if_presented = true)`, and the abstract step carries the same guards, evaluated on
the abstract state.
-/

/-- all record-level answers of a well-formed storage are read off the visible records of the key -/
theorem answers_of_vis {s : Store} (hwf : s.WF) {dup : Bool} {a : List DOp} {k : Key}
    (hv : s.vis k = Abs.view dup a k) :
    s.readAllMarked k = Abs.readAllMarked dup a k ∧ s.readAll k = Abs.readAll dup a k ∧
      (∀ mo, s.read k mo = Abs.read dup a k mo) ∧ s.contains k = Abs.contains dup a k := by
  refine ⟨?_, ?_, fun mo => ?_, ?_⟩
  · rw [Store.readAllMarked_eq_vis hwf, hv]; rfl
  · rw [Store.readAll_eq_vis hwf, hv]; rfl
  · rw [Store.read_eq_vis hwf, hv]; rfl
  · rw [Store.contains_eq_vis hwf, hv]; rfl

/-- REFINEMENT, all histories, no hypothesis: after every history every answer about key `k` is read off
    one of the views the *nondeterministic* abstract specification allows for the data operations of
    the history (`Abs.nviews`: an `only_if_presented` delete either makes its marker the visible one
    or has no visible effect, see `Abs.oipOutcomes`; everything else is deterministic).  This is all
    the dependence on blob boundaries there is. -/
theorem run_refines_abstract (d : Bool) (ops : List Op) (k : Key) :
    let s := (Store.init d).run ops
    ∃ v ∈ Abs.nviews d (dataOps ops) k,
      s.readAllMarked k = v ∧ s.readAll k = v.filter (fun r => !r.del) ∧
        (∀ mo, s.read k mo = Abs.readOf v mo) ∧ s.contains k = (Abs.latestOf v).map (·.ts) := by
  intro s
  have hwf : s.WF := run_WF d ops
  have := Store.vis_run_nviews k ops [[]] (init_WF d) (by rw [Store.vis_init]; simp)
  rw [Store.allowDup_init] at this
  exact ⟨s.vis k, this, Store.readAllMarked_eq_vis hwf k, Store.readAll_eq_vis hwf k,
    fun mo => Store.read_eq_vis hwf k mo, Store.contains_eq_vis hwf k⟩

/-- the deterministic specification `Abs.view` always is one of the allowed views -/
theorem abstract_view_allowed (d : Bool) (ops : List Op) (k : Key) :
    Abs.view d (dataOps ops) k ∈ Abs.nviews d (dataOps ops) k :=
  Abs.view_mem_nviews d _ k

/-- REFINEMENT, histories without maintenance: after every history of data operations every answer
    is the one the abstract specification computes (no hypothesis on the operations: refused
    duplicates, `only_if_presented` deletes of dead or absent keys, … are all covered) -/
theorem run_data_refines_abstract (d : Bool) (ops : List Op) (hdata : ∀ op ∈ ops, op.isData = true)
    (k : Key) :
    let s := (Store.init d).run ops
    s.readAllMarked k = Abs.readAllMarked d (dataOps ops) k ∧
      s.readAll k = Abs.readAll d (dataOps ops) k ∧
      (∀ mo, s.read k mo = Abs.read d (dataOps ops) k mo) ∧
      s.contains k = Abs.contains d (dataOps ops) k := by
  intro s
  refine answers_of_vis (run_WF d ops) ?_
  have := Store.vis_run_data k ops (init_WF d) (Store.closed_init d) hdata
  rw [Store.vis_init, Store.allowDup_init] at this
  exact this

/-- REFINEMENT, histories with maintenance (`…_partial`: the unrestricted statement is false, see
    `run_refines_abstract_false`): after every history – data operations interleaved with
    `closeActive`, `createActive`, `restoreActive`, `replaceActive`, `settle`, `restart` in any way –
    all of whose `only_if_presented` deletes of key `k` are safe (`Abs.safeK`, a condition on the data
    operations only), every answer about `k` is the one the abstract specification computes from the
    data operations of the history -/
theorem run_refines_abstract_partial (d : Bool) (ops : List Op) (k : Key)
    (hs : Abs.safeK d k (dataOps ops) = true) :
    let s := (Store.init d).run ops
    s.readAllMarked k = Abs.readAllMarked d (dataOps ops) k ∧
      s.readAll k = Abs.readAll d (dataOps ops) k ∧
      (∀ mo, s.read k mo = Abs.read d (dataOps ops) k mo) ∧
      s.contains k = Abs.contains d (dataOps ops) k := by
  intro s
  refine answers_of_vis (run_WF d ops) ?_
  have := Store.vis_run_safe k ops (init_WF d)
    (by rw [Store.vis_init, Store.allowDup_init]; exact hs)
  rw [Store.vis_init, Store.allowDup_init] at this
  exact this

/-- the same from any well-formed storage `s` (for instance any reachable one): what a further
    history does to the visible records of `k` is what the abstract steps do to them -/
theorem run_from_refines_abstract_partial {s : Store} (hwf : s.WF) (ops : List Op) (k : Key)
    (hs : Abs.safeFrom s.allowDup k (s.vis k) (dataOps ops) = true) :
    (s.run ops).readAllMarked k = Abs.viewFrom s.allowDup k (s.readAllMarked k) (dataOps ops) := by
  rw [Store.readAllMarked_eq_vis (Store.run_WF_from hwf ops), Store.readAllMarked_eq_vis hwf]
  exact Store.vis_run_safe k ops hwf hs

/-- … for all keys at once, under the decidable check `Abs.safeAll` -/
theorem run_refines_abstract_of_safe (d : Bool) (ops : List Op)
    (hs : Abs.safeAll d (dataOps ops) = true) (k : Key) :
    let s := (Store.init d).run ops
    s.readAllMarked k = Abs.readAllMarked d (dataOps ops) k ∧
      s.readAll k = Abs.readAll d (dataOps ops) k ∧
      (∀ mo, s.read k mo = Abs.read d (dataOps ops) k mo) ∧
      s.contains k = Abs.contains d (dataOps ops) k :=
  run_refines_abstract_partial d ops k ((Abs.safe_iff d _).2 hs k)

/-- … in particular for every history whose deletes do not use `only_if_presented` -/
theorem run_refines_abstract_of_noOip (d : Bool) (ops : List Op)
    (hn : Abs.noOip (dataOps ops) = true) (k : Key) :
    let s := (Store.init d).run ops
    s.readAllMarked k = Abs.readAllMarked d (dataOps ops) k ∧
      s.readAll k = Abs.readAll d (dataOps ops) k ∧
      (∀ mo, s.read k mo = Abs.read d (dataOps ops) k mo) ∧
      s.contains k = Abs.contains d (dataOps ops) k :=
  run_refines_abstract_partial d ops k (Abs.safe_of_noOip d hn k)

/-- `run_answers_depend_on_data_ops_only`, the true part: under the safety condition the answers after
    a history are those after the same history with all maintenance operations erased -/
theorem run_answers_depend_on_data_ops_only_partial (d : Bool) (ops : List Op) (k : Key)
    (hs : Abs.safeK d k (dataOps ops) = true) :
    let s := (Store.init d).run ops
    let s' := (Store.init d).run (ops.filter Op.isData)
    s.readAllMarked k = s'.readAllMarked k ∧ s.readAll k = s'.readAll k ∧
      (∀ mo, s.read k mo = s'.read k mo) ∧ s.contains k = s'.contains k := by
  intro s s'
  obtain ⟨h1, h2, h3, h4⟩ := run_refines_abstract_partial d ops k hs
  obtain ⟨g1, g2, g3, g4⟩ := run_data_refines_abstract d (ops.filter Op.isData)
    (fun op hop => (List.mem_filter.1 hop).2) k
  rw [dataOps_filter_isData] at g1 g2 g3 g4
  exact ⟨h1.trans g1.symm, h2.trans g2.symm, fun mo => (h3 mo).trans (g3 mo).symm, h4.trans g4.symm⟩

theorem run_answers_depend_on_data_ops_only_of_noOip (d : Bool) (ops : List Op)
    (hn : Abs.noOip (dataOps ops) = true) (k : Key) :
    let s := (Store.init d).run ops
    let s' := (Store.init d).run (ops.filter Op.isData)
    s.readAllMarked k = s'.readAllMarked k ∧ s.readAll k = s'.readAll k ∧
      (∀ mo, s.read k mo = s'.read k mo) ∧ s.contains k = s'.contains k :=
  run_answers_depend_on_data_ops_only_partial d ops k (Abs.safe_of_noOip d hn k)

/-- where (and which) maintenance operations are interleaved does not matter: two histories with the
    same data operations, safe for `k`, answer alike -/
theorem run_answers_eq_of_same_data_ops (d : Bool) (ops₁ ops₂ : List Op) (k : Key)
    (hsame : dataOps ops₁ = dataOps ops₂) (hs : Abs.safeK d k (dataOps ops₁) = true) :
    let s₁ := (Store.init d).run ops₁
    let s₂ := (Store.init d).run ops₂
    s₁.readAllMarked k = s₂.readAllMarked k ∧ s₁.readAll k = s₂.readAll k ∧
      (∀ mo, s₁.read k mo = s₂.read k mo) ∧ s₁.contains k = s₂.contains k := by
  intro s₁ s₂
  obtain ⟨h1, h2, h3, h4⟩ := run_refines_abstract_partial d ops₁ k hs
  obtain ⟨g1, g2, g3, g4⟩ := run_refines_abstract_partial d ops₂ k (by rw [← hsame]; exact hs)
  rw [← hsame] at g1 g2 g3 g4
  exact ⟨h1.trans g1.symm, h2.trans g2.symm, fun mo => (h3 mo).trans (g3 mo).symm, h4.trans g4.symm⟩

/-! #### what is false: `only_if_presented` deletes that are not safe make blob boundaries observable

`Blob::delete(.., only_if_presented = true)` tests liveness in *that blob*.  Below, key 1 is deleted
at ts 10 and written again at ts 5: it is dead (`Deleted(10)`).  If the blob was rotated in between,
the record of ts 5 is the only record of its blob, the key is live there, and a later
`delete(1, ts 12, only_if_presented)` – which by the documentation of `only_if_presented` should do
nothing – stores a marker of ts 12 that outranks everything.  `read` then answers `Deleted(12)`
instead of `Deleted(10)`, and a subsequent write at ts 11 is invisible instead of `Found`. -/

/-- the history with one rotation … -/
def Demo.opsRot : List Op :=
  [.delete 1 10 none false, .replaceActive, .write 1 5 none ⟨1, 1⟩, .delete 1 12 none true]

/-- … and a continuation -/
def Demo.opsRot' : List Op := Demo.opsRot ++ [.write 1 11 none ⟨2, 2⟩]

theorem answers_depend_on_interleaved_maintenance :
    -- `read` / `contains`: the timestamp of the deletion differs
    ((Store.init true).run Demo.opsRot).read 1 none = .deleted 12 ∧
      ((Store.init true).run (Demo.opsRot.filter Op.isData)).read 1 none = .deleted 10 ∧
      ((Store.init true).run Demo.opsRot).contains 1 = .deleted 12 ∧
      ((Store.init true).run (Demo.opsRot.filter Op.isData)).contains 1 = .deleted 10 ∧
      -- one more write: `Deleted` against `Found`, nothing against one record
      ((Store.init true).run Demo.opsRot').read 1 none = .deleted 12 ∧
      ((Store.init true).run (Demo.opsRot'.filter Op.isData)).read 1 none =
        .found ⟨1, 11, false, none, ⟨2, 2⟩⟩ ∧
      ((Store.init true).run Demo.opsRot').readAll 1 = [] ∧
      ((Store.init true).run (Demo.opsRot'.filter Op.isData)).readAll 1 =
        [⟨1, 11, false, none, ⟨2, 2⟩⟩] ∧
      -- the abstract specification sides with the history without maintenance
      Abs.read true (dataOps Demo.opsRot') 1 none = .found ⟨1, 11, false, none, ⟨2, 2⟩⟩ ∧
      -- and the delete is reported as not safe
      Abs.safeK true 1 (dataOps Demo.opsRot) = false := by
  decide

/-- `run_answers_depend_on_data_ops_only` as originally worded is false (also with duplicates
    disallowed) -/
theorem run_answers_depend_on_data_ops_only_false :
    ¬ ∀ (d : Bool) (ops : List Op) (k : Key),
      ((Store.init d).run ops).read k none =
        ((Store.init d).run (ops.filter Op.isData)).read k none := by
  intro h
  exact absurd (h false Demo.opsRot 1) (by decide)

/-- and so is the refinement without the safety hypothesis -/
theorem run_refines_abstract_false :
    ¬ ∀ (d : Bool) (ops : List Op) (k : Key),
      ((Store.init d).run ops).read k none = Abs.read d (dataOps ops) k none := by
  intro h
  exact absurd (h false Demo.opsRot 1) (by decide)

/-- a second way: the key is live, the visible marker and the new one have the same timestamp but
    different metadata.  Which of the two `read_all_with_deletion_marker` returns depends on the blob
    boundaries; `read`, `read_with`, `contains`, `read_all` do not see the difference. -/
theorem marker_meta_depends_on_interleaved_maintenance :
    let ops : List Op := [.write 1 20 none ⟨1, 1⟩, .replaceActive,
      .delete 1 10 (some (some [1])) false, .delete 1 10 (some (some [2])) true]
    let s := (Store.init true).run ops
    let s' := (Store.init true).run (ops.filter Op.isData)
    s.readAllMarked 1 = [⟨1, 20, false, none, ⟨1, 1⟩⟩, ⟨1, 10, true, some [1], ⟨0, 0⟩⟩] ∧
      s'.readAllMarked 1 = [⟨1, 20, false, none, ⟨1, 1⟩⟩, ⟨1, 10, true, some [2], ⟨0, 0⟩⟩] ∧
      s.readAll 1 = s'.readAll 1 ∧ s.read 1 none = s'.read 1 none ∧ s.contains 1 = s'.contains 1 ∧
      Abs.safeK true 1 (dataOps ops) = false := by
  decide

/-! #### non-vacuity of the refinement -/

/-- key 1 written, the blob rotated, key 1 written again (newer), the blob closed, key 1 deleted
    `only_if_presented` at a timestamp between the two writes – the marker goes into *both* closed
    blobs, there is no active one –, a restart, another key, two more rotations, an unconditional
    delete (the marker goes into the active blob and into the closed blob 1, where the key is live),
    a write at the timestamp of that marker, and a write that is refused as a duplicate -/
def Demo.opsAbs : List Op :=
  [.write 1 5 none ⟨1, 1⟩, .replaceActive, .write 1 7 (some (some [3])) ⟨2, 2⟩, .closeActive,
   .delete 1 6 none true, .restart false, .write 2 1 none ⟨3, 3⟩, .settle, .replaceActive,
   .delete 1 9 none false, .write 1 9 none ⟨4, 4⟩, .write 1 8 none ⟨5, 5⟩]

-- the hypothesis holds (for key 1, and for all keys) …
example : Abs.safeK false 1 (dataOps Demo.opsAbs) = true := by decide
example : Abs.Safe false (dataOps Demo.opsAbs) := (Abs.safe_iff _ _).2 (by decide)
-- … the storage really has several blobs, and the `only_if_presented` delete marked two of them …
example : ((Store.init false).run Demo.opsAbs).recordsCountDetailed = [2, 4, 2] := by decide
example : (((Store.init false).run (Demo.opsAbs.take 4)).delete 1 6 none true).2 = 2 := by decide
-- … the abstract state is the seven data operations …
example : (dataOps Demo.opsAbs).length = 7 := by decide
-- … and the answers are not trivial: after the marker of ts 6 only the write of ts 7 is visible,
example : Abs.readAllMarked false (dataOps (Demo.opsAbs.take 5)) 1 =
    [⟨1, 7, false, some [3], ⟨2, 2⟩⟩, ⟨1, 6, true, none, ⟨0, 0⟩⟩] := by decide
example : ((Store.init false).run (Demo.opsAbs.take 5)).readAllMarked 1 =
    [⟨1, 7, false, some [3], ⟨2, 2⟩⟩, ⟨1, 6, true, none, ⟨0, 0⟩⟩] := by
  rw [(run_refines_abstract_partial false (Demo.opsAbs.take 5) 1 (by decide)).1]; decide
-- at the end: written at ts 9 after the delete of ts 9; the write of ts 8 was refused (duplicate)
example : ((Store.init false).run Demo.opsAbs).read 1 none = .found ⟨1, 9, false, none, ⟨4, 4⟩⟩ := by
  rw [(run_refines_abstract_partial false Demo.opsAbs 1 (by decide)).2.2.1]; decide
example : ((Store.init false).run Demo.opsAbs).read 1 (some (some [3])) = .deleted 9 := by
  rw [(run_refines_abstract_partial false Demo.opsAbs 1 (by decide)).2.2.1]; decide
example : ((Store.init false).run Demo.opsAbs).readAll 1 = [⟨1, 9, false, none, ⟨4, 4⟩⟩] := by
  rw [(run_refines_abstract_partial false Demo.opsAbs 1 (by decide)).2.1]; decide
example : ((Store.init false).run Demo.opsAbs).contains 2 = .found 1 := by
  rw [(run_refines_abstract_of_safe false Demo.opsAbs (by decide) 2).2.2.2]; decide
-- maintenance erased: same answers, different storage
example :
    ((Store.init false).run Demo.opsAbs).readAllMarked 1 =
      ((Store.init false).run (Demo.opsAbs.filter Op.isData)).readAllMarked 1 :=
  (run_answers_depend_on_data_ops_only_partial false Demo.opsAbs 1 (by decide)).1
example : ((Store.init false).run (Demo.opsAbs.filter Op.isData)).recordsCountDetailed = [6] ∧
    ((Store.init false).run Demo.opsAbs).recordsCount = 8 := by decide
-- the duplicate guard of the abstract step is exercised (`allow_duplicates = false`: the second
-- write of an existing key/meta is refused, concretely and abstractly) …
example : Abs.readAllMarked false (dataOps [.write 1 5 none ⟨1, 1⟩, .closeActive, .write 1 6 none ⟨2, 2⟩]) 1
    = [⟨1, 5, false, none, ⟨1, 1⟩⟩] := by decide
-- … and so is the `only_if_presented` guard on a history without maintenance (not safe, but covered)
example : Abs.safeK true 1 (dataOps (Demo.opsRot.filter Op.isData)) = false := by decide
example : ((Store.init true).run (Demo.opsRot.filter Op.isData)).read 1 none = .deleted 10 := by
  rw [(run_data_refines_abstract true _ (by decide) 1).2.2.1]; decide
-- the nondeterministic specification: both outcomes of the `only_if_presented` delete of `opsRot`
-- are allowed (and both occur, see `answers_depend_on_interleaved_maintenance`); a safe history
-- has a single allowed view
example : Abs.nviews true (dataOps Demo.opsRot) 1 =
    [[⟨1, 12, true, none, ⟨0, 0⟩⟩], [⟨1, 10, true, none, ⟨0, 0⟩⟩]] := by decide
example : Abs.nviews false (dataOps Demo.opsAbs) 1 =
    [[⟨1, 9, false, none, ⟨4, 4⟩⟩, ⟨1, 9, true, none, ⟨0, 0⟩⟩]] := by decide
example : ∃ v ∈ Abs.nviews true (dataOps Demo.opsRot) 1,
    ((Store.init true).run Demo.opsRot).read 1 none = Abs.readOf v none :=
  let ⟨v, hv, _, _, h, _⟩ := run_refines_abstract true Demo.opsRot 1
  ⟨v, hv, h none⟩
-- the declarative reading of the abstract specification: one log, sorted and cut
example : Abs.log false (dataOps Demo.opsAbs) =
    [⟨1, 5, false, none, ⟨1, 1⟩⟩, ⟨1, 7, false, some [3], ⟨2, 2⟩⟩, ⟨1, 6, true, none, ⟨0, 0⟩⟩,
     ⟨2, 1, false, none, ⟨3, 3⟩⟩, ⟨1, 9, true, none, ⟨0, 0⟩⟩, ⟨1, 9, false, none, ⟨4, 4⟩⟩] := by
  decide
example : Abs.view false (dataOps Demo.opsAbs) 1 =
    [⟨1, 9, false, none, ⟨4, 4⟩⟩, ⟨1, 9, true, none, ⟨0, 0⟩⟩] := by
  rw [Abs.view_eq_visOfLog]; decide

/-
STATUS of `run_answers_depend_on_data_ops_only` (the answers after a run are those after the run
with all maintenance operations erased):

  * FALSE as worded: `run_answers_depend_on_data_ops_only_false`,
    `answers_depend_on_interleaved_maintenance` (`read` / `contains` / `read_all` differ, even
    `Found` against `Deleted`), `marker_meta_depends_on_interleaved_maintenance` (only
    `read_all_with_deletion_marker` differs), next to `counts_depend_on_interleaved_maintenance`.
    The cause is `delete(only_if_presented = true)`, whose liveness test is per blob.
  * PROVED for all histories, without hypothesis: `run_refines_abstract` – the answers are read off one
    of the views of the nondeterministic blob-free specification (`Abs.nviews`), in which an
    `only_if_presented` delete has at most two outcomes.
  * PROVED for every history whose `only_if_presented` deletes are safe (`Abs.safeK`, decidable, on
    the data operations only; all histories without `only_if_presented`):
    `run_answers_depend_on_data_ops_only_partial`, `…_of_noOip`, `run_answers_eq_of_same_data_ops`,
    as corollaries of the refinement theorems `run_refines_abstract_partial` (with maintenance) and
    `run_data_refines_abstract` (without maintenance, unconditional) against the blob-free
    specification `Pearl/Model/Abstract.lean`.

NOT PROVED, and not true: that `Abs.safeK` is the weakest such condition on the data operations.  It is
sufficient, and the witnesses above show it cannot simply be dropped, but e.g. the data operations
`[delete 1 5 none false, delete 1 7 none true]` violate it although no blob can ever hold key 1 live
(there is no write), so no interleaving of maintenance changes an answer.  Likewise `Abs.nviews`
over-approximates: it allows the marker of an `only_if_presented` delete of a dead key to become
visible whenever the key has a visible record, without tracking whether some hidden record can be
live in a blob of its own.  A tight condition needs that extra state in the abstract specification.
Record counts are not part of the abstract specification (they do depend on blob boundaries).
-/

end Pearl
