import Pearl.Proofs.MaintLemmas
import Pearl.Props.C01
import Pearl.Props.C02
/-
C04: representation transparency.  Lifecycle and maintenance operations (`closeActive`,
`createActive`, `restoreActive`, `replaceActive`, `settle`, `restart`; `Op.isMaint`) never change
the answer of any query, nor the record counts; afterwards the storage accepts writes and deletes
exactly as before; lifecycle calls succeed whenever their documented precondition holds.
-/
namespace Pearl

/-! ### the history -/

/-- a maintenance operation leaves the history alone, except that empty blobs may appear at its end
    (in particular blobs keep their relative order, although they may move between the closed
    container and the active slot) -/
theorem maint_history {s : Store} (hwf : s.WF) {m : Op} (hm : m.isMaint = true) :
    ∃ e : History, (s.apply m).history = s.history ++ e ∧ ∀ b ∈ e, b.2 = [] :=
  (Store.apply_maint_step hwf hm).history_ext

/-- the positioned records are literally the same list … -/
theorem maint_records_eq {s : Store} (hwf : s.WF) {m : Op} (hm : m.isMaint = true) :
    History.positioned (s.apply m).history = History.positioned s.history := by
  obtain ⟨e, he, hempty⟩ := maint_history hwf hm
  rw [he, positioned_append_empty _ hempty]

/-- … in particular the same multiset -/
theorem maint_records {s : Store} (hwf : s.WF) {m : Op} (hm : m.isMaint = true) :
    (History.positioned (s.apply m).history).Perm (History.positioned s.history) := by
  rw [maint_records_eq hwf hm]

/-! ### the specification -/

/-- any two histories with pairwise distinct blob ids and the same multiset of positioned records
    have the same rank order (uniqueness of rank-sorted permutations) -/
theorem spec_all_of_perm {h h' : History} (hn' : (h'.map (·.1)).Nodup)
    (hp : h.positioned.Perm h'.positioned) (k : Key) : Spec.all h k = Spec.all h' k :=
  Spec.all_congr_perm hn' hp k

theorem maint_spec {s : Store} (hwf : s.WF) {m : Op} (hm : m.isMaint = true) (k : Key) :
    Spec.all (s.apply m).history k = Spec.all s.history k ∧
      Spec.allCut (s.apply m).history k = Spec.allCut s.history k ∧
      Spec.allLive (s.apply m).history k = Spec.allLive s.history k ∧
      Spec.latest (s.apply m).history k = Spec.latest s.history k ∧
      ∀ mt, Spec.readWith (s.apply m).history k mt = Spec.readWith s.history k mt :=
  have hp := maint_records_eq hwf hm
  ⟨Spec.all_congr hp k, Spec.allCut_congr hp k, Spec.allLive_congr hp k, Spec.latest_congr hp k,
    fun mt => Spec.readWith_congr hp k mt⟩

/-- the same conclusion through the multiset argument (`maint_records` + `WF` of the new state) -/
theorem maint_spec_all_via_perm {s : Store} (hwf : s.WF) {m : Op} (hm : m.isMaint = true) (k : Key) :
    Spec.all (s.apply m).history k = Spec.all s.history k :=
  spec_all_of_perm hwf.history_nodup (maint_records hwf hm) k

/-! ### the answers -/

/-- `read` (`mo = none`) and `read_with` (`mo = some meta`) -/
theorem maint_read {s : Store} (hwf : s.WF) {m : Op} (hm : m.isMaint = true) (k : Key)
    (mo : Option Meta) : (s.apply m).read k mo = s.read k mo := by
  have hwf' := apply_WF hwf m
  have hs := maint_spec hwf hm k
  cases mo with
  | none => rw [read_eq_spec hwf', read_eq_spec hwf, hs.2.2.2.1]
  | some mt => rw [readWith_eq_spec hwf', readWith_eq_spec hwf, hs.2.2.2.2 mt]

theorem maint_contains {s : Store} (hwf : s.WF) {m : Op} (hm : m.isMaint = true) (k : Key) :
    (s.apply m).contains k = s.contains k := by
  rw [contains_eq_spec (apply_WF hwf m), contains_eq_spec hwf, (maint_spec hwf hm k).2.2.2.1]

theorem maint_readAllMarked {s : Store} (hwf : s.WF) {m : Op} (hm : m.isMaint = true) (k : Key) :
    (s.apply m).readAllMarked k = s.readAllMarked k := by
  rw [readAllMarked_eq_spec (apply_WF hwf m), readAllMarked_eq_spec hwf, (maint_spec hwf hm k).2.1]

theorem maint_readAll {s : Store} (hwf : s.WF) {m : Op} (hm : m.isMaint = true) (k : Key) :
    (s.apply m).readAll k = s.readAll k := by
  rw [readAll_eq_spec (apply_WF hwf m), readAll_eq_spec hwf, (maint_spec hwf hm k).2.2.1]

/-- the merged index lookup all point queries go through, also when filters prune blobs
    (`prune` may reject a blob only if it does not hold the key, cf. `prune_transparent`) -/
theorem maint_getLatestEntryP {s : Store} (hwf : s.WF) {m : Op} (hm : m.isMaint = true) (k : Key)
    (mo : Option Meta) (prune prune' : Blob → Key → Bool)
    (hp : ∀ b ∈ s.blobs, prune b k = true → ∀ r ∈ b.recs, r.key ≠ k)
    (hp' : ∀ b ∈ (s.apply m).blobs, prune' b k = true → ∀ r ∈ b.recs, r.key ≠ k) :
    (s.apply m).getLatestEntryP prune' k mo = s.getLatestEntryP prune k mo := by
  rw [prune_transparent _ _ _ _ hp, prune_transparent _ _ _ _ hp']
  exact maint_read hwf hm k mo

/-- all query functions: `read`, `read_with`, `contains`, `read_all_with_deletion_marker`,
    `read_all`, and the underlying `get_latest_entry` -/
theorem maint_answers {s : Store} (hwf : s.WF) {m : Op} (hm : m.isMaint = true) (k : Key) :
    (s.apply m).read k none = s.read k none ∧
      (∀ mt, (s.apply m).read k (some mt) = s.read k (some mt)) ∧
      (s.apply m).contains k = s.contains k ∧
      (s.apply m).readAllMarked k = s.readAllMarked k ∧
      (s.apply m).readAll k = s.readAll k ∧
      (∀ mo, (s.apply m).getLatestEntry k mo = s.getLatestEntry k mo) :=
  ⟨maint_read hwf hm k none, fun mt => maint_read hwf hm k (some mt), maint_contains hwf hm k,
    maint_readAllMarked hwf hm k, maint_readAll hwf hm k, fun mo => maint_read hwf hm k mo⟩

/-! ### the counts -/

theorem maint_counts {s : Store} (hwf : s.WF) {m : Op} (hm : m.isMaint = true) :
    (s.apply m).recordsCount = s.recordsCount := by
  obtain ⟨e, he, hempty⟩ := maint_history hwf hm
  rw [Store.recordsCount_eq_count, Store.recordsCount_eq_count, he, count_append_empty _ hempty]

/-- per blob: the old counts, followed by zeros for the blobs that appeared -/
theorem maint_counts_detailed {s : Store} (hwf : s.WF) {m : Op} (hm : m.isMaint = true) :
    ∃ n, (s.apply m).recordsCountDetailed = s.recordsCountDetailed ++ List.replicate n 0 := by
  obtain ⟨e, he, hempty⟩ := maint_history hwf hm
  refine ⟨e.length, ?_⟩
  have h1 : ∀ t : Store, t.recordsCountDetailed = t.history.map (·.2.length) := by
    intro t; simp only [Store.recordsCountDetailed, Store.history, List.map_map]; rfl
  rw [h1, h1, he, List.map_append]
  congr 1
  rw [List.eq_replicate_iff]
  refine ⟨by simp, ?_⟩
  intro x hx
  obtain ⟨b, hb, rfl⟩ := List.mem_map.1 hx
  rw [hempty b hb]; rfl

/-! ### afterwards the storage accepts writes and deletes as before -/

/-- whether a write is refused as a duplicate is not changed by maintenance -/
theorem maint_dedups {s : Store} (hwf : s.WF) {m : Op} (hm : m.isMaint = true) (k : Key)
    (mo : Option Meta) : (s.apply m).dedups k mo = s.dedups k mo := by
  unfold Store.dedups
  rw [Store.apply_allowDup, Store.ensureActive_eq_apply, Store.ensureActive_eq_apply]
  have h1 : ((s.apply m).apply .createActive).getLatestEntry k mo = (s.apply m).getLatestEntry k mo :=
    maint_read (apply_WF hwf m) rfl k mo
  have h2 : (s.apply .createActive).getLatestEntry k mo = s.getLatestEntry k mo :=
    maint_read hwf rfl k mo
  have h3 : (s.apply m).getLatestEntry k mo = s.getLatestEntry k mo := maint_read hwf hm k mo
  rw [h1, h2, h3]

/-- after any maintenance operation: a write is stored (one more record, appended to the active
    blob) unless it is refused as a duplicate, and it is refused exactly when it would have been
    refused before; a delete without `only_if_presented` always appends at least one marker -/
theorem maint_then_accepts {s : Store} (hwf : s.WF) {m : Op} (hm : m.isMaint = true)
    (k : Key) (ts : Nat) (mo : Option Meta) (d : Data) :
    let s' := s.apply m
    (((s'.write k ts mo d).recordsCount = s'.recordsCount + 1 ∧
        ∃ a, s'.ensureActive.active = some a ∧
          (s'.write k ts mo d).active =
            some (a.append { key := k, ts := ts, del := false, mt := mo.getD none, data := d })) ∨
      (s.dedups k mo = true ∧ s'.allowDup = false ∧
        (s'.ensureActive.getLatestEntry k mo).isFound = true ∧
        s'.write k ts mo d = s'.ensureActive ∧ (s'.write k ts mo d).recordsCount = s'.recordsCount)) ∧
    1 ≤ (s'.delete k ts mo false).2 ∧
    (s'.delete k ts mo false).1.recordsCount = s'.recordsCount + (s'.delete k ts mo false).2 := by
  intro s'
  refine ⟨?_, Store.delete_false_pos s' k ts mo, Store.delete_recordsCount s' k ts mo false⟩
  have hd : s'.dedups k mo = s.dedups k mo := maint_dedups hwf hm k mo
  have hc := Store.write_recordsCount s' k ts mo d
  cases hdd : s'.dedups k mo with
  | false =>
    left
    rw [hdd] at hc
    refine ⟨by simpa using hc, ?_⟩
    have hcond : s'.allowDup = true ∨ (s'.ensureActive.getLatestEntry k mo).isFound = false := by
      unfold Store.dedups at hdd
      cases ha : s'.allowDup with
      | true => exact Or.inl rfl
      | false => right; simpa [ha] using hdd
    obtain ⟨a, ha, hw⟩ := write_appends s' k ts mo d hcond
    exact ⟨a, ha, by rw [hw]⟩
  | true =>
    right
    rw [hdd] at hc
    have h2 : s'.allowDup = false ∧ (s'.ensureActive.getLatestEntry k mo).isFound = true := by
      unfold Store.dedups at hdd
      simpa using hdd
    exact ⟨by rw [← hd, hdd], h2.1, h2.2, dedup_write s' k ts mo d h2.1 h2.2, by simpa using hc⟩

/-- `delete` with `only_if_presented` marks exactly the blobs in which the key is live, and their
    number is not changed by maintenance (new blobs are empty) -/
theorem maint_delete_present_count {s : Store} (hwf : s.WF) {m : Op} (hm : m.isMaint = true)
    (k : Key) (ts : Nat) (mo : Option Meta) :
    (s.delete k ts mo true).2 = (s.history.filter (fun h => Spec.liveIn h.1 h.2 k)).length ∧
      ((s.apply m).delete k ts mo true).2 = (s.delete k ts mo true).2 := by
  refine ⟨Store.delete_true_count s k ts mo, ?_⟩
  obtain ⟨e, he, hempty⟩ := maint_history hwf hm
  rw [Store.delete_true_count, Store.delete_true_count, he, List.filter_append, List.length_append]
  have : e.filter (fun h => Spec.liveIn h.1 h.2 k) = [] := by
    rw [List.filter_eq_nil_iff]
    intro b hb
    rw [hempty b hb, liveIn_nil]
    simp
  rw [this]; rfl

/-! ### lifecycle calls succeed whenever their documented precondition holds -/

theorem lifecycle_preconditions (s : Store) :
    ((∃ s', s.closeActive = .ok s') ↔ s.active.isSome = true) ∧
      ((∃ s', s.tryCreateActive = .ok s') ↔ s.active.isNone = true) ∧
      ((∃ s', s.restoreActive = .ok s') ↔ s.active.isNone = true ∧ s.closed ≠ []) := by
  refine ⟨?_, ?_, ?_⟩
  · unfold Store.closeActive
    cases s.active <;> simp
  · unfold Store.tryCreateActive
    cases s.active <;> simp
  · unfold Store.restoreActive
    cases s.active with
    | some a => simp
    | none =>
      cases hl : Store.lastPresent s.slots with
      | none => simp [Store.closed, Store.lastPresent_none hl]
      | some p =>
        obtain ⟨i, b⟩ := p
        have := Store.lastPresent_some hl
        simp only [Except.ok.injEq, exists_eq', Option.isNone_none, true_and, true_iff]
        unfold Store.closed
        rw [← this]; simp

/-- and they fail with the documented error otherwise -/
theorem lifecycle_errors (s : Store) :
    (s.active = none → s.closeActive = .error .activeBlobDoesntExist) ∧
      (s.active.isSome = true → s.tryCreateActive = .error .activeBlobExists) ∧
      (s.active.isSome = true → s.restoreActive = .error .activeBlobExists) ∧
      (s.active = none → s.closed = [] → s.restoreActive = .error .uninitialized) := by
  refine ⟨?_, ?_, ?_, ?_⟩
  · intro h; simp [Store.closeActive, h]
  · intro h; unfold Store.tryCreateActive; cases ha : s.active <;> simp_all
  · intro h; unfold Store.restoreActive; cases ha : s.active <;> simp_all
  · intro h hc
    unfold Store.restoreActive
    rw [h]
    cases hl : Store.lastPresent s.slots with
    | none => rfl
    | some p =>
      obtain ⟨i, b⟩ := p
      have := Store.lastPresent_some hl
      unfold Store.closed at hc
      rw [hc] at this
      simp at this

/-! ### after every history -/

theorem run_maint_answers (d : Bool) (ops : List Op) (m : Op) (hm : m.isMaint = true) (k : Key) :
    let s := (Store.init d).run ops
    (s.apply m).read k none = s.read k none ∧
      (∀ mt, (s.apply m).read k (some mt) = s.read k (some mt)) ∧
      (s.apply m).contains k = s.contains k ∧
      (s.apply m).readAllMarked k = s.readAllMarked k ∧
      (s.apply m).readAll k = s.readAll k ∧
      (∀ mo, (s.apply m).getLatestEntry k mo = s.getLatestEntry k mo) :=
  maint_answers (run_WF d ops) hm k

theorem run_maint_counts (d : Bool) (ops : List Op) (m : Op) (hm : m.isMaint = true) :
    let s := (Store.init d).run ops
    (s.apply m).recordsCount = s.recordsCount :=
  maint_counts (run_WF d ops) hm

/-- any block of maintenance operations: records, hence answers and counts, unchanged -/
theorem maints_records {s : Store} (hwf : s.WF) :
    ∀ ms : List Op, (∀ m ∈ ms, m.isMaint = true) →
      History.positioned (s.run ms).history = History.positioned s.history
  | [], _ => rfl
  | m :: ms, h => by
    rw [Store.run_cons, maints_records (apply_WF hwf m) ms (fun x hx => h x (by simp [hx])),
      maint_records_eq hwf (h m (by simp))]

theorem maints_answers {s : Store} (hwf : s.WF) (ms : List Op) (hms : ∀ m ∈ ms, m.isMaint = true)
    (k : Key) :
    (∀ mo, (s.run ms).read k mo = s.read k mo) ∧
      (s.run ms).contains k = s.contains k ∧
      (s.run ms).readAllMarked k = s.readAllMarked k ∧
      (s.run ms).readAll k = s.readAll k := by
  have hp := maints_records hwf ms hms
  have hwf' := Store.run_WF_from hwf ms
  refine ⟨?_, ?_, ?_, ?_⟩
  · intro mo
    cases mo with
    | none => rw [read_eq_spec hwf', read_eq_spec hwf, Spec.latest_congr hp]
    | some mt => rw [readWith_eq_spec hwf', readWith_eq_spec hwf, Spec.readWith_congr hp]
  · rw [contains_eq_spec hwf', contains_eq_spec hwf, Spec.latest_congr hp]
  · rw [readAllMarked_eq_spec hwf', readAllMarked_eq_spec hwf, Spec.allCut_congr hp]
  · rw [readAll_eq_spec hwf', readAll_eq_spec hwf, Spec.allLive_congr hp]

/-- after every history, any block of maintenance operations is invisible to all queries -/
theorem run_maints_answers (d : Bool) (ops ms : List Op) (hms : ∀ m ∈ ms, m.isMaint = true) (k : Key) :
    let s := (Store.init d).run ops
    let s' := (Store.init d).run (ops ++ ms)
    (∀ mo, s'.read k mo = s.read k mo) ∧ s'.contains k = s.contains k ∧
      s'.readAllMarked k = s.readAllMarked k ∧ s'.readAll k = s.readAll k := by
  intro s s'
  have : s' = s.run ms := by simp [s, s', Store.run, List.foldl_append]
  rw [this]
  exact maints_answers (run_WF d ops) ms hms k

/-- what is *not* true: maintenance commutes with later data operations only as far as the answers
    go; a later `delete` (without `only_if_presented`) marks the closed old blob *and* the new active
    one, so the record count of a history does depend on where maintenance was interleaved -/
theorem counts_depend_on_interleaved_maintenance :
    ((Store.init true).run [.write 1 5 none ⟨1, 1⟩, .delete 1 9 none false]).recordsCount = 2 ∧
      ((Store.init true).run [.write 1 5 none ⟨1, 1⟩, .replaceActive, .delete 1 9 none false]).recordsCount = 3 ∧
      ((Store.init true).run [.write 1 5 none ⟨1, 1⟩, .delete 1 9 none false]).readAllMarked 1 =
        ((Store.init true).run [.write 1 5 none ⟨1, 1⟩, .replaceActive, .delete 1 9 none false]).readAllMarked 1 := by
  decide

/-! ### non-vacuity -/

-- the operations are maintenance operations, the hypotheses hold, the states do change …
example : (Op.closeActive).isMaint = true ∧ (Op.restart true).isMaint = true ∧
    (Op.write 1 1 none ⟨1, 1⟩).isMaint = false := by decide
example : (Demo.s1.apply .closeActive).active = none ∧ Demo.s1.active ≠ none := by decide
example : (Demo.s1.apply .replaceActive).history = Demo.s1.history ++ [(2, [])] := by decide
example : ((Demo.s1.apply .closeActive).apply .restoreActive).blobs = Demo.s1.blobs := by decide
example : (Demo.s2.apply (.restart true)).blobs ≠ Demo.s2.blobs := by decide
-- … and the answers are non-trivial and unchanged
example : (Demo.s1.apply .closeActive).read 1 none = .found ⟨1, 5, false, some [7], ⟨3, 3⟩⟩ := by
  rw [maint_read Demo.s1_WF rfl]; decide
example : (Demo.s2.apply (.restart true)).readAllMarked 1 =
    [⟨1, 12, false, none, ⟨4, 4⟩⟩, ⟨1, 9, true, none, ⟨0, 0⟩⟩] := by
  rw [maint_readAllMarked Demo.s2_WF rfl]; decide
example : (Demo.s2.apply .settle).recordsCount = 6 := by
  rw [maint_counts Demo.s2_WF rfl]; decide
-- `write` / `delete` are not maintenance operations and do change answers
example : (Demo.s1.apply (.delete 1 9 none true)).read 1 none ≠ Demo.s1.read 1 none := by decide
-- both alternatives of `maint_then_accepts` occur
example : ((Store.init false).run [.write 1 5 none ⟨1, 1⟩, .closeActive]).dedups 1 none = true ∧
    ((Store.init false).run [.write 1 5 none ⟨1, 1⟩, .closeActive]).dedups 2 none = false := by decide
example : ((Demo.s1.apply .closeActive).delete 1 9 none true).2 = 2 := by
  rw [(maint_delete_present_count Demo.s1_WF rfl 1 9 none).2]; decide
-- lifecycle preconditions: both sides occur
example : ∃ s', Demo.s1.closeActive = .ok s' := (lifecycle_preconditions Demo.s1).1.2 (by decide)
example : ¬ ∃ s', Demo.s1.tryCreateActive = .ok s' :=
  fun h => absurd ((lifecycle_preconditions Demo.s1).2.1.1 h) (by decide)
example : ∃ s', (Demo.s1.apply .closeActive).restoreActive = .ok s' :=
  (lifecycle_preconditions _).2.2.2 (by decide)

/-
NOT YET PROVED (not stated): `run_answers_depend_on_data_ops_only` — that the answers after a run
are those after the run with all maintenance operations erased.  At the level of `Spec.all` it is
false as blob ids and positions differ, and for counts it is false
(`counts_depend_on_interleaved_maintenance`); for the record-level answers it needs an abstraction
of the history that forgets blob boundaries, which this file does not build.  The "after every
history" forms proved here are `run_maint_answers`, `run_maint_counts` and `run_maints_answers`.
-/

end Pearl
