import Pearl.Proofs.BlobLemmas
import Pearl.Proofs.ScanRegions
/-
C05 "Byte integrity": property theorems of the byte layer (L5), each with a non-vacuity example.

Model: Pearl/Model/{Bytes,Crc,Record}.lean.  Lemmas: Pearl/Proofs/{Bytes,Crc,Record,Blob}Lemmas.lean.
-/
namespace Pearl.C05
open Pearl

/-! small concrete objects for the examples (the record of the unit tests in src/record/record.rs) -/

def sq16 : List UInt8 := (List.range 16).map (fun i => UInt8.ofNat (i * i))
/-- key [0,0,1], timestamp 101, empty meta, 16 data bytes; checksums left 0 where they do not matter -/
def hdr001 : RecHeader := RecHeader.new [0, 0, 1] 101 8 16 0
def rec001 : Record := { header := hdr001, mt := none, data := sq16 }

/-! ## (a) the write path does not depend on the Single / Double split -/

/-- For every record, offset and threshold: the bytes handed to the file (one buffer or two) are the
    plain serialisation of the header with `blob_offset := off` and the checksum of that header computed
    over a zero checksum field, then the meta, then the data; the checksum returned to `Blob::write` is the
    one in those bytes; and the reservation `len()` is the length of those bytes. -/
theorem write_path_independent (r : Record) (off maxSinglePass : Nat) :
    let h0 : RecHeader := { r.header with blobOffset := off, headerChecksum := 0 }
    let h' : RecHeader := { r.header with blobOffset := off, headerChecksum := crc32c (serHeader h0) }
    let bytes := serHeader h' ++ serMeta r.mt ++ r.data
    (writableOf (toPartial r maxSinglePass) off).1.bytes = bytes ∧
    (writableOf (toPartial r maxSinglePass) off).2 = h'.headerChecksum ∧
    (toPartial r maxSinglePass).len = bytes.length := by
  intro h0 h' bytes
  have h := writableWith_toPartial crc32c r off maxSinglePass
  refine ⟨h.1, h.2, ?_⟩
  rw [toPartial_len]
  simp only [bytes, List.length_append, serHeader_length]
  rfl

/-- consequently the file content after the write is the same for any two thresholds, and it is
    `file ++ bytes` (one `pwrite` or two) -/
theorem write_path_file (file : List UInt8) (r : Record) (maxSinglePass : Nat) :
    appendRecord file r maxSinglePass =
      file ++ (serHeader (r.header.final file.length) ++ (serMeta r.mt ++ r.data)) :=
  appendRecord_eq file r maxSinglePass

/-- non-vacuity: both shapes occur for the same record, and they differ as values -/
example : (toPartial rec001 10).data = some sq16 ∧ (toPartial rec001 4096).data = none ∧
    (toPartial rec001 10).buf ≠ (toPartial rec001 4096).buf := by decide

/-! ## (b) the in-place patch equals re-serialisation -/

/-- for an arbitrary checksum function -/
theorem patch_eq_serialize (crc : List UInt8 → UInt32) (h : RecHeader) (rest : List UInt8) (off : Nat) :
    let c := crc (serHeader { h with blobOffset := off, headerChecksum := 0 })
    finalizeWith crc (serHeader h ++ rest) (headerSize h.key.length) off =
      (serHeader { h with blobOffset := off, headerChecksum := c } ++ rest, c) := by
  intro c
  have := finalizeWith_serHeader crc h rest off
  rw [serHeader_length_eq_headerSize] at this
  exact this

/-- the instance the code runs (`finalize_with_checksum`, offsets `len - 24` and `len - 4`) -/
theorem patch_eq_serialize_crc32c (h : RecHeader) (rest : List UInt8) (off : Nat) :
    finalizeWithChecksum (serHeader h ++ rest) (headerSize h.key.length) off =
      (serHeader (h.final off) ++ rest, (h.final off).headerChecksum) :=
  patch_eq_serialize crc32c h rest off

/-- non-vacuity: the patch changes the buffer -/
example : (finalizeWith (fun _ => 7) (serHeader hdr001 ++ [1, 2]) (headerSize 3) 300).1
    ≠ serHeader hdr001 ++ [1, 2] := by decide

/-! ## (c) parsing inverts serialisation -/

theorem parse_ser_header (klen : Nat) (h : RecHeader) (rest : List UInt8)
    (hk : h.key.length = klen) (hr : h.InRange) : parseHeader klen (serHeader h ++ rest) = some h :=
  parseHeader_serHeader klen h rest hk hr

theorem serHeader_size (h : RecHeader) : (serHeader h).length = headerSize h.key.length :=
  serHeader_length h

theorem parse_ser_blob_header (b : BlobHeader) (rest : List UInt8) (hr : b.InRange) :
    parseBlobHeader (serBlobHeader b ++ rest) = some b :=
  parseBlobHeader_ser b rest hr

/-- the blob header `Blob::open_new` writes is read back and accepted by `Header::from_file` -/
theorem blob_header_roundtrip (rest : List UInt8) :
    blobHeaderFromFile (serBlobHeader ++ rest) = .ok BlobHeader.new := by
  unfold blobHeaderFromFile
  rw [show serBlobHeader ++ rest = [] ++ (serBlobHeader ++ rest) from rfl,
    readExactAt_append (p := []) (a := serBlobHeader) (s := rest) (size := blobHeaderSize) (off := 0)
      rfl (by decide)]
  simp only
  have := parse_ser_blob_header BlobHeader.new [] (by decide)
  rw [List.append_nil] at this
  rw [this]
  rfl

/-- non-vacuity: hypotheses hold for the unit-test header; and the range hypothesis is needed -/
example : hdr001.key.length = 3 ∧ hdr001.InRange ∧ BlobHeader.new.InRange := by decide
example : parseHeader 3 (serHeader { hdr001 with timestamp := 2 ^ 64 }) ≠
    some { hdr001 with timestamp := 2 ^ 64 } := by decide

/-! ## (e) CRC-32C detects every change confined to 32 consecutive bits -/

/-- two bit strings that agree outside a window of at most 32 bits and differ inside it leave different
    CRC registers, for every start value, prefix and suffix -/
theorem crc_window (init : BitVec 32) (p w1 w2 sfx : List Bool)
    (hl : w1.length = w2.length) (h32 : w1.length ≤ 32) (hne : w1 ≠ w2) :
    Crc.runD init (p ++ w1 ++ sfx) ≠ Crc.runD init (p ++ w2 ++ sfx) :=
  Crc.crc_window_bits init p w1 w2 sfx hl h32 hne

/-- byte level: equal length, equal outside the positions `i, i+1, i+2, i+3`, not equal -/
theorem crc32c_detects_window (a b : List UInt8) (hlen : a.length = b.length) (i : Nat)
    (hout : ∀ j, (j < i ∨ i + 4 ≤ j) → a[j]? = b[j]?) (hne : a ≠ b) : crc32c a ≠ crc32c b :=
  crc32c_window_pos a b hlen i hout hne

/-- the same in split form -/
theorem crc32c_detects_window_split (p w1 w2 s : List UInt8) (hl : w1.length = w2.length)
    (h4 : w1.length ≤ 4) (hne : w1 ≠ w2) : crc32c (p ++ w1 ++ s) ≠ crc32c (p ++ w2 ++ s) :=
  crc32c_window_split p w1 w2 s hl h4 hne

/-- bit level: any window of at most 32 consecutive bits of the processing order
    (bytes in order, least significant bit first), not necessarily byte aligned -/
theorem crc32c_detects_bit_window (a b : List UInt8) (p w1 w2 s : List Bool)
    (ha : Crc.bitsOf a = p ++ w1 ++ s) (hb : Crc.bitsOf b = p ++ w2 ++ s)
    (hl : w1.length = w2.length) (h32 : w1.length ≤ 32) (hne : w1 ≠ w2) : crc32c a ≠ crc32c b := by
  apply crc32c_ne_of_runD_ne
  rw [ha, hb]
  exact crc_window _ p w1 w2 s hl h32 hne

/-- non-vacuity, and the bound is tight: a 33-bit window (the generator polynomial) goes undetected -/
example : crc32c [1, 2, 3, 4, 5, 6] ≠ crc32c [1, 9, 9, 9, 9, 6] :=
  crc32c_detects_window_split [1] [2, 3, 4, 5] [9, 9, 9, 9] [6] rfl (by decide) (by decide)
set_option maxRecDepth 100000 in
example : crc32c [0xF1, 0x76, 0xEC, 0x05, 0x01] = crc32c [0, 0, 0, 0, 0] := by decide
set_option maxRecDepth 100000 in
example : crc32c "123456789".toUTF8.data.toList = 0xE3069283 := by decide

/-! ## (f) nothing is served without its checksum having been checked -/

theorem load_checks (file : List UInt8) (h : RecHeader) (m d : List UInt8)
    (hok : entryLoad file h = .ok (m, d)) :
    crc32c d = h.dataChecksum ∧ d = (file.drop h.dataOffset).take h.dataSize ∧ d.length = h.dataSize ∧
    m = (file.drop h.metaOffset).take h.metaSize ∧ headerValidate h = .ok () := by
  obtain ⟨h1, _, h3, h4, _, h6, h7⟩ := entryLoad_ok hok
  exact ⟨h7, h3, h4, h1, h6⟩

theorem load_checks_data (file : List UInt8) (h : RecHeader) (d : List UInt8)
    (hok : loadData file h = .ok d) :
    crc32c d = h.dataChecksum ∧ d = (file.drop h.dataOffset).take h.dataSize ∧ d.length = h.dataSize := by
  obtain ⟨h1, h2, h3⟩ := loadData_ok hok
  exact ⟨h3, h1, h2⟩

/-- with `validate_data_during_index_regen`, every header the scan returns was read at some offset `pos`,
    passed `Header::validate`, and the `data_size` bytes at `pos + header size + meta_size` were read
    completely and match its data checksum -/
theorem load_checks_scan (klen : Nat) (file : List UInt8) (hs : List (Nat × RecHeader))
    (hok : rawRecordsScan klen true file = .ok hs) :
    ∀ x ∈ hs, headerValidate x.2 = .ok () ∧
      (∃ buf, readExactAt file (headerSize klen) x.1 = some buf ∧ deserHeader buf = some x.2) ∧
      ∃ d, readExactAt file x.2.dataSize (x.1 + headerSize klen + x.2.metaSize) = some d ∧
        crc32c d = x.2.dataChecksum := by
  unfold rawRecordsScan at hok
  split at hok
  · cases hok
  · next hsz hst =>
    rw [rawStart_ok hst] at hok
    intro x hx
    obtain ⟨hb, hv, hd⟩ := rawLoop_checked _ _ _ _ _ _ hok x hx
    exact ⟨hv, hb, hd rfl⟩

theorem load_checks_scan_headers (klen : Nat) (file : List UInt8) (hs : List RecHeader)
    (hok : rawRecordsLoad klen true file = .ok hs) :
    ∀ h ∈ hs, headerValidate h = .ok () ∧ ∃ pos d,
      readExactAt file h.dataSize (pos + headerSize klen + h.metaSize) = some d ∧
        crc32c d = h.dataChecksum := by
  unfold rawRecordsLoad at hok
  split at hok
  · cases hok
  · next l hl =>
    cases hok
    intro h hh
    obtain ⟨x, hx, rfl⟩ := List.mem_map.mp hh
    obtain ⟨hv, _, d, hd⟩ := load_checks_scan klen file l hl x hx
    exact ⟨hv, x.1, d, hd⟩

/-- FALSE as "every returned header's data passes `load_data`": the scan audits the bytes that follow
    the header where it was *found*; `load_data` reads where the header's `blob_offset` *points*.
    Nothing in `RawRecords` compares the two. Witness: a valid record image serialised for offset 1000
    but sitting right after the blob header (what `recovery_blob` with `skip_wrong_record` leaves). -/
def relocRec : Record := Record.create 1 7 5 none [1, 2, 3]
def relocFile : List UInt8 := serBlobHeader ++ relocRec.image 1000

set_option maxRecDepth 1000000 in
theorem scan_accepts_relocated :
    rawRecordsLoad 1 true relocFile = .ok [relocRec.header.final 1000] ∧
    loadData relocFile (relocRec.header.final 1000) = .error .bincode ∧
    ¬ (∀ (klen : Nat) (file : List UInt8) (hs : List RecHeader),
        rawRecordsLoad klen true file = .ok hs → ∀ h ∈ hs, ∃ d, loadData file h = .ok d) := by
  have h1 : rawRecordsLoad 1 true relocFile = .ok [relocRec.header.final 1000] := by decide
  have h2 : loadData relocFile (relocRec.header.final 1000) = .error .bincode := by decide
  refine ⟨h1, h2, fun hall => ?_⟩
  obtain ⟨d, hd⟩ := hall 1 relocFile _ h1 _ (List.mem_singleton.mpr rfl)
  rw [h2] at hd
  cases hd

/-- the version that holds: the exact extra hypotheses are that the header sits where it says
    (`blob_offset = pos`) and has the blob's key length (only the first record's is checked by `start`) -/
theorem load_checks_scan_partial (klen : Nat) (file : List UInt8) (hs : List (Nat × RecHeader))
    (hok : rawRecordsScan klen true file = .ok hs) :
    ∀ x ∈ hs, x.2.blobOffset = x.1 → x.2.key.length = klen →
      ∃ d, loadData file x.2 = .ok d ∧ d.length = x.2.dataSize := by
  intro x hx hpos hk
  obtain ⟨_, _, d, hrd, hc⟩ := load_checks_scan klen file hs hok x hx
  refine ⟨d, ?_, (readExactAt_eq_some hrd).2⟩
  unfold loadData
  have : x.2.dataOffset = x.1 + headerSize klen + x.2.metaSize := by
    simp [RecHeader.dataOffset, RecHeader.metaOffset, RecHeader.serializedSize, headerSize, hpos, hk]
  rw [this, hrd]
  simp only [dataChecksumAudit_ok.mpr hc]

/-- (e) + (f): a change confined to a window of at most 4 consecutive bytes inside the data region of a
    record that loads from `file` makes `Entry::load` (and `load_data`) of the altered file an error -/
theorem altered_never_served (p w1 w2 s : List UInt8) (h : RecHeader) (m d : List UInt8)
    (hl : w1.length = w2.length) (h4 : w1.length ≤ 4) (hne : w1 ≠ w2)
    (hin1 : h.dataOffset ≤ p.length) (hin2 : p.length + w1.length ≤ h.dataOffset + h.dataSize)
    (hok : entryLoad (p ++ w1 ++ s) h = .ok (m, d)) :
    (∃ e, entryLoad (p ++ w2 ++ s) h = .error e) ∧ (∃ e, loadData (p ++ w2 ++ s) h = .error e) := by
  obtain ⟨_, _, hd, _, _, _, hc⟩ := entryLoad_ok hok
  rw [hd] at hc
  exact ⟨entryLoad_altered p w1 w2 s h hl h4 hne hin1 hin2 hc,
    loadData_altered p w1 w2 s h hl h4 hne hin1 hin2 hc⟩

/-- the same for the scan with `validate_data_during_index_regen`: a change confined to a window of at
    most 4 consecutive bytes inside the data region of any record the scan accepted makes the scan of
    the altered file fail (so no index is regenerated from it) -/
theorem altered_scan_rejected (klen : Nat) (p w1 w2 s : List UInt8) (hs : List (Nat × RecHeader))
    (x : Nat × RecHeader) (hl : w1.length = w2.length) (h4 : w1.length ≤ 4) (hne : w1 ≠ w2)
    (hok : rawRecordsScan klen true (p ++ w1 ++ s) = .ok hs) (hx : x ∈ hs)
    (hin1 : x.1 + headerSize klen + x.2.metaSize ≤ p.length)
    (hin2 : p.length + w1.length ≤ x.1 + headerSize klen + x.2.metaSize + x.2.dataSize) :
    (∃ e, rawRecordsScan klen true (p ++ w2 ++ s) = .error e) ∧
    (∃ e, rawRecordsLoad klen true (p ++ w2 ++ s) = .error e) := by
  obtain ⟨e, he⟩ := rawRecordsScan_altered klen p w1 w2 s hl h4 hne hs hok x hx hin1 hin2
  exact ⟨⟨e, he⟩, ⟨e, by unfold rawRecordsLoad; rw [he]⟩⟩

/-- without data validation a scan step depends on the header bytes only, so the same change is NOT
    noticed by the scan (only `Entry::load` / `load_data` notice it later, see the example after `recs4`) -/
theorem scan_without_validation_ignores_data (p a b : List UInt8) (hsz off : Nat)
    (h : RecHeader) (off' : Nat)
    (hrc : readCurrentRecord false (p ++ a) hsz off = .ok (h, none, off')) (hle : off + hsz ≤ p.length) :
    readCurrentRecord false (p ++ b) hsz off = .ok (h, none, off') := by
  obtain ⟨⟨buf, hb, hd⟩, hv, hoff', _, _⟩ := readCurrentRecord_ok hrc
  rw [readExactAt_of_prefix p a b _ _ hle] at hb
  unfold readCurrentRecord
  simp only [hb, hd, hv, hoff']
  rfl

/-- the loop bound of the model scan is never the reason for an error -/
theorem scan_total (klen : Nat) (v : Bool) (file : List UInt8) :
    rawRecordsScan klen v file ≠ .error .fuel :=
  rawRecordsScan_ne_fuel klen v file

/-! ## (d) what was written is what is read -/

/-- the `i`-th header in the index is the `i`-th record's header with its offset (= length of the blob
    made of the records before it) and header checksum set -/
theorem blobHeaders_spec (klen : Nat) (recs : List (Rec × List UInt8)) (i : Nat) (h : RecHeader)
    (r : Rec) (d : List UInt8) (hh : (blobHeaders klen recs)[i]? = some h) (hr : recs[i]? = some (r, d)) :
    h = (recordOf klen r d).header.final (blobBytes klen (recs.take i)).length := by
  have hR : (recordsOf klen recs)[i]? = some (recordOf klen r d) := by
    simp [recordsOf, List.getElem?_map, hr]
  obtain ⟨post, _, h2, _⟩ := entry_split (klen := klen) serBlobHeader (recordsOf klen recs) i h _
    (fun R hR => by
      obtain ⟨x, _, rfl⟩ := List.mem_map.mp hR
      exact recordOf_WF klen x.1 x.2) hh hR
  rw [h2]
  simp [blobBytes, recordsOf, List.map_take]

/-- `Entry::load` and `load_data` of every record of a blob built by `blobBytes` return exactly its meta
    bytes and its data (the empty data for a deletion marker), for every data size including 0 -/
theorem load_roundtrip (klen : Nat) (recs : List (Rec × List UInt8))
    (hlen : (blobBytes klen recs).length < 2 ^ 64) (i : Nat) (h : RecHeader) (r : Rec) (d : List UInt8)
    (hh : (blobHeaders klen recs)[i]? = some h) (hr : recs[i]? = some (r, d)) :
    entryLoad (blobBytes klen recs) h = .ok (serMeta r.mt, if r.del then [] else d) ∧
    loadData (blobBytes klen recs) h = .ok (if r.del then [] else d) := by
  have hR : (recordsOf klen recs)[i]? = some (recordOf klen r d) := by
    simp [recordsOf, List.getElem?_map, hr]
  obtain ⟨post, h1, h2, hwf⟩ := entry_split (klen := klen) serBlobHeader (recordsOf klen recs) i h _
    (fun R hR => by
      obtain ⟨x, _, rfl⟩ := List.mem_map.mp hR
      exact recordOf_WF klen x.1 x.2) hh hR
  have hm : (serMeta (recordOf klen r d).mt).length < 2 ^ 64 :=
    Nat.lt_of_le_of_lt (image_le_of_split h1) hlen
  unfold blobBytes
  rw [h1, h2, ← recordOf_mt klen r d, ← recordOf_data klen r d]
  exact ⟨entryLoad_image _ _ _ hwf _ rfl hm, loadData_image _ _ _ hwf _ rfl⟩

/-- the scan that regenerates an index returns exactly the headers that were pushed into the index
    when the records were written, with or without data validation — for a blob with at least one record -/
theorem load_roundtrip_scan_partial (klen : Nat) (v : Bool) (recs : List (Rec × List UInt8))
    (hne : recs ≠ []) (hlen : (blobBytes klen recs).length < 2 ^ 64)
    (hts : ∀ x ∈ recs, x.1.ts < 2 ^ 64) :
    rawRecordsLoad klen v (blobBytes klen recs) = .ok (blobHeaders klen recs) := by
  apply rawRecordsLoad_appendRecords v klen (recordsOf klen recs) _ hlen
  · intro R hR
    obtain ⟨x, hx, rfl⟩ := List.mem_map.mp hR
    exact ⟨recordOf_WF klen x.1 x.2, by rw [recordOf_timestamp]; exact hts x hx⟩
  · intro h
    apply hne
    simpa [recordsOf] using h

/-- FALSE without `recs ≠ []`: on a blob that holds only its header `RawRecords::start` fails with a
    Bincode error (reading the first record's magic byte and key length hits the end of the file).
    `Blob::from_file` calls the scan in that state only when the index file is corrupted. -/
theorem load_roundtrip_scan_empty (klen : Nat) (v : Bool) :
    rawRecordsLoad klen v (blobBytes klen []) = .error (.load .bincode) ∧
    rawRecordsLoad klen v (blobBytes klen []) ≠ .ok (blobHeaders klen []) := by
  have h : rawRecordsLoad klen v (blobBytes klen []) = .error (.load .bincode) := rfl
  exact ⟨h, by rw [h]; intro h'; cases h'⟩

/-- non-vacuity: a blob with a plain record, an empty record with meta, a deletion marker and a
    zero-length record satisfies the hypotheses -/
def recs4 : List (Rec × List UInt8) :=
  [ ({ key := 1, ts := 101, del := false, mt := none, data := ⟨16, 0⟩ }, sq16),
    ({ key := 2, ts := 102, del := false, mt := some [9, 8], data := ⟨0, 0⟩ }, []),
    ({ key := 1, ts := 103, del := true, mt := none, data := ⟨0, 0⟩ }, []),
    ({ key := 3, ts := 104, del := false, mt := none, data := ⟨0, 0⟩ }, []) ]

set_option maxRecDepth 1000000

example : recs4 ≠ [] ∧ (∀ x ∈ recs4, x.1.ts < 2 ^ 64) := by decide
example : (blobBytes 3 recs4).length < 2 ^ 64 ∧ (blobHeaders 3 recs4).length = 4 := by decide
example : ∃ h, (blobHeaders 3 recs4)[3]? = some h ∧ h.dataSize = 0 ∧
    entryLoad (blobBytes 3 recs4) h = .ok (serMeta none, []) := by
  have hl : (blobBytes 3 recs4).length < 2 ^ 64 := by decide
  obtain ⟨h, hh⟩ : ∃ h, (blobHeaders 3 recs4)[3]? = some h := ⟨_, rfl⟩
  have := (load_roundtrip 3 recs4 hl 3 h _ _ hh rfl).1
  have hs := blobHeaders_spec 3 recs4 3 h _ _ hh rfl
  exact ⟨h, hh, by rw [hs]; rfl, this⟩

/-- non-vacuity of `altered_never_served`: flipping one data byte of the first record of `recs4` -/
example : ∃ h e, (blobHeaders 3 recs4)[0]? = some h ∧
    entryLoad ((blobBytes 3 recs4).set (h.dataOffset + 3) 0xAA) h = .error e := by
  have hl : (blobBytes 3 recs4).length < 2 ^ 64 := by decide
  obtain ⟨h, hh⟩ : ∃ h, (blobHeaders 3 recs4)[0]? = some h := ⟨_, rfl⟩
  have hok := (load_roundtrip 3 recs4 hl 0 h _ _ hh rfl).1
  have hs := blobHeaders_spec 3 recs4 0 h _ _ hh rfl
  have hdo : h.dataOffset = 88 := by rw [hs]; decide
  have hsz : h.dataSize = 16 := by rw [hs]; rfl
  have hsplit : blobBytes 3 recs4 = (blobBytes 3 recs4).take 91 ++ [9] ++ (blobBytes 3 recs4).drop 92 := by
    decide
  have hset : (blobBytes 3 recs4).set (h.dataOffset + 3) 0xAA =
      (blobBytes 3 recs4).take 91 ++ [0xAA] ++ (blobBytes 3 recs4).drop 92 := by
    rw [hdo]; decide
  rw [hsplit] at hok
  obtain ⟨⟨e, he⟩, _⟩ := altered_never_served _ [9] [0xAA] _ h _ _ rfl (by decide) (by decide)
    (by rw [hdo]; decide) (by rw [hdo, hsz]; decide) hok
  exact ⟨h, e, hh, by rw [hset]; exact he⟩

/-- ... while the non-validating scan of the same altered file still returns all four headers -/
example : rawRecordsLoad 3 false ((blobBytes 3 recs4).set 91 0xAA) = .ok (blobHeaders 3 recs4) ∧
    rawRecordsLoad 3 true ((blobBytes 3 recs4).set 91 0xAA) = .error (.load .recordDataChecksum) := by
  decide

/-! ## finding: a torn tail record

`RawRecords::load` loops `while current_offset < file.size()` and, without data validation, never reads
past a header: a last record whose header is complete but whose meta/data are cut short is ACCEPTED
(`current_offset` jumps past the end of the file and the loop ends). With validation, or when the cut is
inside the header, the read hits EOF, which is turned into a Bincode error and fails the scan of the
WHOLE blob (no prefix of good records is returned). After an accepted torn tail, the next record is
appended at `file.size()`, i.e. inside the region the torn header claims, and the next index-less scan
fails on it. Concrete witnesses (checked by kernel evaluation): -/

def recs3 : List (Rec × List UInt8) :=
  [ ({ key := 2, ts := 102, del := false, mt := some [9, 8], data := ⟨0, 0⟩ }, []),
    ({ key := 1, ts := 103, del := true, mt := none, data := ⟨0, 0⟩ }, []),
    ({ key := 1, ts := 101, del := false, mt := none, data := ⟨16, 0⟩ }, sq16) ]

/-- the blob of `recs3` with the last 5 data bytes missing -/
def tornData : List UInt8 := (blobBytes 3 recs3).take ((blobBytes 3 recs3).length - 5)
/-- the blob of `recs3` cut 10 bytes into the last record's header -/
def tornHeader : List UInt8 := (blobBytes 3 recs3).take ((blobBytes 3 recs3).length - 16 - 8 - 50)

theorem torn_tail_witness :
    -- torn inside the data: accepted without validation, all three headers returned
    rawRecordsLoad 3 false tornData = .ok (blobHeaders 3 recs3) ∧
    -- ... but the record cannot be loaded
    (∀ h, (blobHeaders 3 recs3)[2]? = some h → entryLoad tornData h = .error .bincode) ∧
    -- with validation the whole scan fails, although the first two records are intact
    rawRecordsLoad 3 true tornData = .error (.load .bincode) ∧
    -- torn inside the header: the whole scan fails in both modes
    rawRecordsLoad 3 false tornHeader = .error (.load .bincode) ∧
    rawRecordsLoad 3 true tornHeader = .error (.load .bincode) ∧
    -- a record appended after the accepted torn tail lands inside the claimed region:
    -- the next scan of the file fails, in both modes
    rawRecordsLoad 3 false (appendRecord tornData (Record.create 3 4 105 none [1, 2, 3, 4, 5, 6, 7, 8])) =
      .error (.load .bincode) := by
  refine ⟨by decide, ?_, by decide, by decide, by decide, by decide⟩
  intro h hh
  have : h = (blobHeaders 3 recs3)[2]! := by
    have h2 : (blobHeaders 3 recs3)[2]? = some (blobHeaders 3 recs3)[2]! := by decide
    rw [h2] at hh; cases hh; rfl
  subst this
  decide

/-! ### the general torn tail (finding E8 at the byte level)

`Rs` are the intact records, `R` the last record, of which the complete header and a PROPER prefix `cut`
of `serMeta R.mt ++ R.data` reached the file. Range hypotheses as in `load_roundtrip_scan_partial`: the
records are as the storage builds them with `u64` timestamps, and the blob that a complete write would
have produced is shorter than 2^64 bytes. -/

/-- the file with the torn last record -/
def tornFile (Rs : List Record) (R : Record) (cut : List UInt8) : List UInt8 :=
  appendRecords serBlobHeader Rs ++
    serHeader (R.header.final (appendRecords serBlobHeader Rs).length) ++ cut

/-- General form of `torn_tail_witness`. For every key length, intact records `Rs`, last record `R` and
    proper prefix `cut` of its meta + data:
    * the NON-validating scan accepts the torn record: it returns exactly the headers that were (or would
      have been) pushed for `Rs ++ [R]`;
    * the validating scan fails the WHOLE blob with a Bincode error (no prefix of good records is
      returned) — unless `R` has no data (then only meta bytes are missing, which no scan reads, and the
      torn record is accepted even with validation);
    * the torn record cannot be loaded: `Entry::load` hits the end of the file. -/
theorem torn_tail_general (klen : Nat) (Rs : List Record) (R : Record) (cut : List UInt8)
    (hg : ∀ X ∈ Rs ++ [R], X.WF klen ∧ X.header.timestamp < 2 ^ 64)
    (hlen : (appendRecords serBlobHeader (Rs ++ [R])).length < 2 ^ 64)
    (hp : cut <+: serMeta R.mt ++ R.data) (hne : cut ≠ serMeta R.mt ++ R.data) :
    rawRecordsLoad klen false (tornFile Rs R cut) = .ok (writtenHeaders serBlobHeader (Rs ++ [R])) ∧
    rawRecordsLoad klen true (tornFile Rs R cut) =
      (if R.data = [] then .ok (writtenHeaders serBlobHeader (Rs ++ [R]))
       else .error (.load .bincode)) ∧
    entryLoad (tornFile Rs R cut) (R.header.final (appendRecords serBlobHeader Rs).length) =
      .error .bincode := by
  have h0 := rawRecordsLoad_torn_prefix false Rs R cut hg hlen hp hne
  have h1 := rawRecordsLoad_torn_prefix true Rs R cut hg hlen hp hne
  rw [if_neg (by simp)] at h0
  refine ⟨h0, ?_, ?_⟩
  · unfold tornFile
    rw [h1]
    by_cases hd : R.data = []
    · rw [if_neg (by simp [hd]), if_pos hd]
    · rw [if_pos ⟨rfl, hd⟩, if_neg hd]
  · have hwf := (hg R (by simp)).1
    have hlt := prefix_length_lt hp hne
    have him := R.image_length (appendRecords serBlobHeader Rs).length
    rw [hwf.key] at him
    rw [List.length_append] at hlt
    have := entryLoad_torn (appendRecords serBlobHeader Rs) R hwf _ (57 + klen + cut.length) rfl
      (by rw [him]; omega)
    rw [take_image_of_prefix R hwf _ cut hp, ← List.append_assoc] at this
    exact this

/-- the same for model records: the blob of `recs` followed by a torn write of `(r, d)` -/
theorem torn_tail_general_recs (klen : Nat) (recs : List (Rec × List UInt8)) (r : Rec) (d cut : List UInt8)
    (hlen : (blobBytes klen (recs ++ [(r, d)])).length < 2 ^ 64)
    (hts : ∀ x ∈ recs ++ [(r, d)], x.1.ts < 2 ^ 64)
    (hp : cut <+: serMeta r.mt ++ (if r.del then [] else d))
    (hne : cut ≠ serMeta r.mt ++ (if r.del then [] else d)) :
    rawRecordsLoad klen false (blobBytes klen recs ++
        serHeader ((recordOf klen r d).header.final (blobBytes klen recs).length) ++ cut) =
      .ok (blobHeaders klen (recs ++ [(r, d)])) := by
  have hrs : recordsOf klen (recs ++ [(r, d)]) = recordsOf klen recs ++ [recordOf klen r d] := by
    simp [recordsOf]
  have hg : ∀ X ∈ recordsOf klen recs ++ [recordOf klen r d],
      X.WF klen ∧ X.header.timestamp < 2 ^ 64 := by
    rw [← hrs]; exact goodRecs_recordsOf klen _ hts
  rw [← recordOf_mt klen r d, ← recordOf_data klen r d] at hp hne
  unfold blobBytes blobHeaders at *
  rw [hrs] at hlen ⊢
  exact (torn_tail_general klen _ _ cut hg hlen hp hne).1

/-- non-vacuity: `tornData` of `torn_tail_witness` is the instance `Rs` = the first two records of
    `recs3`, `R` = the third, `cut` = its (empty) meta and the first 11 of its 16 data bytes; the
    hypotheses hold and the conclusion is the first clause of `torn_tail_witness` -/
example : rawRecordsLoad 3 false tornData = .ok (blobHeaders 3 recs3) := by
  have hcut : (le64 0 ++ sq16.take 11) <+: serMeta none ++ (if false then [] else sq16) :=
    ⟨sq16.drop 11, by decide⟩
  have h := torn_tail_general_recs 3 (recs3.take 2)
    { key := 1, ts := 101, del := false, mt := none, data := ⟨16, 0⟩ } sq16 (le64 0 ++ sq16.take 11)
    (by decide) (by decide) hcut (by decide)
  have hf : tornData = blobBytes 3 (recs3.take 2) ++
      serHeader ((recordOf 3 { key := 1, ts := 101, del := false, mt := none, data := ⟨16, 0⟩ }
        sq16).header.final (blobBytes 3 (recs3.take 2)).length) ++ (le64 0 ++ sq16.take 11) := by
    decide
  rw [hf, h]
  rfl

/-- non-vacuity of the data-less case: a torn deletion marker (meta cut after 3 of its 8 bytes) is
    accepted by the validating scan too -/
example : rawRecordsLoad 3 true (tornFile (recordsOf 3 (recs3.take 1)) (Record.deleted 3 1 103 none)
    [0, 0, 0]) = .ok (blobHeaders 3 (recs3.take 2)) := by
  have h := (torn_tail_general 3 (recordsOf 3 (recs3.take 1)) (Record.deleted 3 1 103 none) [0, 0, 0]
    (by
      intro X hX
      simp only [recordsOf, recs3, List.take, List.map_cons, List.map_nil, List.cons_append,
        List.nil_append, List.mem_cons, List.not_mem_nil, or_false] at hX
      rcases hX with rfl | rfl
      · exact ⟨recordOf_WF .., by decide⟩
      · exact ⟨Record.deleted_WF .., by decide⟩)
    (by decide) ⟨[0, 0, 0, 0, 0], by decide⟩ (by decide)).2.1
  rw [if_pos (by decide)] at h
  rw [h]
  rfl

end Pearl.C05

/-
NOT YET PROVED (none of the requested statements is missing; these are generalisations of witnesses above)

(The general form of `torn_tail_witness` IS proved: `torn_tail_general` / `torn_tail_general_recs` above — first
 clause for the non-validating scan, plus what the validating scan and `Entry::load` do on the same file.
 Lemmas: Pearl/Proofs/ScanRegions.lean part A, on top of `rawRecordsLoad_torn_tail` of FaultLemmas.)

1. `altered_never_served` with the precise error: under its hypotheses
     entryLoad (p ++ w2 ++ s) h = .error .recordDataChecksum.

Statements that are FALSE of the model and are kept as refutations + `_partial` versions:
  * `load_roundtrip` for the scan on an empty record list  → `load_roundtrip_scan_empty`, `load_roundtrip_scan_partial`
  * "every header returned by the validating scan passes `load_data`" → `scan_accepts_relocated`, `load_checks_scan_partial`
-/
