import Pearl.Proofs.CrashLemmas
import Pearl.Props.C05
import Pearl.Gen.Consts
/-
C06 "Crash recovery", byte level: what start-up (`Blob::from_file` without an index file, then
`Storage::read_blobs` / `should_save_corrupted_blob`) does with every prefix of a produced blob — the
states a crash can leave when the file only grows by appends.

Model: Pearl/Model/{Record,Crash}.lean.  Lemmas: Pearl/Proofs/CrashLemmas.lean (and ToolsLemmas.lean for
the decomposition of a blob around a record).  Throughout, `b = blobBytes klen recs`, `B n` =
`(blobBytes klen (recs.take n)).length` is the end of record `n - 1` (`B 0 = 20`: the blob header),
`CutIn klen recs i t` says `B i < t < B (i+1)`.
-/
namespace Pearl.C06
open Pearl

/-! ## the quarantine table -/

/-- the table the model uses is the one the translator extracted from `should_save_corrupted_blob` -/
theorem classify_table_tied :
    Pearl.SAVE_CORRUPTED_BINCODE = Gen.SAVE_CORRUPTED_BINCODE ∧
    Pearl.SAVE_CORRUPTED_VALIDATION_EXCEPT = Gen.SAVE_CORRUPTED_VALIDATION_EXCEPT ∧
    Pearl.SAVE_CORRUPTED_OTHER = Gen.SAVE_CORRUPTED_OTHER := by decide

/-- `shouldSaveCorruptedBlob` written with the extracted constants -/
theorem should_save_tied (c : ErrClass) :
    shouldSaveCorruptedBlob c =
      match c with
      | .bincode => Gen.SAVE_CORRUPTED_BINCODE
      | .validation kind => kind != Gen.SAVE_CORRUPTED_VALIDATION_EXCEPT
      | .other => Gen.SAVE_CORRUPTED_OTHER := by
  cases c <;> rfl

/-- the resulting classification of every error the byte-level start-up can produce -/
theorem classify_spec :
    classifyHeaderErr .bincode = .quarantine ∧ classifyHeaderErr .blobMagicByte = .quarantine ∧
    classifyHeaderErr .blobVersion = .fail ∧
    (∀ e, classifyScanErr (.load e) = .quarantine) ∧ classifyScanErr .blobKeySize = .quarantine := by
  refine ⟨by decide, by decide, by decide, ?_, by decide⟩
  intro e; cases e <;> decide

/-! ## `scan_prefix`: the exact outcome for every prefix length -/

/-- the case analysis below is exhaustive -/
theorem prefix_cases (klen : Nat) (recs : List (Rec × List UInt8)) (t : Nat)
    (ht : t ≤ (blobBytes klen recs).length) :
    t < 20 ∨ IsBoundary klen recs t ∨ ∃ i, CutIn klen recs i t :=
  Pearl.prefix_cases klen recs t ht

/-- cut inside the blob header: `Header::from_file` hits the end of the file (Bincode) → quarantine -/
theorem scan_prefix_blob_header (klen : Nat) (v : Bool) (recs : List (Rec × List UInt8)) (t : Nat)
    (ht : t < 20) :
    blobHeaderFromFile ((blobBytes klen recs).take t) = .error .bincode ∧
    openBlob klen v ((blobBytes klen recs).take t) = .quarantine := by
  have hl : ((blobBytes klen recs).take t).length < 20 := by rw [List.length_take]; omega
  exact ⟨blobHeaderFromFile_short _ hl, openBlob_short klen v _ hl⟩

/-- exactly the blob header: `from_file` does not run the scan (`size > header_size` is false) and opens
    the blob empty — although the scan itself would fail on that file -/
theorem scan_prefix_header_only (klen : Nat) (v : Bool) (recs : List (Rec × List UInt8)) :
    (blobBytes klen recs).take 20 = serBlobHeader ∧
    openBlob klen v ((blobBytes klen recs).take 20) = .ok [] ∧
    rawRecordsLoad klen v ((blobBytes klen recs).take 20) = .error (.load .bincode) := by
  have h : (blobBytes klen recs).take 20 = serBlobHeader := by
    rw [blobBytes_take_ge20 klen recs 20 (Nat.le_refl _)]; simp
  rw [h]
  exact ⟨rfl, openBlob_header_only klen v, rfl⟩

/-- cut at the end of record `n - 1` (`n ≥ 1`): exactly the headers of the records before the cut -/
theorem scan_prefix_boundary (klen : Nat) (v : Bool) (recs : List (Rec × List UInt8)) (n : Nat)
    (hn1 : 1 ≤ n) (hn : n ≤ recs.length)
    (hlen : (blobBytes klen recs).length < 2 ^ 64) (hts : ∀ x ∈ recs, x.1.ts < 2 ^ 64) :
    rawRecordsLoad klen v ((blobBytes klen recs).take (blobBytes klen (recs.take n)).length) =
      .ok ((blobHeaders klen recs).take n) ∧
    openBlob klen v ((blobBytes klen recs).take (blobBytes klen (recs.take n)).length) =
      .ok ((blobHeaders klen recs).take n) := by
  have hload := rawRecordsLoad_boundary klen recs v n hn1 hn hlen hts
  refine ⟨hload, ?_⟩
  have hge : 20 < (blobBytes klen (recs.take n)).length := by
    rw [blobBytes_length, recordsOf_take]
    have := sum_size_ge ((recordsOf klen recs).take n)
    rw [List.length_take, recordsOf_length] at this
    have : 1 ≤ min n recs.length := by omega
    omega
  have hle := blobBytes_take_length_le klen recs n
  rw [openBlob_take klen v recs _ hge (by omega), hload]

/-- the general form for a cut strictly inside record `i`, `k = t - B i` bytes into it -/
theorem scan_prefix_cut (klen : Nat) (v : Bool) (recs : List (Rec × List UInt8)) (i t : Nat)
    (r : Rec) (d : List UInt8) (hr : recs[i]? = some (r, d))
    (hlen : (blobBytes klen recs).length < 2 ^ 64) (hts : ∀ x ∈ recs, x.1.ts < 2 ^ 64)
    (hc : CutIn klen recs i t) :
    rawRecordsLoad klen v ((blobBytes klen recs).take t) =
      (if t - (blobBytes klen (recs.take i)).length < headerSize klen then .error (.load .bincode)
       else if v = true ∧ (if r.del then [] else d) ≠ [] then .error (.load .bincode)
       else .ok ((blobHeaders klen recs).take (i + 1))) ∧
    openBlob klen v ((blobBytes klen recs).take t) =
      (if t - (blobBytes klen (recs.take i)).length < headerSize klen then .quarantine
       else if v = true ∧ (if r.del then [] else d) ≠ [] then .quarantine
       else .ok ((blobHeaders klen recs).take (i + 1))) := by
  obtain ⟨hi, hload⟩ := rawRecordsLoad_cut klen recs v i t hlen hts hc
  rw [recordsOf_getElem klen recs i hi r d hr, recordOf_data] at hload
  refine ⟨hload, ?_⟩
  have h20 : 20 < t := by
    have := hc.2.1
    have := blobBytes_length_ge klen (recs.take i)
    omega
  have htl : t < (blobBytes klen recs).length := by
    have := hc.2.2
    have := blobBytes_take_length_le klen recs (i + 1)
    omega
  rw [openBlob_take klen v recs t h20 (by omega), hload]
  unfold headerSize
  by_cases h1 : t - (blobBytes klen (recs.take i)).length < 57 + klen
  · rw [if_pos h1, if_pos h1]; rfl
  · rw [if_neg h1, if_neg h1]
    by_cases h2 : v = true ∧ (if r.del then [] else d) ≠ []
    · rw [if_pos h2, if_pos h2]; rfl
    · rw [if_neg h2, if_neg h2]

/-- cut inside the header of record `i`: the header read hits the end of the file (Bincode) → quarantine
    of the whole blob, also of the intact records before the cut -/
theorem scan_prefix_in_header (klen : Nat) (v : Bool) (recs : List (Rec × List UInt8)) (i t : Nat)
    (r : Rec) (d : List UInt8) (hr : recs[i]? = some (r, d))
    (hlen : (blobBytes klen recs).length < 2 ^ 64) (hts : ∀ x ∈ recs, x.1.ts < 2 ^ 64)
    (hc : CutIn klen recs i t) (hk : t - (blobBytes klen (recs.take i)).length < headerSize klen) :
    rawRecordsLoad klen v ((blobBytes klen recs).take t) = .error (.load .bincode) ∧
    openBlob klen v ((blobBytes klen recs).take t) = .quarantine := by
  have := scan_prefix_cut klen v recs i t r d hr hlen hts hc
  rw [if_pos hk, if_pos hk] at this
  exact this

/-- FINDING E8. Cut inside meta / data of record `i`, scan WITHOUT data validation (the default):
    the torn record's header is returned and the blob is opened with it in the index -/
theorem scan_prefix_in_body_unvalidated (klen : Nat) (recs : List (Rec × List UInt8)) (i t : Nat)
    (r : Rec) (d : List UInt8) (hr : recs[i]? = some (r, d))
    (hlen : (blobBytes klen recs).length < 2 ^ 64) (hts : ∀ x ∈ recs, x.1.ts < 2 ^ 64)
    (hc : CutIn klen recs i t) (hk : headerSize klen ≤ t - (blobBytes klen (recs.take i)).length) :
    rawRecordsLoad klen false ((blobBytes klen recs).take t) = .ok ((blobHeaders klen recs).take (i + 1)) ∧
    openBlob klen false ((blobBytes klen recs).take t) = .ok ((blobHeaders klen recs).take (i + 1)) := by
  have := scan_prefix_cut klen false recs i t r d hr hlen hts hc
  have h1 : ¬ t - (blobBytes klen (recs.take i)).length < headerSize klen := by omega
  have h2 : ¬ (false = true ∧ (if r.del then [] else d) ≠ []) := by simp
  rw [if_neg h1, if_neg h1, if_neg h2, if_neg h2] at this
  exact this

/-- cut inside meta / data of record `i`, scan WITH data validation, record with data:
    reading the data hits the end of the file (Bincode) → quarantine -/
theorem scan_prefix_in_body_validated_partial (klen : Nat) (recs : List (Rec × List UInt8)) (i t : Nat)
    (r : Rec) (d : List UInt8) (hr : recs[i]? = some (r, d))
    (hlen : (blobBytes klen recs).length < 2 ^ 64) (hts : ∀ x ∈ recs, x.1.ts < 2 ^ 64)
    (hc : CutIn klen recs i t) (hk : headerSize klen ≤ t - (blobBytes klen (recs.take i)).length)
    (hdata : (if r.del then [] else d) ≠ []) :
    rawRecordsLoad klen true ((blobBytes klen recs).take t) = .error (.load .bincode) ∧
    openBlob klen true ((blobBytes klen recs).take t) = .quarantine := by
  have := scan_prefix_cut klen true recs i t r d hr hlen hts hc
  have h1 : ¬ t - (blobBytes klen (recs.take i)).length < headerSize klen := by omega
  have h2 : true = true ∧ (if r.del then [] else d) ≠ [] := ⟨rfl, hdata⟩
  rw [if_neg h1, if_neg h1, if_pos h2, if_pos h2] at this
  exact this

/-- FALSE without `hdata`: for a record WITHOUT data (a deletion marker, or an empty value) the cut can
    only be inside its meta; the validating scan reads 0 data bytes (which succeeds at any offset), the
    checksum of the empty data matches, and the torn record is accepted also WITH validation -/
theorem scan_prefix_in_body_validated_empty (klen : Nat) (recs : List (Rec × List UInt8)) (i t : Nat)
    (r : Rec) (d : List UInt8) (hr : recs[i]? = some (r, d))
    (hlen : (blobBytes klen recs).length < 2 ^ 64) (hts : ∀ x ∈ recs, x.1.ts < 2 ^ 64)
    (hc : CutIn klen recs i t) (hk : headerSize klen ≤ t - (blobBytes klen (recs.take i)).length)
    (hdata : (if r.del then [] else d) = []) :
    rawRecordsLoad klen true ((blobBytes klen recs).take t) = .ok ((blobHeaders klen recs).take (i + 1)) ∧
    openBlob klen true ((blobBytes klen recs).take t) = .ok ((blobHeaders klen recs).take (i + 1)) := by
  have := scan_prefix_cut klen true recs i t r d hr hlen hts hc
  have h1 : ¬ t - (blobBytes klen (recs.take i)).length < headerSize klen := by omega
  have h2 : ¬ (true = true ∧ (if r.del then [] else d) ≠ []) := fun h => h.2 hdata
  rw [if_neg h1, if_neg h1, if_neg h2, if_neg h2] at this
  exact this

/-! ## `served_is_prefix` -/

/-- whenever start-up opens a prefix of a produced blob, the index holds a prefix of the acknowledged
    order, and every record of it loads with its original bytes — except possibly the last one, which
    does when the cut is at or after its end (`B n ≤ t`) -/
theorem served_is_prefix (klen : Nat) (v : Bool) (recs : List (Rec × List UInt8)) (t : Nat)
    (hlen : (blobBytes klen recs).length < 2 ^ 64) (hts : ∀ x ∈ recs, x.1.ts < 2 ^ 64)
    (ht : t ≤ (blobBytes klen recs).length) (hs : List RecHeader)
    (hopen : openBlob klen v ((blobBytes klen recs).take t) = .ok hs) :
    ∃ n, n ≤ recs.length ∧ hs = (blobHeaders klen recs).take n ∧
      ∀ j h r d, (j + 1 < n ∨ (j < n ∧ (blobBytes klen (recs.take n)).length ≤ t)) →
        (blobHeaders klen recs)[j]? = some h → recs[j]? = some (r, d) →
        entryLoad ((blobBytes klen recs).take t) h = .ok (serMeta r.mt, if r.del then [] else d) := by
  rcases Pearl.prefix_cases klen recs t ht with h20 | ⟨n, hn, rfl⟩ | ⟨i, hc⟩
  · rw [(scan_prefix_blob_header klen v recs t h20).2] at hopen
    cases hopen
  · refine ⟨n, hn, ?_, ?_⟩
    · cases n with
      | zero =>
        rw [List.take_zero, blobBytes_nil_length, (scan_prefix_header_only klen v recs).2.1] at hopen
        cases hopen
        rfl
      | succ n =>
        rw [(scan_prefix_boundary klen v recs (n + 1) (by omega) hn hlen hts).2] at hopen
        cases hopen
        rfl
    · intro j h r d hj hh hr
      have hjn : j < n := by omega
      rw [blobBytes_take_boundary]
      have := entryLoad_prefix klen recs hlen n j hjn [] h r d hh hr
      rw [List.append_nil] at this
      exact this
  · obtain ⟨hi, h1, h2⟩ := hc
    obtain ⟨x, hx⟩ : ∃ x, recs[i]? = some x := ⟨recs[i], List.getElem?_eq_getElem hi⟩
    obtain ⟨ri, di⟩ := x
    have hcut := (scan_prefix_cut klen v recs i t ri di hx hlen hts ⟨hi, h1, h2⟩).2
    rw [hcut] at hopen
    have hhs : hs = (blobHeaders klen recs).take (i + 1) := by
      by_cases c1 : t - (blobBytes klen (recs.take i)).length < headerSize klen
      · rw [if_pos c1] at hopen; cases hopen
      · rw [if_neg c1] at hopen
        by_cases c2 : v = true ∧ (if ri.del then [] else di) ≠ []
        · rw [if_pos c2] at hopen; cases hopen
        · rw [if_neg c2] at hopen; cases hopen; rfl
    refine ⟨i + 1, by omega, hhs, ?_⟩
    intro j h r d hj hh hr
    have hji : j < i := by omega
    obtain ⟨_, htake, _⟩ := blobBytes_take_cut klen recs i t ⟨hi, h1, h2⟩
    rw [htake]
    exact entryLoad_prefix klen recs hlen i j hji _ h r d hh hr

/-- the torn last record is in the index but cannot be loaded -/
theorem torn_record_unreadable (klen : Nat) (recs : List (Rec × List UInt8)) (i t : Nat) (h : RecHeader)
    (hts : ∀ x ∈ recs, x.1.ts < 2 ^ 64) (hc : CutIn klen recs i t)
    (hh : (blobHeaders klen recs)[i]? = some h) :
    entryLoad ((blobBytes klen recs).take t) h = .error .bincode := by
  obtain ⟨hi, htake, hk⟩ := blobBytes_take_cut klen recs i t hc
  have hwf := (goodRecs_recordsOf klen recs hts _ (List.getElem_mem hi)).1
  have hhf := writtenHeaders_getElem? (recordsOf klen recs) i hi
  rw [show writtenHeaders serBlobHeader (recordsOf klen recs) = blobHeaders klen recs from rfl, hh] at hhf
  have hpl : (blobBytes klen (recs.take i)).length = 20 + (tailOf 20 ((recordsOf klen recs).take i)).length := by
    rw [blobBytes_eq, recordsOf_take, List.length_append, serBlobHeader_length]
  rw [← hpl] at hhf
  rw [htake, Option.some.inj hhf]
  exact entryLoad_torn _ _ hwf _ _ rfl hk

/-! ## `init_total` -/

/-- start-up never fails on a prefix of a produced blob: it opens it or quarantines it
    (no hypothesis on sizes is needed) -/
theorem init_total (klen : Nat) (v : Bool) (recs : List (Rec × List UInt8)) (t : Nat) :
    openBlob klen v ((blobBytes klen recs).take t) ≠ .fail :=
  openBlob_ne_fail klen v _ (blobBytes_take_cases klen recs t)

-- ... while a blob with another version in its header does make start-up fail (not quarantine)
set_option maxRecDepth 1000000 in
example : openBlob 3 false ((blobBytes 3 C05.recs4).set 8 0) = .fail := by decide

/-! ## `scan_prefix` in one statement -/

/-- for every prefix length `t` of a produced blob exactly one of the following describes start-up:
    (1) `t < 20`: quarantine; (2) `t = 20`: opened empty, no scan; (3) `t` is the end of record `n - 1`:
    opened with the first `n` headers; (4) `t` is strictly inside record `i`, `k = t - B i` bytes into it:
    `k <` header size → quarantine; otherwise quarantine iff the scan validates data and the record has
    data, else the blob is opened with the first `i + 1` headers, the torn record's header included -/
theorem scan_prefix (klen : Nat) (v : Bool) (recs : List (Rec × List UInt8)) (t : Nat)
    (hlen : (blobBytes klen recs).length < 2 ^ 64) (hts : ∀ x ∈ recs, x.1.ts < 2 ^ 64)
    (ht : t ≤ (blobBytes klen recs).length) :
    (t < 20 ∧ blobHeaderFromFile ((blobBytes klen recs).take t) = .error .bincode ∧
      openBlob klen v ((blobBytes klen recs).take t) = .quarantine) ∨
    (t = 20 ∧ openBlob klen v ((blobBytes klen recs).take t) = .ok []) ∨
    (∃ n, 1 ≤ n ∧ n ≤ recs.length ∧ t = (blobBytes klen (recs.take n)).length ∧
      rawRecordsLoad klen v ((blobBytes klen recs).take t) = .ok ((blobHeaders klen recs).take n) ∧
      openBlob klen v ((blobBytes klen recs).take t) = .ok ((blobHeaders klen recs).take n)) ∨
    (∃ i r d, CutIn klen recs i t ∧ recs[i]? = some (r, d) ∧
      rawRecordsLoad klen v ((blobBytes klen recs).take t) =
        (if t - (blobBytes klen (recs.take i)).length < headerSize klen then .error (.load .bincode)
         else if v = true ∧ (if r.del then [] else d) ≠ [] then .error (.load .bincode)
         else .ok ((blobHeaders klen recs).take (i + 1))) ∧
      openBlob klen v ((blobBytes klen recs).take t) =
        (if t - (blobBytes klen (recs.take i)).length < headerSize klen then .quarantine
         else if v = true ∧ (if r.del then [] else d) ≠ [] then .quarantine
         else .ok ((blobHeaders klen recs).take (i + 1)))) := by
  rcases Pearl.prefix_cases klen recs t ht with h20 | ⟨n, hn, rfl⟩ | ⟨i, hc⟩
  · exact Or.inl ⟨h20, scan_prefix_blob_header klen v recs t h20⟩
  · cases n with
    | zero =>
      right; left
      rw [List.take_zero, blobBytes_nil_length]
      exact ⟨rfl, (scan_prefix_header_only klen v recs).2.1⟩
    | succ n =>
      right; right; left
      exact ⟨n + 1, by omega, hn, rfl, scan_prefix_boundary klen v recs (n + 1) (by omega) hn hlen hts⟩
  · right; right; right
    obtain ⟨x, hx⟩ : ∃ x, recs[i]? = some x := ⟨recs[i]'hc.1, List.getElem?_eq_getElem hc.1⟩
    obtain ⟨r, d⟩ := x
    exact ⟨i, r, d, hc, hx, scan_prefix_cut klen v recs i t r d hx hlen hts hc⟩

/-! ## non-vacuity and the two-crash witness (E8) -/

set_option maxRecDepth 1000000

-- record boundaries of `C05.recs4` (3-byte keys): 20, 104, 191, 259, 327
example : (List.range 5).map (fun n => (blobBytes 3 (C05.recs4.take n)).length) = [20, 104, 191, 259, 327] := by
  decide

-- a cut inside the header of record 1, inside the data of record 0, inside the meta of the deletion marker
example : CutIn 3 C05.recs4 1 120 ∧ 120 - (blobBytes 3 (C05.recs4.take 1)).length < headerSize 3 := by decide
example : CutIn 3 C05.recs4 0 95 ∧ headerSize 3 ≤ 95 - (blobBytes 3 (C05.recs4.take 0)).length := by decide
example : CutIn 3 C05.recs4 2 255 ∧ headerSize 3 ≤ 255 - (blobBytes 3 (C05.recs4.take 2)).length := by decide

example : openBlob 3 false ((blobBytes 3 C05.recs4).take 120) = .quarantine :=
  (scan_prefix_in_header 3 false C05.recs4 1 120 _ _ rfl (by decide) (by decide) (by decide) (by decide)).2

example : openBlob 3 false ((blobBytes 3 C05.recs4).take 95) = .ok ((blobHeaders 3 C05.recs4).take 1) :=
  (scan_prefix_in_body_unvalidated 3 C05.recs4 0 95 _ _ rfl (by decide) (by decide) (by decide) (by decide)).2

example : openBlob 3 true ((blobBytes 3 C05.recs4).take 95) = .quarantine :=
  (scan_prefix_in_body_validated_partial 3 C05.recs4 0 95 _ _ rfl (by decide) (by decide) (by decide)
    (by decide) (by decide)).2

/-- the deletion marker (record 2, no data) cut inside its meta is accepted by the VALIDATING scan:
    the hypothesis `hdata` of `scan_prefix_in_body_validated_partial` cannot be dropped -/
theorem validated_scan_accepts_torn_marker :
    openBlob 3 true ((blobBytes 3 C05.recs4).take 255) = .ok ((blobHeaders 3 C05.recs4).take 3) ∧
    ¬ (∀ (klen : Nat) (recs : List (Rec × List UInt8)) (i t : Nat), CutIn klen recs i t →
        headerSize klen ≤ t - (blobBytes klen (recs.take i)).length →
        openBlob klen true ((blobBytes klen recs).take t) = .quarantine) := by
  have h := (scan_prefix_in_body_validated_empty 3 C05.recs4 2 255 _ _ rfl (by decide) (by decide)
    (by decide) (by decide) (by decide)).2
  refine ⟨h, fun hall => ?_⟩
  have := hall 3 C05.recs4 2 255 (by decide) (by decide)
  rw [h] at this
  cases this

-- the same by evaluation of the model on the concrete file
example : openBlob 3 true ((blobBytes 3 C05.recs4).take 255) = .ok ((blobHeaders 3 C05.recs4).take 3) := by
  decide

/-- the record the storage appends after the first recovery -/
def lateRec : Record := Record.create 3 4 105 none [1, 2, 3, 4, 5, 6, 7, 8]

/-- E8 as a two-crash history, checked by evaluation: (1) the tail record of `C05.recs3` is cut 5 bytes
    before its end (inside its data); start-up without data validation opens the blob with all three
    headers, although the third record cannot be loaded; (2) the storage appends an acknowledged record at
    the end of the file — inside the region the torn header claims; (3) at the next start without an index
    file the scan fails in both modes and the whole blob, the acknowledged post-recovery write included,
    is quarantined; (4) `recovery_blob` (with or without skipping) keeps only the two records before the
    torn one: the acknowledged write is not recoverable by the tool -/
theorem two_crash_witness :
    CutIn 3 C05.recs3 2 C05.tornData.length ∧
    C05.tornData = (blobBytes 3 C05.recs3).take C05.tornData.length ∧
    openBlob 3 false C05.tornData = .ok (blobHeaders 3 C05.recs3) ∧
    (∀ h, (blobHeaders 3 C05.recs3)[2]? = some h → entryLoad C05.tornData h = .error .bincode) ∧
    openBlob 3 false (appendRecord C05.tornData lateRec) = .quarantine ∧
    openBlob 3 true (appendRecord C05.tornData lateRec) = .quarantine ∧
    recoveryBlob (appendRecord C05.tornData lateRec) true = .ok (blobBytes 3 (C05.recs3.take 2)) ∧
    recoveryBlob (appendRecord C05.tornData lateRec) false = .ok (blobBytes 3 (C05.recs3.take 2)) := by
  refine ⟨by decide, by decide, by decide, ?_, by decide, by decide, by decide, by decide⟩
  intro h hh
  exact torn_record_unreadable 3 C05.recs3 2 _ h (by decide) (by decide) hh

-- the general theorem gives the first step of the witness
example : openBlob 3 false C05.tornData = .ok ((blobHeaders 3 C05.recs3).take 3) :=
  (scan_prefix_in_body_unvalidated 3 C05.recs3 2 _ _ _ rfl (by decide) (by decide) (by decide) (by decide)).2

end Pearl.C06

/-
Statements that are FALSE of the model and are kept as refutation + `_partial` version:
  * "a cut inside meta/data of the last record of the prefix is an error when the scan validates data":
    false for records without data (deletion markers, empty values) → `validated_scan_accepts_torn_marker`,
    `scan_prefix_in_body_validated_empty`; true with `hdata` → `scan_prefix_in_body_validated_partial`.

NOT YET PROVED (none of the requested statements is missing)
  * the general (non-witness) form of the second half of `two_crash_witness`: for every produced blob cut
    inside the data of its last record and every record appended afterwards, the next index-less scan
    fails. (It does not hold in this generality: the appended bytes could by accident continue the torn
    record consistently; a correct general statement needs a hypothesis on the bytes at the claimed end
    of the torn record. The witness is what the finding needs.)
-/

