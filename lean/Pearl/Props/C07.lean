import Pearl.Proofs.FsLemmas
import Pearl.Proofs.AcctHarm
import Pearl.Proofs.FsAcct
/-
C07: blob files are append-only logs, on the file / trace layer (L6, `Pearl/Model/Fs.lean`).

`Fs.run dup limit klen unc rs ops` = state and trace after `init` on an empty directory and an arbitrary
list of driver-level operations.

Second half of the file: the directory level (`Pearl/Model/Acct.lean`: work directory, `corrupted` directory, restarts
with quarantine / `ignore_corrupted`) — `dir_blob_files_only_grow`, `dir_blob_files_never_vanish`, `dir_ids_never_reused`,
`dir_quarantine_never_replaces`, `dir_ignored_left_in_place`, `dir_index_file_fate`, and the counter-models
`dir_c074_reuses_quarantined_id`, `dir_late_reservation_on_empty_dir`, `dir_c073_reuses_id_of_leftover_file`.

Last part: the two levels are linked (`Pearl/Proofs/FsAcct.lean`) — `trace_is_complete` (the unchecked replay `dirOfTrace` of
the trace of any run gives the `size` counters), `fs_acct_same_files` (on the directory-level history `FsAcct.toAOps` of
any list of driver-level operations, `Acct.run` lists the blob files of `Fs.run` with the same lengths and the same index
files with the same `blob_size` field), `trace_and_directory_agree` (the no-harm theorems of both levels are about the
same numbers).
-/
namespace Pearl
open Fs

/-- The trace of every run is accepted by the append-only file system `fsAccept`, which refuses every
    event on a blob file except: creation of a file that does not exist, a write at exactly the current
    end of the file, a sync publishing exactly the current size, reopening an existing file; and the
    sizes it ends with are the `size` counters of the model (so the offsets in the trace are the real
    file lengths). -/
theorem blob_events_append_only (dup : Bool) (limit klen : Nat) (unc rs : Bool) (ops : List FsOp) :
    ∃ m, replay (fun _ => none) (run dup limit klen unc rs ops).2 = some m ∧
      ∀ id, m id = ((run dup limit klen unc rs ops).1.disk.files id).map (·.size) :=
  (run_diskInv dup limit klen unc rs ops).replay

/-- spelled out for writes: the offset of every write to a blob file is the size of that file after the
    events before it (no write below the end, no hole) -/
theorem write_at_end_of_file (dup : Bool) (limit klen : Nat) (unc rs : Bool) (ops : List FsOp)
    (id off len : Nat) (pre post : List Event)
    (h : (run dup limit klen unc rs ops).2 = pre ++ Event.write (.blob id) off len :: post) :
    ∃ m, replay (fun _ => none) pre = some m ∧ m id = some off := by
  obtain ⟨mf, hm, _⟩ := blob_events_append_only dup limit klen unc rs ops
  rw [h] at hm
  obtain ⟨m1, m2, h1, h2, _⟩ := replay_split hm
  refine ⟨m1, h1, ?_⟩
  simp only [fsAccept] at h2
  split at h2
  · split at h2
    · subst_vars; assumption
    · cases h2
  · cases h2

/-- spelled out for creations: a blob file is only created under an id that does not exist -/
theorem create_of_new_id (dup : Bool) (limit klen : Nat) (unc rs : Bool) (ops : List FsOp)
    (id : Nat) (pre post : List Event)
    (h : (run dup limit klen unc rs ops).2 = pre ++ Event.create (.blob id) :: post) :
    ∃ m, replay (fun _ => none) pre = some m ∧ m id = none := by
  obtain ⟨mf, hm, _⟩ := blob_events_append_only dup limit klen unc rs ops
  rw [h] at hm
  obtain ⟨m1, m2, h1, h2, _⟩ := replay_split hm
  refine ⟨m1, h1, ?_⟩
  simp only [fsAccept] at h2
  split at h2
  · simpa using ‹(m1 id).isNone = true›
  · cases h2

/-- The `size` counter of every blob file (hence, by `blob_events_append_only`, the offset of the next write
    to it) is the length of the blob's L5 content: the offsets in the trace are byte-exact. -/
theorem file_size_is_content_length (dup : Bool) (limit klen : Nat) (unc rs : Bool) (ops : List FsOp) :
    ∀ b ∈ (run dup limit klen unc rs ops).1.store.blobs,
      ∃ f, (run dup limit klen unc rs ops).1.disk.files b.id = some f ∧ f.size = (content klen b).length := by
  intro b hb
  have h := run_full dup limit klen unc rs ops (b.id, b.recs) (List.mem_map_of_mem (f := fun b => (b.id, b.recs)) hb)
  rw [(run_config dup limit klen unc rs ops).1] at h
  simp only [szOf] at h
  cases hf : (run dup limit klen unc rs ops).1.disk.files b.id with
  | none => rw [hf] at h; cases h
  | some f =>
    rw [hf] at h
    simp only [Option.map_some, Option.some.injEq] at h
    exact ⟨f, rfl, by rw [content_length, h]⟩

/-- The model never drops a file action: `Disk.exec` ignores an action whose file is missing (or, for a
    creation, already there), but on every run every action an operation issues is enabled when it is
    issued. -/
theorem no_action_dropped (dup : Bool) (limit klen : Nat) (unc rs : Bool) (ops : List FsOp) (op : FsOp) :
    ∃ as, (emit (run dup limit klen unc rs ops).1 op).1.disk = ((run dup limit klen unc rs ops).1.disk.runActs as).1 ∧
      (emit (run dup limit klen unc rs ops).1 op).2 = ((run dup limit klen unc rs ops).1.disk.runActs as).2 ∧
      AllEnabled (run dup limit klen unc rs ops).1.disk as :=
  run_enabled dup limit klen unc rs ops op

/-- The byte content of every blob file (L5: `content klen b` = blob header followed by the records of `b`
    with their payloads, `blobBytes`) only grows: along any continuation of a run, every blob is continued
    by a blob with the same id whose file content has the old content as a prefix. -/
theorem content_monotone (dup : Bool) (limit klen : Nat) (unc rs : Bool) (ops more : List FsOp) (k : Nat) :
    ∀ b ∈ (run dup limit klen unc rs ops).1.store.blobs,
      ∃ b' ∈ (run dup limit klen unc rs (ops ++ more)).1.store.blobs,
        b'.id = b.id ∧ content k b <+: content k b' := by
  intro b hb
  rw [run_append]
  obtain ⟨sops, hs⟩ := runFrom_store (run dup limit klen unc rs ops) more
  rw [hs]
  obtain ⟨b', hb', hid, hp⟩ := store_run_log (run_WF' dup limit klen unc rs ops) sops b hb
  exact ⟨b', hb', hid, content_prefix k hp⟩

/-- Queries (`read`, `read_with`, `contains`, `read_all`, `read_all_with_deletion_marker`, counters) are
    functions of the state (`Store.read`, `Store.contains`, `Store.readAll`, … : `Store → …`); as an
    operation a query leaves the state unchanged and emits no file event … -/
theorem queries_emit_nothing (s : FsState) : emit s .query = (s, []) := emit_query s

/-- … so queries can be inserted anywhere in a run without changing its state or its trace. -/
theorem queries_transparent (dup : Bool) (limit klen : Nat) (unc rs : Bool) (ops more : List FsOp) :
    run dup limit klen unc rs (ops ++ .query :: more) = run dup limit klen unc rs (ops ++ more) := by
  rw [run_append, run_append, runFrom_cons, emit_query]
  simp

/-- Blob ids are never reused: the ids of the blob files created during a run are strictly increasing
    in creation order, … -/
theorem ids_never_reused (dup : Bool) (limit klen : Nat) (unc rs : Bool) (ops : List FsOp) :
    (createdIds (run dup limit klen unc rs ops).2).Pairwise (· < ·) :=
  (run_inv dup limit klen unc rs ops).sorted

/-- … every id created by an operation is greater than the id of every blob file present before the
    operation, … -/
theorem created_id_above_existing (dup : Bool) (limit klen : Nat) (unc rs : Bool) (ops : List FsOp) (op : FsOp)
    (id : Nat) (h : id ∈ createdIds (emit (run dup limit klen unc rs ops).1 op).2) :
    ∀ j, ((run dup limit klen unc rs ops).1.disk.files j).isSome → j < id :=
  ((emit_stepOK (run_inv dup limit klen unc rs ops).coh op).created id h).2

/-- … the id used is the store's `nextId` (`next_blob_name`): whenever a program creates a blob file it
    runs `newBlobP`, whose events are create / header / fsync of file `nextId`, … -/
theorem created_id_is_nextId (dup : Bool) (limit klen : Nat) (unc rs : Bool) (ops : List FsOp) (op : Op) :
    (newBlobP op (run dup limit klen unc rs ops).1).2 = hdr3 (run dup limit klen unc rs ops).1.store.nextId := by
  rw [newBlobP_eq (run_inv dup limit klen unc rs ops).coh]

/-- … and every blob file present is below `nextId`. -/
theorem existing_ids_below_nextId (dup : Bool) (limit klen : Nat) (unc rs : Bool) (ops : List FsOp) (j : Nat)
    (h : ((run dup limit klen unc rs ops).1.disk.files j).isSome) :
    j < (run dup limit klen unc rs ops).1.store.nextId :=
  (run_inv dup limit klen unc rs ops).coh.fresh j h

/-! ### non-vacuity -/

def C07Demo.ops : List FsOp :=
  [.write 10 5 none ⟨10, 1⟩ false, .write 11 5 none ⟨5000, 2⟩ false, .closeActive,
   .delete 10 6 none false, .force (fun _ => true), .restart false, .write 12 7 (some (some [1, 2])) ⟨0, 0⟩ true]

-- four blob files are created in that run, with ids 0, 1, 2, 3
example : createdIds (run true 100 4 true true C07Demo.ops).2 = [0, 1, 2, 3] := by decide +kernel
-- the trace contains writes at non-trivial offsets (so `write_at_end_of_file` says something)
example : Event.write (.blob 0) 5168 69 ∈ (run true 100 4 true true C07Demo.ops).2 := by decide +kernel
-- the acceptor does refuse a write below the end of the file and the creation of an existing file
example : replay (fun _ => none) [.create (.blob 0), .write (.blob 0) 0 20, .write (.blob 0) 10 5] = none := by
  decide
example : replay (fun _ => none) [.create (.blob 0), .write (.blob 0) 0 20, .create (.blob 0)] = none := by
  decide
-- content really grows: blob 0 of the demo run is 5237 bytes long after starting with 20
example : (content 4 { id := 0, recs := [] }).length = 20 := by decide +kernel
example : ∃ b ∈ (run true 100 4 true true C07Demo.ops).1.store.blobs, b.id = 0 ∧ b.recs.length = 3 := by
  decide +kernel

/-! ## the directory level: work directory, `corrupted` directory, in-memory view (`Pearl/Model/Acct.lean`)

`Acct.run c dup ops` = the directory-level state after `init` on an empty directory and an arbitrary list of
operations, restarts with damaged blob files under both settings of `ignore_corrupted` included; the model is run in
lock-step with the implementation (`driver_acct_is_run`, C15).  `Acct.runG` is the same run with ghost state
(`Pearl/Proofs/AcctHarm.lean`): the log of the ids handed to `iodriver.create`, and the length every quarantined file
had when it was renamed into `corrupted` — `Acct.stepC` is `Acct.step` with these two outputs, and its state IS that of
`Acct.step`. -/

/-- the ghost run carries the state of `Acct.run`, and logs what `Acct.stepC` reports -/
theorem dir_ghost_run (c : Acct.Cfg) (dup : Bool) (ops : List Acct.AOp) (op : Acct.AOp) :
    (Acct.runG c dup ops).st = Acct.run c dup ops ∧
      (Acct.stepC c (Acct.run c dup ops) op).st = Acct.step c (Acct.run c dup ops) op ∧
      (Acct.runG c dup (ops ++ [op])).created =
        (Acct.runG c dup ops).created ++ (Acct.stepC c (Acct.run c dup ops) op).created := by
  refine ⟨Acct.runG_st c dup ops, Acct.stepC_st c _ op, ?_⟩
  rw [Acct.runG_append, ← Acct.runG_st c dup ops]
  rfl

/-- (1) Blob files only grow.  Along every history, whatever comes later (`more`): a blob file that is in the work
    directory now and later is later at least as long; and for a blob held now and later (same id) the record list
    is extended, both files are exactly as long as the record lists say (`contentLen` = blob header + records), a
    proper extension makes the file strictly longer, and the byte content (L5 `content`) of now is a prefix of the
    later one — never shortened, never rewritten. -/
theorem dir_blob_files_only_grow (c : Acct.Cfg) (dup : Bool) (ops more : List Acct.AOp) :
    let s := Acct.run c dup ops
    let s' := Acct.run c dup (ops ++ more)
    (∀ i l l', Acct.get s.dir.blobs i = some l → Acct.get s'.dir.blobs i = some l' → l ≤ l') ∧
      (∀ b ∈ s.store.blobs, ∀ b' ∈ s'.store.blobs, b'.id = b.id →
        b.recs <+: b'.recs ∧
        Acct.get s.dir.blobs b.id = some (contentLen c.klen b.recs) ∧
        Acct.get s'.dir.blobs b.id = some (contentLen c.klen b'.recs) ∧
        contentLen c.klen b.recs ≤ contentLen c.klen b'.recs ∧
        (b.recs ≠ b'.recs → contentLen c.klen b.recs < contentLen c.klen b'.recs) ∧
        content c.klen b <+: content c.klen b') := by
  intro s s'
  have hg := Acct.ginv_run c dup ops
  have hs : (Acct.runG c dup ops).st = s := Acct.runG_st c dup ops
  have hs' : (Acct.runGFrom c (Acct.runG c dup ops) more).st = s' := by
    rw [← Acct.runG_append]; exact Acct.runG_st c dup _
  have hinv : Acct.Inv c s := Acct.inv_run c dup ops
  have hinv' : Acct.Inv c s' := Acct.inv_run c dup _
  have hrun : s' = Acct.runFrom c s more := Acct.runFrom_append c _ ops more
  constructor
  · intro i l l' hl hl'
    rw [← hs] at hl
    rcases Acct.runGFrom_file_fate hg more i l hl with ⟨l₂, h₂, hle⟩ | ⟨_, hk, _⟩
    · rw [hs', hl'] at h₂
      cases h₂; exact hle
    · rw [hs'] at hk
      exact absurd (Acct.mem_keys_of_get hl') hk
  · intro b hb b' hb' hid
    have hpre : b.recs <+: b'.recs := by
      rw [hrun] at hb'
      exact Acct.runFrom_recs hinv more b hb b' hb' hid
    refine ⟨hpre, Acct.held_file_len hinv hb, ?_, Acct.contentLen_prefix c.klen hpre,
      fun hne => Acct.contentLen_lt_of_prefix c.klen hpre hne, content_prefix c.klen hpre⟩
    rw [← hid]; exact Acct.held_file_len hinv' hb'

/-- (2) Blob files never vanish.  A blob file of the work directory is later either still in the work directory
    (same id, at least as long) or in `corrupted` — and no longer in the work directory — with the length (at least
    the present one) it had when it was renamed there.  Nothing is deleted. -/
theorem dir_blob_files_never_vanish (c : Acct.Cfg) (dup : Bool) (ops more : List Acct.AOp) :
    let g := Acct.runG c dup ops
    let g' := Acct.runG c dup (ops ++ more)
    ∀ i l, Acct.get g.st.dir.blobs i = some l →
      (∃ l', Acct.get g'.st.dir.blobs i = some l' ∧ l ≤ l') ∨
        (i ∈ g'.st.dir.corrupted ∧ i ∉ Acct.keys g'.st.dir.blobs ∧ ∃ l', Acct.get g'.quar i = some l' ∧ l ≤ l') := by
  intro g g' i l hl
  have hg' : g' = Acct.runGFrom c g more := Acct.runG_append c dup ops more
  rw [hg']
  exact Acct.runGFrom_file_fate (Acct.ginv_run c dup ops) more i l hl

/-- … one operation, exactly: a blob file leaves the work directory only by a restart without `ignore_corrupted`
    that finds it unreadable; it is then in `corrupted`, where no file of its name was, with the length it had. -/
theorem dir_blob_file_step (c : Acct.Cfg) (dup : Bool) (ops : List Acct.AOp) (op : Acct.AOp) :
    let g := Acct.runG c dup ops
    let g' := Acct.runG c dup (ops ++ [op])
    ∀ i l, Acct.get g.st.dir.blobs i = some l →
      (∃ l', Acct.get g'.st.dir.blobs i = some l' ∧ l ≤ l') ∨
        ((∃ lazy bad, op = .restart lazy false bad ∧ i ∈ Acct.unreadable g.st bad) ∧
          i ∉ g.st.dir.corrupted ∧ i ∈ g'.st.dir.corrupted ∧ i ∉ Acct.keys g'.st.dir.blobs ∧
          Acct.get g'.quar i = some l) := by
  intro g g' i l hl
  have hg' : g' = Acct.stepG c g op := Acct.runG_append c dup ops [op]
  rw [hg']
  rcases Acct.stepG_file_fate (Acct.ginv_run c dup ops) op i l hl with h | ⟨h1, h2, h3, h4, h5⟩
  · exact Or.inl h
  · exact Or.inr ⟨Acct.mem_stepC_moved.1 h5, h2, h1, h3, h4⟩

/-- … and a file of `corrupted` is never touched again: it stays there with the length it came with (no later
    `rename` replaces it), and its id never names a blob file of the work directory again. -/
theorem dir_quarantined_files_untouched (c : Acct.Cfg) (dup : Bool) (ops more : List Acct.AOp) (i l : Nat)
    (h : Acct.get (Acct.runG c dup ops).quar i = some l) :
    Acct.get (Acct.runG c dup (ops ++ more)).quar i = some l ∧
      i ∈ (Acct.run c dup (ops ++ more)).dir.corrupted ∧ i ∉ Acct.keys (Acct.run c dup (ops ++ more)).dir.blobs := by
  have hg := Acct.ginv_run c dup (ops ++ more)
  have hq : Acct.get (Acct.runG c dup (ops ++ more)).quar i = some l := by
    rw [Acct.runG_append]; exact Acct.runGFrom_quar_forever (Acct.ginv_run c dup ops) more i l h
  have hc : i ∈ (Acct.run c dup (ops ++ more)).dir.corrupted := by
    rw [← Acct.runG_st, ← hg.quarKeys]; exact Acct.mem_keys_of_get hq
  exact ⟨hq, hc, (Acct.inv_run c dup _).corrFiles i hc⟩

/-- Index files (they may be removed or replaced), exactly: an index file is afterwards untouched; or replaced by a
    dump (`Blob::dump` in a dump pass, in `close`, in `init`) — then it was the index of a held blob (never of a blob
    skipped under `ignore_corrupted`) and the new file validates against the blob file as it is after the operation;
    or removed — by a restart without `ignore_corrupted` that has just moved its blob into `corrupted`
    (`remove_index_by_blob_path`), and by nothing else. -/
theorem dir_index_file_fate (c : Acct.Cfg) (dup : Bool) (ops : List Acct.AOp) (op : Acct.AOp) :
    let s := Acct.run c dup ops
    let s' := Acct.run c dup (ops ++ [op])
    ∀ i f, Acct.get s.dir.idx i = some f →
      Acct.get s'.dir.idx i = some f ∨
        (∃ f', Acct.get s'.dir.idx i = some f' ∧ Acct.get s'.dir.blobs i = some f'.blobSize ∧
          ∃ b ∈ s.store.blobs, b.id = i) ∨
        (Acct.get s'.dir.idx i = none ∧ i ∈ s'.dir.corrupted ∧ i ∉ s.dir.corrupted ∧
          ∃ lazy bad, op = .restart lazy false bad ∧ i ∈ Acct.unreadable s bad) := by
  intro s s' i f hf
  have hinv : Acct.Inv c s := Acct.inv_run c dup ops
  have hs' : s' = Acct.step c s op := Acct.runFrom_append c _ ops [op]
  have hfs := Acct.stepC_fileStep hinv op
  rw [Acct.stepC_st] at hfs
  rw [hs']
  rcases Acct.step_idx_fate hinv op i f hf with h | ⟨f', h1, h2, h3⟩ | ⟨h1, h2⟩
  · exact Or.inl h
  · refine Or.inr (Or.inl ⟨f', h1, h2, ?_⟩)
    rcases (hinv.files i).1 (hinv.idxFiles i (Acct.mem_keys_of_get hf)) with hb | hi
    · exact hb
    · exact absurd hi h3
  · refine Or.inr (Or.inr ⟨h1, ?_, ?_, Acct.mem_stepC_moved.1 h2⟩)
    · rw [hfs.corr]; exact List.mem_append_right _ h2
    · exact fun hc => hinv.corrFiles i hc (hfs.mvFiles i h2)

/-- (3) Blob ids are never reused, not even the id of a quarantined blob.  After every history: `next_blob_id` is
    above every id of the work directory AND of `corrupted`; the blob files created over the whole history were
    numbered 0, 1, 2, …, `next_blob_id - 1` in this order, so no id was used twice; and whatever the next operation
    is, the files it creates get `next_blob_id`, `next_blob_id + 1`, … (the then-current value each), `next_blob_id`
    moves by exactly their number, and none of these ids names a file of either directory or was ever used. -/
theorem dir_ids_never_reused (c : Acct.Cfg) (dup : Bool) (ops : List Acct.AOp) :
    let s := Acct.run c dup ops
    let g := Acct.runG c dup ops
    (∀ i, i ∈ Acct.keys s.dir.blobs ∨ i ∈ s.dir.corrupted → i < Acct.nextBlobId s) ∧
      g.created = List.range (Acct.nextBlobId s) ∧ g.created.Nodup ∧
      ∀ op, (Acct.stepC c s op).created =
            List.range' (Acct.nextBlobId s) (Acct.stepC c s op).created.length ∧
          Acct.nextBlobId (Acct.step c s op) = Acct.nextBlobId s + (Acct.stepC c s op).created.length ∧
          ∀ i ∈ (Acct.stepC c s op).created,
            i ∉ Acct.keys s.dir.blobs ∧ i ∉ s.dir.corrupted ∧ i ∉ g.created ∧
              i ∈ Acct.keys (Acct.step c s op).dir.blobs := by
  intro s g
  have hinv : Acct.Inv c s := Acct.inv_run c dup ops
  have hg := Acct.ginv_run c dup ops
  have hcr : g.created = List.range (Acct.nextBlobId s) := by
    rw [hg.created, Acct.runG_st]; rfl
  refine ⟨hinv.below, hcr, by rw [hcr]; exact List.nodup_range, ?_⟩
  intro op
  have hfs := Acct.stepC_fileStep hinv op
  rw [Acct.stepC_st] at hfs
  refine ⟨hfs.ids, hfs.next, ?_⟩
  intro i hi
  obtain ⟨h1, h2, h3, h4⟩ := hfs.created_fresh hinv.below i hi
  refine ⟨h2, h3, ?_, h4⟩
  rw [hcr, List.mem_range]
  exact Nat.not_lt.2 h1

/-- … and the creations are exactly the new names of the work directory: afterwards it holds the files it held,
    except the quarantined ones, and the created ones. -/
theorem dir_created_are_the_new_files (c : Acct.Cfg) (dup : Bool) (ops : List Acct.AOp) (op : Acct.AOp) (i : Nat) :
    let s := Acct.run c dup ops
    i ∈ Acct.keys (Acct.step c s op).dir.blobs ↔
      (i ∈ Acct.keys s.dir.blobs ∧ ¬ ∃ lazy bad, op = .restart lazy false bad ∧ i ∈ Acct.unreadable s bad) ∨
        i ∈ (Acct.stepC c s op).created := by
  intro s
  have hfs := Acct.stepC_fileStep (Acct.inv_run c dup ops) op
  rw [Acct.stepC_st] at hfs
  rw [hfs.files, Acct.mem_stepC_moved]

/-- (4) Quarantine never replaces.  When a restart without `ignore_corrupted` moves the unreadable blob files into
    `corrupted`, no file of any of these names is there (so `rename` replaces nothing); `corrupted` afterwards is
    what it was plus the moved files, without a duplicate; every moved file arrives with the length it had; every
    file that was there keeps its length; and the blob files that are not moved keep theirs. -/
theorem dir_quarantine_never_replaces (c : Acct.Cfg) (dup : Bool) (ops : List Acct.AOp) (lazy : Bool)
    (bad : List Nat) :
    let s := Acct.run c dup ops
    let g := Acct.runG c dup ops
    let g' := Acct.runG c dup (ops ++ [.restart lazy false bad])
    (∀ i ∈ Acct.unreadable s bad, i ∉ s.dir.corrupted ∧ Acct.get g.quar i = none ∧
        Acct.get g'.quar i = some (Acct.blobFileLen s.dir i)) ∧
      g'.st.dir.corrupted = s.dir.corrupted ++ Acct.unreadable s bad ∧ g'.st.dir.corrupted.Nodup ∧
      (∀ i l, Acct.get g.quar i = some l → Acct.get g'.quar i = some l) ∧
      (∀ i l, Acct.get s.dir.blobs i = some l → i ∉ Acct.unreadable s bad →
        Acct.get g'.st.dir.blobs i = some l) := by
  intro s g g'
  have hinv : Acct.Inv c s := Acct.inv_run c dup ops
  have hg := Acct.ginv_run c dup ops
  have hgs : g.st = s := Acct.runG_st c dup ops
  have hg' : g' = Acct.stepG c g (.restart lazy false bad) := Acct.runG_append c dup ops [_]
  have hfs := Acct.stepC_fileStep hg.inv (.restart lazy false bad)
  have hmv : (Acct.stepC c g.st (.restart lazy false bad)).moved = Acct.unreadable s bad := by
    rw [Acct.stepC_moved, hgs]
  have hUc : ∀ i ∈ Acct.unreadable s bad, i ∉ s.dir.corrupted :=
    fun i hi hc => hinv.corrFiles i hc (Acct.mem_unreadable.1 hi).1
  have hcorr : g'.st.dir.corrupted = s.dir.corrupted ++ Acct.unreadable s bad := by
    rw [hg']
    show (Acct.stepC c g.st (.restart lazy false bad)).st.dir.corrupted = _
    rw [hfs.corr, hmv, hgs]
  refine ⟨?_, hcorr, ?_, ?_, ?_⟩
  · intro i hi
    refine ⟨hUc i hi, ?_, ?_⟩
    · apply Acct.get_eq_none_iff.2
      rw [hg.quarKeys, hgs]; exact hUc i hi
    · rw [hg']
      show Acct.get (Acct.quarantine g.st.dir g.quar (Acct.stepC c g.st (.restart lazy false bad)).moved) i = _
      rw [Acct.get_quarantine, hmv, if_pos hi, hgs]
  · rw [hg', Acct.stepG_st]; exact (Acct.inv_step hg.inv _).corrNodup
  · intro i l hq
    rw [hg']; exact (Acct.stepG_quar_forever hg (.restart lazy false bad) i l hq).1
  · intro i l hl hnu
    rw [hg', Acct.stepG_st, hgs]
    exact Acct.restart_get_blobs hinv lazy false bad i l hl hnu

/-- … or leaves it in place when told to ignore it: a restart under `ignore_corrupted` moves nothing — `corrupted`
    is what it was, and EVERY blob file of the work directory, the unreadable ones included, is there afterwards with
    the length it had; the unreadable ones are not held, and their ids stay reserved. -/
theorem dir_ignored_left_in_place (c : Acct.Cfg) (dup : Bool) (ops : List Acct.AOp) (lazy : Bool) (bad : List Nat) :
    let s := Acct.run c dup ops
    let r := Acct.run c dup (ops ++ [.restart lazy true bad])
    r.dir.corrupted = s.dir.corrupted ∧
      (∀ i l, Acct.get s.dir.blobs i = some l → Acct.get r.dir.blobs i = some l) ∧
      (∀ i ∈ Acct.unreadable s bad, (∀ b ∈ r.store.blobs, b.id ≠ i) ∧ i < Acct.nextBlobId r) := by
  intro s r
  have hinv : Acct.Inv c s := Acct.inv_run c dup ops
  have hr : r = Acct.restart c s lazy true bad := Acct.runFrom_append c _ ops [_]
  have hI := Acct.restart_ignores hinv lazy bad
  rw [hr]
  refine ⟨hI.2.2.1, ?_, fun i hi => (hI.1 i hi).2⟩
  intro i l hl
  exact Acct.restart_get_blobs hinv lazy true bad i l hl (by simp)

/-- `next_blob_id` never decreases, along every history (quarantines included: the ids of `corrupted` count) -/
theorem dir_next_blob_id_monotone (c : Acct.Cfg) (dup : Bool) (ops more : List Acct.AOp) :
    Acct.nextBlobId (Acct.run c dup ops) ≤ Acct.nextBlobId (Acct.run c dup (ops ++ more)) := by
  have : Acct.run c dup (ops ++ more) = Acct.runFrom c (Acct.run c dup ops) more := Acct.runFrom_append c _ ops more
  rw [this]
  exact Acct.runFrom_nextId_le (Acct.inv_run c dup ops) more

/-! ### (5) counter-models: what the theorems above exclude -/

namespace C07Dir

def cfg : Acct.Cfg := { klen := 4, idxLen := fun rs => 100 + 10 * rs.length }
def w (k ts len : Nat) : Acct.AOp := .write k ts none ⟨len, 7⟩ false false

/-- blobs 0, 1, 2 (one record each); session B finds blob 2 unreadable and quarantines it (blobs 0 and 1 are
    usable: no new blob); session C finds blobs 0 and 1 unreadable: every blob file of the work directory is
    quarantined, and `init` has to create a fresh active blob -/
def ops : List Acct.AOp :=
  [w 1 1 3, .closeActive, w 2 2 3, .closeActive, w 3 3 3, .restart false false [2], .restart false false [0, 1]]

/-- a write into the fresh blob, which the next session finds unreadable -/
def more : List Acct.AOp := [w 4 4 10, .restart false false [2]]

/-- a storage without an active blob, and a creation of the next one that fails after 4 bytes of the header -/
def fops : List Acct.Buggy.FOp := [.op (w 1 1 3), .op .closeActive, .createFails 4]

end C07Dir

open C07Dir in
/-- (5a) seeded change C07-4 (`reserve_old_corrupted_blob_ids` only at the end of `init_from_existing`, after the
    fresh active blob has been created).  The code as it is numbers the fresh blob of session C 3; the changed code
    numbers it 2 — the id of the file quarantined by session B: `created` has 2 twice ((3) fails), the id 2 is in both
    directories (the `Acct.Inv` clause behind (4) fails), and when that blob is quarantined in turn, `rename`
    replaces `corrupted/2`: the 92 bytes quarantined by session B are gone ((4) and (2) fail). -/
theorem dir_c074_reuses_quarantined_id :
    (let g := Acct.runG cfg true ops
     g.created = [0, 1, 2, 3] ∧ g.st.dir.blobs = [(3, 20)] ∧ g.st.dir.corrupted = [2, 0, 1] ∧
       Acct.nextBlobId g.st = 4 ∧ g.quar = [(2, 92), (0, 92), (1, 92)]) ∧
    (let g := Acct.Buggy.runG074 cfg true ops
     g.created = [0, 1, 2, 2] ∧ ¬ g.created.Nodup ∧ g.st.dir.blobs = [(2, 20)] ∧ g.st.dir.corrupted = [2, 0, 1] ∧
       2 ∈ Acct.keys g.st.dir.blobs ∧ 2 ∈ g.st.dir.corrupted ∧ Acct.get g.quar 2 = some 92) ∧
    (let g := Acct.Buggy.runG074 cfg true (ops ++ [w 4 4 10])
     let g' := Acct.Buggy.runG074 cfg true (ops ++ more)
     Acct.unreadable g.st [2] = [2] ∧ 2 ∈ g.st.dir.corrupted ∧ Acct.get g.st.dir.blobs 2 = some 99 ∧
       Acct.get g'.quar 2 = some 99 ∧ g'.quar.length = 3) := by
  decide

open C07Dir in
/-- (5a') the same late reservation in `init_new`, on a start from an empty work directory: a lazy start
    quarantines the only blob 0 and holds nothing; the next start finds no blob file.  The code as it is creates blob
    1; with the reservation after the creation it creates blob 0 again, while `corrupted/0` exists. -/
theorem dir_late_reservation_on_empty_dir :
    (let g := Acct.runG cfg true [w 1 1 3, .restart true false [0]]
     g.st.dir.blobs = [] ∧ g.st.dir.corrupted = [0] ∧ Acct.nextBlobId g.st = 1) ∧
    (let g := Acct.runG cfg true [w 1 1 3, .restart true false [0], .restart false false []]
     g.created = [0, 1] ∧ g.st.dir.blobs = [(1, 20)] ∧ g.st.dir.corrupted = [0] ∧ Acct.nextBlobId g.st = 2) ∧
    (let g := Acct.Buggy.runGLate cfg true [w 1 1 3, .restart true false [0], .restart false false []]
     g.created = [0, 0] ∧ ¬ g.created.Nodup ∧ g.st.dir.blobs = [(0, 20)] ∧ g.st.dir.corrupted = [0] ∧
       0 ∈ Acct.keys g.st.dir.blobs ∧ 0 ∈ g.st.dir.corrupted) := by
  decide

open C07Dir in
/-- (5b) seeded change C07-3 (`ensure_active_blob_exists` hands the id back when `Blob::open_new` fails).  The failed
    creation leaves the file `1` (4 bytes) in the work directory.  The code as it is keeps id 1 consumed, and the
    retry creates blob 2; the changed code hands 1 back — `next_blob_id` = 1 with a blob file 1 in the directory ((3)
    fails) — and the retry creates the file 1 a second time, over the leftover one. -/
theorem dir_c073_reuses_id_of_leftover_file :
    (let g := Acct.Buggy.runGF false cfg true (fops ++ [.op .createActive])
     g.created = [0, 1, 2] ∧ g.st.dir.blobs = [(0, 92), (1, 4), (2, 20)] ∧ Acct.nextBlobId g.st = 3) ∧
    (let g := Acct.Buggy.runGF true cfg true fops
     1 ∈ Acct.keys g.st.dir.blobs ∧ Acct.nextBlobId g.st = 1) ∧
    (let g := Acct.Buggy.runGF true cfg true (fops ++ [.op .createActive])
     g.created = [0, 1, 1] ∧ ¬ g.created.Nodup ∧ g.st.dir.blobs = [(0, 92), (1, 20)]) := by
  decide

/-- the code as it is, with such failures: a failed creation keeps `Acct.Inv` (so everything above holds along
    histories that contain failed creations), consumes the id, and is a creation like any other: the file gets
    `next_blob_id`, no file of either directory has that name -/
theorem dir_failed_creation_harmless {c : Acct.Cfg} {s : Acct.State} (h : Acct.Inv c s) (len : Nat) :
    let l := Acct.Buggy.createFailsC false s len
    Acct.Inv c l.st ∧ l.created = List.range' (Acct.nextBlobId s) l.created.length ∧
      Acct.nextBlobId l.st = Acct.nextBlobId s + l.created.length ∧
      (∀ i ∈ l.created, i ∉ Acct.keys s.dir.blobs ∧ i ∉ s.dir.corrupted) ∧
      (∀ i v, Acct.get s.dir.blobs i = some v → Acct.get l.st.dir.blobs i = some v) := by
  intro l
  obtain ⟨h1, h2⟩ := Acct.inv_createFails h len
  refine ⟨h1, h2.ids, h2.next, fun i hi => ?_, ?_⟩
  · have := h2.created_fresh h.below i hi
    exact ⟨this.2.1, this.2.2.1⟩
  · intro i v hv
    show Acct.get (Acct.Buggy.createFailsC false s len).st.dir.blobs i = some v
    unfold Acct.Buggy.createFailsC
    cases s.store.active with
    | some a => exact hv
    | none =>
      show Acct.get (Acct.put s.dir.blobs s.store.nextId len) i = some v
      rw [Acct.get_put, if_neg (Nat.ne_of_lt (h.below i (Or.inl (Acct.mem_keys_of_get hv))))]
      exact hv

/-! ### non-vacuity (directory level): histories with quarantines under both settings of `ignore_corrupted` -/

namespace C07Dir

/-- two blobs, 0 closed with its index dumped by `closeActive`, 1 active -/
def ops1 : List Acct.AOp := [w 1 1 3, .closeActive, w 2 2 3]

/-- a delete into the closed blob 0; a restart that finds the active blob 1 unreadable and SKIPS it
    (`ignore_corrupted`): blob 0 becomes the active blob; a write into it; a restart without the flag, which
    quarantines the skipped blob 1 -/
def more1 : List Acct.AOp := [.delete 1 5 none true, .restart false true [1], w 3 3 3, .restart false false []]

end C07Dir

section
open C07Dir

-- (1): blob file 0 grows 92 → 161 → 233 across the two restarts; blob 1 (skipped, then quarantined) keeps its 92 bytes
example :
    (Acct.run cfg true ops1).dir.blobs = [(0, 92), (1, 92)] ∧
      (Acct.run cfg true (ops1 ++ more1.take 2)).dir.blobs = [(0, 161), (1, 92)] ∧
      (Acct.run cfg true (ops1 ++ more1.take 2)).ignored = [1] ∧
      (Acct.run cfg true (ops1 ++ more1)).dir.blobs = [(0, 233)] ∧
      (Acct.run cfg true (ops1 ++ more1)).dir.corrupted = [1] ∧
      (Acct.runG cfg true (ops1 ++ more1)).quar = [(1, 92)] := by decide
example := dir_blob_files_only_grow cfg true ops1 more1
-- … the held blob 0 has 1 record before and 3 after: `dir_blob_files_only_grow` speaks about a proper extension
example : ((Acct.run cfg true ops1).store.blobs.map fun b => (b.id, b.recs.length)) = [(0, 1), (1, 1)] ∧
    ((Acct.run cfg true (ops1 ++ more1)).store.blobs.map fun b => (b.id, b.recs.length)) = [(0, 3)] := by decide
-- (2): blob file 1 of `ops1` ends in `corrupted` with its 92 bytes, blob file 0 stays (longer)
example : (∃ l', Acct.get (Acct.runG cfg true (ops1 ++ more1)).st.dir.blobs 0 = some l' ∧ 92 ≤ l') ∧
    (1 ∈ (Acct.runG cfg true (ops1 ++ more1)).st.dir.corrupted ∧
      ∃ l', Acct.get (Acct.runG cfg true (ops1 ++ more1)).quar 1 = some l' ∧ 92 ≤ l') := by decide
example := dir_blob_files_never_vanish cfg true ops1 more1 1 92 (by decide)
example := dir_blob_file_step cfg true (ops1 ++ more1.take 3) (.restart false false []) 1 92 (by decide)
example := dir_quarantined_files_untouched cfg true C07Dir.ops [w 9 9 1, .restart true false [3]] 2 92 (by decide)
-- index files: under `ignore_corrupted` the index file of the skipped blob 1 (written by `close`) and the stale one
-- of blob 0 stay; the restart that quarantines blob 1 removes its index file and replaces that of blob 0 (it
-- validates: `blob_size` 233 = length of the blob file)
example :
    ((Acct.run cfg true (ops1 ++ more1.take 3)).dir.idx.map fun p => (p.1, p.2.len, p.2.blobSize)) =
        [(0, 110, 92), (1, 110, 92)] ∧
      ((Acct.run cfg true (ops1 ++ more1)).dir.idx.map fun p => (p.1, p.2.len, p.2.blobSize)) =
        [(0, 130, 233)] := by decide
example := dir_index_file_fate cfg true (ops1 ++ more1.take 3) (.restart false false []) 1 ⟨110, 92⟩ (by decide)
example := dir_index_file_fate cfg true (ops1 ++ more1.take 3) (.restart false false []) 0 ⟨110, 92⟩ (by decide)
-- (3): four creations 0, 1, 2, 3 over `ops`, the last one by `init` after everything was quarantined;
-- a write with rotation into a storage without an active blob creates two files in one operation
example : (Acct.runG cfg true C07Dir.ops).created = [0, 1, 2, 3] ∧
    Acct.nextBlobId (Acct.run cfg true C07Dir.ops) = 4 ∧
    (Acct.stepC cfg (Acct.run cfg true (ops1 ++ [.closeActive])) (.write 9 9 none ⟨1, 1⟩ true true)).created =
      [2, 3] := by decide
example := dir_ids_never_reused cfg true C07Dir.ops
-- (4): the second restart of `ops` moves blobs 0 and 1 next to blob 2; a restart under `ignore_corrupted` moves nothing
example : Acct.unreadable (Acct.run cfg true (C07Dir.ops.take 6)) [0, 1] = [0, 1] ∧
    (Acct.run cfg true (C07Dir.ops.take 6)).dir.corrupted = [2] ∧
    (Acct.runG cfg true C07Dir.ops).quar = [(2, 92), (0, 92), (1, 92)] := by decide
example := dir_quarantine_never_replaces cfg true (C07Dir.ops.take 6) false [0, 1]
example : Acct.unreadable (Acct.run cfg true (ops1 ++ more1.take 1)) [1] = [1] ∧
    (Acct.run cfg true (ops1 ++ more1.take 2)).dir.blobs = (Acct.run cfg true (ops1 ++ more1.take 1)).dir.blobs := by
  decide
example := dir_ignored_left_in_place cfg true (ops1 ++ more1.take 1) false [1]

end

/-! ## the two levels are two views of one run (`Pearl/Proofs/FsAcct.lean`)

`FsAcct.toAOps dup limit klen unc rs ops` = the directory-level history (`List Acct.AOp`) of the driver-level operations
`ops`: operation by operation (`FsAcct.tr`), in the state the operation is issued in — a rotation runs its dump pass
unless a deferred dump is registered, `force` goes ahead iff its predicate holds, `free` / `settle` are a dump pass,
`restart` and `open` of a closed storage are `restart lazy false []` (no damage, no `ignore_corrupted`), `fsync`, `close`
and queries are no directory-level operation (what `close` dumps is part of the `restart` that follows).  This is the
translation `AcctScript.plan` applies to script lines. -/

/-- (1) The trace is complete.  `dirOfTrace` replays a trace WITHOUT any check (a create makes an empty file, a write
    at `off` of `len` extends the file to `max size (off + len)`); on the trace of any run it gives every blob file
    exactly the length the `size` counter of `Fs` says (`FileS.size`), files that do not exist included — every byte
    the counters know about was emitted as a write — and it is the final state of the append-only acceptor. -/
theorem trace_is_complete (dup : Bool) (limit klen : Nat) (unc rs : Bool) (ops : List FsOp) :
    (∀ id, dirOfTrace (run dup limit klen unc rs ops).2 id =
        ((run dup limit klen unc rs ops).1.disk.files id).map (·.size)) ∧
      replay (fun _ => none) (run dup limit klen unc rs ops).2 =
        some (dirOfTrace (run dup limit klen unc rs ops).2) :=
  ⟨fun id => dirOfTrace_run dup limit klen unc rs ops id, replay_run_eq_dirOfTrace dup limit klen unc rs ops⟩

/-- (2) The two models agree on every damage-free history.  For every list of driver-level operations, with
    `A` its directory-level history: no step of `A` damages a file; both models hold the same L2 store; the work
    directory of `Acct.run` lists exactly the blob files `Fs.run` has counters for, each with the length of the `size`
    counter — which is the length `dirOfTrace` reads off the trace; nothing is quarantined or skipped; and the index
    files are the same, with the same `blob_size` field (while the storage is closed, `Acct` has not yet been told:
    `Acct.restart` closes the session itself, so it is `Acct.closeSession` of the state that is compared). -/
theorem fs_acct_same_files (c : Acct.Cfg) (dup : Bool) (limit klen : Nat) (unc rs : Bool) (hk : c.klen = klen)
    (ops : List FsOp) :
    let r := run dup limit klen unc rs ops
    let A := FsAcct.toAOps dup limit klen unc rs ops
    let s := Acct.run c dup A
    (∀ o ∈ A, Acct.NoDamage o) ∧ s.store = r.1.store ∧
      (∀ id, Acct.get s.dir.blobs id = (r.1.disk.files id).map (·.size)) ∧
      (∀ id, Acct.get s.dir.blobs id = dirOfTrace r.2 id) ∧
      (∀ id, (Acct.get (if r.1.isOpen then s else Acct.closeSession c s).dir.idx id).map (·.blobSize) =
        r.1.disk.idx id) ∧
      s.ignored = [] ∧ s.dir.corrupted = [] := by
  intro r A s
  have h := (FsAcct.run_sim c dup limit klen unc rs hk ops).r0
  have hnd := FsAcct.toAOps_noDamage dup limit klen unc rs ops
  obtain ⟨_, hi, hc⟩ := Acct.run_clean c dup A hnd
  have hst : (FsAcct.eff c r.1 s).store = s.store := by
    unfold FsAcct.eff; split
    · rfl
    · rw [Acct.closeSession_store]
  have hbl : (FsAcct.eff c r.1 s).dir.blobs = s.dir.blobs := by
    unfold FsAcct.eff; split
    · rfl
    · rw [Acct.closeSession_blobs]
  have hb : ∀ id, Acct.get s.dir.blobs id = (r.1.disk.files id).map (·.size) := by
    intro id; rw [← hbl]; exact h.blobs id
  refine ⟨hnd, by rw [← hst]; exact h.store, hb, ?_, h.idx, hi, hc⟩
  intro id
  rw [hb id, dirOfTrace_run]; rfl

/-- (3) The directory-level and the trace-level no-harm theorems are two views of one run.  Take any run `ops` and any
    continuation `more`; `A`, `A'` are the directory-level histories, `A'` extends `A` and the later trace extends the
    earlier one.  Then
    * at both times the listing of the work directory IS the replay of the trace (`dirOfTrace`), and the trace is
      accepted by the append-only file system `fsAccept` (`blob_events_append_only`: creation of new names only, writes
      exactly at the end, no truncation) whose final state is that listing;
    * "blob files only grow": a blob file listed at the earlier time is listed later, at least as long — this is
      `dir_blob_files_only_grow` on `A`, `A'` (directory level) and `replay_grows` on the trace (trace level), about
      the same numbers;
    * "ids are never reused": the ids created in the trace, in order (`ids_never_reused`), are the creation log of the
      directory model (`dir_ids_never_reused`): `0, 1, …, next_blob_id - 1`, and `next_blob_id` is the same number in
      both models. -/
theorem trace_and_directory_agree (c : Acct.Cfg) (dup : Bool) (limit klen : Nat) (unc rs : Bool) (hk : c.klen = klen)
    (ops more : List FsOp) :
    let r := run dup limit klen unc rs ops
    let r' := run dup limit klen unc rs (ops ++ more)
    let A := FsAcct.toAOps dup limit klen unc rs ops
    let A' := FsAcct.toAOps dup limit klen unc rs (ops ++ more)
    let s := Acct.run c dup A
    let s' := Acct.run c dup A'
    (∃ B, A' = A ++ B) ∧ (∃ u, r'.2 = r.2 ++ u) ∧
      (∀ id, Acct.get s.dir.blobs id = dirOfTrace r.2 id) ∧
      (∀ id, Acct.get s'.dir.blobs id = dirOfTrace r'.2 id) ∧
      (∃ m, replay (fun _ => none) r'.2 = some m ∧ ∀ id, m id = Acct.get s'.dir.blobs id) ∧
      (∀ id l, Acct.get s.dir.blobs id = some l →
        ∃ l', Acct.get s'.dir.blobs id = some l' ∧ l ≤ l' ∧
          dirOfTrace r.2 id = some l ∧ dirOfTrace r'.2 id = some l') ∧
      createdIds r'.2 = (Acct.runG c dup A').created ∧
      createdIds r'.2 = List.range (Acct.nextBlobId s') ∧
      (createdIds r'.2).Pairwise (· < ·) ∧
      Acct.nextBlobId s' = r'.1.store.nextId := by
  intro r r' A A' s s'
  have h1 := fs_acct_same_files c dup limit klen unc rs hk ops
  have h2 := fs_acct_same_files c dup limit klen unc rs hk (ops ++ more)
  have hA : A' = A ++ FsAcct.trFrom r.1 more := FsAcct.toAOps_append dup limit klen unc rs ops more
  have hnext : Acct.nextBlobId s' = r'.1.store.nextId := by
    show s'.store.nextId = _
    rw [h2.2.1]
  have hcr : createdIds r'.2 = List.range (Acct.nextBlobId s') := by
    rw [hnext]; exact FsAcct.createdIds_run dup limit klen unc rs (ops ++ more)
  refine ⟨⟨_, hA⟩, run_trace_prefix dup limit klen unc rs ops more, h1.2.2.2.1, h2.2.2.2.1, ?_, ?_, ?_, hcr,
    ids_never_reused dup limit klen unc rs (ops ++ more), hnext⟩
  · exact ⟨_, replay_run_eq_dirOfTrace dup limit klen unc rs (ops ++ more), fun id => (h2.2.2.2.1 id).symm⟩
  · intro id l hl
    have hl1 : dirOfTrace r.2 id = some l := by rw [← h1.2.2.2.1 id]; exact hl
    -- trace level: the file is still there
    obtain ⟨l', hl', _⟩ := dirOfTrace_grows dup limit klen unc rs ops more id l hl1
    have hl2 : Acct.get s'.dir.blobs id = some l' := by rw [h2.2.2.2.1 id]; exact hl'
    -- directory level: it is at least as long
    have hgrow := (dir_blob_files_only_grow c dup A (FsAcct.trFrom r.1 more)).1 id l l' hl (by rw [← hA]; exact hl2)
    exact ⟨l', hl2, hgrow, hl1, hl'⟩
  · rw [hcr, (Acct.ginv_run c dup A').created, Acct.runG_st]; rfl

/-! ### non-vacuity: a history with a rotation, a delete into a closed blob (which registers a deferred dump), close and
restore of the active blob, a restart, a second rotation, `close` / ignored write / `open lazy` -/

namespace C07Link

def ops : List FsOp :=
  [.write 10 5 none ⟨10, 1⟩ false, .write 11 5 none ⟨5000, 2⟩ true, .write 12 6 none ⟨7, 2⟩ false,
   .delete 10 6 none true, .closeActive, .restoreActive, .write 13 7 none ⟨3, 3⟩ false, .restart false]

def more : List FsOp :=
  [.write 12 7 (some (some [1, 2])) ⟨0, 0⟩ true, .delete 11 8 none false, .close, .write 1 1 none ⟨1, 1⟩ false,
   .open true, .settle, .createActive]

end C07Link

section
open C07Link

-- the directory-level history: 8 operations for `ops` (the write after the delete into closed blob 0 carries
-- `dmp = false`: a deferred dump is registered), 5 more for `more` (`close` and the write into the closed storage
-- are no directory-level operation, `open lazy` is the restart)
example : (FsAcct.toAOps true 100 4 true true ops).length = 8 ∧
    (FsAcct.toAOps true 100 4 true true (ops ++ more)).length = 13 := by decide +kernel
-- the listing of `Acct.run`, the replay of the `Fs` trace and the `Fs` counters: blob 0 (closed since the rotation)
-- grows 5237 → 5306 by a deletion marker, blob 1 grows 168 → 256 across the restart
example :
    (Acct.run C07Dir.cfg true (FsAcct.toAOps true 100 4 true true ops)).dir.blobs = [(0, 5237), (1, 168)] ∧
      (Acct.run C07Dir.cfg true (FsAcct.toAOps true 100 4 true true (ops ++ more))).dir.blobs =
        [(0, 5306), (1, 256), (2, 89), (3, 20)] := by decide +kernel
example :
    ((List.range 5).map fun i => dirOfTrace (run true 100 4 true true ops).2 i) =
        [some 5237, some 168, none, none, none] ∧
      ((List.range 5).map fun i => dirOfTrace (run true 100 4 true true (ops ++ more)).2 i) =
        [some 5306, some 256, some 89, some 20, none] ∧
      ((List.range 5).map fun i => ((run true 100 4 true true (ops ++ more)).1.disk.files i).map (·.size)) =
        [some 5306, some 256, some 89, some 20, none] := by decide +kernel
-- index files and their `blob_size` fields, both models (blob 2 got one from `close`, the stale one of blob 0 was
-- replaced by `init`; the empty blob 3 has none)
example :
    ((Acct.run C07Dir.cfg true (FsAcct.toAOps true 100 4 true true (ops ++ more))).dir.idx.map fun p => (p.1, p.2.blobSize)) =
        [(1, 256), (2, 89), (0, 5306)] ∧
      ((List.range 5).map fun i => (run true 100 4 true true (ops ++ more)).1.disk.idx i) =
        [some 5306, some 256, some 89, none, none] := by decide +kernel
-- while the storage is closed the directory model lags by `closeSession`: after `… close` the index file of the active
-- blob 2 exists on the `Fs` disk, in `Acct` only after `closeSession`
example :
    (run true 100 4 true true (ops ++ more.take 3)).1.isOpen = false ∧
      (run true 100 4 true true (ops ++ more.take 3)).1.disk.idx 2 = some 89 ∧
      Acct.get (Acct.run C07Dir.cfg true (FsAcct.toAOps true 100 4 true true (ops ++ more.take 3))).dir.idx 2 = none ∧
      (Acct.get (Acct.closeSession C07Dir.cfg
        (Acct.run C07Dir.cfg true (FsAcct.toAOps true 100 4 true true (ops ++ more.take 3)))).dir.idx 2).map (·.blobSize) =
          some 89 := by decide +kernel
-- ids
example : createdIds (run true 100 4 true true (ops ++ more)).2 = [0, 1, 2, 3] ∧
    (Acct.runG C07Dir.cfg true (FsAcct.toAOps true 100 4 true true (ops ++ more))).created = [0, 1, 2, 3] := by decide +kernel
example := trace_is_complete true 100 4 true true (ops ++ more)
example := fs_acct_same_files C07Dir.cfg true 100 4 true true rfl (ops ++ more)
example := trace_and_directory_agree C07Dir.cfg true 100 4 true true rfl ops more
-- `trace_and_directory_agree` speaks about a proper growth: blob file 1 is 168 bytes long at the earlier time
example : Acct.get (Acct.run C07Dir.cfg true (FsAcct.toAOps true 100 4 true true ops)).dir.blobs 1 = some 168 := by
  decide +kernel

end

/-
NOT YET PROVED (C07):
* trace level (`Fs.run`) and directory level (`Acct.run`) are linked on DAMAGE-FREE histories only (`trace_is_complete`,
  `fs_acct_same_files`, `trace_and_directory_agree`): `Fs` has no operation for damage, quarantine or
  `ignore_corrupted`, so the restarts in the image of `FsAcct.toAOps` are `restart lazy false []`; the rename into
  `corrupted`, the removal of an index file by `remove_index_by_blob_path` and the ids reserved for quarantined files
  have no trace-level counterpart.  The link compares blob-file lengths and the `blob_size` field of index files; `Fs`
  traces index files without lengths, so `Acct.IdxFile.len` (hence `disk_used`) is not compared.  While the storage is
  closed the comparison is with `Acct.closeSession` of the directory-level state (there is no `Acct.AOp` for `close`).
  The rotation flag `rot` of a write is an input of both models (an observation of the implementation), not derived.
  `FsAcct.tr` is a function from trace-level to directory-level histories, not a bijection: a directory-level write whose
  `dmp` flag is not `!deferred` (a rotation while the previous dump task is still running — `Fs` is a model at
  quiescence) and restarts with `ignore_corrupted` set are not in its image.
  `Acct` keeps lengths, not bytes: "moved to `corrupted` intact" is `rename` by construction of the model (the ghost
  map `quar` records the length at the time of the move, and `dir_quarantined_files_untouched` /
  `dir_quarantine_never_replaces` say that nothing replaces or removes the file afterwards); the byte-level statement
  for held blobs is `dir_blob_files_only_grow` (`content` prefix).
* `Acct.stepC` / the ghost log are instrumentation written next to the model (`stepC_st`: same state;
  `dir_created_are_the_new_files`: the logged creations are exactly the new names in the work directory); they are not
  themselves part of the lock-step correspondence.
* failed creations (`Blob::open_new` failing after the file exists) are not an `Acct.AOp`; `dir_failed_creation_harmless`
  proves that such a step keeps `Acct.Inv` and consumes the id, so the invariants hold along histories containing them,
  but the run-level theorems are stated over `Acct.run` only.  The leftover file is modelled as an unreadable file of
  the work directory (ghost list `ignored`).
* crashes between the file operations of one `Acct` step, `cut`/`dflip` damage that leaves a blob readable, and removal
  of files from outside are outside the model (see the list at the end of `Pearl/Props/C15.lean`).
* read-only operations: the directory-level getters are functions of the state (`Acct.report : State → …`), there is
  no `Acct.AOp` for them; "issue no file writes" is the trace-level `queries_emit_nothing` / `queries_transparent`.
-/

end Pearl
