import Pearl.Proofs.FsLemmas
/-
C07: blob files are append-only logs, on the file / trace layer (L6, `Pearl/Model/Fs.lean`).

`Fs.run dup limit klen unc rs ops` = state and trace after `init` on an empty directory and an arbitrary
list of driver-level operations.
-/
namespace Pearl
open Fs

/-- The trace of every run is accepted by the append-only file system `fsAccept`, which refuses every
    event on a blob file except: creation of a file that does not exist, a write at exactly the current
    end of the file, a sync publishing exactly the current size, reopening an existing file; and the
    sizes it ends with are the `size` counters of the model (so the offsets in the trace are the real
    file lengths). -/
theorem blob_events_append_only (dup : Bool) (limit klen : Nat) (unc rs : Bool) (ops : List FsOp) :
    ∃ m, replay (fun _ => none) (run dup limit klen unc rs ops).2 = some m ∧
      ∀ id, m id = ((run dup limit klen unc rs ops).1.disk.files id).map (·.size) :=
  (run_diskInv dup limit klen unc rs ops).replay

/-- spelled out for writes: the offset of every write to a blob file is the size of that file after the
    events before it (no write below the end, no hole) -/
theorem write_at_end_of_file (dup : Bool) (limit klen : Nat) (unc rs : Bool) (ops : List FsOp)
    (id off len : Nat) (pre post : List Event)
    (h : (run dup limit klen unc rs ops).2 = pre ++ Event.write (.blob id) off len :: post) :
    ∃ m, replay (fun _ => none) pre = some m ∧ m id = some off := by
  obtain ⟨mf, hm, _⟩ := blob_events_append_only dup limit klen unc rs ops
  rw [h] at hm
  obtain ⟨m1, m2, h1, h2, _⟩ := replay_split hm
  refine ⟨m1, h1, ?_⟩
  simp only [fsAccept] at h2
  split at h2
  · split at h2
    · subst_vars; assumption
    · cases h2
  · cases h2

/-- spelled out for creations: a blob file is only created under an id that does not exist -/
theorem create_of_new_id (dup : Bool) (limit klen : Nat) (unc rs : Bool) (ops : List FsOp)
    (id : Nat) (pre post : List Event)
    (h : (run dup limit klen unc rs ops).2 = pre ++ Event.create (.blob id) :: post) :
    ∃ m, replay (fun _ => none) pre = some m ∧ m id = none := by
  obtain ⟨mf, hm, _⟩ := blob_events_append_only dup limit klen unc rs ops
  rw [h] at hm
  obtain ⟨m1, m2, h1, h2, _⟩ := replay_split hm
  refine ⟨m1, h1, ?_⟩
  simp only [fsAccept] at h2
  split at h2
  · simpa using ‹(m1 id).isNone = true›
  · cases h2

/-- The `size` counter of every blob file (hence, by `blob_events_append_only`, the offset of the next write
    to it) is the length of the blob's L5 content: the offsets in the trace are byte-exact. -/
theorem file_size_is_content_length (dup : Bool) (limit klen : Nat) (unc rs : Bool) (ops : List FsOp) :
    ∀ b ∈ (run dup limit klen unc rs ops).1.store.blobs,
      ∃ f, (run dup limit klen unc rs ops).1.disk.files b.id = some f ∧ f.size = (content klen b).length := by
  intro b hb
  have h := run_full dup limit klen unc rs ops (b.id, b.recs) (List.mem_map_of_mem (f := fun b => (b.id, b.recs)) hb)
  rw [(run_config dup limit klen unc rs ops).1] at h
  simp only [szOf] at h
  cases hf : (run dup limit klen unc rs ops).1.disk.files b.id with
  | none => rw [hf] at h; cases h
  | some f =>
    rw [hf] at h
    simp only [Option.map_some, Option.some.injEq] at h
    exact ⟨f, rfl, by rw [content_length, h]⟩

/-- The model never drops a file action: `Disk.exec` ignores an action whose file is missing (or, for a
    creation, already there), but on every run every action an operation issues is enabled when it is
    issued. -/
theorem no_action_dropped (dup : Bool) (limit klen : Nat) (unc rs : Bool) (ops : List FsOp) (op : FsOp) :
    ∃ as, (emit (run dup limit klen unc rs ops).1 op).1.disk = ((run dup limit klen unc rs ops).1.disk.runActs as).1 ∧
      (emit (run dup limit klen unc rs ops).1 op).2 = ((run dup limit klen unc rs ops).1.disk.runActs as).2 ∧
      AllEnabled (run dup limit klen unc rs ops).1.disk as :=
  run_enabled dup limit klen unc rs ops op

/-- The byte content of every blob file (L5: `content klen b` = blob header followed by the records of `b`
    with their payloads, `blobBytes`) only grows: along any continuation of a run, every blob is continued
    by a blob with the same id whose file content has the old content as a prefix. -/
theorem content_monotone (dup : Bool) (limit klen : Nat) (unc rs : Bool) (ops more : List FsOp) (k : Nat) :
    ∀ b ∈ (run dup limit klen unc rs ops).1.store.blobs,
      ∃ b' ∈ (run dup limit klen unc rs (ops ++ more)).1.store.blobs,
        b'.id = b.id ∧ content k b <+: content k b' := by
  intro b hb
  rw [run_append]
  obtain ⟨sops, hs⟩ := runFrom_store (run dup limit klen unc rs ops) more
  rw [hs]
  obtain ⟨b', hb', hid, hp⟩ := store_run_log (run_WF' dup limit klen unc rs ops) sops b hb
  exact ⟨b', hb', hid, content_prefix k hp⟩

/-- Queries (`read`, `read_with`, `contains`, `read_all`, `read_all_with_deletion_marker`, counters) are
    functions of the state (`Store.read`, `Store.contains`, `Store.readAll`, … : `Store → …`); as an
    operation a query leaves the state unchanged and emits no file event … -/
theorem queries_emit_nothing (s : FsState) : emit s .query = (s, []) := emit_query s

/-- … so queries can be inserted anywhere in a run without changing its state or its trace. -/
theorem queries_transparent (dup : Bool) (limit klen : Nat) (unc rs : Bool) (ops more : List FsOp) :
    run dup limit klen unc rs (ops ++ .query :: more) = run dup limit klen unc rs (ops ++ more) := by
  rw [run_append, run_append, runFrom_cons, emit_query]
  simp

/-- Blob ids are never reused: the ids of the blob files created during a run are strictly increasing
    in creation order, … -/
theorem ids_never_reused (dup : Bool) (limit klen : Nat) (unc rs : Bool) (ops : List FsOp) :
    (createdIds (run dup limit klen unc rs ops).2).Pairwise (· < ·) :=
  (run_inv dup limit klen unc rs ops).sorted

/-- … every id created by an operation is greater than the id of every blob file present before the
    operation, … -/
theorem created_id_above_existing (dup : Bool) (limit klen : Nat) (unc rs : Bool) (ops : List FsOp) (op : FsOp)
    (id : Nat) (h : id ∈ createdIds (emit (run dup limit klen unc rs ops).1 op).2) :
    ∀ j, ((run dup limit klen unc rs ops).1.disk.files j).isSome → j < id :=
  ((emit_stepOK (run_inv dup limit klen unc rs ops).coh op).created id h).2

/-- … the id used is the store's `nextId` (`next_blob_name`): whenever a program creates a blob file it
    runs `newBlobP`, whose events are create / header / fsync of file `nextId`, … -/
theorem created_id_is_nextId (dup : Bool) (limit klen : Nat) (unc rs : Bool) (ops : List FsOp) (op : Op) :
    (newBlobP op (run dup limit klen unc rs ops).1).2 = hdr3 (run dup limit klen unc rs ops).1.store.nextId := by
  rw [newBlobP_eq (run_inv dup limit klen unc rs ops).coh]

/-- … and every blob file present is below `nextId`. -/
theorem existing_ids_below_nextId (dup : Bool) (limit klen : Nat) (unc rs : Bool) (ops : List FsOp) (j : Nat)
    (h : ((run dup limit klen unc rs ops).1.disk.files j).isSome) :
    j < (run dup limit klen unc rs ops).1.store.nextId :=
  (run_inv dup limit klen unc rs ops).coh.fresh j h

/-! ### non-vacuity -/

def C07Demo.ops : List FsOp :=
  [.write 10 5 none ⟨10, 1⟩ false, .write 11 5 none ⟨5000, 2⟩ false, .closeActive,
   .delete 10 6 none false, .force (fun _ => true), .restart false, .write 12 7 (some (some [1, 2])) ⟨0, 0⟩ true]

-- four blob files are created in that run, with ids 0, 1, 2, 3
example : createdIds (run true 100 4 true true C07Demo.ops).2 = [0, 1, 2, 3] := by decide +kernel
-- the trace contains writes at non-trivial offsets (so `write_at_end_of_file` says something)
example : Event.write (.blob 0) 5168 69 ∈ (run true 100 4 true true C07Demo.ops).2 := by decide +kernel
-- the acceptor does refuse a write below the end of the file and the creation of an existing file
example : replay (fun _ => none) [.create (.blob 0), .write (.blob 0) 0 20, .write (.blob 0) 10 5] = none := by
  decide
example : replay (fun _ => none) [.create (.blob 0), .write (.blob 0) 0 20, .create (.blob 0)] = none := by
  decide
-- content really grows: blob 0 of the demo run is 5237 bytes long after starting with 20
example : (content 4 { id := 0, recs := [] }).length = 20 := by decide +kernel
example : ∃ b ∈ (run true 100 4 true true C07Demo.ops).1.store.blobs, b.id = 0 ∧ b.recs.length = 3 := by
  decide +kernel

end Pearl
