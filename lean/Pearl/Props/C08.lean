import Pearl.Proofs.LtsLemmas
/-
C08 — deadlock clause and the append critical section.

`Pearl.Lts` (see `Pearl/Model/Lts.lean`): `N` writers into a full active blob, the observer channel of
capacity `C` (`OBSERVER_CHANNEL_SIZE_LIMIT = 1024` in `src/storage/observer.rs`), the worker, and the storage
lock `Inner::safe` (tokio `RwLock`, write-preferring).

* `deadlock_witness`      : with `N = C + 2` writers inside the shared section there is a schedule into a state
                            that is not final and has no successor (for `C = 1024`: 1026 writers);
* `no_deadlock_bounded`   : with `N ≤ C + 1` writers every reachable non-final state has a successor;
  so `C + 2` is the exact threshold of the model;
* `rw_exclusion`          : the worker holds the lock exclusively only while nobody holds it shared;
* `ranges_disjoint`, `ranges_disjoint_interleaved`, `written_bytes_intact`, `append_cs_atomic`
                          : the per-blob append section (`Pearl.Append`).
-/
namespace Pearl
namespace C08

open Pearl.Lts Pearl.Append

/-! ## deadlock -/

/-- C08/D1: for every channel capacity `C`, `C + 2` clients that are all inside the shared section of the
    storage lock can be scheduled into a deadlock.  The schedule is `witnessSched C` (built by recursion on
    `C` through `List.range'`), the deadlocked state is `witnessState C`:
    one client blocked in `send` on a full channel while holding the shared lock, the worker queued for the
    exclusive lock with one message in its hands, everybody else gone. -/
theorem deadlock_witness :
    ∀ C : Nat, ∃ (sched : List Label) (s : LState),
      runSched C sched (initInside (C + 2)) = some s ∧ Stuck C s :=
  fun C => ⟨witnessSched C, witnessState C, witnessSched_runs C, witnessState_stuck C⟩

/-- the same, from the state in which no client has asked for the lock yet -/
theorem deadlock_witness_from_start :
    ∀ C : Nat, ∃ (sched : List Label) (s : LState),
      runSched C sched (init (C + 2)) = some s ∧ Stuck C s := by
  intro C
  refine ⟨(List.range' 0 (C + 2)).map .cAcquire ++ witnessSched C, witnessState C, ?_, witnessState_stuck C⟩
  rw [runSched_append, init_to_inside]
  exact witnessSched_runs C

/-- in terms of reachability -/
theorem deadlock_reachable (C : Nat) : ∃ s, Reach C (initInside (C + 2)) s ∧ Stuck C s :=
  ⟨witnessState C, runSched_reach C _ _ _ _ .refl (witnessSched_runs C), witnessState_stuck C⟩

-- non-vacuity: the schedule for `C = 2` (4 clients), step by step, and its last state
example : witnessSched 2 =
    [.cAppend 0, .cAppend 1, .cAppend 2, .cAppend 3, .cSend 0, .cSend 1, .wRecv, .cSend 2,
     .cRelease 0, .cRelease 1, .cRelease 2] := by decide
example : runSched 2 (witnessSched 2) (initInside 4) =
    some { clients := [.done, .done, .done, .send], chan := 2, wpc := .waitWrite, readers := 1,
           writer := .waiting, full := true } := by decide
-- the stuck state is not final, and e.g. the blocked client really cannot send, the worker cannot be granted
example : ¬ final (witnessState 2) := by decide
example : fire 2 (.cSend 3) (witnessState 2) = none ∧ fire 2 .wGrant (witnessState 2) = none := by decide
-- the capacity of the real channel
example : ∃ sched s, runSched 1024 sched (initInside 1026) = some s ∧ Stuck 1024 s := deadlock_witness 1024

/-- C08/D2: with at most `C + 1` clients (all inside the shared section) there is no deadlock: every reachable
    state that is not final has a successor.  (`0 < C`: tokio's `channel(0)` panics; a zero-capacity channel
    in this model never transmits.)

    Invariant (`Lts.Inv`): the shared holders are exactly the clients at `append`/`send`/`release`, and
    `chan + (1 if the worker has a message in its hands) ≤ #release + #done` — a message exists only if its
    sender is past `send`.  A blocked sender therefore sees `chan + busy ≤ N - 1 ≤ C`: either the channel has
    room, or the worker is in `recv` with a non-empty channel. -/
theorem no_deadlock_bounded (C N : Nat) (hC : 0 < C) (hN : N ≤ C + 1) (s : LState)
    (hreach : Reach C (initInside N) s) (hnf : ¬ final s) : ∃ s', Step C s s' :=
  progress (inv_reach (inv_initInside N) hreach) hC hN hnf

theorem no_stuck_bounded (C N : Nat) (hC : 0 < C) (hN : N ≤ C + 1) (s : LState)
    (hreach : Reach C (initInside N) s) : ¬ Stuck C s := by
  rintro ⟨hnf, hno⟩
  obtain ⟨s', hs⟩ := no_deadlock_bounded C N hC hN s hreach hnf
  exact hno s' hs

/-- the same when the clients have yet to take the shared lock (late readers queue behind the writer) -/
theorem no_deadlock_bounded_from_start (C N : Nat) (hC : 0 < C) (hN : N ≤ C + 1) (s : LState)
    (hreach : Reach C (init N) s) (hnf : ¬ final s) : ∃ s', Step C s s' :=
  progress (inv_reach (inv_init N) hreach) hC hN hnf

-- non-vacuity: `C = 2`, `N = 3`; the prefix of the witness schedule that fits is executable, its end is a
-- reachable non-final state, and the theorem's successor exists (here: the worker is granted the lock
-- after the last client has sent and left)
example : runSched 2 [.cAppend 0, .cAppend 1, .cAppend 2, .cSend 0, .cSend 1, .wRecv, .cSend 2,
      .cRelease 0, .cRelease 1, .cRelease 2, .wGrant, .wSwitch, .wRecv, .wRecv] (initInside 3) =
    some { clients := [.done, .done, .done], chan := 0, wpc := .recv, readers := 0, writer := .idle,
           full := false } := by decide
example : final { clients := [.done, .done, .done], chan := 0, wpc := .recv, readers := 0, writer := .idle,
                  full := false } := by decide
example : ∃ s, Reach 2 (initInside 3) s ∧ ¬ final s :=
  ⟨initInside 3, .refl, by decide⟩
-- the threshold is exact: `N = C + 1` is safe, `N = C + 2` is not
example (C : Nat) (hC : 0 < C) :
    (∀ s, Reach C (initInside (C + 1)) s → ¬ Stuck C s) ∧ (∃ s, Reach C (initInside (C + 2)) s ∧ Stuck C s) :=
  ⟨fun s h => no_stuck_bounded C (C + 1) hC (Nat.le_refl _) s h, deadlock_reachable C⟩

/-- the lock is a lock: in every reachable state (any number of clients) the worker is inside its exclusive
    section only while no client is inside the shared one, and the readers count is exactly the number of
    clients between `acquire` and `release` -/
theorem rw_exclusion (C N : Nat) (s : LState) (hreach : Reach C (init N) s) :
    (s.writer = .holding → s.readers = 0) ∧
    s.readers = s.clients.count .append + s.clients.count .send + s.clients.count .release := by
  have hi := inv_reach (inv_init N) hreach
  refine ⟨?_, hi.readers⟩
  intro hw
  apply hi.excl
  have := hi.writer
  cases hwp : s.wpc <;> simp [hwp, writerOf, hw] at this ⊢

-- non-vacuity: a reachable state in which the worker does hold the lock
example : (runSched 1 [.cAcquire 0, .cAppend 0, .cSend 0, .wRecv, .cRelease 0, .wGrant] (init 1)).map (·.writer)
    = some .holding := by decide

/-! ## the append critical section -/

/-- C08/A1 (`ranges_disjoint`): offsets reserved by successive `fetch_add len` on the file size, starting from
    any size and for any lengths, give ranges `[off, off + len)` that are pairwise disjoint — they are laid out
    one after the other in the order the atomic operations took effect, start at or after the old size, and
    end at the new size. -/
theorem ranges_disjoint (size : Nat) (lens : List Nat) :
    (reserveAll size lens).Pairwise Range.Disjoint ∧
    (reserveAll size lens).Pairwise (fun a b => a.stop ≤ b.off) ∧
    (∀ r ∈ reserveAll size lens, size ≤ r.off ∧ r.stop ≤ size + lens.sum) ∧
    (reserveAll size lens).map (·.len) = lens := by
  refine ⟨?_, reserveAll_sorted lens size, ?_, reserveAll_lens lens size⟩
  · exact (reserveAll_sorted lens size).imp (fun h => Or.inl h)
  · intro r hr
    exact ⟨reserveAll_off_ge lens size r hr, reserveAll_stop_le lens size r hr⟩

-- non-vacuity
example : reserveAll 100 [10, 0, 5] = [⟨100, 10⟩, ⟨110, 0⟩, ⟨110, 5⟩] := by decide
example : ¬ Range.Disjoint ⟨100, 10⟩ ⟨105, 10⟩ := by simp [Range.Disjoint, Range.stop]

/-- C08/A2: for ANY interleaving of the writers' steps (lock, `fetch_add`, `write_all_at`, unlock), with or
    without the upgradable lock, the ranges owned by different writers never share a byte, and every range
    lies inside the file -/
theorem ranges_disjoint_interleaved (useLock : Bool) (size : Nat) (lens : List Nat) (s : AState)
    (hreach : AReach useLock (ainit size lens) s) :
    (∀ i j ri rj, i ≠ j → rng s.ws i = some ri → rng s.ws j = some rj → ri.Disjoint rj) ∧
    (∀ i r, rng s.ws i = some r → r.stop ≤ s.size) :=
  let h := ainv_reach (ainv_init size lens) hreach
  ⟨h.disj, h.bound⟩

/-- C08/A3: records never overlap in the file: once a writer's bytes have landed (`written` / `done`) every
    byte of its range still carries its mark, whatever the other writers did since; and every byte in the file
    lies in the range of the writer that wrote it -/
theorem written_bytes_intact (useLock : Bool) (size : Nat) (lens : List Nat) (s : AState)
    (hreach : AReach useLock (ainit size lens) s) :
    (∀ i pc r, s.ws[i]? = some pc → pc.landed = some r → ∀ o, r.off ≤ o → o < r.stop → s.file o = some i) ∧
    (∀ o i, s.file o = some i → ∃ r, rng s.ws i = some r ∧ r.off ≤ o ∧ o < r.stop) :=
  let h := ainv_reach (ainv_init size lens) hreach
  ⟨h.intact, h.own⟩

/-- C08/A4 (`append_cs_atomic`): under the upgradable lock at most one writer is between `lock` and `unlock`
    (so reservation order = file order = index push order), and whoever is inside holds the lock -/
theorem append_cs_atomic (size : Nat) (lens : List Nat) (s : AState)
    (hreach : AReach true (ainit size lens) s) :
    (∀ (i j : Nat) (pi pj : APc), s.ws[i]? = some pi → s.ws[j]? = some pj →
        pi.inCs = true → pj.inCs = true → i = j) ∧
    (∀ (i : Nat) (pi : APc), s.ws[i]? = some pi → pi.inCs = true → s.locked = true) :=
  let h := aexcl_reach (aexcl_init size lens) hreach
  ⟨h.one, h.held⟩

/-- run a schedule of the append system -/
def arun (useLock : Bool) : List ALabel → AState → Option AState
  | [], s => some s
  | l :: ls, s => match afire useLock l s with
    | some s' => arun useLock ls s'
    | none => none

theorem arun_reach (ul : Bool) (sched : List ALabel) (s0 s s' : AState)
    (h0 : AReach ul s0 s) (h : arun ul sched s = some s') : AReach ul s0 s' := by
  induction sched generalizing s with
  | nil => simp [arun] at h; subst h; exact h0
  | cons l ls ih =>
    simp only [arun] at h
    cases hf : afire ul l s with
    | none => simp [hf] at h
    | some s1 => simp only [hf] at h; exact ih s1 (.step h0 ⟨l, hf⟩) h

-- non-vacuity: without the lock two writers interleave `reserve`/`write` in opposite orders; their ranges are
-- different and disjoint, and the file carries both marks
example :
    ((arun false [.lock 0, .lock 1, .reserve 1, .reserve 0, .write 0, .write 1] (ainit 7 [3, 2])).map
      (fun s => (s.size, s.ws, [s.file 7, s.file 8, s.file 9, s.file 10, s.file 11, s.file 12]))) =
    some (12, [.written ⟨9, 3⟩, .written ⟨7, 2⟩], [some 1, some 1, some 0, some 0, some 0, none]) := by decide
-- with the lock the second writer cannot enter while the first is inside …
example : (arun true [.lock 0, .lock 1] (ainit 7 [3, 2])).isNone = true := by decide
-- … and can after it left
example : ((arun true [.lock 0, .reserve 0, .write 0, .unlock 0, .lock 1, .reserve 1] (ainit 7 [3, 2])).map
      (fun s => (s.locked, s.ws))) = some (true, [.done ⟨7, 3⟩, .reserved ⟨10, 2⟩]) := by decide

end C08
end Pearl
