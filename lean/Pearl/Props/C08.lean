import Pearl.Proofs.LtsLemmas
import Pearl.Proofs.ConcRW
/-
C08 — deadlock clause, the append critical section, and (second half of the file) the read side:
freshness, no lost acknowledged write, equality with the sequential model, linearization points.

`Pearl.Lts` (see `Pearl/Model/Lts.lean`): `N` writers into a full active blob, the observer channel of
capacity `C` (`OBSERVER_CHANNEL_SIZE_LIMIT = 1024` in `src/storage/observer.rs`), the worker, and the storage
lock `Inner::safe` (tokio `RwLock`, write-preferring).  The client program has a protocol parameter:

* `Proto.sendUnderLock`    — /repo up to eb0e048: `send` on the bounded channel while the shared lock is held;
* `Proto.sendAfterRelease` — /repo since fe5e781 (`CURRENT`): decide under the lock, `drop(safe)`, then `send`.

The code as it is (`sendAfterRelease`):
* `no_deadlock`            : for EVERY number of writers, every reachable non-final state has a successor;
* `all_clients_finish`     : from every reachable state some finite schedule reaches a final state;
* `every_run_is_finite`    : every step decreases `Lts.measure`, so no schedule from `init N` is longer than `16·N`
                             (holds for both protocols);
* `old_deadlock_unreachable` : the deadlocked state of the old protocol is not reachable any more.

The pinned code (`sendUnderLock`), kept as the record of the defect:
* `deadlock_witness_before_fix`    : with `N = C + 2` writers inside the shared section there is a schedule into a
                                     state that is not final and has no successor (`C = 1024`: 1026 writers);
* `no_deadlock_bounded_before_fix` : with `N ≤ C + 1` writers every reachable non-final state has a successor;
  so `C + 2` was the exact threshold.

Independent of the protocol:
* `rw_exclusion`          : the worker holds the lock exclusively only while nobody holds it shared;
* `ranges_disjoint`, `ranges_disjoint_interleaved`, `written_bytes_intact`, `append_cs_atomic`
                          : the per-blob append section (`Pearl.Append`, which does not mention `Proto`).

The data path (`Pearl.ConcRW`, `Pearl/Model/ConcRW.lean`: `N` clients doing `write | read | contains | delete` in
the atomic steps of the code over the L2 `Store`, with rotation and index dumps; helper lemmas and the invariants
`Inv`, `TInv`, `HInv`, `DInv`, `BInv` in `Pearl/Proofs/ConcRW.lean`).  For every reachable state, every `N`:
* `read_returns_written`   : a completed read never returns a torn or foreign value;
* `read_fresh` (`_ts`, `_found`, `contains_fresh`) : never older (in rank) than a write acknowledged before it
                             started; never `NotFound` then; with deletes: the first-ranked record decides;
* `no_lost_ack`, `acked_write_readable`, `skipped_write_saw_live` : acknowledged records stay, at their place;
* `store_eq_replay`, `equals_sequential_partial`, `quiescent_equals_sequential_partial`,
  `quiescent_equals_sequential` : the store is the sequential model on the linearization order;
* `real_time_order`, `linearizable_partial` : explicit linearization points; reads atomic when nobody deletes;
* `blob_lock_exclusive`, `client_progress`, `client_steps_bounded` : locks of the data path, no deadlock;
* FALSE in general, with witnesses: `read_not_linearizable_with_delete`, `duplicate_check_race`,
  `delete_phase_race`.
-/
namespace Pearl
namespace C08

open Pearl.Lts Pearl.Append

/-- the protocol of the shipped code -/
abbrev CURRENT : Proto := .sendAfterRelease

/-! ## the code as it is: no deadlock, for any number of writers -/

/-- C08/D1: under `sendAfterRelease`, for every channel capacity `C > 0` and EVERY number `N` of clients, every
    reachable state that is not final has a successor.

    Invariants: `Lts.Inv` (the shared holders are exactly the clients at `append`/`send`/`release`/`relSend`;
    the writer side of the lock mirrors the worker's program counter) and "no client is at `send`"
    (`noSend_reach`: nobody waits on the channel with the lock in hand).  So whoever holds the lock shared can
    always move, the readers drain, the worker is granted the lock; senders wait outside the lock and the
    worker in `recv` empties the channel for them. -/
theorem no_deadlock (C N : Nat) (hC : 0 < C) (s : LState)
    (hreach : Reach CURRENT C (init N) s) (hnf : ¬ final s) : ∃ s', Step CURRENT C s s' :=
  progress_free (inv_reach (inv_init N) hreach) (noSend_reach (noSend_init N) hreach) hC hnf

/-- the same from the state in which all clients already hold the lock shared (the starting point of the old
    deadlock) -/
theorem no_deadlock_inside (C N : Nat) (hC : 0 < C) (s : LState)
    (hreach : Reach CURRENT C (initInside N) s) (hnf : ¬ final s) : ∃ s', Step CURRENT C s s' :=
  progress_free (inv_reach (inv_initInside N) hreach) (noSend_reach (noSend_initInside N) hreach) hC hnf

theorem no_stuck (C N : Nat) (hC : 0 < C) (s : LState) (hreach : Reach CURRENT C (init N) s) :
    ¬ Stuck CURRENT C s := by
  rintro ⟨hnf, hno⟩
  obtain ⟨s', hs⟩ := no_deadlock C N hC s hreach hnf
  exact hno s' hs

/-- C08/D2 (termination measure, both protocols): every step decreases `Lts.measure`; hence a schedule that
    is executable from `s` has at most `measure s` steps -/
theorem every_step_decreases (proto : Proto) (C : Nat) (s s' : LState) (h : Step proto C s s') :
    Lts.measure s' < Lts.measure s := measure_step h

theorem measure_init (N : Nat) : Lts.measure (init N) = 16 * N := by
  simp [Lts.measure, init, CPc.weight, WPc.weight, Nat.mul_comm]

theorem every_run_is_finite (proto : Proto) (C N : Nat) (sched : List Label) (s' : LState)
    (h : runSched proto C sched (init N) = some s') : sched.length ≤ 16 * N := by
  have := runSched_length_le sched (init N) s' h
  rw [measure_init] at this
  omega

/-- C08/D3: under `sendAfterRelease` every reachable state can be run to a final state: all clients done, the
    channel empty, the worker back in `recv` -/
theorem all_clients_finish (C N : Nat) (hC : 0 < C) (s : LState) (hreach : Reach CURRENT C (init N) s) :
    ∃ (sched : List Label) (s' : LState), runSched CURRENT C sched s = some s' ∧ final s' :=
  finish_of_progress (fun t => Reach CURRENT C (init N) t)
    (fun _ _ ht hs => .step ht hs)
    (fun t ht hnf => no_deadlock C N hC t ht hnf)
    (Lts.measure s) s (Nat.le_refl _) hreach

theorem all_clients_finish_inside (C N : Nat) (hC : 0 < C) (s : LState)
    (hreach : Reach CURRENT C (initInside N) s) :
    ∃ (sched : List Label) (s' : LState), runSched CURRENT C sched s = some s' ∧ final s' :=
  finish_of_progress (fun t => Reach CURRENT C (initInside N) t)
    (fun _ _ ht hs => .step ht hs)
    (fun t ht hnf => no_deadlock_inside C N hC t ht hnf)
    (Lts.measure s) s (Nat.le_refl _) hreach

/-- … and a run that cannot be continued has reached a final state: no execution ends anywhere else -/
theorem maximal_run_is_final (C N : Nat) (hC : 0 < C) (sched : List Label) (s : LState)
    (hrun : runSched CURRENT C sched (init N) = some s) (hmax : ∀ s', ¬ Step CURRENT C s s') : final s := by
  have hreach := runSched_reach CURRENT C sched (init N) (init N) s .refl hrun
  by_cases hf : final s
  · exact hf
  · obtain ⟨s', hs⟩ := no_deadlock C N hC s hreach hf
    exact absurd hs (hmax s')

/-- the deadlocked state of the old protocol cannot be reached any more -/
theorem old_deadlock_unreachable (C N : Nat) : ¬ Reach CURRENT C (initInside N) (witnessState C) := by
  intro h
  have := noSend_reach (noSend_initInside N) h
  apply this
  cases C <;> simp [witnessState]

-- non-vacuity: the workload of the old deadlock (`C = 2`, 4 writers into a full blob, everybody inside the
-- shared section) now runs to the end; the first prefix is the state in which the old protocol was stuck
-- in spirit: channel full, worker queued for the lock — but the blocked senders hold no lock
example : runSched CURRENT 2
      [.cAppend 0, .cAppend 1, .cAppend 2, .cAppend 3, .cRelease 0, .cRelease 1, .cRelease 2, .cSend 0, .cSend 1,
       .wRecv, .cSend 2] (initInside 4) =
    some { clients := [.done, .done, .done, .relSend], chan := 2, wpc := .waitWrite, readers := 1,
           writer := .waiting, full := true } := by decide
example : runSched CURRENT 2
      [.cAppend 0, .cAppend 1, .cAppend 2, .cAppend 3, .cRelease 0, .cRelease 1, .cRelease 2, .cSend 0, .cSend 1,
       .wRecv, .cSend 2, .cRelease 3, .wGrant, .wSwitch, .wRecv, .cSend 3, .wRecv, .wRecv] (initInside 4) =
    some { clients := [.done, .done, .done, .done], chan := 0, wpc := .recv, readers := 0,
           writer := .idle, full := false } := by decide
example : final { clients := [.done, .done, .done, .done], chan := 0, wpc := .recv, readers := 0,
                  writer := .idle, full := false } := by decide
-- a reachable non-final state exists (so `no_deadlock` says something), here with far more writers than slots
example : ∃ s, Reach CURRENT 1 (init 5) s ∧ ¬ final s := ⟨init 5, .refl, by decide⟩
-- the real channel, more writers than in the replayed hang (1100) and in the repaired run (3000)
example (s : LState) (h : Reach CURRENT 1024 (init 3000) s) : ¬ Stuck CURRENT 1024 s :=
  no_stuck 1024 3000 (by decide) s h
example : Lts.measure (initInside 4) = 48 ∧ Lts.measure (init 4) = 64 := by decide

/-! ## the pinned code (`sendUnderLock`): the deadlock, kept as the record of the defect -/

/-- for every channel capacity `C`, `C + 2` clients that are all inside the shared section of the storage lock
    can be scheduled into a deadlock.  The schedule is `witnessSched C` (built by recursion on `C` through
    `List.range'`), the deadlocked state is `witnessState C`: one client blocked in `send` on a full channel
    while holding the shared lock, the worker queued for the exclusive lock with one message in its hands,
    everybody else gone. -/
theorem deadlock_witness_before_fix :
    ∀ C : Nat, ∃ (sched : List Label) (s : LState),
      runSched .sendUnderLock C sched (initInside (C + 2)) = some s ∧ Stuck .sendUnderLock C s :=
  fun C => ⟨witnessSched C, witnessState C, witnessSched_runs C, witnessState_stuck .sendUnderLock C⟩

/-- the same, from the state in which no client has asked for the lock yet -/
theorem deadlock_witness_from_start_before_fix :
    ∀ C : Nat, ∃ (sched : List Label) (s : LState),
      runSched .sendUnderLock C sched (init (C + 2)) = some s ∧ Stuck .sendUnderLock C s := by
  intro C
  refine ⟨(List.range' 0 (C + 2)).map .cAcquire ++ witnessSched C, witnessState C, ?_,
    witnessState_stuck .sendUnderLock C⟩
  rw [runSched_append, init_to_inside]
  exact witnessSched_runs C

/-- in terms of reachability -/
theorem deadlock_reachable_before_fix (C : Nat) :
    ∃ s, Reach .sendUnderLock C (initInside (C + 2)) s ∧ Stuck .sendUnderLock C s :=
  ⟨witnessState C, runSched_reach .sendUnderLock C _ _ _ _ .refl (witnessSched_runs C),
    witnessState_stuck .sendUnderLock C⟩

-- non-vacuity: the schedule for `C = 2` (4 clients), step by step, and its last state
example : witnessSched 2 =
    [.cAppend 0, .cAppend 1, .cAppend 2, .cAppend 3, .cSend 0, .cSend 1, .wRecv, .cSend 2,
     .cRelease 0, .cRelease 1, .cRelease 2] := by decide
example : runSched .sendUnderLock 2 (witnessSched 2) (initInside 4) =
    some { clients := [.done, .done, .done, .send], chan := 2, wpc := .waitWrite, readers := 1,
           writer := .waiting, full := true } := by decide
-- the stuck state is not final, and e.g. the blocked client really cannot send, the worker cannot be granted
example : ¬ final (witnessState 2) := by decide
example : fire .sendUnderLock 2 (.cSend 3) (witnessState 2) = none ∧
    fire .sendUnderLock 2 .wGrant (witnessState 2) = none := by decide
-- the capacity of the real channel
example : ∃ sched s, runSched .sendUnderLock 1024 sched (initInside 1026) = some s ∧ Stuck .sendUnderLock 1024 s :=
  deadlock_witness_before_fix 1024

/-- with at most `C + 1` clients (all inside the shared section) the old protocol had no deadlock: every
    reachable state that is not final has a successor.  (`0 < C`: tokio's `channel(0)` panics; a zero-capacity
    channel in this model never transmits.)

    Invariant (`Lts.Inv`): `chan + (1 if the worker has a message in its hands) ≤ #release + #done` — a message
    exists only if its sender is past `send`.  A blocked sender therefore sees `chan + busy ≤ N - 1 ≤ C`: either
    the channel has room, or the worker is in `recv` with a non-empty channel. -/
theorem no_deadlock_bounded_before_fix (C N : Nat) (hC : 0 < C) (hN : N ≤ C + 1) (s : LState)
    (hreach : Reach .sendUnderLock C (initInside N) s) (hnf : ¬ final s) : ∃ s', Step .sendUnderLock C s s' :=
  progress (inv_reach (inv_initInside N) hreach) hC hN hnf

theorem no_stuck_bounded_before_fix (C N : Nat) (hC : 0 < C) (hN : N ≤ C + 1) (s : LState)
    (hreach : Reach .sendUnderLock C (initInside N) s) : ¬ Stuck .sendUnderLock C s := by
  rintro ⟨hnf, hno⟩
  obtain ⟨s', hs⟩ := no_deadlock_bounded_before_fix C N hC hN s hreach hnf
  exact hno s' hs

/-- the same when the clients have yet to take the shared lock (late readers queue behind the writer) -/
theorem no_deadlock_bounded_from_start_before_fix (C N : Nat) (hC : 0 < C) (hN : N ≤ C + 1) (s : LState)
    (hreach : Reach .sendUnderLock C (init N) s) (hnf : ¬ final s) : ∃ s', Step .sendUnderLock C s s' :=
  progress (inv_reach (inv_init N) hreach) hC hN hnf

-- non-vacuity: `C = 2`, `N = 3` runs to the end under the old protocol
example : runSched .sendUnderLock 2 [.cAppend 0, .cAppend 1, .cAppend 2, .cSend 0, .cSend 1, .wRecv, .cSend 2,
      .cRelease 0, .cRelease 1, .cRelease 2, .wGrant, .wSwitch, .wRecv, .wRecv] (initInside 3) =
    some { clients := [.done, .done, .done], chan := 0, wpc := .recv, readers := 0, writer := .idle,
           full := false } := by decide
example : ∃ s, Reach .sendUnderLock 2 (initInside 3) s ∧ ¬ final s :=
  ⟨initInside 3, .refl, by decide⟩
-- the threshold was exact: `N = C + 1` safe, `N = C + 2` not
example (C : Nat) (hC : 0 < C) :
    (∀ s, Reach .sendUnderLock C (initInside (C + 1)) s → ¬ Stuck .sendUnderLock C s) ∧
    (∃ s, Reach .sendUnderLock C (initInside (C + 2)) s ∧ Stuck .sendUnderLock C s) :=
  ⟨fun s h => no_stuck_bounded_before_fix C (C + 1) hC (Nat.le_refl _) s h, deadlock_reachable_before_fix C⟩

/-! ## independent of the protocol -/

/-- the lock is a lock: in every reachable state (either protocol, any number of clients) the worker is inside
    its exclusive section only while no client is inside the shared one, and the readers count is exactly the
    number of clients between `acquire` and `release` -/
theorem rw_exclusion (proto : Proto) (C N : Nat) (s : LState) (hreach : Reach proto C (init N) s) :
    (s.writer = .holding → s.readers = 0) ∧
    s.readers = s.clients.count .append + s.clients.count .send + s.clients.count .release +
      s.clients.count .relSend := by
  have hi := inv_reach (inv_init N) hreach
  refine ⟨?_, hi.readers⟩
  intro hw
  apply hi.excl
  have := hi.writer
  cases hwp : s.wpc <;> simp [hwp, writerOf, hw] at this ⊢

-- non-vacuity: a reachable state in which the worker does hold the lock, under each protocol
example : (runSched .sendUnderLock 1 [.cAcquire 0, .cAppend 0, .cSend 0, .wRecv, .cRelease 0, .wGrant] (init 1)).map
    (·.writer) = some .holding := by decide
example : (runSched .sendAfterRelease 1 [.cAcquire 0, .cAppend 0, .cRelease 0, .cSend 0, .wRecv, .wGrant] (init 1)).map
    (·.writer) = some .holding := by decide
-- writer preference: while the worker waits, a late client cannot take the lock shared
example : (runSched .sendAfterRelease 1 [.cAcquire 0, .cAppend 0, .cRelease 0, .cSend 0, .cAcquire 1, .wRecv]
      (init 3)).bind (fire .sendAfterRelease 1 (.cAcquire 2)) = none := by decide

/-! ## the append critical section -/

/-- C08/A1 (`ranges_disjoint`): offsets reserved by successive `fetch_add len` on the file size, starting from
    any size and for any lengths, give ranges `[off, off + len)` that are pairwise disjoint — they are laid out
    one after the other in the order the atomic operations took effect, start at or after the old size, and
    end at the new size. -/
theorem ranges_disjoint (size : Nat) (lens : List Nat) :
    (reserveAll size lens).Pairwise Range.Disjoint ∧
    (reserveAll size lens).Pairwise (fun a b => a.stop ≤ b.off) ∧
    (∀ r ∈ reserveAll size lens, size ≤ r.off ∧ r.stop ≤ size + lens.sum) ∧
    (reserveAll size lens).map (·.len) = lens := by
  refine ⟨?_, reserveAll_sorted lens size, ?_, reserveAll_lens lens size⟩
  · exact (reserveAll_sorted lens size).imp (fun h => Or.inl h)
  · intro r hr
    exact ⟨reserveAll_off_ge lens size r hr, reserveAll_stop_le lens size r hr⟩

-- non-vacuity
example : reserveAll 100 [10, 0, 5] = [⟨100, 10⟩, ⟨110, 0⟩, ⟨110, 5⟩] := by decide
example : ¬ Range.Disjoint ⟨100, 10⟩ ⟨105, 10⟩ := by simp [Range.Disjoint, Range.stop]

/-- C08/A2: for ANY interleaving of the writers' steps (lock, `fetch_add`, `write_all_at`, unlock), with or
    without the upgradable lock, the ranges owned by different writers never share a byte, and every range
    lies inside the file -/
theorem ranges_disjoint_interleaved (useLock : Bool) (size : Nat) (lens : List Nat) (s : AState)
    (hreach : AReach useLock (ainit size lens) s) :
    (∀ i j ri rj, i ≠ j → rng s.ws i = some ri → rng s.ws j = some rj → ri.Disjoint rj) ∧
    (∀ i r, rng s.ws i = some r → r.stop ≤ s.size) :=
  let h := ainv_reach (ainv_init size lens) hreach
  ⟨h.disj, h.bound⟩

/-- C08/A3: records never overlap in the file: once a writer's bytes have landed (`written` / `done`) every
    byte of its range still carries its mark, whatever the other writers did since; and every byte in the file
    lies in the range of the writer that wrote it -/
theorem written_bytes_intact (useLock : Bool) (size : Nat) (lens : List Nat) (s : AState)
    (hreach : AReach useLock (ainit size lens) s) :
    (∀ i pc r, s.ws[i]? = some pc → pc.landed = some r → ∀ o, r.off ≤ o → o < r.stop → s.file o = some i) ∧
    (∀ o i, s.file o = some i → ∃ r, rng s.ws i = some r ∧ r.off ≤ o ∧ o < r.stop) :=
  let h := ainv_reach (ainv_init size lens) hreach
  ⟨h.intact, h.own⟩

/-- C08/A4 (`append_cs_atomic`): under the upgradable lock at most one writer is between `lock` and `unlock`
    (so reservation order = file order = index push order), and whoever is inside holds the lock -/
theorem append_cs_atomic (size : Nat) (lens : List Nat) (s : AState)
    (hreach : AReach true (ainit size lens) s) :
    (∀ (i j : Nat) (pi pj : APc), s.ws[i]? = some pi → s.ws[j]? = some pj →
        pi.inCs = true → pj.inCs = true → i = j) ∧
    (∀ (i : Nat) (pi : APc), s.ws[i]? = some pi → pi.inCs = true → s.locked = true) :=
  let h := aexcl_reach (aexcl_init size lens) hreach
  ⟨h.one, h.held⟩

/-- run a schedule of the append system -/
def arun (useLock : Bool) : List ALabel → AState → Option AState
  | [], s => some s
  | l :: ls, s => match afire useLock l s with
    | some s' => arun useLock ls s'
    | none => none

theorem arun_reach (ul : Bool) (sched : List ALabel) (s0 s s' : AState)
    (h0 : AReach ul s0 s) (h : arun ul sched s = some s') : AReach ul s0 s' := by
  induction sched generalizing s with
  | nil => simp [arun] at h; subst h; exact h0
  | cons l ls ih =>
    simp only [arun] at h
    cases hf : afire ul l s with
    | none => simp [hf] at h
    | some s1 => simp only [hf] at h; exact ih s1 (.step h0 ⟨l, hf⟩) h

-- non-vacuity: without the lock two writers interleave `reserve`/`write` in opposite orders; their ranges are
-- different and disjoint, and the file carries both marks
example :
    ((arun false [.lock 0, .lock 1, .reserve 1, .reserve 0, .write 0, .write 1] (ainit 7 [3, 2])).map
      (fun s => (s.size, s.ws, [s.file 7, s.file 8, s.file 9, s.file 10, s.file 11, s.file 12]))) =
    some (12, [.written ⟨9, 3⟩, .written ⟨7, 2⟩], [some 1, some 1, some 0, some 0, some 0, none]) := by decide
-- with the lock the second writer cannot enter while the first is inside …
example : (arun true [.lock 0, .lock 1] (ainit 7 [3, 2])).isNone = true := by decide
-- … and can after it left
example : ((arun true [.lock 0, .reserve 0, .write 0, .unlock 0, .lock 1, .reserve 1] (ainit 7 [3, 2])).map
      (fun s => (s.locked, s.ws))) = some (true, [.done ⟨7, 3⟩, .reserved ⟨10, 2⟩]) := by decide


/-! ## concurrent reads, writes, probes and deletes (`Pearl.ConcRW`, `Pearl/Model/ConcRW.lean`)

`N` clients, one operation each (`write k ts d | read k | contains k | delete k ts oip`), split into the atomic
steps of the code, over the L2 store; a worker that rotates the active blob whenever nobody holds the storage
lock shared, and dumps indexes at any time.  All theorems are for every reachable state = every schedule, every
`N`, every starting store that is well-formed and has an active blob.

What was found in `/repo` (fe5e781) while building the model:
* a read keeps ONE shared guard of `Inner::safe` over both look-ups and the data load
  (`read_with_optional_meta`: `let safe = self.inner.safe.read().await; get_latest_entry(&safe, ..)`, guard dropped
  at return), and rotation needs `safe.write()`: no rotation inside a read.  But the read is not a snapshot: the
  guard of the active blob (`ablob.read().await`) is a temporary dropped before `safe.blobs.read().await`; a
  writer (`upgradable_read`) or deleter (`active_blob.write()`, `blobs.write()`) gets in between.
  Freshness (`read_fresh`) survives this; linearizability does not (`read_not_linearizable_with_delete`).
* `write_with_optional_meta` checks for a duplicate under its own guard (`contains_with`) and appends under a
  second one: with `allow_duplicates = false` two concurrent writes of one key are both stored
  (`duplicate_check_race`).
* `delete_core` marks the active blob, releases its lock, then takes `blobs.write()`: two deletes can pass each
  other between the phases (`delete_phase_race`).
-/

open ConcRW (COp Resp Ev Client CState Wit InStore AckedBefore LinBefore wrec)

/-- C08/R1 (`read_returns_written`): in every reachable state, for every schedule and any number of clients, a
    completed `read k` answers with a `ReadResult` (never `torn`: the bytes a found header points to are in the
    file), and if it is `Found r` then `r` is a live record of key `k` that the store holds, and it was either in
    the store from the start or is exactly the record `wrec k ts d` of a client `j` whose operation is
    `write k ts d` and which has pushed it (`Ev.push j r` is in the trace). -/
theorem read_returns_written {st : Store} {ops : List COp} {s : CState} (hwf : st.WF)
    (ha : ∃ a, st.active = some a) (hr : ConcRW.Reach (ConcRW.init st ops) s)
    {i : Nat} {c : Client} {k : Key} {resp : Resp}
    (hc : s.clients[i]? = some c) (hop : c.op = .read k) (hd : c.pc = .done resp) :
    ∃ res, resp = .value res ∧
      ∀ r, res = .found r →
        r.key = k ∧ r.del = false ∧ r ∈ s.landed ∧ InStore s.store r ∧
          (InStore st r ∨
            ∃ j ts d, ops[j]? = some (COp.write k ts d) ∧ r = wrec k ts d ∧ Ev.push j r ∈ s.trace) := by
  obtain ⟨a, ha⟩ := ha
  obtain ⟨hi, ht⟩ := ConcRW.tinv_reach hwf ha hr
  have hok := ConcRW.done_respOK hi hc hd
  cases resp with
  | value res =>
    refine ⟨res, rfl, ?_⟩
    rintro r rfl
    obtain ⟨_, hres, hland⟩ := hok
    obtain ⟨q, hq1, hq2, hq3, hq4⟩ := hres.1 (by simp)
    rw [hop] at hq2
    have hin : InStore s.store r := by rw [← hq3]; exact ConcRW.inStore_of_positioned hq1
    have hk : r.key = k := by rw [← hq3]; exact hq2
    refine ⟨hk, hq4, hland r rfl, hin, ?_⟩
    rcases ht.prov r hin hq4 with h1 | ⟨j, h1⟩
    · exact Or.inl h1
    · obtain ⟨k', ts, d, h2, h3⟩ := ht.push j r h1
      have : k' = k := by rw [h3] at hk; exact hk
      subst this
      exact Or.inr ⟨j, ts, d, h2, h3, h1⟩
  | torn => exact absurd hok id
  | has x => obtain ⟨⟨k', hk'⟩, _⟩ := hok; rw [hop] at hk'; cases hk'
  | wrote p =>
    cases p with
    | none => obtain ⟨⟨k', ts, d, hk'⟩, _⟩ := hok; rw [hop] at hk'; cases hk'
    | some p => obtain ⟨_, k', ts, d, hk', _⟩ := hok; rw [hop] at hk'; cases hk'
  | deleted n => obtain ⟨k', ts, oip, hk'⟩ := hok; rw [hop] at hk'; cases hk'

/-- C08/R2 (`read_fresh`): if write `w` stored its record at `p` and was acknowledged before read `r` of the same
    key was invoked (`AckedBefore w r`), then `r` does not answer `NotFound`: its answer classifies a record `q` of
    that key in the store (`Wit`: for `Found x`, `q.r = x` live; for `Deleted t`, `q` is a marker with timestamp
    `t` — the Spec's deletion semantics: the first-ranked record decides) and `q` is ranked at least as high as
    `p` (timestamp, then blob id, then position).  This holds although a read is NOT an atomic snapshot (active
    blob first, closed blobs later, writes and deletes in between): see `read_not_linearizable_with_delete`. -/
theorem read_fresh {st : Store} {ops : List COp} {s : CState} (hwf : st.WF)
    (ha : ∃ a, st.active = some a) (hr : ConcRW.Reach (ConcRW.init st ops) s)
    {w r : Nat} {cw cr : Client} {k : Key} {p : PRec} {resp : Resp}
    (hab : AckedBefore w r s.trace)
    (hcw : s.clients[w]? = some cw) (hw : cw.pc = .done (.wrote (some p))) (hpk : p.r.key = k)
    (hcr : s.clients[r]? = some cr) (hop : cr.op = .read k) (hd : cr.pc = .done resp) :
    ∃ res q, resp = .value res ∧ Wit s.store k res q ∧ rankLe q p = true := by
  obtain ⟨a, ha⟩ := ha
  obtain ⟨hi, ht⟩ := ConcRW.tinv_reach hwf ha hr
  have hok := ConcRW.done_respOK hi hcr hd
  have hp := ht.acked w r cw cr p hab hcw hcr hw
  cases resp with
  | value res =>
    obtain ⟨_, hres, _⟩ := hok
    rw [hop] at hres
    obtain ⟨q, hq, hle⟩ := hres.2 p hp hpk
    exact ⟨res, q, rfl, hq, hle⟩
  | torn => exact absurd hok id
  | has x => obtain ⟨⟨k', hk'⟩, _⟩ := hok; rw [hop] at hk'; cases hk'
  | wrote p =>
    cases p with
    | none => obtain ⟨⟨k', ts, d, hk'⟩, _⟩ := hok; rw [hop] at hk'; cases hk'
    | some p => obtain ⟨_, k', ts, d, hk', _⟩ := hok; rw [hop] at hk'; cases hk'
  | deleted n => obtain ⟨k', ts, oip, hk'⟩ := hok; rw [hop] at hk'; cases hk'

theorem rankLe_ts {q p : PRec} (h : rankLe q p = true) : p.r.ts ≤ q.r.ts := by
  rw [rankLe_iff, rankBefore_iff] at h
  omega

/-- `read_fresh`, timestamp form: the answer carries a timestamp, and it is not older than the write's -/
theorem read_fresh_ts {st : Store} {ops : List COp} {s : CState} (hwf : st.WF)
    (ha : ∃ a, st.active = some a) (hr : ConcRW.Reach (ConcRW.init st ops) s)
    {w r : Nat} {cw cr : Client} {k : Key} {p : PRec} {resp : Resp}
    (hab : AckedBefore w r s.trace)
    (hcw : s.clients[w]? = some cw) (hw : cw.pc = .done (.wrote (some p))) (hpk : p.r.key = k)
    (hcr : s.clients[r]? = some cr) (hop : cr.op = .read k) (hd : cr.pc = .done resp) :
    ∃ res t, resp = .value res ∧ res.ts? = some t ∧ p.r.ts ≤ t := by
  obtain ⟨res, q, h1, h2, h3⟩ := read_fresh hwf ha hr hab hcw hw hpk hcr hop hd
  have hts := rankLe_ts h3
  obtain ⟨_, _, h4⟩ := h2
  cases res with
  | found x => exact ⟨_, x.ts, h1, rfl, by rw [← h4.1]; exact hts⟩
  | deleted t => exact ⟨_, t, h1, rfl, by rw [← h4.2]; exact hts⟩
  | notFound => exact absurd h4 id

/-- `read_fresh` absent a delete: if the store holds no marker of the key, the read finds a value, not older than
    the acknowledged write -/
theorem read_fresh_found {st : Store} {ops : List COp} {s : CState} (hwf : st.WF)
    (ha : ∃ a, st.active = some a) (hr : ConcRW.Reach (ConcRW.init st ops) s)
    {w r : Nat} {cw cr : Client} {k : Key} {p : PRec} {resp : Resp}
    (hab : AckedBefore w r s.trace)
    (hcw : s.clients[w]? = some cw) (hw : cw.pc = .done (.wrote (some p))) (hpk : p.r.key = k)
    (hcr : s.clients[r]? = some cr) (hop : cr.op = .read k) (hd : cr.pc = .done resp)
    (hnm : ∀ x, InStore s.store x → x.key = k → x.del = false) :
    ∃ x, resp = .value (.found x) ∧ x.key = k ∧ p.r.ts ≤ x.ts := by
  obtain ⟨res, q, h1, h2, h3⟩ := read_fresh hwf ha hr hab hcw hw hpk hcr hop hd
  have hts := rankLe_ts h3
  obtain ⟨hq1, hq2, h4⟩ := h2
  cases res with
  | found x => exact ⟨x, h1, by rw [← h4.1]; exact hq2, by rw [← h4.1]; exact hts⟩
  | deleted t =>
    have := hnm q.r (ConcRW.inStore_of_positioned hq1) hq2
    rw [h4.1] at this; cases this
  | notFound => exact absurd h4 id

/-- the same for `contains` -/
theorem contains_fresh {st : Store} {ops : List COp} {s : CState} (hwf : st.WF)
    (ha : ∃ a, st.active = some a) (hr : ConcRW.Reach (ConcRW.init st ops) s)
    {w r : Nat} {cw cr : Client} {k : Key} {p : PRec} {resp : Resp}
    (hab : AckedBefore w r s.trace)
    (hcw : s.clients[w]? = some cw) (hw : cw.pc = .done (.wrote (some p))) (hpk : p.r.key = k)
    (hcr : s.clients[r]? = some cr) (hop : cr.op = .contains k) (hd : cr.pc = .done resp) :
    ∃ res q, resp = .has (res.map (·.ts)) ∧ Wit s.store k res q ∧ rankLe q p = true := by
  obtain ⟨a, ha⟩ := ha
  obtain ⟨hi, ht⟩ := ConcRW.tinv_reach hwf ha hr
  have hok := ConcRW.done_respOK hi hcr hd
  have hp := ht.acked w r cw cr p hab hcw hcr hw
  cases resp with
  | has x =>
    obtain ⟨_, res, h1, hres⟩ := hok
    rw [hop] at hres
    obtain ⟨q, hq, hle⟩ := hres.2 p hp hpk
    exact ⟨res, q, by rw [h1], hq, hle⟩
  | torn => exact absurd hok id
  | value x => obtain ⟨⟨k', hk'⟩, _⟩ := hok; rw [hop] at hk'; cases hk'
  | wrote p =>
    cases p with
    | none => obtain ⟨⟨k', ts, d, hk'⟩, _⟩ := hok; rw [hop] at hk'; cases hk'
    | some p => obtain ⟨_, k', ts, d, hk', _⟩ := hok; rw [hop] at hk'; cases hk'
  | deleted n => obtain ⟨k', ts, oip, hk'⟩ := hok; rw [hop] at hk'; cases hk'

theorem respOf_done {s : CState} {i : Nat} {c : Client} {r : Resp} (hc : s.clients[i]? = some c)
    (hd : c.pc = .done r) : ConcRW.respOf s i = some r := by
  obtain ⟨op, pc, born⟩ := c
  simp only at hd
  subst hd
  simp [ConcRW.respOf, hc]

theorem respOf_some {s : CState} {i : Nat} {r : Resp} (h : ConcRW.respOf s i = some r) :
    ∃ c, s.clients[i]? = some c ∧ c.pc = .done r := by
  unfold ConcRW.respOf at h
  split at h
  · rename_i op r' born hc
    simp only [Option.some.injEq] at h
    subst h
    exact ⟨_, hc, rfl⟩
  · cases h

/-- `read_fresh` in terms of the responses and the operation list -/
theorem read_fresh_resp {st : Store} {ops : List COp} {s : CState} (hwf : st.WF)
    (ha : ∃ a, st.active = some a) (hr : ConcRW.Reach (ConcRW.init st ops) s)
    {w r : Nat} {k : Key} {p : PRec} {resp : Resp}
    (hab : AckedBefore w r s.trace) (hw : ConcRW.respOf s w = some (.wrote (some p))) (hpk : p.r.key = k)
    (hop : ops[r]? = some (.read k)) (hd : ConcRW.respOf s r = some resp) :
    ∃ res q, resp = .value res ∧ Wit s.store k res q ∧ rankLe q p = true := by
  obtain ⟨cw, hcw, hwd⟩ := respOf_some hw
  obtain ⟨cr, hcr, hrd⟩ := respOf_some hd
  obtain ⟨a, ha'⟩ := ha
  have ht := (ConcRW.tinv_reach hwf ha' hr).2
  have hcop : cr.op = .read k := by
    have := ConcRW.ops_getElem? ht hcr
    rw [hop] at this
    exact (Option.some.inj this).symm
  exact read_fresh hwf ⟨a, ha'⟩ hr hab hcw hwd hpk hcr hcop hrd

/-- C08/R3 (`no_lost_ack`): a write whose response `Ok(())` is in the history with a place `p` (it stored; the
    place is ghost) belongs to a `write k ts d` client, `p.r` is exactly that record, its push is in the trace, and
    the record stays at that place (same blob id, same position) in EVERY later state: rotations, dumps, other
    writes and deletes never remove or move it. -/
theorem no_lost_ack {st : Store} {ops : List COp} {s : CState} (hwf : st.WF)
    (ha : ∃ a, st.active = some a) (hr : ConcRW.Reach (ConcRW.init st ops) s)
    {i : Nat} {p : PRec} (hack : Ev.res i (.wrote (some p)) ∈ s.trace) :
    (∃ k ts d, ops[i]? = some (COp.write k ts d) ∧ p.r = wrec k ts d) ∧ Ev.push i p.r ∈ s.trace ∧
      ∀ s', ConcRW.Reach s s' → p ∈ History.positioned s'.store.history := by
  obtain ⟨a, ha⟩ := ha
  obtain ⟨hi, ht⟩ := ConcRW.tinv_reach hwf ha hr
  obtain ⟨c, hc, hd⟩ := ht.res i _ hack
  obtain ⟨hp, k, ts, d, hop, hpr⟩ := ConcRW.done_respOK hi hc hd
  refine ⟨⟨k, ts, d, by rw [ConcRW.ops_getElem? ht hc, hop], hpr⟩, ?_, ?_⟩
  · exact (ConcRW.hinv_reach hr).pushed i c p hc (by rw [hd]; rfl)
  · intro s' hr'
    exact ConcRW.reach_sub hi hr' p hp

/-- … and a sequential read of that key, in every later state, answers with that record or a higher-ranked
    one (a marker included) -/
theorem acked_write_readable {st : Store} {ops : List COp} {s : CState} (hwf : st.WF)
    (ha : ∃ a, st.active = some a) (hr : ConcRW.Reach (ConcRW.init st ops) s)
    {i : Nat} {p : PRec} (hack : Ev.res i (.wrote (some p)) ∈ s.trace) (s' : CState) (hr' : ConcRW.Reach s s') :
    ∃ q, Wit s'.store p.r.key (s'.store.read p.r.key none) q ∧ rankLe q p = true := by
  have hp := (no_lost_ack hwf ha hr hack).2.2 s' hr'
  obtain ⟨a, ha⟩ := ha
  have hi' := (ConcRW.tinv_reach hwf ha (ConcRW.reach_trans hr hr')).1
  exact (ConcRW.getLatestEntry_resOK hi'.wf p.r.key).2 p hp rfl

/-- a write that was acknowledged without storing anything saw a live record of its key -/
theorem skipped_write_saw_live {st : Store} {ops : List COp} {s : CState} (hwf : st.WF)
    (ha : ∃ a, st.active = some a) (hr : ConcRW.Reach (ConcRW.init st ops) s)
    {i : Nat} (hack : Ev.res i (.wrote none) ∈ s.trace) :
    ∃ k ts d, ops[i]? = some (COp.write k ts d) ∧ ∃ q x, Wit s.store k (.found x) q := by
  obtain ⟨a, ha⟩ := ha
  obtain ⟨hi, ht⟩ := ConcRW.tinv_reach hwf ha hr
  obtain ⟨c, hc, hd⟩ := ht.res i _ hack
  obtain ⟨⟨k, ts, d, hop⟩, q, x, hq⟩ := ConcRW.done_respOK hi hc hd
  rw [hop] at hq
  exact ⟨k, ts, d, by rw [ConcRW.ops_getElem? ht hc, hop], q, x, hq⟩

/-- C08/R4a: in every reachable state the store is the replay, on the starting store, of the trace's mutation
    events in the order they took effect (`push` = the index push of a write, the two marker phases of a delete,
    rotation, dump); it is well-formed, so by C01 every sequential read on it answers per `Spec` -/
theorem store_eq_replay {st : Store} {ops : List COp} {s : CState} (hwf : st.WF)
    (ha : ∃ a, st.active = some a) (hr : ConcRW.Reach (ConcRW.init st ops) s) :
    s.store = ConcRW.replay st s.trace ∧ s.store.WF ∧
      ∀ k, s.store.read k none = (Spec.latest s.store.history k).map (·.r) := by
  obtain ⟨a, ha⟩ := ha
  obtain ⟨hi, ht⟩ := ConcRW.tinv_reach hwf ha hr
  exact ⟨ht.replay, hi.wf, fun k => read_eq_spec hi.wf k⟩

/-- … and that replay is a run of the sequential model `Store.run` on the operations the events stand for
    (`Store.write` per push, `Store.delete` per pair of delete phases, `replaceActive`, `settle`), provided
    (1) the two phases of every delete are adjacent among the mutations (`coalesce` succeeds) and
    (2) no write is one that the sequential duplicate check would have skipped (`NoSkip`). -/
theorem equals_sequential_partial {st : Store} {ops : List COp} {s : CState} (hwf : st.WF)
    (ha : ∃ a, st.active = some a) (hr : ConcRW.Reach (ConcRW.init st ops) s) {seq : List Op}
    (hc : ConcRW.coalesce (ConcRW.muts s.trace) = some seq) (hns : ConcRW.NoSkip st seq) :
    s.store = st.run seq := by
  obtain ⟨a, ha⟩ := ha
  obtain ⟨hi, ht⟩ := ConcRW.tinv_reach hwf ha hr
  rw [ht.replay, ConcRW.replay_eq_muts]
  refine ConcRW.applyAll_eq_run _ _ _ hc hns ⟨a, ha⟩ ?_
  intro i r hm
  have : Ev.push i r ∈ s.trace := by
    simp only [ConcRW.muts, List.mem_filter, List.mem_reverse] at hm
    exact hm.1
  obtain ⟨k, ts, d, _, rfl⟩ := ht.push i r this
  rfl

/-- C08/R4 (`quiescent_equals_sequential`, under the two hypotheses above; both are needed, see
    `duplicate_check_race` and `delete_phase_race`): when every client has returned, the store equals the
    sequential model run over the writes/deletes in the order of their linearization points; every `write` client
    either has its record pushed (and then it is one of the writes of that run) or was acknowledged as a duplicate;
    and every later sequential `read`/`contains` answers per `Spec` on that run's history (C01). -/
theorem quiescent_equals_sequential_partial {st : Store} {ops : List COp} {s : CState} (hwf : st.WF)
    (ha : ∃ a, st.active = some a) (hr : ConcRW.Reach (ConcRW.init st ops) s) (hq : ConcRW.quiescent s)
    {seq : List Op} (hc : ConcRW.coalesce (ConcRW.muts s.trace) = some seq) (hns : ConcRW.NoSkip st seq) :
    s.store = st.run seq ∧
      (∀ i k ts d, ops[i]? = some (COp.write k ts d) →
        Ev.push i (wrec k ts d) ∈ s.trace ∨ ConcRW.respOf s i = some (.wrote none)) ∧
      (∀ k, s.store.read k none = (Spec.latest (st.run seq).history k).map (·.r)) ∧
      (∀ k, s.store.contains k = (Spec.latest (st.run seq).history k).map (·.r.ts)) := by
  have heq := equals_sequential_partial hwf ha hr hc hns
  obtain ⟨a, ha⟩ := ha
  obtain ⟨hi, ht⟩ := ConcRW.tinv_reach hwf ha hr
  refine ⟨heq, ?_, ?_, ?_⟩
  · intro i k ts d hop
    have hlen : i < s.clients.length := by
      have : i < ops.length := by
        rcases Nat.lt_or_ge i ops.length with h | h
        · exact h
        · rw [List.getElem?_eq_none h] at hop; cases hop
      rw [← ht.opsEq, List.length_map] at this
      exact this
    obtain ⟨c, hc'⟩ : ∃ c, s.clients[i]? = some c := ⟨s.clients[i], List.getElem?_eq_getElem hlen⟩
    have hcop : c.op = .write k ts d := by
      have := ConcRW.ops_getElem? ht hc'
      rw [hop] at this
      exact (Option.some.inj this).symm
    obtain ⟨r, hd⟩ := hq c (List.mem_of_getElem? hc')
    have hok := ConcRW.done_respOK hi hc' hd
    cases r with
    | wrote p =>
      cases p with
      | none => exact Or.inr (respOf_done hc' hd)
      | some p =>
        left
        have := (ConcRW.hinv_reach hr).pushed i c p hc' (by rw [hd]; rfl)
        obtain ⟨_, k', ts', d', h1, h2⟩ := hok
        rw [hcop] at h1
        cases h1
        rw [← h2]; exact this
    | value res => obtain ⟨⟨k', hk'⟩, _⟩ := hok; rw [hcop] at hk'; cases hk'
    | torn => exact absurd hok id
    | has x => obtain ⟨⟨k', hk'⟩, _⟩ := hok; rw [hcop] at hk'; cases hk'
    | deleted n => obtain ⟨k', ts', oip, hk'⟩ := hok; rw [hcop] at hk'; cases hk'
  · intro k
    rw [← heq]
    exact read_eq_spec hi.wf k
  · intro k
    rw [← heq]
    exact contains_eq_spec hi.wf k

/-- C08/R4 without side conditions: duplicates allowed, no deletes -/
theorem quiescent_equals_sequential {st : Store} {ops : List COp} {s : CState} (hwf : st.WF)
    (ha : ∃ a, st.active = some a) (hdup : st.allowDup = true) (hdf : ∀ op ∈ ops, op.isDelete = false)
    (hr : ConcRW.Reach (ConcRW.init st ops) s) :
    ∃ seq, ConcRW.coalesce (ConcRW.muts s.trace) = some seq ∧ s.store = st.run seq := by
  obtain ⟨a, ha'⟩ := ha
  obtain ⟨hi, ht⟩ := ConcRW.tinv_reach hwf ha' hr
  have hmem : ∀ e, e ∈ ConcRW.muts s.trace → e ∈ s.trace ∧ e.mutates = true := by
    intro e he
    simp only [ConcRW.muts, List.mem_filter, List.mem_reverse] at he
    exact he
  have hnodel : ∀ j k ts, ((∃ oip, Ev.delA j k ts oip ∈ s.trace) ∨ Ev.delC j k ts ∈ s.trace) → False := by
    intro j k ts h
    obtain ⟨oip, ho⟩ := ht.del j k ts h
    have := hdf _ (List.mem_of_getElem? ho)
    cases this
  obtain ⟨seq, hs⟩ := ConcRW.coalesce_of_noDel (ConcRW.muts s.trace) (fun e he => (hmem e he).2)
    (fun e he i k ts oip hx => hnodel i k ts (Or.inl ⟨oip, hx ▸ (hmem e he).1⟩))
    (fun e he i k ts hx => hnodel i k ts (Or.inr (hx ▸ (hmem e he).1)))
  exact ⟨seq, hs, equals_sequential_partial hwf ⟨a, ha'⟩ hr hs (ConcRW.noSkip_of_allowDup _ _ _ hs hdup)⟩

/-- C08/R5a (`real_time_order`, deletes included): the order of the linearization events in the trace (write: its
    push; read / `contains` / skipped write: its first look-up; delete: its first marker phase) extends real time:
    if `i` got its response before `j` was invoked, then `i`'s point precedes `j`'s -/
theorem real_time_order {st : Store} {ops : List COp} {s : CState}
    (hr : ConcRW.Reach (ConcRW.init st ops) s) {i j : Nat} {cj : Client}
    (hcj : s.clients[j]? = some cj) (hl : cj.pc.hasLin = true) (hab : AckedBefore i j s.trace) :
    LinBefore i j s.trace :=
  let hh := ConcRW.hinv_reach hr
  ConcRW.ackedBefore_linBefore hh.ok (hh.lin j cj hcj hl) hab

/-- C08/R5 (`linearizable`, for systems without `delete` operations): every completed operation has its
    linearization event in the trace (between its invocation and its response, `real_time_order`), a client looks
    at most once, and the answer is the sequential model's answer on the store replayed up to that event:
    `read` → `Store.read`, `contains` → `Store.contains`, a skipped `write` → the duplicate check of `Store.write`
    succeeds there; a stored write's push is in the trace (`store_eq_replay`: it is an append there). -/
theorem linearizable_partial {st : Store} {ops : List COp} {s : CState} (hwf : st.WF)
    (ha : ∃ a, st.active = some a) (hdf : ∀ op ∈ ops, op.isDelete = false)
    (hr : ConcRW.Reach (ConcRW.init st ops) s) {i : Nat} {c : Client} {r : Resp}
    (hc : s.clients[i]? = some c) (hd : c.pc = .done r) :
    (∃ x ∈ s.trace, Ev.linOf i x = true) ∧ s.trace.count (.look i) ≤ 1 ∧
    (∀ k res, c.op = .read k → r = .value res →
      ∃ l1 past, s.trace = l1 ++ Ev.look i :: past ∧ res = (ConcRW.replay st past).read k none) ∧
    (∀ k x, c.op = .contains k → r = .has x →
      ∃ l1 past, s.trace = l1 ++ Ev.look i :: past ∧ x = (ConcRW.replay st past).contains k) ∧
    (∀ k ts d, c.op = .write k ts d → r = .wrote none →
      ∃ l1 past, s.trace = l1 ++ Ev.look i :: past ∧
        ((ConcRW.replay st past).getLatestEntry k none).isFound = true) ∧
    (∀ p, r = .wrote (some p) → Ev.push i p.r ∈ s.trace) := by
  obtain ⟨a, ha⟩ := ha
  have hh := ConcRW.hinv_reach hr
  have hdi := ConcRW.dinv_reach hwf ha hdf hr i c hc
  unfold ConcRW.DCInv at hdi
  rw [hd] at hdi
  refine ⟨hh.lin i c hc (by rw [hd]; rfl), hh.lookOnce i, ?_, ?_, ?_, ?_⟩
  · rintro k res hop rfl
    rw [hop] at hdi
    exact hdi
  · rintro k x hop rfl
    rw [hop] at hdi
    obtain ⟨res, h1, l1, past, h2, h3⟩ := hdi
    exact ⟨l1, past, h2, by rw [h1, h3]; rfl⟩
  · rintro k ts d hop rfl
    rw [hop] at hdi
    obtain ⟨res, h1, l1, past, h2, h3⟩ := hdi
    exact ⟨l1, past, h2, by rw [h3] at h1; exact h1⟩
  · rintro p rfl
    exact hh.pushed i c p hc (by rw [hd]; rfl)

/-! ### the locks: no deadlock, termination -/

/-- at most one client is inside `Blob::write`'s upgradable section, and it is the holder of the blob lock -/
theorem blob_lock_exclusive {st : Store} {ops : List COp} {s : CState}
    (hr : ConcRW.Reach (ConcRW.init st ops) s) {i j : Nat} {ci cj : Client}
    (hi : s.clients[i]? = some ci) (hj : s.clients[j]? = some cj)
    (hbi : ci.pc.holdsB = true) (hbj : cj.pc.holdsB = true) : i = j ∧ s.blobLock = some i := by
  have hb := ConcRW.binv_reach hr
  have h1 := hb.inside i ci hi hbi
  have h2 := hb.inside j cj hj hbj
  rw [h1] at h2
  exact ⟨Option.some.inj h2, h1⟩

/-- C08/D4 (no deadlock on the data path): a client that has not returned can take its next step, unless it
    waits for the blob lock — and then the holder is another client inside the critical section, which can take
    its next step.  (Storage lock: rotation is a single step taken when no client holds the lock shared, so the
    shared side is never refused here; writer preference and the bounded channel are `no_deadlock` above.) -/
theorem client_progress {st : Store} {ops : List COp} {s : CState} (hwf : st.WF)
    (ha : ∃ a, st.active = some a) (hr : ConcRW.Reach (ConcRW.init st ops) s) {i : Nat} {c : Client}
    (hc : s.clients[i]? = some c) (hnd : ∀ r, c.pc ≠ .done r) :
    (∃ s', ConcRW.fire (.step i) s = some s') ∨
      ∃ x cx, x ≠ i ∧ s.blobLock = some x ∧ s.clients[x]? = some cx ∧ cx.pc.holdsB = true ∧
        ∃ s', ConcRW.fire (.step x) s = some s' := by
  obtain ⟨a, ha⟩ := ha
  obtain ⟨hi, _⟩ := ConcRW.tinv_reach hwf ha hr
  obtain ⟨a', ha'⟩ := hi.active
  have hb := ConcRW.binv_reach hr
  have htc := hb.typed c (List.mem_of_getElem? hc)
  cases hbl : s.blobLock with
  | none =>
    obtain ⟨o, ho⟩ := ConcRW.cstep_enabled (landed := s.landed) (bl := s.blobLock) (i := i) htc ha' hnd
      (Or.inl hbl)
    exact Or.inl (ConcRW.fire_step_of_cstep hc ho)
  | some x =>
    obtain ⟨cx, hcx, hbx⟩ := hb.holder x hbl
    have hx : ∃ s', ConcRW.fire (.step x) s = some s' := by
      have hndx : ∀ r, cx.pc ≠ .done r := by intro r h; rw [h] at hbx; cases hbx
      have hnw : cx.pc ≠ .wLocked ∧ cx.pc ≠ .dActive := by
        constructor <;> intro h <;> rw [h] at hbx <;> cases hbx
      obtain ⟨o, ho⟩ := ConcRW.cstep_enabled (landed := s.landed) (bl := s.blobLock) (i := x)
        (hb.typed cx (List.mem_of_getElem? hcx)) ha' hndx (Or.inr hnw)
      exact ConcRW.fire_step_of_cstep hcx ho
    by_cases hxi : x = i
    · subst hxi; exact Or.inl hx
    · exact Or.inr ⟨x, cx, hxi, rfl, hcx, hbx, hx⟩

/-- every client step uses up one of the at most 17 steps of its client: no schedule contains more than `17·N`
    client steps (the worker's rotations and dumps are not bounded and need not be) -/
theorem client_steps_bounded (st : Store) (ops : List COp) (sched : List ConcRW.Label) (s : CState)
    (h : ConcRW.runSched sched (ConcRW.init st ops) = some s) :
    (sched.filter ConcRW.Label.isStep).length ≤ 17 * ops.length := by
  have := ConcRW.runSched_measure sched _ _ h
  rw [ConcRW.measure_init] at this
  omega

/-! ### what is false, on concrete witnesses -/

/-- store: blob 0 (closed) holds key 1 @ ts 3, blob 1 (active) holds key 1 @ ts 4 -/
def nlSt : Store := (Store.init true).run [.write 1 3 none ⟨1, 1⟩, .replaceActive, .write 1 4 none ⟨2, 2⟩]
def nlOps : List COp := [.read 1, .write 1 10 ⟨3, 3⟩, .delete 1 5 false]
/-- the reader looks into the active blob (sees ts 4); the writer runs from invocation to acknowledgement
    (ts 10 into the active blob); then the delete runs from invocation to response (marker ts 5 into the active
    blob — below ts 10 — and into the closed blob); the reader looks into the closed blob (sees the marker) -/
def nlSched : List ConcRW.Label :=
  [.step 0, .step 0, .step 0] ++ List.replicate 9 (.step 1) ++ List.replicate 6 (.step 2) ++
    List.replicate 4 (.step 0)
def nlW : Op := .write 1 10 none ⟨3, 3⟩
def nlD : Op := .delete 1 5 none false

/-- C08/R5 is FALSE with deletes: a read that spans a write acknowledged before a delete was invoked answers
    `Deleted(5)`; in the only order of the two mutations that real time admits (write, then delete) the sequential
    model answers `Found(ts 4)` before both, `Found(ts 10)` between them and `Found(ts 10)` after both.
    (`read_fresh` is not violated: the write was not acknowledged before the read started.) -/
theorem read_not_linearizable_with_delete :
    ∃ s, ConcRW.runSched nlSched (ConcRW.init nlSt nlOps) = some s ∧
      s.trace.reverse.filter (fun e => !e.mutates && e != .look 0) =
        [.inv 0 (.read 1), .inv 1 (.write 1 10 ⟨3, 3⟩),
         .res 1 (.wrote (some ⟨⟨1, 10, false, none, ⟨3, 3⟩⟩, 1, 1⟩)),
         .inv 2 (.delete 1 5 false), .res 2 (.deleted 2), .res 0 (.value (.deleted 5))] ∧
      AckedBefore 1 2 s.trace ∧
      ConcRW.respOf s 0 = some (.value (.deleted 5)) ∧
      nlSt.read 1 none = .found ⟨1, 4, false, none, ⟨2, 2⟩⟩ ∧
      (nlSt.run [nlW]).read 1 none = .found ⟨1, 10, false, none, ⟨3, 3⟩⟩ ∧
      (nlSt.run [nlW, nlD]).read 1 none = .found ⟨1, 10, false, none, ⟨3, 3⟩⟩ :=
  ⟨_, rfl, by decide, by decide, by decide, by decide, by decide, by decide⟩

def dupOps : List COp := [.write 1 5 ⟨1, 1⟩, .write 1 9 ⟨2, 2⟩]
/-- both writers finish `contains_with` (NotFound) before either appends -/
def dupSched : List ConcRW.Label :=
  List.replicate 5 (.step 0) ++ List.replicate 5 (.step 1) ++ List.replicate 8 (.step 0) ++
    List.replicate 8 (.step 1)

/-- C08/R4 needs `NoSkip`: with `allow_duplicates = false` two concurrent writes of one key are both stored and
    both acknowledged; the sequential model stores one, in either order -/
theorem duplicate_check_race :
    ∃ s, ConcRW.runSched dupSched (ConcRW.init (Store.init false) dupOps) = some s ∧
      ConcRW.quiescent s ∧
      s.store.history = [(0, [wrec 1 5 ⟨1, 1⟩, wrec 1 9 ⟨2, 2⟩])] ∧
      ((Store.init false).run [.write 1 5 none ⟨1, 1⟩, .write 1 9 none ⟨2, 2⟩]).history = [(0, [wrec 1 5 ⟨1, 1⟩])] ∧
      ((Store.init false).run [.write 1 9 none ⟨2, 2⟩, .write 1 5 none ⟨1, 1⟩]).history = [(0, [wrec 1 9 ⟨2, 2⟩])] ∧
      (s.store.readAll 1).length = 2 := by
  refine ⟨_, rfl, ?_, by decide, by decide, by decide, by decide⟩
  intro c hc
  have : c.pc.weight = 0 := by
    revert c
    decide
  cases hpc : c.pc <;> simp [hpc, ConcRW.Pc.weight] at this
  exact ⟨_, rfl⟩

/-- store: blob 0 (closed) and blob 1 (active) both hold key 1 @ ts 5 -/
def delSt : Store := (Store.init true).run [.write 1 5 none ⟨1, 1⟩, .replaceActive, .write 1 5 none ⟨2, 2⟩]
def delOps : List COp := [.delete 1 10 true, .delete 1 3 true]
/-- active phases in the order 0, 1; closed phases in the order 1, 0 -/
def delSched : List ConcRW.Label :=
  List.replicate 3 (.step 0) ++ List.replicate 4 (.step 1) ++ List.replicate 3 (.step 0) ++
    List.replicate 2 (.step 1)

/-- C08/R4 needs adjacent delete phases: two concurrent deletes of one key whose phases cross leave a store that
    no sequential order of the two produces, and return counts (2 and 1) that no sequential order returns -/
theorem delete_phase_race :
    ∃ s, ConcRW.runSched delSched (ConcRW.init delSt delOps) = some s ∧
      ConcRW.muts s.trace = [.delA 0 1 10 true, .delA 1 1 3 true, .delC 1 1 3, .delC 0 1 10] ∧
      ConcRW.coalesce (ConcRW.muts s.trace) = none ∧
      [ConcRW.respOf s 0, ConcRW.respOf s 1] = [some (.deleted 2), some (.deleted 1)] ∧
      s.store.history ≠ (delSt.run [.delete 1 10 none true, .delete 1 3 none true]).history ∧
      s.store.history ≠ (delSt.run [.delete 1 3 none true, .delete 1 10 none true]).history ∧
      ((delSt.delete 1 10 none true).2, ((delSt.delete 1 10 none true).1.delete 1 3 none true).2) = (2, 0) ∧
      ((delSt.delete 1 3 none true).2, ((delSt.delete 1 3 none true).1.delete 1 10 none true).2) = (2, 2) :=
  ⟨_, rfl, by decide, by decide, by decide, by decide, by decide, by decide, by decide⟩

/-! ### non-vacuity: three clients, a rotation in the middle, the read overlaps the write — both outcomes -/

/-- blob 0 (active) holds key 1 @ ts 3 and key 2 @ ts 7 -/
def rwSt : Store := (Store.init true).run [.write 1 3 none ⟨1, 1⟩, .write 2 7 none ⟨3, 3⟩]
def rwOps : List COp := [.write 1 10 ⟨2, 2⟩, .read 1, .contains 2]
/-- all invoked; rotation; the reader looks into the new (empty) active blob; the writer appends there and is
    acknowledged; the reader looks into the closed blob: the OLD value -/
def rwSchedOld : List ConcRW.Label :=
  [.step 0, .step 1, .step 2, .rotate, .step 1, .step 1,
   .step 0, .step 0, .step 0, .step 0, .step 0, .step 0, .step 0, .step 0,
   .step 1, .step 1, .step 1, .step 1, .dump, .step 2, .step 2, .step 2, .step 2, .step 2]
/-- all invoked; rotation; the writer pushes; the reader looks (active blob, then closed): the NEW value;
    responses in either order -/
def rwSchedNew : List ConcRW.Label :=
  [.step 0, .step 1, .step 2, .rotate,
   .step 0, .step 0, .step 0, .step 0, .step 0, .step 1, .step 1, .step 0, .step 0, .step 0,
   .step 1, .step 1, .step 1, .step 1, .dump, .step 2, .step 2, .step 2, .step 2, .step 2]

example : (ConcRW.runSched rwSchedOld (ConcRW.init rwSt rwOps)).map
      (fun s => [ConcRW.respOf s 0, ConcRW.respOf s 1, ConcRW.respOf s 2]) =
    some [some (.wrote (some ⟨⟨1, 10, false, none, ⟨2, 2⟩⟩, 1, 0⟩)),
          some (.value (.found ⟨1, 3, false, none, ⟨1, 1⟩⟩)), some (.has (.found 7))] := by decide
example : (ConcRW.runSched rwSchedNew (ConcRW.init rwSt rwOps)).map
      (fun s => [ConcRW.respOf s 0, ConcRW.respOf s 1, ConcRW.respOf s 2]) =
    some [some (.wrote (some ⟨⟨1, 10, false, none, ⟨2, 2⟩⟩, 1, 0⟩)),
          some (.value (.found ⟨1, 10, false, none, ⟨2, 2⟩⟩)), some (.has (.found 7))] := by decide
-- the history of the second run: the read overlaps the write (both invoked before either responds), the
-- rotation lies between the invocations and the push
example : (ConcRW.runSched rwSchedNew (ConcRW.init rwSt rwOps)).map (fun s => s.trace.reverse.take 7) =
    some [.inv 0 (.write 1 10 ⟨2, 2⟩), .inv 1 (.read 1), .inv 2 (.contains 2), .rot,
          .push 0 (wrec 1 10 ⟨2, 2⟩), .look 1,
          .res 0 (.wrote (some ⟨⟨1, 10, false, none, ⟨2, 2⟩⟩, 1, 0⟩))] := by decide
-- the hypotheses of the theorems hold for this start, and the final states are reachable and quiescent
theorem rwSt_ok : rwSt.WF ∧ ∃ a, rwSt.active = some a := ⟨run_WF true _, _, rfl⟩
example : ∃ s, ConcRW.Reach (ConcRW.init rwSt rwOps) s ∧ ConcRW.respOf s 1 = some (.value (.found (wrec 1 3 ⟨1, 1⟩))) :=
  ⟨_, ConcRW.runSched_reach rwSchedOld _ _ _ .refl rfl, by decide⟩
-- `read_returns_written` on the second run: the value read is the one client 0 pushed
example (s : CState) (h : ConcRW.runSched rwSchedNew (ConcRW.init rwSt rwOps) = some s) (c : Client)
    (hc : s.clients[1]? = some c) (hop : c.op = .read 1) (r : Resp) (hd : c.pc = .done r) :
    ∃ res, r = .value res ∧ ∀ x, res = .found x → x.key = 1 ∧ x.del = false ∧ x ∈ s.landed :=
  let ⟨res, h1, h2⟩ := read_returns_written rwSt_ok.1 rwSt_ok.2
    (ConcRW.runSched_reach rwSchedNew _ _ _ .refl h) hc hop hd
  ⟨res, h1, fun x hx => let ⟨a, b, c, _⟩ := h2 x hx; ⟨a, b, c⟩⟩
-- `read_fresh` is not vacuous: a third schedule in which the write IS acknowledged before the read is invoked
def rwSchedAfter : List ConcRW.Label :=
  List.replicate 9 (.step 0) ++ [.rotate] ++ List.replicate 7 (.step 1)
example : (ConcRW.runSched rwSchedAfter (ConcRW.init rwSt rwOps)).map
      (fun s => (decide (AckedBefore 0 1 s.trace), ConcRW.respOf s 1)) =
    some (true, some (.value (.found (wrec 1 10 ⟨2, 2⟩)))) := by decide
-- … and `read_fresh` applied to that run, every hypothesis discharged: the write (client 0) is acknowledged at
-- blob 0, position 2; the active blob is rotated; the read (client 1) must answer with a record ranked at least
-- as high
example (s : CState) (h : ConcRW.runSched rwSchedAfter (ConcRW.init rwSt rwOps) = some s) :
    ∃ res q, ConcRW.respOf s 1 = some (.value res) ∧ Wit s.store 1 res q ∧
      rankLe q ⟨wrec 1 10 ⟨2, 2⟩, 0, 2⟩ = true := by
  have e : (ConcRW.runSched rwSchedAfter (ConcRW.init rwSt rwOps)).map
      (fun s => (decide (AckedBefore 0 1 s.trace), ConcRW.respOf s 0, (ConcRW.respOf s 1).isSome)) =
      some (true, some (.wrote (some ⟨wrec 1 10 ⟨2, 2⟩, 0, 2⟩)), true) := by decide
  rw [h] at e
  simp only [Option.map_some, Option.some.injEq, Prod.mk.injEq, decide_eq_true_eq] at e
  obtain ⟨e1, e2, e3⟩ := e
  obtain ⟨resp, e3⟩ := Option.isSome_iff_exists.1 e3
  obtain ⟨res, q, h1, h2, h3⟩ := read_fresh_resp rwSt_ok.1 rwSt_ok.2
    (ConcRW.runSched_reach rwSchedAfter _ _ _ .refl h) e1 e2 rfl (by decide) e3
  exact ⟨res, q, by rw [e3, h1], h2, h3⟩
-- `no_lost_ack` on the first run: the acknowledged record is still at blob 1, position 0 after any continuation
example (s : CState) (h : ConcRW.runSched rwSchedOld (ConcRW.init rwSt rwOps) = some s) (s' : CState)
    (h' : ConcRW.Reach s s') : (⟨wrec 1 10 ⟨2, 2⟩, 1, 0⟩ : PRec) ∈ History.positioned s'.store.history := by
  have e : (ConcRW.runSched rwSchedOld (ConcRW.init rwSt rwOps)).map
      (fun s => decide (Ev.res 0 (.wrote (some ⟨wrec 1 10 ⟨2, 2⟩, 1, 0⟩)) ∈ s.trace)) = some true := by decide
  rw [h] at e
  simp only [Option.map_some, Option.some.injEq, decide_eq_true_eq] at e
  exact (no_lost_ack rwSt_ok.1 rwSt_ok.2 (ConcRW.runSched_reach rwSchedOld _ _ _ .refl h) e).2.2 s' h'
-- `linearizable_partial` applies to these runs: nobody deletes
example : ∀ op ∈ rwOps, op.isDelete = false := by decide
-- delete-free, duplicates allowed: the final store of the first run is the sequential run over the two
-- mutations in trace order (`quiescent_equals_sequential`)
example : (ConcRW.runSched rwSchedOld (ConcRW.init rwSt rwOps)).map
      (fun s => (ConcRW.muts s.trace, (ConcRW.coalesce (ConcRW.muts s.trace)).map List.length)) =
    some ([.rot, .push 0 (wrec 1 10 ⟨2, 2⟩), .dump], some 3) := by decide
-- the blocked case of `client_progress`: client 1 waits for the blob lock that client 0 holds
example : ((ConcRW.runSched [.step 0, .step 0, .step 0, .step 1, .step 1] (ConcRW.init (Store.init true) dupOps)).bind
      (fun s => (ConcRW.fire (.step 1) s).map (fun _ => ()))) = none := by decide

end C08
end Pearl

/-
NOT YET PROVED (C08, read side)

* Linearizability of `read`/`contains` when deletes run concurrently is false (`read_not_linearizable_with_delete`);
  what holds with deletes is `read_fresh`/`read_returns_written` (the look-up is bounded below by the store at its
  invocation).  A matching upper bound (the answer is not ranked above the first-ranked record of the store at its
  response) is true of the model but not stated.
* `quiescent_equals_sequential` for crossing delete phases / duplicate-check races is false for store equality
  (`delete_phase_race`, `duplicate_check_race`).  Not investigated: whether the crossed-delete store is
  observationally equal (same `Spec` answers for every key) to some sequential order; the returned counts are not.
* `read_with` / `write_with` / `delete_with` (metadata), `read_all`, `read_all_with_deletion_marker` under
  concurrency are not modelled (the sequential versions are C02).
* The model assumes an active blob throughout (no concurrent `close_active_blob` / `restore_active_blob`), no I/O
  errors, and filters that are transparent (C10) and updated before a header becomes visible (`IndexStruct::push`
  adds the key to the filter before inserting, under the index write lock).
* `client_progress` is a safety-style progress statement (some enabled step exists); fairness of tokio's scheduler
  and of `async_lock::RwLock` is not modelled.  The storage lock's writer preference and the worker channel are
  the subject of `no_deadlock` (first half), not of `Pearl.ConcRW`, where rotation is one atomic step.
* Byte offsets: `Pearl.ConcRW` tracks only "the bytes of `r` are in the file" (`landed`); disjointness of the
  reserved ranges is `ranges_disjoint_interleaved` in `Pearl.Append` and the two models are not composed.
-/
