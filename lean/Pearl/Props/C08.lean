import Pearl.Proofs.LtsLemmas
import Pearl.Proofs.ConcRW
import Pearl.Proofs.ConcRW2
/-
C08 — deadlock clause, the append critical section, and (second half of the file) the read side:
freshness, no lost acknowledged write, equality with the sequential model, linearization points.

`Pearl.Lts` (see `Pearl/Model/Lts.lean`): `N` writers into a full active blob, the observer channel of
capacity `C` (`OBSERVER_CHANNEL_SIZE_LIMIT = 1024` in `src/storage/observer.rs`), the worker, and the storage
lock `Inner::safe` (tokio `RwLock`, write-preferring).  The client program has a protocol parameter:

* `Proto.sendUnderLock`    — /repo up to eb0e048: `send` on the bounded channel while the shared lock is held;
* `Proto.sendAfterRelease` — /repo since fe5e781 (`CURRENT`): decide under the lock, `drop(safe)`, then `send`.

The code as it is (`sendAfterRelease`):
* `no_deadlock`            : for EVERY number of writers, every reachable non-final state has a successor;
* `all_clients_finish`     : from every reachable state some finite schedule reaches a final state;
* `every_run_is_finite`    : every step decreases `Lts.measure`, so no schedule from `init N` is longer than `16·N`
                             (holds for both protocols);
* `old_deadlock_unreachable` : the deadlocked state of the old protocol is not reachable any more.

The pinned code (`sendUnderLock`), kept as the record of the defect:
* `deadlock_witness_before_fix`    : with `N = C + 2` writers inside the shared section there is a schedule into a
                                     state that is not final and has no successor (`C = 1024`: 1026 writers);
* `no_deadlock_bounded_before_fix` : with `N ≤ C + 1` writers every reachable non-final state has a successor;
  so `C + 2` was the exact threshold.

Independent of the protocol:
* `rw_exclusion`          : the worker holds the lock exclusively only while nobody holds it shared;
* `ranges_disjoint`, `ranges_disjoint_interleaved`, `written_bytes_intact`, `append_cs_atomic`
                          : the per-blob append section (`Pearl.Append`, which does not mention `Proto`).

The data path (`Pearl.ConcRW`, `Pearl/Model/ConcRW.lean`: `N` clients doing `write | read | contains | delete` in
the atomic steps of the code over the L2 `Store`, with rotation and index dumps; helper lemmas and the invariants
`Inv`, `TInv`, `HInv`, `DInv`, `BInv` in `Pearl/Proofs/ConcRW.lean`).  For every reachable state, every `N`:
* `read_returns_written`   : a completed read never returns a torn or foreign value;
* `read_fresh` (`_ts`, `_found`, `contains_fresh`) : never older (in rank) than a write acknowledged before it
                             started; never `NotFound` then; with deletes: the first-ranked record decides;
* `no_lost_ack`, `acked_write_readable`, `skipped_write_saw_live` : acknowledged records stay, at their place;
* `store_eq_replay`, `equals_sequential_partial`, `quiescent_equals_sequential_partial`,
  `quiescent_equals_sequential` : the store is the sequential model on the linearization order;
* `real_time_order`, `linearizable_partial` : explicit linearization points; reads atomic when nobody deletes;
* `blob_lock_exclusive`, `client_progress`, `client_steps_bounded` : locks of the data path, no deadlock;
* FALSE in general, with witnesses: `read_not_linearizable_with_delete`, `duplicate_check_race`,
  `delete_phase_race`, `read_not_regular_with_delete`.
* `read_interval` (`contains_interval`, `skipped_write_interval`), `read_upper_bound` : the window of a read under concurrent deletes: each component look-up is
  the `Spec` answer of its component at its own instant, the answer is the `Spec` answer of the hybrid history,
  rank sandwich between the stores of the two instants;
* `crossed_deletes_observational` (`_spec`, `delete_phase_race_observational`) : crossed delete phases are
  observationally one of the two sequential orders, for all stores, keys, timestamps, flags;
* `read_all_concurrent` : provenance and freshness of every version `read_all` lists, two-phase;
* `landed_ranges_disjoint`, `acked_range_never_rewritten`, `ranges_follow_layout`, `acked_range_at_place` : the product `Pearl.ConcBytes`
  with the byte ranges of `Pearl.Append` and the file layout of `Pearl.Fs`.
-/
namespace Pearl
namespace C08

open Pearl.Lts Pearl.Append

/-- the protocol of the shipped code -/
abbrev CURRENT : Proto := .sendAfterRelease

/-! ## the code as it is: no deadlock, for any number of writers -/

/-- C08/D1: under `sendAfterRelease`, for every channel capacity `C > 0` and EVERY number `N` of clients, every
    reachable state that is not final has a successor.

    Invariants: `Lts.Inv` (the shared holders are exactly the clients at `append`/`send`/`release`/`relSend`;
    the writer side of the lock mirrors the worker's program counter) and "no client is at `send`"
    (`noSend_reach`: nobody waits on the channel with the lock in hand).  So whoever holds the lock shared can
    always move, the readers drain, the worker is granted the lock; senders wait outside the lock and the
    worker in `recv` empties the channel for them. -/
theorem no_deadlock (C N : Nat) (hC : 0 < C) (s : LState)
    (hreach : Reach CURRENT C (init N) s) (hnf : ¬ final s) : ∃ s', Step CURRENT C s s' :=
  progress_free (inv_reach (inv_init N) hreach) (noSend_reach (noSend_init N) hreach) hC hnf

/-- the same from the state in which all clients already hold the lock shared (the starting point of the old
    deadlock) -/
theorem no_deadlock_inside (C N : Nat) (hC : 0 < C) (s : LState)
    (hreach : Reach CURRENT C (initInside N) s) (hnf : ¬ final s) : ∃ s', Step CURRENT C s s' :=
  progress_free (inv_reach (inv_initInside N) hreach) (noSend_reach (noSend_initInside N) hreach) hC hnf

theorem no_stuck (C N : Nat) (hC : 0 < C) (s : LState) (hreach : Reach CURRENT C (init N) s) :
    ¬ Stuck CURRENT C s := by
  rintro ⟨hnf, hno⟩
  obtain ⟨s', hs⟩ := no_deadlock C N hC s hreach hnf
  exact hno s' hs

/-- C08/D2 (termination measure, both protocols): every step decreases `Lts.measure`; hence a schedule that
    is executable from `s` has at most `measure s` steps -/
theorem every_step_decreases (proto : Proto) (C : Nat) (s s' : LState) (h : Step proto C s s') :
    Lts.measure s' < Lts.measure s := measure_step h

theorem measure_init (N : Nat) : Lts.measure (init N) = 16 * N := by
  simp [Lts.measure, init, CPc.weight, WPc.weight, Nat.mul_comm]

theorem every_run_is_finite (proto : Proto) (C N : Nat) (sched : List Label) (s' : LState)
    (h : runSched proto C sched (init N) = some s') : sched.length ≤ 16 * N := by
  have := runSched_length_le sched (init N) s' h
  rw [measure_init] at this
  omega

/-- C08/D3: under `sendAfterRelease` every reachable state can be run to a final state: all clients done, the
    channel empty, the worker back in `recv` -/
theorem all_clients_finish (C N : Nat) (hC : 0 < C) (s : LState) (hreach : Reach CURRENT C (init N) s) :
    ∃ (sched : List Label) (s' : LState), runSched CURRENT C sched s = some s' ∧ final s' :=
  finish_of_progress (fun t => Reach CURRENT C (init N) t)
    (fun _ _ ht hs => .step ht hs)
    (fun t ht hnf => no_deadlock C N hC t ht hnf)
    (Lts.measure s) s (Nat.le_refl _) hreach

theorem all_clients_finish_inside (C N : Nat) (hC : 0 < C) (s : LState)
    (hreach : Reach CURRENT C (initInside N) s) :
    ∃ (sched : List Label) (s' : LState), runSched CURRENT C sched s = some s' ∧ final s' :=
  finish_of_progress (fun t => Reach CURRENT C (initInside N) t)
    (fun _ _ ht hs => .step ht hs)
    (fun t ht hnf => no_deadlock_inside C N hC t ht hnf)
    (Lts.measure s) s (Nat.le_refl _) hreach

/-- … and a run that cannot be continued has reached a final state: no execution ends anywhere else -/
theorem maximal_run_is_final (C N : Nat) (hC : 0 < C) (sched : List Label) (s : LState)
    (hrun : runSched CURRENT C sched (init N) = some s) (hmax : ∀ s', ¬ Step CURRENT C s s') : final s := by
  have hreach := runSched_reach CURRENT C sched (init N) (init N) s .refl hrun
  by_cases hf : final s
  · exact hf
  · obtain ⟨s', hs⟩ := no_deadlock C N hC s hreach hf
    exact absurd hs (hmax s')

/-- the deadlocked state of the old protocol cannot be reached any more -/
theorem old_deadlock_unreachable (C N : Nat) : ¬ Reach CURRENT C (initInside N) (witnessState C) := by
  intro h
  have := noSend_reach (noSend_initInside N) h
  apply this
  cases C <;> simp [witnessState]

-- non-vacuity: the workload of the old deadlock (`C = 2`, 4 writers into a full blob, everybody inside the
-- shared section) now runs to the end; the first prefix is the state in which the old protocol was stuck
-- in spirit: channel full, worker queued for the lock — but the blocked senders hold no lock
example : runSched CURRENT 2
      [.cAppend 0, .cAppend 1, .cAppend 2, .cAppend 3, .cRelease 0, .cRelease 1, .cRelease 2, .cSend 0, .cSend 1,
       .wRecv, .cSend 2] (initInside 4) =
    some { clients := [.done, .done, .done, .relSend], chan := 2, wpc := .waitWrite, readers := 1,
           writer := .waiting, full := true } := by decide
example : runSched CURRENT 2
      [.cAppend 0, .cAppend 1, .cAppend 2, .cAppend 3, .cRelease 0, .cRelease 1, .cRelease 2, .cSend 0, .cSend 1,
       .wRecv, .cSend 2, .cRelease 3, .wGrant, .wSwitch, .wRecv, .cSend 3, .wRecv, .wRecv] (initInside 4) =
    some { clients := [.done, .done, .done, .done], chan := 0, wpc := .recv, readers := 0,
           writer := .idle, full := false } := by decide
example : final { clients := [.done, .done, .done, .done], chan := 0, wpc := .recv, readers := 0,
                  writer := .idle, full := false } := by decide
-- a reachable non-final state exists (so `no_deadlock` says something), here with far more writers than slots
example : ∃ s, Reach CURRENT 1 (init 5) s ∧ ¬ final s := ⟨init 5, .refl, by decide⟩
-- the real channel, more writers than in the replayed hang (1100) and in the repaired run (3000)
example (s : LState) (h : Reach CURRENT 1024 (init 3000) s) : ¬ Stuck CURRENT 1024 s :=
  no_stuck 1024 3000 (by decide) s h
example : Lts.measure (initInside 4) = 48 ∧ Lts.measure (init 4) = 64 := by decide

/-! ## the pinned code (`sendUnderLock`): the deadlock, kept as the record of the defect -/

/-- for every channel capacity `C`, `C + 2` clients that are all inside the shared section of the storage lock
    can be scheduled into a deadlock.  The schedule is `witnessSched C` (built by recursion on `C` through
    `List.range'`), the deadlocked state is `witnessState C`: one client blocked in `send` on a full channel
    while holding the shared lock, the worker queued for the exclusive lock with one message in its hands,
    everybody else gone. -/
theorem deadlock_witness_before_fix :
    ∀ C : Nat, ∃ (sched : List Label) (s : LState),
      runSched .sendUnderLock C sched (initInside (C + 2)) = some s ∧ Stuck .sendUnderLock C s :=
  fun C => ⟨witnessSched C, witnessState C, witnessSched_runs C, witnessState_stuck .sendUnderLock C⟩

/-- the same, from the state in which no client has asked for the lock yet -/
theorem deadlock_witness_from_start_before_fix :
    ∀ C : Nat, ∃ (sched : List Label) (s : LState),
      runSched .sendUnderLock C sched (init (C + 2)) = some s ∧ Stuck .sendUnderLock C s := by
  intro C
  refine ⟨(List.range' 0 (C + 2)).map .cAcquire ++ witnessSched C, witnessState C, ?_,
    witnessState_stuck .sendUnderLock C⟩
  rw [runSched_append, init_to_inside]
  exact witnessSched_runs C

/-- in terms of reachability -/
theorem deadlock_reachable_before_fix (C : Nat) :
    ∃ s, Reach .sendUnderLock C (initInside (C + 2)) s ∧ Stuck .sendUnderLock C s :=
  ⟨witnessState C, runSched_reach .sendUnderLock C _ _ _ _ .refl (witnessSched_runs C),
    witnessState_stuck .sendUnderLock C⟩

-- non-vacuity: the schedule for `C = 2` (4 clients), step by step, and its last state
example : witnessSched 2 =
    [.cAppend 0, .cAppend 1, .cAppend 2, .cAppend 3, .cSend 0, .cSend 1, .wRecv, .cSend 2,
     .cRelease 0, .cRelease 1, .cRelease 2] := by decide
example : runSched .sendUnderLock 2 (witnessSched 2) (initInside 4) =
    some { clients := [.done, .done, .done, .send], chan := 2, wpc := .waitWrite, readers := 1,
           writer := .waiting, full := true } := by decide
-- the stuck state is not final, and e.g. the blocked client really cannot send, the worker cannot be granted
example : ¬ final (witnessState 2) := by decide
example : fire .sendUnderLock 2 (.cSend 3) (witnessState 2) = none ∧
    fire .sendUnderLock 2 .wGrant (witnessState 2) = none := by decide
-- the capacity of the real channel
example : ∃ sched s, runSched .sendUnderLock 1024 sched (initInside 1026) = some s ∧ Stuck .sendUnderLock 1024 s :=
  deadlock_witness_before_fix 1024

/-- with at most `C + 1` clients (all inside the shared section) the old protocol had no deadlock: every
    reachable state that is not final has a successor.  (`0 < C`: tokio's `channel(0)` panics; a zero-capacity
    channel in this model never transmits.)

    Invariant (`Lts.Inv`): `chan + (1 if the worker has a message in its hands) ≤ #release + #done` — a message
    exists only if its sender is past `send`.  A blocked sender therefore sees `chan + busy ≤ N - 1 ≤ C`: either
    the channel has room, or the worker is in `recv` with a non-empty channel. -/
theorem no_deadlock_bounded_before_fix (C N : Nat) (hC : 0 < C) (hN : N ≤ C + 1) (s : LState)
    (hreach : Reach .sendUnderLock C (initInside N) s) (hnf : ¬ final s) : ∃ s', Step .sendUnderLock C s s' :=
  progress (inv_reach (inv_initInside N) hreach) hC hN hnf

theorem no_stuck_bounded_before_fix (C N : Nat) (hC : 0 < C) (hN : N ≤ C + 1) (s : LState)
    (hreach : Reach .sendUnderLock C (initInside N) s) : ¬ Stuck .sendUnderLock C s := by
  rintro ⟨hnf, hno⟩
  obtain ⟨s', hs⟩ := no_deadlock_bounded_before_fix C N hC hN s hreach hnf
  exact hno s' hs

/-- the same when the clients have yet to take the shared lock (late readers queue behind the writer) -/
theorem no_deadlock_bounded_from_start_before_fix (C N : Nat) (hC : 0 < C) (hN : N ≤ C + 1) (s : LState)
    (hreach : Reach .sendUnderLock C (init N) s) (hnf : ¬ final s) : ∃ s', Step .sendUnderLock C s s' :=
  progress (inv_reach (inv_init N) hreach) hC hN hnf

-- non-vacuity: `C = 2`, `N = 3` runs to the end under the old protocol
example : runSched .sendUnderLock 2 [.cAppend 0, .cAppend 1, .cAppend 2, .cSend 0, .cSend 1, .wRecv, .cSend 2,
      .cRelease 0, .cRelease 1, .cRelease 2, .wGrant, .wSwitch, .wRecv, .wRecv] (initInside 3) =
    some { clients := [.done, .done, .done], chan := 0, wpc := .recv, readers := 0, writer := .idle,
           full := false } := by decide
example : ∃ s, Reach .sendUnderLock 2 (initInside 3) s ∧ ¬ final s :=
  ⟨initInside 3, .refl, by decide⟩
-- the threshold was exact: `N = C + 1` safe, `N = C + 2` not
example (C : Nat) (hC : 0 < C) :
    (∀ s, Reach .sendUnderLock C (initInside (C + 1)) s → ¬ Stuck .sendUnderLock C s) ∧
    (∃ s, Reach .sendUnderLock C (initInside (C + 2)) s ∧ Stuck .sendUnderLock C s) :=
  ⟨fun s h => no_stuck_bounded_before_fix C (C + 1) hC (Nat.le_refl _) s h, deadlock_reachable_before_fix C⟩

/-! ## independent of the protocol -/

/-- the lock is a lock: in every reachable state (either protocol, any number of clients) the worker is inside
    its exclusive section only while no client is inside the shared one, and the readers count is exactly the
    number of clients between `acquire` and `release` -/
theorem rw_exclusion (proto : Proto) (C N : Nat) (s : LState) (hreach : Reach proto C (init N) s) :
    (s.writer = .holding → s.readers = 0) ∧
    s.readers = s.clients.count .append + s.clients.count .send + s.clients.count .release +
      s.clients.count .relSend := by
  have hi := inv_reach (inv_init N) hreach
  refine ⟨?_, hi.readers⟩
  intro hw
  apply hi.excl
  have := hi.writer
  cases hwp : s.wpc <;> simp [hwp, writerOf, hw] at this ⊢

-- non-vacuity: a reachable state in which the worker does hold the lock, under each protocol
example : (runSched .sendUnderLock 1 [.cAcquire 0, .cAppend 0, .cSend 0, .wRecv, .cRelease 0, .wGrant] (init 1)).map
    (·.writer) = some .holding := by decide
example : (runSched .sendAfterRelease 1 [.cAcquire 0, .cAppend 0, .cRelease 0, .cSend 0, .wRecv, .wGrant] (init 1)).map
    (·.writer) = some .holding := by decide
-- writer preference: while the worker waits, a late client cannot take the lock shared
example : (runSched .sendAfterRelease 1 [.cAcquire 0, .cAppend 0, .cRelease 0, .cSend 0, .cAcquire 1, .wRecv]
      (init 3)).bind (fire .sendAfterRelease 1 (.cAcquire 2)) = none := by decide

/-! ## the append critical section -/

/-- C08/A1 (`ranges_disjoint`): offsets reserved by successive `fetch_add len` on the file size, starting from
    any size and for any lengths, give ranges `[off, off + len)` that are pairwise disjoint — they are laid out
    one after the other in the order the atomic operations took effect, start at or after the old size, and
    end at the new size. -/
theorem ranges_disjoint (size : Nat) (lens : List Nat) :
    (reserveAll size lens).Pairwise Range.Disjoint ∧
    (reserveAll size lens).Pairwise (fun a b => a.stop ≤ b.off) ∧
    (∀ r ∈ reserveAll size lens, size ≤ r.off ∧ r.stop ≤ size + lens.sum) ∧
    (reserveAll size lens).map (·.len) = lens := by
  refine ⟨?_, reserveAll_sorted lens size, ?_, reserveAll_lens lens size⟩
  · exact (reserveAll_sorted lens size).imp (fun h => Or.inl h)
  · intro r hr
    exact ⟨reserveAll_off_ge lens size r hr, reserveAll_stop_le lens size r hr⟩

-- non-vacuity
example : reserveAll 100 [10, 0, 5] = [⟨100, 10⟩, ⟨110, 0⟩, ⟨110, 5⟩] := by decide
example : ¬ Range.Disjoint ⟨100, 10⟩ ⟨105, 10⟩ := by simp [Range.Disjoint, Range.stop]

/-- C08/A2: for ANY interleaving of the writers' steps (lock, `fetch_add`, `write_all_at`, unlock), with or
    without the upgradable lock, the ranges owned by different writers never share a byte, and every range
    lies inside the file -/
theorem ranges_disjoint_interleaved (useLock : Bool) (size : Nat) (lens : List Nat) (s : AState)
    (hreach : AReach useLock (ainit size lens) s) :
    (∀ i j ri rj, i ≠ j → rng s.ws i = some ri → rng s.ws j = some rj → ri.Disjoint rj) ∧
    (∀ i r, rng s.ws i = some r → r.stop ≤ s.size) :=
  let h := ainv_reach (ainv_init size lens) hreach
  ⟨h.disj, h.bound⟩

/-- C08/A3: records never overlap in the file: once a writer's bytes have landed (`written` / `done`) every
    byte of its range still carries its mark, whatever the other writers did since; and every byte in the file
    lies in the range of the writer that wrote it -/
theorem written_bytes_intact (useLock : Bool) (size : Nat) (lens : List Nat) (s : AState)
    (hreach : AReach useLock (ainit size lens) s) :
    (∀ i pc r, s.ws[i]? = some pc → pc.landed = some r → ∀ o, r.off ≤ o → o < r.stop → s.file o = some i) ∧
    (∀ o i, s.file o = some i → ∃ r, rng s.ws i = some r ∧ r.off ≤ o ∧ o < r.stop) :=
  let h := ainv_reach (ainv_init size lens) hreach
  ⟨h.intact, h.own⟩

/-- C08/A4 (`append_cs_atomic`): under the upgradable lock at most one writer is between `lock` and `unlock`
    (so reservation order = file order = index push order), and whoever is inside holds the lock -/
theorem append_cs_atomic (size : Nat) (lens : List Nat) (s : AState)
    (hreach : AReach true (ainit size lens) s) :
    (∀ (i j : Nat) (pi pj : APc), s.ws[i]? = some pi → s.ws[j]? = some pj →
        pi.inCs = true → pj.inCs = true → i = j) ∧
    (∀ (i : Nat) (pi : APc), s.ws[i]? = some pi → pi.inCs = true → s.locked = true) :=
  let h := aexcl_reach (aexcl_init size lens) hreach
  ⟨h.one, h.held⟩

/-- run a schedule of the append system -/
def arun (useLock : Bool) : List ALabel → AState → Option AState
  | [], s => some s
  | l :: ls, s => match afire useLock l s with
    | some s' => arun useLock ls s'
    | none => none

theorem arun_reach (ul : Bool) (sched : List ALabel) (s0 s s' : AState)
    (h0 : AReach ul s0 s) (h : arun ul sched s = some s') : AReach ul s0 s' := by
  induction sched generalizing s with
  | nil => simp [arun] at h; subst h; exact h0
  | cons l ls ih =>
    simp only [arun] at h
    cases hf : afire ul l s with
    | none => simp [hf] at h
    | some s1 => simp only [hf] at h; exact ih s1 (.step h0 ⟨l, hf⟩) h

-- non-vacuity: without the lock two writers interleave `reserve`/`write` in opposite orders; their ranges are
-- different and disjoint, and the file carries both marks
example :
    ((arun false [.lock 0, .lock 1, .reserve 1, .reserve 0, .write 0, .write 1] (ainit 7 [3, 2])).map
      (fun s => (s.size, s.ws, [s.file 7, s.file 8, s.file 9, s.file 10, s.file 11, s.file 12]))) =
    some (12, [.written ⟨9, 3⟩, .written ⟨7, 2⟩], [some 1, some 1, some 0, some 0, some 0, none]) := by decide
-- with the lock the second writer cannot enter while the first is inside …
example : (arun true [.lock 0, .lock 1] (ainit 7 [3, 2])).isNone = true := by decide
-- … and can after it left
example : ((arun true [.lock 0, .reserve 0, .write 0, .unlock 0, .lock 1, .reserve 1] (ainit 7 [3, 2])).map
      (fun s => (s.locked, s.ws))) = some (true, [.done ⟨7, 3⟩, .reserved ⟨10, 2⟩]) := by decide


/-! ## concurrent reads, writes, probes and deletes (`Pearl.ConcRW`, `Pearl/Model/ConcRW.lean`)

`N` clients, one operation each (`write k ts d | read k | contains k | delete k ts oip`), split into the atomic
steps of the code, over the L2 store; a worker that rotates the active blob whenever nobody holds the storage
lock shared, and dumps indexes at any time.  All theorems are for every reachable state = every schedule, every
`N`, every starting store that is well-formed and has an active blob.

What was found in `/repo` (fe5e781) while building the model:
* a read keeps ONE shared guard of `Inner::safe` over both look-ups and the data load
  (`read_with_optional_meta`: `let safe = self.inner.safe.read().await; get_latest_entry(&safe, ..)`, guard dropped
  at return), and rotation needs `safe.write()`: no rotation inside a read.  But the read is not a snapshot: the
  guard of the active blob (`ablob.read().await`) is a temporary dropped before `safe.blobs.read().await`; a
  writer (`upgradable_read`) or deleter (`active_blob.write()`, `blobs.write()`) gets in between.
  Freshness (`read_fresh`) survives this; linearizability does not (`read_not_linearizable_with_delete`).
* `write_with_optional_meta` checks for a duplicate under its own guard (`contains_with`) and appends under a
  second one: with `allow_duplicates = false` two concurrent writes of one key are both stored
  (`duplicate_check_race`).
* `delete_core` marks the active blob, releases its lock, then takes `blobs.write()`: two deletes can pass each
  other between the phases (`delete_phase_race`).
-/

open ConcRW (COp Resp Ev Client CState Wit InStore AckedBefore LinBefore wrec)

/-- C08/R1 (`read_returns_written`): in every reachable state, for every schedule and any number of clients, a
    completed `read k` answers with a `ReadResult` (never `torn`: the bytes a found header points to are in the
    file), and if it is `Found r` then `r` is a live record of key `k` that the store holds, and it was either in
    the store from the start or is exactly the record `wrec k ts d` of a client `j` whose operation is
    `write k ts d` and which has pushed it (`Ev.push j r` is in the trace). -/
theorem read_returns_written {st : Store} {ops : List COp} {s : CState} (hwf : st.WF)
    (ha : ∃ a, st.active = some a) (hr : ConcRW.Reach (ConcRW.init st ops) s)
    {i : Nat} {c : Client} {k : Key} {resp : Resp}
    (hc : s.clients[i]? = some c) (hop : c.op = .read k) (hd : c.pc = .done resp) :
    ∃ res, resp = .value res ∧
      ∀ r, res = .found r →
        r.key = k ∧ r.del = false ∧ r ∈ s.landed ∧ InStore s.store r ∧
          (InStore st r ∨
            ∃ j ts d, ops[j]? = some (COp.write k ts d) ∧ r = wrec k ts d ∧ Ev.push j r ∈ s.trace) := by
  obtain ⟨a, ha⟩ := ha
  obtain ⟨hi, ht⟩ := ConcRW.tinv_reach hwf ha hr
  have hok := ConcRW.done_respOK hi hc hd
  cases resp with
  | value res =>
    refine ⟨res, rfl, ?_⟩
    rintro r rfl
    obtain ⟨_, hres, hland⟩ := hok
    obtain ⟨q, hq1, hq2, hq3, hq4⟩ := hres.1 (by simp)
    rw [hop] at hq2
    have hin : InStore s.store r := by rw [← hq3]; exact ConcRW.inStore_of_positioned hq1
    have hk : r.key = k := by rw [← hq3]; exact hq2
    refine ⟨hk, hq4, hland r rfl, hin, ?_⟩
    rcases ht.prov r hin hq4 with h1 | ⟨j, h1⟩
    · exact Or.inl h1
    · obtain ⟨k', ts, d, h2, h3⟩ := ht.push j r h1
      have : k' = k := by rw [h3] at hk; exact hk
      subst this
      exact Or.inr ⟨j, ts, d, h2, h3, h1⟩
  | torn => exact absurd hok id
  | has x => obtain ⟨⟨k', hk'⟩, _⟩ := hok; rw [hop] at hk'; cases hk'
  | wrote p =>
    cases p with
    | none => obtain ⟨⟨k', ts, d, hk'⟩, _⟩ := hok; rw [hop] at hk'; cases hk'
    | some p => obtain ⟨_, k', ts, d, hk', _⟩ := hok; rw [hop] at hk'; cases hk'
  | deleted n => obtain ⟨k', ts, oip, hk'⟩ := hok; rw [hop] at hk'; cases hk'

/-- C08/R2 (`read_fresh`): if write `w` stored its record at `p` and was acknowledged before read `r` of the same
    key was invoked (`AckedBefore w r`), then `r` does not answer `NotFound`: its answer classifies a record `q` of
    that key in the store (`Wit`: for `Found x`, `q.r = x` live; for `Deleted t`, `q` is a marker with timestamp
    `t` — the Spec's deletion semantics: the first-ranked record decides) and `q` is ranked at least as high as
    `p` (timestamp, then blob id, then position).  This holds although a read is NOT an atomic snapshot (active
    blob first, closed blobs later, writes and deletes in between): see `read_not_linearizable_with_delete`. -/
theorem read_fresh {st : Store} {ops : List COp} {s : CState} (hwf : st.WF)
    (ha : ∃ a, st.active = some a) (hr : ConcRW.Reach (ConcRW.init st ops) s)
    {w r : Nat} {cw cr : Client} {k : Key} {p : PRec} {resp : Resp}
    (hab : AckedBefore w r s.trace)
    (hcw : s.clients[w]? = some cw) (hw : cw.pc = .done (.wrote (some p))) (hpk : p.r.key = k)
    (hcr : s.clients[r]? = some cr) (hop : cr.op = .read k) (hd : cr.pc = .done resp) :
    ∃ res q, resp = .value res ∧ Wit s.store k res q ∧ rankLe q p = true := by
  obtain ⟨a, ha⟩ := ha
  obtain ⟨hi, ht⟩ := ConcRW.tinv_reach hwf ha hr
  have hok := ConcRW.done_respOK hi hcr hd
  have hp := ht.acked w r cw cr p hab hcw hcr hw
  cases resp with
  | value res =>
    obtain ⟨_, hres, _⟩ := hok
    rw [hop] at hres
    obtain ⟨q, hq, hle⟩ := hres.2 p hp hpk
    exact ⟨res, q, rfl, hq, hle⟩
  | torn => exact absurd hok id
  | has x => obtain ⟨⟨k', hk'⟩, _⟩ := hok; rw [hop] at hk'; cases hk'
  | wrote p =>
    cases p with
    | none => obtain ⟨⟨k', ts, d, hk'⟩, _⟩ := hok; rw [hop] at hk'; cases hk'
    | some p => obtain ⟨_, k', ts, d, hk', _⟩ := hok; rw [hop] at hk'; cases hk'
  | deleted n => obtain ⟨k', ts, oip, hk'⟩ := hok; rw [hop] at hk'; cases hk'

theorem rankLe_ts {q p : PRec} (h : rankLe q p = true) : p.r.ts ≤ q.r.ts := by
  rw [rankLe_iff, rankBefore_iff] at h
  omega

/-- `read_fresh`, timestamp form: the answer carries a timestamp, and it is not older than the write's -/
theorem read_fresh_ts {st : Store} {ops : List COp} {s : CState} (hwf : st.WF)
    (ha : ∃ a, st.active = some a) (hr : ConcRW.Reach (ConcRW.init st ops) s)
    {w r : Nat} {cw cr : Client} {k : Key} {p : PRec} {resp : Resp}
    (hab : AckedBefore w r s.trace)
    (hcw : s.clients[w]? = some cw) (hw : cw.pc = .done (.wrote (some p))) (hpk : p.r.key = k)
    (hcr : s.clients[r]? = some cr) (hop : cr.op = .read k) (hd : cr.pc = .done resp) :
    ∃ res t, resp = .value res ∧ res.ts? = some t ∧ p.r.ts ≤ t := by
  obtain ⟨res, q, h1, h2, h3⟩ := read_fresh hwf ha hr hab hcw hw hpk hcr hop hd
  have hts := rankLe_ts h3
  obtain ⟨_, _, h4⟩ := h2
  cases res with
  | found x => exact ⟨_, x.ts, h1, rfl, by rw [← h4.1]; exact hts⟩
  | deleted t => exact ⟨_, t, h1, rfl, by rw [← h4.2]; exact hts⟩
  | notFound => exact absurd h4 id

/-- `read_fresh` absent a delete: if the store holds no marker of the key, the read finds a value, not older than
    the acknowledged write -/
theorem read_fresh_found {st : Store} {ops : List COp} {s : CState} (hwf : st.WF)
    (ha : ∃ a, st.active = some a) (hr : ConcRW.Reach (ConcRW.init st ops) s)
    {w r : Nat} {cw cr : Client} {k : Key} {p : PRec} {resp : Resp}
    (hab : AckedBefore w r s.trace)
    (hcw : s.clients[w]? = some cw) (hw : cw.pc = .done (.wrote (some p))) (hpk : p.r.key = k)
    (hcr : s.clients[r]? = some cr) (hop : cr.op = .read k) (hd : cr.pc = .done resp)
    (hnm : ∀ x, InStore s.store x → x.key = k → x.del = false) :
    ∃ x, resp = .value (.found x) ∧ x.key = k ∧ p.r.ts ≤ x.ts := by
  obtain ⟨res, q, h1, h2, h3⟩ := read_fresh hwf ha hr hab hcw hw hpk hcr hop hd
  have hts := rankLe_ts h3
  obtain ⟨hq1, hq2, h4⟩ := h2
  cases res with
  | found x => exact ⟨x, h1, by rw [← h4.1]; exact hq2, by rw [← h4.1]; exact hts⟩
  | deleted t =>
    have := hnm q.r (ConcRW.inStore_of_positioned hq1) hq2
    rw [h4.1] at this; cases this
  | notFound => exact absurd h4 id

/-- the same for `contains` -/
theorem contains_fresh {st : Store} {ops : List COp} {s : CState} (hwf : st.WF)
    (ha : ∃ a, st.active = some a) (hr : ConcRW.Reach (ConcRW.init st ops) s)
    {w r : Nat} {cw cr : Client} {k : Key} {p : PRec} {resp : Resp}
    (hab : AckedBefore w r s.trace)
    (hcw : s.clients[w]? = some cw) (hw : cw.pc = .done (.wrote (some p))) (hpk : p.r.key = k)
    (hcr : s.clients[r]? = some cr) (hop : cr.op = .contains k) (hd : cr.pc = .done resp) :
    ∃ res q, resp = .has (res.map (·.ts)) ∧ Wit s.store k res q ∧ rankLe q p = true := by
  obtain ⟨a, ha⟩ := ha
  obtain ⟨hi, ht⟩ := ConcRW.tinv_reach hwf ha hr
  have hok := ConcRW.done_respOK hi hcr hd
  have hp := ht.acked w r cw cr p hab hcw hcr hw
  cases resp with
  | has x =>
    obtain ⟨_, res, h1, hres⟩ := hok
    rw [hop] at hres
    obtain ⟨q, hq, hle⟩ := hres.2 p hp hpk
    exact ⟨res, q, by rw [h1], hq, hle⟩
  | torn => exact absurd hok id
  | value x => obtain ⟨⟨k', hk'⟩, _⟩ := hok; rw [hop] at hk'; cases hk'
  | wrote p =>
    cases p with
    | none => obtain ⟨⟨k', ts, d, hk'⟩, _⟩ := hok; rw [hop] at hk'; cases hk'
    | some p => obtain ⟨_, k', ts, d, hk', _⟩ := hok; rw [hop] at hk'; cases hk'
  | deleted n => obtain ⟨k', ts, oip, hk'⟩ := hok; rw [hop] at hk'; cases hk'

theorem respOf_done {s : CState} {i : Nat} {c : Client} {r : Resp} (hc : s.clients[i]? = some c)
    (hd : c.pc = .done r) : ConcRW.respOf s i = some r := by
  obtain ⟨op, pc, born⟩ := c
  simp only at hd
  subst hd
  simp [ConcRW.respOf, hc]

theorem respOf_some {s : CState} {i : Nat} {r : Resp} (h : ConcRW.respOf s i = some r) :
    ∃ c, s.clients[i]? = some c ∧ c.pc = .done r := by
  unfold ConcRW.respOf at h
  split at h
  · rename_i op r' born hc
    simp only [Option.some.injEq] at h
    subst h
    exact ⟨_, hc, rfl⟩
  · cases h

/-- `read_fresh` in terms of the responses and the operation list -/
theorem read_fresh_resp {st : Store} {ops : List COp} {s : CState} (hwf : st.WF)
    (ha : ∃ a, st.active = some a) (hr : ConcRW.Reach (ConcRW.init st ops) s)
    {w r : Nat} {k : Key} {p : PRec} {resp : Resp}
    (hab : AckedBefore w r s.trace) (hw : ConcRW.respOf s w = some (.wrote (some p))) (hpk : p.r.key = k)
    (hop : ops[r]? = some (.read k)) (hd : ConcRW.respOf s r = some resp) :
    ∃ res q, resp = .value res ∧ Wit s.store k res q ∧ rankLe q p = true := by
  obtain ⟨cw, hcw, hwd⟩ := respOf_some hw
  obtain ⟨cr, hcr, hrd⟩ := respOf_some hd
  obtain ⟨a, ha'⟩ := ha
  have ht := (ConcRW.tinv_reach hwf ha' hr).2
  have hcop : cr.op = .read k := by
    have := ConcRW.ops_getElem? ht hcr
    rw [hop] at this
    exact (Option.some.inj this).symm
  exact read_fresh hwf ⟨a, ha'⟩ hr hab hcw hwd hpk hcr hcop hrd

/-- C08/R3 (`no_lost_ack`): a write whose response `Ok(())` is in the history with a place `p` (it stored; the
    place is ghost) belongs to a `write k ts d` client, `p.r` is exactly that record, its push is in the trace, and
    the record stays at that place (same blob id, same position) in EVERY later state: rotations, dumps, other
    writes and deletes never remove or move it. -/
theorem no_lost_ack {st : Store} {ops : List COp} {s : CState} (hwf : st.WF)
    (ha : ∃ a, st.active = some a) (hr : ConcRW.Reach (ConcRW.init st ops) s)
    {i : Nat} {p : PRec} (hack : Ev.res i (.wrote (some p)) ∈ s.trace) :
    (∃ k ts d, ops[i]? = some (COp.write k ts d) ∧ p.r = wrec k ts d) ∧ Ev.push i p.r ∈ s.trace ∧
      ∀ s', ConcRW.Reach s s' → p ∈ History.positioned s'.store.history := by
  obtain ⟨a, ha⟩ := ha
  obtain ⟨hi, ht⟩ := ConcRW.tinv_reach hwf ha hr
  obtain ⟨c, hc, hd⟩ := ht.res i _ hack
  obtain ⟨hp, k, ts, d, hop, hpr⟩ := ConcRW.done_respOK hi hc hd
  refine ⟨⟨k, ts, d, by rw [ConcRW.ops_getElem? ht hc, hop], hpr⟩, ?_, ?_⟩
  · exact (ConcRW.hinv_reach hr).pushed i c p hc (by rw [hd]; rfl)
  · intro s' hr'
    exact ConcRW.reach_sub hi hr' p hp

/-- … and a sequential read of that key, in every later state, answers with that record or a higher-ranked
    one (a marker included) -/
theorem acked_write_readable {st : Store} {ops : List COp} {s : CState} (hwf : st.WF)
    (ha : ∃ a, st.active = some a) (hr : ConcRW.Reach (ConcRW.init st ops) s)
    {i : Nat} {p : PRec} (hack : Ev.res i (.wrote (some p)) ∈ s.trace) (s' : CState) (hr' : ConcRW.Reach s s') :
    ∃ q, Wit s'.store p.r.key (s'.store.read p.r.key none) q ∧ rankLe q p = true := by
  have hp := (no_lost_ack hwf ha hr hack).2.2 s' hr'
  obtain ⟨a, ha⟩ := ha
  have hi' := (ConcRW.tinv_reach hwf ha (ConcRW.reach_trans hr hr')).1
  exact (ConcRW.getLatestEntry_resOK hi'.wf p.r.key).2 p hp rfl

/-- a write that was acknowledged without storing anything saw a live record of its key -/
theorem skipped_write_saw_live {st : Store} {ops : List COp} {s : CState} (hwf : st.WF)
    (ha : ∃ a, st.active = some a) (hr : ConcRW.Reach (ConcRW.init st ops) s)
    {i : Nat} (hack : Ev.res i (.wrote none) ∈ s.trace) :
    ∃ k ts d, ops[i]? = some (COp.write k ts d) ∧ ∃ q x, Wit s.store k (.found x) q := by
  obtain ⟨a, ha⟩ := ha
  obtain ⟨hi, ht⟩ := ConcRW.tinv_reach hwf ha hr
  obtain ⟨c, hc, hd⟩ := ht.res i _ hack
  obtain ⟨⟨k, ts, d, hop⟩, q, x, hq⟩ := ConcRW.done_respOK hi hc hd
  rw [hop] at hq
  exact ⟨k, ts, d, by rw [ConcRW.ops_getElem? ht hc, hop], q, x, hq⟩

/-- C08/R4a: in every reachable state the store is the replay, on the starting store, of the trace's mutation
    events in the order they took effect (`push` = the index push of a write, the two marker phases of a delete,
    rotation, dump); it is well-formed, so by C01 every sequential read on it answers per `Spec` -/
theorem store_eq_replay {st : Store} {ops : List COp} {s : CState} (hwf : st.WF)
    (ha : ∃ a, st.active = some a) (hr : ConcRW.Reach (ConcRW.init st ops) s) :
    s.store = ConcRW.replay st s.trace ∧ s.store.WF ∧
      ∀ k, s.store.read k none = (Spec.latest s.store.history k).map (·.r) := by
  obtain ⟨a, ha⟩ := ha
  obtain ⟨hi, ht⟩ := ConcRW.tinv_reach hwf ha hr
  exact ⟨ht.replay, hi.wf, fun k => read_eq_spec hi.wf k⟩

/-- … and that replay is a run of the sequential model `Store.run` on the operations the events stand for
    (`Store.write` per push, `Store.delete` per pair of delete phases, `replaceActive`, `settle`), provided
    (1) the two phases of every delete are adjacent among the mutations (`coalesce` succeeds) and
    (2) no write is one that the sequential duplicate check would have skipped (`NoSkip`). -/
theorem equals_sequential_partial {st : Store} {ops : List COp} {s : CState} (hwf : st.WF)
    (ha : ∃ a, st.active = some a) (hr : ConcRW.Reach (ConcRW.init st ops) s) {seq : List Op}
    (hc : ConcRW.coalesce (ConcRW.muts s.trace) = some seq) (hns : ConcRW.NoSkip st seq) :
    s.store = st.run seq := by
  obtain ⟨a, ha⟩ := ha
  obtain ⟨hi, ht⟩ := ConcRW.tinv_reach hwf ha hr
  rw [ht.replay, ConcRW.replay_eq_muts]
  refine ConcRW.applyAll_eq_run _ _ _ hc hns ⟨a, ha⟩ ?_
  intro i r hm
  have : Ev.push i r ∈ s.trace := by
    simp only [ConcRW.muts, List.mem_filter, List.mem_reverse] at hm
    exact hm.1
  obtain ⟨k, ts, d, _, rfl⟩ := ht.push i r this
  rfl

/-- C08/R4 (`quiescent_equals_sequential`, under the two hypotheses above; both are needed, see
    `duplicate_check_race` and `delete_phase_race`): when every client has returned, the store equals the
    sequential model run over the writes/deletes in the order of their linearization points; every `write` client
    either has its record pushed (and then it is one of the writes of that run) or was acknowledged as a duplicate;
    and every later sequential `read`/`contains` answers per `Spec` on that run's history (C01). -/
theorem quiescent_equals_sequential_partial {st : Store} {ops : List COp} {s : CState} (hwf : st.WF)
    (ha : ∃ a, st.active = some a) (hr : ConcRW.Reach (ConcRW.init st ops) s) (hq : ConcRW.quiescent s)
    {seq : List Op} (hc : ConcRW.coalesce (ConcRW.muts s.trace) = some seq) (hns : ConcRW.NoSkip st seq) :
    s.store = st.run seq ∧
      (∀ i k ts d, ops[i]? = some (COp.write k ts d) →
        Ev.push i (wrec k ts d) ∈ s.trace ∨ ConcRW.respOf s i = some (.wrote none)) ∧
      (∀ k, s.store.read k none = (Spec.latest (st.run seq).history k).map (·.r)) ∧
      (∀ k, s.store.contains k = (Spec.latest (st.run seq).history k).map (·.r.ts)) := by
  have heq := equals_sequential_partial hwf ha hr hc hns
  obtain ⟨a, ha⟩ := ha
  obtain ⟨hi, ht⟩ := ConcRW.tinv_reach hwf ha hr
  refine ⟨heq, ?_, ?_, ?_⟩
  · intro i k ts d hop
    have hlen : i < s.clients.length := by
      have : i < ops.length := by
        rcases Nat.lt_or_ge i ops.length with h | h
        · exact h
        · rw [List.getElem?_eq_none h] at hop; cases hop
      rw [← ht.opsEq, List.length_map] at this
      exact this
    obtain ⟨c, hc'⟩ : ∃ c, s.clients[i]? = some c := ⟨s.clients[i], List.getElem?_eq_getElem hlen⟩
    have hcop : c.op = .write k ts d := by
      have := ConcRW.ops_getElem? ht hc'
      rw [hop] at this
      exact (Option.some.inj this).symm
    obtain ⟨r, hd⟩ := hq c (List.mem_of_getElem? hc')
    have hok := ConcRW.done_respOK hi hc' hd
    cases r with
    | wrote p =>
      cases p with
      | none => exact Or.inr (respOf_done hc' hd)
      | some p =>
        left
        have := (ConcRW.hinv_reach hr).pushed i c p hc' (by rw [hd]; rfl)
        obtain ⟨_, k', ts', d', h1, h2⟩ := hok
        rw [hcop] at h1
        cases h1
        rw [← h2]; exact this
    | value res => obtain ⟨⟨k', hk'⟩, _⟩ := hok; rw [hcop] at hk'; cases hk'
    | torn => exact absurd hok id
    | has x => obtain ⟨⟨k', hk'⟩, _⟩ := hok; rw [hcop] at hk'; cases hk'
    | deleted n => obtain ⟨k', ts', oip, hk'⟩ := hok; rw [hcop] at hk'; cases hk'
  · intro k
    rw [← heq]
    exact read_eq_spec hi.wf k
  · intro k
    rw [← heq]
    exact contains_eq_spec hi.wf k

/-- C08/R4 without side conditions: duplicates allowed, no deletes -/
theorem quiescent_equals_sequential {st : Store} {ops : List COp} {s : CState} (hwf : st.WF)
    (ha : ∃ a, st.active = some a) (hdup : st.allowDup = true) (hdf : ∀ op ∈ ops, op.isDelete = false)
    (hr : ConcRW.Reach (ConcRW.init st ops) s) :
    ∃ seq, ConcRW.coalesce (ConcRW.muts s.trace) = some seq ∧ s.store = st.run seq := by
  obtain ⟨a, ha'⟩ := ha
  obtain ⟨hi, ht⟩ := ConcRW.tinv_reach hwf ha' hr
  have hmem : ∀ e, e ∈ ConcRW.muts s.trace → e ∈ s.trace ∧ e.mutates = true := by
    intro e he
    simp only [ConcRW.muts, List.mem_filter, List.mem_reverse] at he
    exact he
  have hnodel : ∀ j k ts, ((∃ oip, Ev.delA j k ts oip ∈ s.trace) ∨ Ev.delC j k ts ∈ s.trace) → False := by
    intro j k ts h
    obtain ⟨oip, ho⟩ := ht.del j k ts h
    have := hdf _ (List.mem_of_getElem? ho)
    cases this
  obtain ⟨seq, hs⟩ := ConcRW.coalesce_of_noDel (ConcRW.muts s.trace) (fun e he => (hmem e he).2)
    (fun e he i k ts oip hx => hnodel i k ts (Or.inl ⟨oip, hx ▸ (hmem e he).1⟩))
    (fun e he i k ts hx => hnodel i k ts (Or.inr (hx ▸ (hmem e he).1)))
  exact ⟨seq, hs, equals_sequential_partial hwf ⟨a, ha'⟩ hr hs (ConcRW.noSkip_of_allowDup _ _ _ hs hdup)⟩

/-- C08/R5a (`real_time_order`, deletes included): the order of the linearization events in the trace (write: its
    push; read / `contains` / skipped write: its first look-up; delete: its first marker phase) extends real time:
    if `i` got its response before `j` was invoked, then `i`'s point precedes `j`'s -/
theorem real_time_order {st : Store} {ops : List COp} {s : CState}
    (hr : ConcRW.Reach (ConcRW.init st ops) s) {i j : Nat} {cj : Client}
    (hcj : s.clients[j]? = some cj) (hl : cj.pc.hasLin = true) (hab : AckedBefore i j s.trace) :
    LinBefore i j s.trace :=
  let hh := ConcRW.hinv_reach hr
  ConcRW.ackedBefore_linBefore hh.ok (hh.lin j cj hcj hl) hab

/-- C08/R5 (`linearizable`, for systems without `delete` operations): every completed operation has its
    linearization event in the trace (between its invocation and its response, `real_time_order`), a client looks
    at most once, and the answer is the sequential model's answer on the store replayed up to that event:
    `read` → `Store.read`, `contains` → `Store.contains`, a skipped `write` → the duplicate check of `Store.write`
    succeeds there; a stored write's push is in the trace (`store_eq_replay`: it is an append there). -/
theorem linearizable_partial {st : Store} {ops : List COp} {s : CState} (hwf : st.WF)
    (ha : ∃ a, st.active = some a) (hdf : ∀ op ∈ ops, op.isDelete = false)
    (hr : ConcRW.Reach (ConcRW.init st ops) s) {i : Nat} {c : Client} {r : Resp}
    (hc : s.clients[i]? = some c) (hd : c.pc = .done r) :
    (∃ x ∈ s.trace, Ev.linOf i x = true) ∧ s.trace.count (.look i) ≤ 1 ∧
    (∀ k res, c.op = .read k → r = .value res →
      ∃ l1 past, s.trace = l1 ++ Ev.look i :: past ∧ res = (ConcRW.replay st past).read k none) ∧
    (∀ k x, c.op = .contains k → r = .has x →
      ∃ l1 past, s.trace = l1 ++ Ev.look i :: past ∧ x = (ConcRW.replay st past).contains k) ∧
    (∀ k ts d, c.op = .write k ts d → r = .wrote none →
      ∃ l1 past, s.trace = l1 ++ Ev.look i :: past ∧
        ((ConcRW.replay st past).getLatestEntry k none).isFound = true) ∧
    (∀ p, r = .wrote (some p) → Ev.push i p.r ∈ s.trace) := by
  obtain ⟨a, ha⟩ := ha
  have hh := ConcRW.hinv_reach hr
  have hdi := ConcRW.dinv_reach hwf ha hdf hr i c hc
  unfold ConcRW.DCInv at hdi
  rw [hd] at hdi
  refine ⟨hh.lin i c hc (by rw [hd]; rfl), hh.lookOnce i, ?_, ?_, ?_, ?_⟩
  · rintro k res hop rfl
    rw [hop] at hdi
    exact hdi
  · rintro k x hop rfl
    rw [hop] at hdi
    obtain ⟨res, h1, l1, past, h2, h3⟩ := hdi
    exact ⟨l1, past, h2, by rw [h1, h3]; rfl⟩
  · rintro k ts d hop rfl
    rw [hop] at hdi
    obtain ⟨res, h1, l1, past, h2, h3⟩ := hdi
    exact ⟨l1, past, h2, by rw [h3] at h1; exact h1⟩
  · rintro p rfl
    exact hh.pushed i c p hc (by rw [hd]; rfl)

/-! ### the locks: no deadlock, termination -/

/-- at most one client is inside `Blob::write`'s upgradable section, and it is the holder of the blob lock -/
theorem blob_lock_exclusive {st : Store} {ops : List COp} {s : CState}
    (hr : ConcRW.Reach (ConcRW.init st ops) s) {i j : Nat} {ci cj : Client}
    (hi : s.clients[i]? = some ci) (hj : s.clients[j]? = some cj)
    (hbi : ci.pc.holdsB = true) (hbj : cj.pc.holdsB = true) : i = j ∧ s.blobLock = some i := by
  have hb := ConcRW.binv_reach hr
  have h1 := hb.inside i ci hi hbi
  have h2 := hb.inside j cj hj hbj
  rw [h1] at h2
  exact ⟨Option.some.inj h2, h1⟩

/-- C08/D4 (no deadlock on the data path): a client that has not returned can take its next step, unless it
    waits for the blob lock — and then the holder is another client inside the critical section, which can take
    its next step.  (Storage lock: rotation is a single step taken when no client holds the lock shared, so the
    shared side is never refused here; writer preference and the bounded channel are `no_deadlock` above.) -/
theorem client_progress {st : Store} {ops : List COp} {s : CState} (hwf : st.WF)
    (ha : ∃ a, st.active = some a) (hr : ConcRW.Reach (ConcRW.init st ops) s) {i : Nat} {c : Client}
    (hc : s.clients[i]? = some c) (hnd : ∀ r, c.pc ≠ .done r) :
    (∃ s', ConcRW.fire (.step i) s = some s') ∨
      ∃ x cx, x ≠ i ∧ s.blobLock = some x ∧ s.clients[x]? = some cx ∧ cx.pc.holdsB = true ∧
        ∃ s', ConcRW.fire (.step x) s = some s' := by
  obtain ⟨a, ha⟩ := ha
  obtain ⟨hi, _⟩ := ConcRW.tinv_reach hwf ha hr
  obtain ⟨a', ha'⟩ := hi.active
  have hb := ConcRW.binv_reach hr
  have htc := hb.typed c (List.mem_of_getElem? hc)
  cases hbl : s.blobLock with
  | none =>
    obtain ⟨o, ho⟩ := ConcRW.cstep_enabled (landed := s.landed) (bl := s.blobLock) (i := i) htc ha' hnd
      (Or.inl hbl)
    exact Or.inl (ConcRW.fire_step_of_cstep hc ho)
  | some x =>
    obtain ⟨cx, hcx, hbx⟩ := hb.holder x hbl
    have hx : ∃ s', ConcRW.fire (.step x) s = some s' := by
      have hndx : ∀ r, cx.pc ≠ .done r := by intro r h; rw [h] at hbx; cases hbx
      have hnw : cx.pc ≠ .wLocked ∧ cx.pc ≠ .dActive := by
        constructor <;> intro h <;> rw [h] at hbx <;> cases hbx
      obtain ⟨o, ho⟩ := ConcRW.cstep_enabled (landed := s.landed) (bl := s.blobLock) (i := x)
        (hb.typed cx (List.mem_of_getElem? hcx)) ha' hndx (Or.inr hnw)
      exact ConcRW.fire_step_of_cstep hcx ho
    by_cases hxi : x = i
    · subst hxi; exact Or.inl hx
    · exact Or.inr ⟨x, cx, hxi, rfl, hcx, hbx, hx⟩

/-- every client step uses up one of the at most 17 steps of its client: no schedule contains more than `17·N`
    client steps (the worker's rotations and dumps are not bounded and need not be) -/
theorem client_steps_bounded (st : Store) (ops : List COp) (sched : List ConcRW.Label) (s : CState)
    (h : ConcRW.runSched sched (ConcRW.init st ops) = some s) :
    (sched.filter ConcRW.Label.isStep).length ≤ 17 * ops.length := by
  have := ConcRW.runSched_measure sched _ _ h
  rw [ConcRW.measure_init] at this
  omega

/-! ### what is false, on concrete witnesses -/

/-- store: blob 0 (closed) holds key 1 @ ts 3, blob 1 (active) holds key 1 @ ts 4 -/
def nlSt : Store := (Store.init true).run [.write 1 3 none ⟨1, 1⟩, .replaceActive, .write 1 4 none ⟨2, 2⟩]
def nlOps : List COp := [.read 1, .write 1 10 ⟨3, 3⟩, .delete 1 5 false]
/-- the reader looks into the active blob (sees ts 4); the writer runs from invocation to acknowledgement
    (ts 10 into the active blob); then the delete runs from invocation to response (marker ts 5 into the active
    blob — below ts 10 — and into the closed blob); the reader looks into the closed blob (sees the marker) -/
def nlSched : List ConcRW.Label :=
  [.step 0, .step 0, .step 0] ++ List.replicate 9 (.step 1) ++ List.replicate 6 (.step 2) ++
    List.replicate 4 (.step 0)
def nlW : Op := .write 1 10 none ⟨3, 3⟩
def nlD : Op := .delete 1 5 none false

/-- C08/R5 is FALSE with deletes: a read that spans a write acknowledged before a delete was invoked answers
    `Deleted(5)`; in the only order of the two mutations that real time admits (write, then delete) the sequential
    model answers `Found(ts 4)` before both, `Found(ts 10)` between them and `Found(ts 10)` after both.
    (`read_fresh` is not violated: the write was not acknowledged before the read started.) -/
theorem read_not_linearizable_with_delete :
    ∃ s, ConcRW.runSched nlSched (ConcRW.init nlSt nlOps) = some s ∧
      s.trace.reverse.filter (fun e => !e.mutates && e != .look 0) =
        [.inv 0 (.read 1), .inv 1 (.write 1 10 ⟨3, 3⟩),
         .res 1 (.wrote (some ⟨⟨1, 10, false, none, ⟨3, 3⟩⟩, 1, 1⟩)),
         .inv 2 (.delete 1 5 false), .res 2 (.deleted 2), .res 0 (.value (.deleted 5))] ∧
      AckedBefore 1 2 s.trace ∧
      ConcRW.respOf s 0 = some (.value (.deleted 5)) ∧
      nlSt.read 1 none = .found ⟨1, 4, false, none, ⟨2, 2⟩⟩ ∧
      (nlSt.run [nlW]).read 1 none = .found ⟨1, 10, false, none, ⟨3, 3⟩⟩ ∧
      (nlSt.run [nlW, nlD]).read 1 none = .found ⟨1, 10, false, none, ⟨3, 3⟩⟩ :=
  ⟨_, rfl, by decide, by decide, by decide, by decide, by decide, by decide⟩

def dupOps : List COp := [.write 1 5 ⟨1, 1⟩, .write 1 9 ⟨2, 2⟩]
/-- both writers finish `contains_with` (NotFound) before either appends -/
def dupSched : List ConcRW.Label :=
  List.replicate 5 (.step 0) ++ List.replicate 5 (.step 1) ++ List.replicate 8 (.step 0) ++
    List.replicate 8 (.step 1)

/-- C08/R4 needs `NoSkip`: with `allow_duplicates = false` two concurrent writes of one key are both stored and
    both acknowledged; the sequential model stores one, in either order -/
theorem duplicate_check_race :
    ∃ s, ConcRW.runSched dupSched (ConcRW.init (Store.init false) dupOps) = some s ∧
      ConcRW.quiescent s ∧
      s.store.history = [(0, [wrec 1 5 ⟨1, 1⟩, wrec 1 9 ⟨2, 2⟩])] ∧
      ((Store.init false).run [.write 1 5 none ⟨1, 1⟩, .write 1 9 none ⟨2, 2⟩]).history = [(0, [wrec 1 5 ⟨1, 1⟩])] ∧
      ((Store.init false).run [.write 1 9 none ⟨2, 2⟩, .write 1 5 none ⟨1, 1⟩]).history = [(0, [wrec 1 9 ⟨2, 2⟩])] ∧
      (s.store.readAll 1).length = 2 := by
  refine ⟨_, rfl, ?_, by decide, by decide, by decide, by decide⟩
  intro c hc
  have : c.pc.weight = 0 := by
    revert c
    decide
  cases hpc : c.pc <;> simp [hpc, ConcRW.Pc.weight] at this
  exact ⟨_, rfl⟩

/-- store: blob 0 (closed) and blob 1 (active) both hold key 1 @ ts 5 -/
def delSt : Store := (Store.init true).run [.write 1 5 none ⟨1, 1⟩, .replaceActive, .write 1 5 none ⟨2, 2⟩]
def delOps : List COp := [.delete 1 10 true, .delete 1 3 true]
/-- active phases in the order 0, 1; closed phases in the order 1, 0 -/
def delSched : List ConcRW.Label :=
  List.replicate 3 (.step 0) ++ List.replicate 4 (.step 1) ++ List.replicate 3 (.step 0) ++
    List.replicate 2 (.step 1)

/-- C08/R4 needs adjacent delete phases: two concurrent deletes of one key whose phases cross leave a store that
    no sequential order of the two produces, and return counts (2 and 1) that no sequential order returns -/
theorem delete_phase_race :
    ∃ s, ConcRW.runSched delSched (ConcRW.init delSt delOps) = some s ∧
      ConcRW.muts s.trace = [.delA 0 1 10 true, .delA 1 1 3 true, .delC 1 1 3, .delC 0 1 10] ∧
      ConcRW.coalesce (ConcRW.muts s.trace) = none ∧
      [ConcRW.respOf s 0, ConcRW.respOf s 1] = [some (.deleted 2), some (.deleted 1)] ∧
      s.store.history ≠ (delSt.run [.delete 1 10 none true, .delete 1 3 none true]).history ∧
      s.store.history ≠ (delSt.run [.delete 1 3 none true, .delete 1 10 none true]).history ∧
      ((delSt.delete 1 10 none true).2, ((delSt.delete 1 10 none true).1.delete 1 3 none true).2) = (2, 0) ∧
      ((delSt.delete 1 3 none true).2, ((delSt.delete 1 3 none true).1.delete 1 10 none true).2) = (2, 2) :=
  ⟨_, rfl, by decide, by decide, by decide, by decide, by decide, by decide, by decide⟩

/-! ### non-vacuity: three clients, a rotation in the middle, the read overlaps the write — both outcomes -/

/-- blob 0 (active) holds key 1 @ ts 3 and key 2 @ ts 7 -/
def rwSt : Store := (Store.init true).run [.write 1 3 none ⟨1, 1⟩, .write 2 7 none ⟨3, 3⟩]
def rwOps : List COp := [.write 1 10 ⟨2, 2⟩, .read 1, .contains 2]
/-- all invoked; rotation; the reader looks into the new (empty) active blob; the writer appends there and is
    acknowledged; the reader looks into the closed blob: the OLD value -/
def rwSchedOld : List ConcRW.Label :=
  [.step 0, .step 1, .step 2, .rotate, .step 1, .step 1,
   .step 0, .step 0, .step 0, .step 0, .step 0, .step 0, .step 0, .step 0,
   .step 1, .step 1, .step 1, .step 1, .dump, .step 2, .step 2, .step 2, .step 2, .step 2]
/-- all invoked; rotation; the writer pushes; the reader looks (active blob, then closed): the NEW value;
    responses in either order -/
def rwSchedNew : List ConcRW.Label :=
  [.step 0, .step 1, .step 2, .rotate,
   .step 0, .step 0, .step 0, .step 0, .step 0, .step 1, .step 1, .step 0, .step 0, .step 0,
   .step 1, .step 1, .step 1, .step 1, .dump, .step 2, .step 2, .step 2, .step 2, .step 2]

example : (ConcRW.runSched rwSchedOld (ConcRW.init rwSt rwOps)).map
      (fun s => [ConcRW.respOf s 0, ConcRW.respOf s 1, ConcRW.respOf s 2]) =
    some [some (.wrote (some ⟨⟨1, 10, false, none, ⟨2, 2⟩⟩, 1, 0⟩)),
          some (.value (.found ⟨1, 3, false, none, ⟨1, 1⟩⟩)), some (.has (.found 7))] := by decide
example : (ConcRW.runSched rwSchedNew (ConcRW.init rwSt rwOps)).map
      (fun s => [ConcRW.respOf s 0, ConcRW.respOf s 1, ConcRW.respOf s 2]) =
    some [some (.wrote (some ⟨⟨1, 10, false, none, ⟨2, 2⟩⟩, 1, 0⟩)),
          some (.value (.found ⟨1, 10, false, none, ⟨2, 2⟩⟩)), some (.has (.found 7))] := by decide
-- the history of the second run: the read overlaps the write (both invoked before either responds), the
-- rotation lies between the invocations and the push
example : (ConcRW.runSched rwSchedNew (ConcRW.init rwSt rwOps)).map (fun s => s.trace.reverse.take 7) =
    some [.inv 0 (.write 1 10 ⟨2, 2⟩), .inv 1 (.read 1), .inv 2 (.contains 2), .rot,
          .push 0 (wrec 1 10 ⟨2, 2⟩), .look 1,
          .res 0 (.wrote (some ⟨⟨1, 10, false, none, ⟨2, 2⟩⟩, 1, 0⟩))] := by decide
-- the hypotheses of the theorems hold for this start, and the final states are reachable and quiescent
theorem rwSt_ok : rwSt.WF ∧ ∃ a, rwSt.active = some a := ⟨run_WF true _, _, rfl⟩
example : ∃ s, ConcRW.Reach (ConcRW.init rwSt rwOps) s ∧ ConcRW.respOf s 1 = some (.value (.found (wrec 1 3 ⟨1, 1⟩))) :=
  ⟨_, ConcRW.runSched_reach rwSchedOld _ _ _ .refl rfl, by decide⟩
-- `read_returns_written` on the second run: the value read is the one client 0 pushed
example (s : CState) (h : ConcRW.runSched rwSchedNew (ConcRW.init rwSt rwOps) = some s) (c : Client)
    (hc : s.clients[1]? = some c) (hop : c.op = .read 1) (r : Resp) (hd : c.pc = .done r) :
    ∃ res, r = .value res ∧ ∀ x, res = .found x → x.key = 1 ∧ x.del = false ∧ x ∈ s.landed :=
  let ⟨res, h1, h2⟩ := read_returns_written rwSt_ok.1 rwSt_ok.2
    (ConcRW.runSched_reach rwSchedNew _ _ _ .refl h) hc hop hd
  ⟨res, h1, fun x hx => let ⟨a, b, c, _⟩ := h2 x hx; ⟨a, b, c⟩⟩
-- `read_fresh` is not vacuous: a third schedule in which the write IS acknowledged before the read is invoked
def rwSchedAfter : List ConcRW.Label :=
  List.replicate 9 (.step 0) ++ [.rotate] ++ List.replicate 7 (.step 1)
example : (ConcRW.runSched rwSchedAfter (ConcRW.init rwSt rwOps)).map
      (fun s => (decide (AckedBefore 0 1 s.trace), ConcRW.respOf s 1)) =
    some (true, some (.value (.found (wrec 1 10 ⟨2, 2⟩)))) := by decide
-- … and `read_fresh` applied to that run, every hypothesis discharged: the write (client 0) is acknowledged at
-- blob 0, position 2; the active blob is rotated; the read (client 1) must answer with a record ranked at least
-- as high
example (s : CState) (h : ConcRW.runSched rwSchedAfter (ConcRW.init rwSt rwOps) = some s) :
    ∃ res q, ConcRW.respOf s 1 = some (.value res) ∧ Wit s.store 1 res q ∧
      rankLe q ⟨wrec 1 10 ⟨2, 2⟩, 0, 2⟩ = true := by
  have e : (ConcRW.runSched rwSchedAfter (ConcRW.init rwSt rwOps)).map
      (fun s => (decide (AckedBefore 0 1 s.trace), ConcRW.respOf s 0, (ConcRW.respOf s 1).isSome)) =
      some (true, some (.wrote (some ⟨wrec 1 10 ⟨2, 2⟩, 0, 2⟩)), true) := by decide
  rw [h] at e
  simp only [Option.map_some, Option.some.injEq, Prod.mk.injEq, decide_eq_true_eq] at e
  obtain ⟨e1, e2, e3⟩ := e
  obtain ⟨resp, e3⟩ := Option.isSome_iff_exists.1 e3
  obtain ⟨res, q, h1, h2, h3⟩ := read_fresh_resp rwSt_ok.1 rwSt_ok.2
    (ConcRW.runSched_reach rwSchedAfter _ _ _ .refl h) e1 e2 rfl (by decide) e3
  exact ⟨res, q, by rw [e3, h1], h2, h3⟩
-- `no_lost_ack` on the first run: the acknowledged record is still at blob 1, position 0 after any continuation
example (s : CState) (h : ConcRW.runSched rwSchedOld (ConcRW.init rwSt rwOps) = some s) (s' : CState)
    (h' : ConcRW.Reach s s') : (⟨wrec 1 10 ⟨2, 2⟩, 1, 0⟩ : PRec) ∈ History.positioned s'.store.history := by
  have e : (ConcRW.runSched rwSchedOld (ConcRW.init rwSt rwOps)).map
      (fun s => decide (Ev.res 0 (.wrote (some ⟨wrec 1 10 ⟨2, 2⟩, 1, 0⟩)) ∈ s.trace)) = some true := by decide
  rw [h] at e
  simp only [Option.map_some, Option.some.injEq, decide_eq_true_eq] at e
  exact (no_lost_ack rwSt_ok.1 rwSt_ok.2 (ConcRW.runSched_reach rwSchedOld _ _ _ .refl h) e).2.2 s' h'
-- `linearizable_partial` applies to these runs: nobody deletes
example : ∀ op ∈ rwOps, op.isDelete = false := by decide
-- delete-free, duplicates allowed: the final store of the first run is the sequential run over the two
-- mutations in trace order (`quiescent_equals_sequential`)
example : (ConcRW.runSched rwSchedOld (ConcRW.init rwSt rwOps)).map
      (fun s => (ConcRW.muts s.trace, (ConcRW.coalesce (ConcRW.muts s.trace)).map List.length)) =
    some ([.rot, .push 0 (wrec 1 10 ⟨2, 2⟩), .dump], some 3) := by decide
-- the blocked case of `client_progress`: client 1 waits for the blob lock that client 0 holds
example : ((ConcRW.runSched [.step 0, .step 0, .step 0, .step 1, .step 1] (ConcRW.init (Store.init true) dupOps)).bind
      (fun s => (ConcRW.fire (.step 1) s).map (fun _ => ()))) = none := by decide

/-! ## the read side, second batch: the window of a read, crossed deletes, byte ranges -/

/-- the window of a two-phase look-up recorded by the invariant `ConcRW.RInv` (`read`, `contains`, the duplicate
    check of `write`), in terms of reachable states; `read_interval` is the headline instance -/
theorem lookup_window {st : Store} {ops : List COp} {s : CState} (hwf : st.WF)
    (ha : ∃ a, st.active = some a) (hr : ConcRW.Reach (ConcRW.init st ops) s)
    {i : Nat} {op : COp} {res : ReadResult Rec} {fin : Option Resp}
    (h2 : ConcRW.TwoPh st s.trace i op res fin) :
    ∃ (l1 l2 past : List Ev) (s1 s2 : CState) (a1 a2 : Blob),
      s.trace = l1 ++ (l2 ++ Ev.look i :: past) ∧ Ev.inv i op ∈ past ∧ (∀ r, fin = some r → Ev.res i r ∈ l1) ∧
      Ev.rot ∉ l2 ∧
      ConcRW.Reach (ConcRW.init st ops) s1 ∧ ConcRW.Reach s1 s2 ∧ ConcRW.Reach s2 s ∧
      s1.trace = past ∧ s2.trace = l2 ++ Ev.look i :: past ∧
      s1.store.active = some a1 ∧ s2.store.active = some a2 ∧ a2.id = a1.id ∧ a1.recs <+: a2.recs ∧
      res = (ConcRW.lookActive s1.store op.key).latest (ConcRW.lookClosed s2.store op.key .notFound) ∧
      ConcRW.lookActive s1.store op.key = (Spec.latest [(a1.id, a1.recs)] op.key).map (·.r) ∧
      ConcRW.lookClosed s2.store op.key .notFound =
        (Spec.latest (s2.store.closed.map Blob.hist) op.key).map (·.r) ∧
      res = (Spec.latest ((s2.store.closed ++ [a1]).map Blob.hist) op.key).map (·.r) ∧
      (∀ p ∈ History.positioned s1.store.history, p.r.key = op.key →
        ∃ q, Wit s2.store op.key res q ∧ rankLe q p = true) ∧
      (res ≠ .notFound → ∃ q top, Wit s2.store op.key res q ∧
        Wit s2.store op.key (s2.store.read op.key none) top ∧ rankLe top q = true) := by
  obtain ⟨a, ha⟩ := ha
  obtain ⟨l1, l2, past, a1, a2, h⟩ := h2
  have h0 : (ConcRW.init st ops).trace = [] := rfl
  obtain ⟨s2, r2, r2s, t2⟩ := ConcRW.reach_suffix h0 hr l1 _ h.split
  obtain ⟨s1, r1, r12, t1⟩ := ConcRW.reach_suffix h0 r2 (l2 ++ [Ev.look i]) past (by rw [t2]; simp)
  have e1 : s1.store = ConcRW.replay st past := by rw [(ConcRW.tinv_reach hwf ha r1).2.replay, t1]
  have e2 : s2.store = ConcRW.replay st (l2 ++ Ev.look i :: past) := by
    rw [(ConcRW.tinv_reach hwf ha r2).2.replay, t2]
  have hwf2 : s2.store.WF := (ConcRW.tinv_reach hwf ha r2).1.wf
  have hres := h.resOK
  rw [← e1, ← e2] at hres
  refine ⟨l1, l2, past, s1, s2, a1, a2, h.split, h.inv, h.fin, h.noRot, r1, r12, r2s, t1, t2,
    by rw [e1]; exact h.act1, by rw [e2]; exact h.act2, h.ble.1, h.ble.2, by rw [e1, e2]; exact h.merged,
    ConcRW.lookActive_eq_spec (by rw [e1]; exact h.act1) op.key, ConcRW.lookClosed_eq_spec hwf2 op.key,
    by rw [e2]; exact h.hybrid, hres.2, ?_⟩
  intro hne
  obtain ⟨q, hq⟩ := hres.1 hne
  obtain ⟨top, ht, hle⟩ := ConcRW.top_bound hwf2 hq.1 hq.2.1
  exact ⟨q, top, hq, ht, hle q hq.1 hq.2.1⟩

/-- C08/R6 (`read_interval`; deletes, writes, dumps and other reads running concurrently).  A completed `read k`
    that answered `res` has, in the trace, its invocation, then its look into the active blob (INSTANT 1, state
    `s1`), then — with no rotation in between (`a2` is the same blob as `a1`, grown) — its look into the closed blobs
    (INSTANT 2, state `s2`), then its response; `s1`, `s2` are reachable states on the way to `s`, and

    * each COMPONENT look-up is the `Spec` answer of that component at its own instant: the active blob at instant
      1, the closed blobs at instant 2, merged by `ReadResult::latest` (the later one wins only with a strictly
      greater timestamp);
    * the answer is the `Spec` answer on the HYBRID history "closed blobs of instant 2 + active blob of instant 1";
    * RANK SANDWICH: the answer classifies a record of the store of instant 2 that is ranked at least as high as
      every record of the key in the store of instant 1 (this strengthens `read_fresh`: instant 1 is not earlier
      than the invocation) and no higher than the first-ranked record of the store of instant 2.

    The answer need NOT be the `Spec` answer of any single store between invocation and response:
    `read_not_regular_with_delete`. -/
theorem read_interval {st : Store} {ops : List COp} {s : CState} (hwf : st.WF)
    (ha : ∃ a, st.active = some a) (hr : ConcRW.Reach (ConcRW.init st ops) s)
    {i : Nat} {c : Client} {k : Key} {res : ReadResult Rec}
    (hc : s.clients[i]? = some c) (hop : c.op = .read k) (hd : c.pc = .done (.value res)) :
    ∃ (l1 l2 past : List Ev) (s1 s2 : CState) (a1 a2 : Blob),
      s.trace = l1 ++ (l2 ++ Ev.look i :: past) ∧ Ev.inv i (.read k) ∈ past ∧ Ev.res i (.value res) ∈ l1 ∧
      Ev.rot ∉ l2 ∧
      ConcRW.Reach (ConcRW.init st ops) s1 ∧ ConcRW.Reach s1 s2 ∧ ConcRW.Reach s2 s ∧
      s1.trace = past ∧ s2.trace = l2 ++ Ev.look i :: past ∧
      s1.store.active = some a1 ∧ s2.store.active = some a2 ∧ a2.id = a1.id ∧ a1.recs <+: a2.recs ∧
      res = (ConcRW.lookActive s1.store k).latest (ConcRW.lookClosed s2.store k .notFound) ∧
      ConcRW.lookActive s1.store k = (Spec.latest [(a1.id, a1.recs)] k).map (·.r) ∧
      ConcRW.lookClosed s2.store k .notFound = (Spec.latest (s2.store.closed.map Blob.hist) k).map (·.r) ∧
      res = (Spec.latest ((s2.store.closed ++ [a1]).map Blob.hist) k).map (·.r) ∧
      (∀ p ∈ History.positioned s1.store.history, p.r.key = k →
        ∃ q, Wit s2.store k res q ∧ rankLe q p = true) ∧
      (res ≠ .notFound → ∃ q top, Wit s2.store k res q ∧ Wit s2.store k (s2.store.read k none) top ∧
        rankLe top q = true) := by
  obtain ⟨a, ha'⟩ := ha
  obtain ⟨_, h2⟩ := ConcRW.rinv_reach hwf ha' hr i c hc
  unfold ConcRW.RCInv2 at h2
  rw [hd, hop] at h2
  obtain ⟨l1, l2, past, s1, s2, a1, a2, g1, g2, g3, g⟩ :=
    lookup_window hwf ⟨a, ha'⟩ hr (op := .read k) (fin := some (.value res)) h2
  exact ⟨l1, l2, past, s1, s2, a1, a2, g1, g2, g3 _ rfl, g⟩

/-- the same window for `contains k`: its answer is the timestamp form of a look-up `res` with that window -/
theorem contains_interval {st : Store} {ops : List COp} {s : CState} (hwf : st.WF)
    (ha : ∃ a, st.active = some a) (hr : ConcRW.Reach (ConcRW.init st ops) s)
    {i : Nat} {c : Client} {k : Key} {x : ReadResult Nat}
    (hc : s.clients[i]? = some c) (hop : c.op = .contains k) (hd : c.pc = .done (.has x)) :
    ∃ (res : ReadResult Rec) (l1 l2 past : List Ev) (s1 s2 : CState) (a1 : Blob),
      x = res.map (·.ts) ∧
      s.trace = l1 ++ (l2 ++ Ev.look i :: past) ∧ Ev.inv i (.contains k) ∈ past ∧ Ev.res i (.has x) ∈ l1 ∧
      Ev.rot ∉ l2 ∧ ConcRW.Reach (ConcRW.init st ops) s1 ∧ ConcRW.Reach s1 s2 ∧ ConcRW.Reach s2 s ∧
      s1.trace = past ∧ s2.trace = l2 ++ Ev.look i :: past ∧ s1.store.active = some a1 ∧
      res = (ConcRW.lookActive s1.store k).latest (ConcRW.lookClosed s2.store k .notFound) ∧
      res = (Spec.latest ((s2.store.closed ++ [a1]).map Blob.hist) k).map (·.r) ∧
      (∀ p ∈ History.positioned s1.store.history, p.r.key = k →
        ∃ q, Wit s2.store k res q ∧ rankLe q p = true) := by
  obtain ⟨a, ha'⟩ := ha
  obtain ⟨_, h2⟩ := ConcRW.rinv_reach hwf ha' hr i c hc
  unfold ConcRW.RCInv2 at h2
  rw [hd, hop] at h2
  obtain ⟨res, hx, h2⟩ : ∃ res : ReadResult Rec, x = res.map (·.ts) ∧
      ConcRW.TwoPh st s.trace i (.contains k) res (some (.has x)) := h2
  obtain ⟨l1, l2, past, s1, s2, a1, a2, g1, g2, g3, g4, g5, g6, g7, g8, g9, g10, _, _, _, g14, _, _, g17, g18, _⟩ :=
    lookup_window hwf ⟨a, ha'⟩ hr h2
  exact ⟨res, l1, l2, past, s1, s2, a1, hx, g1, g2, g3 _ rfl, g4, g5, g6, g7, g8, g9, g10, g14, g17, g18⟩

/-- … and for a `write k ts d` acknowledged as a duplicate (`allow_duplicates = false`): the check that skipped it
    found a live record `x`, by a look-up with that window -/
theorem skipped_write_interval {st : Store} {ops : List COp} {s : CState} (hwf : st.WF)
    (ha : ∃ a, st.active = some a) (hr : ConcRW.Reach (ConcRW.init st ops) s)
    {i : Nat} {c : Client} {k : Key} {ts : Nat} {d : Data}
    (hc : s.clients[i]? = some c) (hop : c.op = .write k ts d) (hd : c.pc = .done (.wrote none)) :
    ∃ (x : Rec) (l1 l2 past : List Ev) (s1 s2 : CState) (a1 : Blob),
      s.trace = l1 ++ (l2 ++ Ev.look i :: past) ∧ Ev.inv i (.write k ts d) ∈ past ∧
      Ev.res i (.wrote none) ∈ l1 ∧ Ev.rot ∉ l2 ∧
      ConcRW.Reach (ConcRW.init st ops) s1 ∧ ConcRW.Reach s1 s2 ∧ ConcRW.Reach s2 s ∧
      s1.trace = past ∧ s2.trace = l2 ++ Ev.look i :: past ∧ s1.store.active = some a1 ∧
      ReadResult.found x = (ConcRW.lookActive s1.store k).latest (ConcRW.lookClosed s2.store k .notFound) ∧
      ReadResult.found x = (Spec.latest ((s2.store.closed ++ [a1]).map Blob.hist) k).map (·.r) := by
  obtain ⟨a, ha'⟩ := ha
  obtain ⟨_, h2⟩ := ConcRW.rinv_reach hwf ha' hr i c hc
  unfold ConcRW.RCInv2 at h2
  rw [hd, hop] at h2
  obtain ⟨res, hf, h2⟩ : ∃ res : ReadResult Rec, res.isFound = true ∧
      ConcRW.TwoPh st s.trace i (.write k ts d) res (some (.wrote none)) := h2
  obtain ⟨l1, l2, past, s1, s2, a1, a2, g1, g2, g3, g4, g5, g6, g7, g8, g9, g10, _, _, _, g14, _, _, g17, _, _⟩ :=
    lookup_window hwf ⟨a, ha'⟩ hr h2
  cases res with
  | found x => exact ⟨x, l1, l2, past, s1, s2, a1, g1, g2, g3 _ rfl, g4, g5, g6, g7, g8, g9, g10, g14, g17⟩
  | deleted t => simp [ReadResult.isFound] at hf
  | notFound => simp [ReadResult.isFound] at hf

/-- C08/R6a (`read_upper_bound`): the matching upper bound to `read_fresh`, at the RESPONSE and ever after: in
    every state `s'` from the read's completion on, the record the answer classifies (`Found x`: `x` itself, live;
    `Deleted t`: a marker with timestamp `t`) is in the store and is ranked no higher than the first-ranked record of
    the key there — the one a sequential `read` on that store classifies, which bounds every record of the key.
    An answer `NotFound` means the store held no record of the key when the read was invoked. -/
theorem read_upper_bound {st : Store} {ops : List COp} {s : CState} (hwf : st.WF)
    (ha : ∃ a, st.active = some a) (hr : ConcRW.Reach (ConcRW.init st ops) s)
    {i : Nat} {c : Client} {k : Key} {resp : Resp}
    (hc : s.clients[i]? = some c) (hop : c.op = .read k) (hd : c.pc = .done resp) :
    ∃ res, resp = .value res ∧
      (res ≠ .notFound → ∃ q, Wit s.store k res q ∧ ∀ s', ConcRW.Reach s s' →
        ∃ top, Wit s'.store k res q ∧ Wit s'.store k (s'.store.read k none) top ∧ rankLe top q = true ∧
          ∀ p ∈ History.positioned s'.store.history, p.r.key = k → rankLe top p = true) ∧
      (res = .notFound → ∀ p ∈ History.positioned c.born.history, p.r.key ≠ k) := by
  obtain ⟨a, ha⟩ := ha
  obtain ⟨hi, ht⟩ := ConcRW.tinv_reach hwf ha hr
  have hok := ConcRW.done_respOK hi hc hd
  cases resp with
  | value res =>
    obtain ⟨_, hres, _⟩ := hok
    rw [hop] at hres
    refine ⟨res, rfl, fun hne => ?_, ?_⟩
    · obtain ⟨q, hq⟩ := hres.1 hne
      refine ⟨q, hq, fun s' hr' => ?_⟩
      have hq' : Wit s'.store k res q := hq.mono (ConcRW.reach_sub hi hr')
      have hwf' := (ConcRW.tinv_reach hwf ha (ConcRW.reach_trans hr hr')).1.wf
      obtain ⟨top, h1, h2⟩ := ConcRW.top_bound hwf' hq'.1 hq'.2.1
      exact ⟨top, hq', h1, h2 q hq'.1 hq'.2.1, h2⟩
    · rintro rfl p hp hk
      obtain ⟨q, hq, _⟩ := hres.2 p hp hk
      exact hq.2.2
  | torn => exact absurd hok id
  | has x => obtain ⟨⟨k', hk'⟩, _⟩ := hok; rw [hop] at hk'; cases hk'
  | wrote p =>
    cases p with
    | none => obtain ⟨⟨k', ts, d, hk'⟩, _⟩ := hok; rw [hop] at hk'; cases hk'
    | some p => obtain ⟨_, k', ts, d, hk', _⟩ := hok; rw [hop] at hk'; cases hk'
  | deleted n => obtain ⟨k', ts, oip, hk'⟩ := hok; rw [hop] at hk'; cases hk'

/-- the stores a schedule passes through, the starting one included -/
def storesAlong : List ConcRW.Label → CState → List Store
  | [], s => [s.store]
  | l :: ls, s => s.store :: match ConcRW.fire l s with
    | some s' => storesAlong ls s'
    | none => []

/-- A read is NOT a regular register when deletes run concurrently (the schedule of
    `read_not_linearizable_with_delete`): the read answers `Deleted(5)`, and NO store between its invocation and its
    response — none of the 23 stores the schedule passes through, first and last included — has `Deleted(5)` as
    its sequential / `Spec` answer for the key (they answer `Found(ts 4)` and, from the write's push on,
    `Found(ts 10)`).  What holds is `read_interval`: active blob at instant 1 (`Found(ts 4)`), closed blobs at
    instant 2 (`Deleted(5)`), merged. -/
theorem read_not_regular_with_delete :
    ∃ s, ConcRW.runSched nlSched (ConcRW.init nlSt nlOps) = some s ∧
      ConcRW.respOf s 0 = some (.value (.deleted 5)) ∧
      (storesAlong nlSched (ConcRW.init nlSt nlOps)).length = nlSched.length + 1 ∧
      (storesAlong nlSched (ConcRW.init nlSt nlOps)).getLast?.map (·.history) = some s.store.history ∧
      ∀ st' ∈ storesAlong nlSched (ConcRW.init nlSt nlOps), st'.read 1 none ≠ .deleted 5 :=
  ⟨_, rfl, by decide, by decide, by decide, by decide⟩

-- non-vacuity of `read_interval` on that run: the trace, instant 1 (after 2 steps: the active blob answers
-- `Found(ts 4)`), instant 2 (after 18 steps: the closed blob answers `Deleted(5)`, which wins with 5 > 4)
theorem nlSt_ok : nlSt.WF ∧ ∃ a, nlSt.active = some a := ⟨run_WF true _, _, rfl⟩
example : (ConcRW.runSched nlSched (ConcRW.init nlSt nlOps)).map (fun s => s.trace.reverse) =
    some [.inv 0 (.read 1), .look 0, .inv 1 (.write 1 10 ⟨3, 3⟩), .push 1 (wrec 1 10 ⟨3, 3⟩),
      .res 1 (.wrote (some ⟨wrec 1 10 ⟨3, 3⟩, 1, 1⟩)), .inv 2 (.delete 1 5 false), .delA 2 1 5 false, .delC 2 1 5,
      .res 2 (.deleted 2), .res 0 (.value (.deleted 5))] := by decide
example : (ConcRW.runSched (nlSched.take 2) (ConcRW.init nlSt nlOps)).map
      (fun s => (s.trace, ConcRW.lookActive s.store 1)) =
    some ([.inv 0 (.read 1)], .found ⟨1, 4, false, none, ⟨2, 2⟩⟩) := by decide
example : (ConcRW.runSched (nlSched.take 18) (ConcRW.init nlSt nlOps)).map
      (fun s => (s.trace.length, ConcRW.lookClosed s.store 1 .notFound)) = some (9, .deleted 5) := by decide
example : (ReadResult.found ⟨1, 4, false, none, ⟨2, 2⟩⟩ : ReadResult Rec).latest (.deleted 5) = .deleted 5 := by
  decide
-- `read_interval` and `read_upper_bound` applied to that run, every hypothesis discharged
example (s : CState) (h : ConcRW.runSched nlSched (ConcRW.init nlSt nlOps) = some s) :
    ∃ (s1 s2 : CState), ConcRW.Reach s1 s2 ∧ ConcRW.Reach s2 s ∧
      ReadResult.deleted 5 =
        (ConcRW.lookActive s1.store 1).latest (ConcRW.lookClosed s2.store 1 .notFound) ∧
      ∃ q top, Wit s2.store 1 (.deleted 5) q ∧ Wit s2.store 1 (s2.store.read 1 none) top ∧
        rankLe top q = true := by
  have e : (ConcRW.runSched nlSched (ConcRW.init nlSt nlOps)).map
      (fun s => s.clients[0]?.map (fun c => (c.op, decide (c.pc.weight = 0), ConcRW.respOf s 0))) =
      some (some (.read 1, true, some (.value (.deleted 5)))) := by decide
  rw [h] at e
  simp only [Option.map_some, Option.some.injEq] at e
  obtain ⟨c, hc, e⟩ := Option.map_eq_some_iff.1 e
  simp only [Prod.mk.injEq, decide_eq_true_eq] at e
  obtain ⟨e1, _, e3⟩ := e
  obtain ⟨c', hc', hd⟩ := respOf_some e3
  rw [hc] at hc'; cases hc'
  obtain ⟨l1, l2, past, s1, s2, a1, a2, _, _, _, _, _, r12, r2s, _, _, _, _, _, _, hm, _, _, _, _, hub⟩ :=
    read_interval nlSt_ok.1 nlSt_ok.2 (ConcRW.runSched_reach nlSched _ _ _ .refl h) hc e1 hd
  obtain ⟨q, top, h1, h2, h3⟩ := hub (by simp)
  exact ⟨s1, s2, r12, r2s, hm, q, top, h1, h2, h3⟩
example (s : CState) (h : ConcRW.runSched nlSched (ConcRW.init nlSt nlOps) = some s) (s' : CState)
    (h' : ConcRW.Reach s s') :
    ∃ q top, Wit s'.store 1 (.deleted 5) q ∧ Wit s'.store 1 (s'.store.read 1 none) top ∧ rankLe top q = true := by
  have e : (ConcRW.runSched nlSched (ConcRW.init nlSt nlOps)).map
      (fun s => s.clients[0]?.map (fun c => (c.op, ConcRW.respOf s 0))) =
      some (some (.read 1, some (.value (.deleted 5)))) := by decide
  rw [h] at e
  simp only [Option.map_some, Option.some.injEq] at e
  obtain ⟨c, hc, e⟩ := Option.map_eq_some_iff.1 e
  simp only [Prod.mk.injEq] at e
  obtain ⟨c', hc', hd⟩ := respOf_some e.2
  rw [hc] at hc'; cases hc'
  obtain ⟨res, h1, h2, _⟩ := read_upper_bound nlSt_ok.1 nlSt_ok.2
    (ConcRW.runSched_reach nlSched _ _ _ .refl h) hc e.1 hd
  cases h1
  obtain ⟨q, _, hq⟩ := h2 (by simp)
  obtain ⟨top, g1, g2, g3, _⟩ := hq s' h'
  exact ⟨q, top, g1, g2, g3⟩
-- … and the sequential answer in that final store is `Found(ts 10)`, ranked above the marker the read returned
example : (ConcRW.runSched nlSched (ConcRW.init nlSt nlOps)).map (fun s => s.store.read 1 none) =
    some (.found (wrec 1 10 ⟨3, 3⟩)) := by decide
-- `contains_interval` on the run `rwSchedNew` (client 2 probes key 2: `Found(7)`), every hypothesis discharged
example (s : CState) (h : ConcRW.runSched rwSchedNew (ConcRW.init rwSt rwOps) = some s) :
    ∃ (res : ReadResult Rec) (s1 s2 : CState), ReadResult.found 7 = res.map (·.ts) ∧ ConcRW.Reach s1 s2 ∧
      ConcRW.Reach s2 s ∧
      res = (ConcRW.lookActive s1.store 2).latest (ConcRW.lookClosed s2.store 2 .notFound) := by
  have e : (ConcRW.runSched rwSchedNew (ConcRW.init rwSt rwOps)).map
      (fun s => s.clients[2]?.map (fun c => (c.op, ConcRW.respOf s 2))) =
      some (some (.contains 2, some (.has (.found 7)))) := by decide
  rw [h] at e
  simp only [Option.map_some, Option.some.injEq] at e
  obtain ⟨c, hc, e⟩ := Option.map_eq_some_iff.1 e
  simp only [Prod.mk.injEq] at e
  obtain ⟨c', hc', hd⟩ := respOf_some e.2
  rw [hc] at hc'; cases hc'
  obtain ⟨res, _, _, _, s1, s2, _, g0, _, _, _, _, _, g6, g7, _, _, _, g11, _⟩ :=
    contains_interval rwSt_ok.1 rwSt_ok.2 (ConcRW.runSched_reach rwSchedNew _ _ _ .refl h) hc e.1 hd
  exact ⟨res, s1, s2, g0, g6, g7, g11⟩
/-- `allow_duplicates = false`: the first write runs to its acknowledgement, then the second one is skipped -/
def skSched : List ConcRW.Label := List.replicate 13 (.step 0) ++ List.replicate 6 (.step 1)
example : (ConcRW.runSched skSched (ConcRW.init (Store.init false) dupOps)).map
      (fun s => (ConcRW.respOf s 0, ConcRW.respOf s 1)) =
    some (some (.wrote (some ⟨wrec 1 5 ⟨1, 1⟩, 0, 0⟩)), some (.wrote none)) := by decide
-- `skipped_write_interval` on that run: the check found a live record of key 1
example (s : CState) (h : ConcRW.runSched skSched (ConcRW.init (Store.init false) dupOps) = some s) :
    ∃ (x : Rec) (s1 s2 : CState), ConcRW.Reach s1 s2 ∧ ConcRW.Reach s2 s ∧
      ReadResult.found x = (ConcRW.lookActive s1.store 1).latest (ConcRW.lookClosed s2.store 1 .notFound) := by
  have e : (ConcRW.runSched skSched (ConcRW.init (Store.init false) dupOps)).map
      (fun s => s.clients[1]?.map (fun c => (c.op, ConcRW.respOf s 1))) =
      some (some (.write 1 9 ⟨2, 2⟩, some (.wrote none))) := by decide
  rw [h] at e
  simp only [Option.map_some, Option.some.injEq] at e
  obtain ⟨c, hc, e⟩ := Option.map_eq_some_iff.1 e
  simp only [Prod.mk.injEq] at e
  obtain ⟨c', hc', hd⟩ := respOf_some e.2
  rw [hc] at hc'; cases hc'
  obtain ⟨x, _, _, _, s1, s2, _, _, _, _, _, _, g6, g7, _, _, _, g11, _⟩ :=
    skipped_write_interval (init_WF false) ⟨_, rfl⟩ (ConcRW.runSched_reach skSched _ _ _ .refl h) hc e.1 hd
  exact ⟨x, s1, s2, g6, g7, g11⟩

/-! ### two deletes whose phases cross (`delete_phase_race`), observationally -/

open CrossDel (ObsEq crossedDel)

/-- the trace of `delete_phase_race` — first phases in the order `i`, `j`, second phases in the order `j`, `i` —
    replays to `crossedDel` -/
theorem crossed_deletes_replay (st : Store) (i j : Nat) (k0 : Key) (ts0 : Nat) (o0 : Bool) (k1 : Key) (ts1 : Nat)
    (o1 : Bool) :
    ConcRW.replay st [.delC i k0 ts0, .delC j k1 ts1, .delA j k1 ts1 o1, .delA i k0 ts0 o0] =
      crossedDel st k0 ts0 o0 k1 ts1 o1 := rfl

/-- C08/R7 (`crossed_deletes_observational`): YES.  For EVERY well-formed store with an active blob and every pair
    of deletes (any keys, timestamps, `only_if_presented` flags), the store left by the crossed schedule — active
    phase of delete 0, active phase of delete 1, closed phase of delete 1, closed phase of delete 0 — is
    OBSERVATIONALLY equal to the store of one of the two sequential orders: `read`, `contains`,
    `read_all_with_deletion_marker` and `read_all` answer the same for every key (`CrossDel.ObsEq`), although the
    stores themselves differ from both (`delete_phase_race`) and the returned counts match neither.

    Which order: with different keys, both.  With one key: the order 0;1 whenever the active blob ends up with a marker
    at least as new as both deletes' timestamps (then everything the orders disagree on lies behind that marker:
    `CrossDel.cut_sort_invisible`); otherwise delete 1 is the newer one and found the key already dead in the active
    blob, and the answer depends on whether a closed blob visited before the first disputed one carries a marker as new
    as delete 1 (`CrossDel.cross_claim`). -/
theorem crossed_deletes_observational {s : Store} (hwf : s.WF) (ha : ∃ a, s.active = some a)
    (k0 : Key) (ts0 : Nat) (o0 : Bool) (k1 : Key) (ts1 : Nat) (o1 : Bool) :
    ObsEq (crossedDel s k0 ts0 o0 k1 ts1 o1) ((s.delete k0 ts0 none o0).1.delete k1 ts1 none o1).1 ∨
    ObsEq (crossedDel s k0 ts0 o0 k1 ts1 o1) ((s.delete k1 ts1 none o1).1.delete k0 ts0 none o0).1 :=
  CrossDel.crossed_obs hwf ha k0 ts0 o0 k1 ts1 o1

/-- … in terms of `Spec`: the two histories give the same `Spec.latest` and `Spec.allCut` records for every key -/
theorem crossed_deletes_spec {s : Store} (hwf : s.WF) (ha : ∃ a, s.active = some a)
    (k0 : Key) (ts0 : Nat) (o0 : Bool) (k1 : Key) (ts1 : Nat) (o1 : Bool) :
    ∃ seq : Store, (seq = ((s.delete k0 ts0 none o0).1.delete k1 ts1 none o1).1 ∨
        seq = ((s.delete k1 ts1 none o1).1.delete k0 ts0 none o0).1) ∧
      ∀ k, (Spec.latest (crossedDel s k0 ts0 o0 k1 ts1 o1).history k).map (·.r) =
          (Spec.latest seq.history k).map (·.r) ∧
        (Spec.allCut (crossedDel s k0 ts0 o0 k1 ts1 o1).history k).map (·.r) =
          (Spec.allCut seq.history k).map (·.r) ∧
        (Spec.allLive (crossedDel s k0 ts0 o0 k1 ts1 o1).history k).map (·.r) =
          (Spec.allLive seq.history k).map (·.r) := by
  have hwX := CrossDel.crossedDel_wf hwf ha k0 ts0 o0 k1 ts1 o1
  obtain ⟨w0, a0⟩ := CrossDel.wf_delete hwf ha k0 ts0 o0
  have hw01 := (CrossDel.wf_delete w0 a0 k1 ts1 o1).1
  obtain ⟨w1, a1⟩ := CrossDel.wf_delete hwf ha k1 ts1 o1
  have hw10 := (CrossDel.wf_delete w1 a1 k0 ts0 o0).1
  rcases crossed_deletes_observational hwf ha k0 ts0 o0 k1 ts1 o1 with h | h
  · refine ⟨_, Or.inl rfl, fun k => ?_⟩
    obtain ⟨h1, _, h3, h4⟩ := h k
    exact ⟨by rw [← read_eq_spec hwX, ← read_eq_spec hw01, h1],
      by rw [← readAllMarked_eq_spec hwX, ← readAllMarked_eq_spec hw01, h3],
      by rw [← readAll_eq_spec hwX, ← readAll_eq_spec hw01, h4]⟩
  · refine ⟨_, Or.inr rfl, fun k => ?_⟩
    obtain ⟨h1, _, h3, h4⟩ := h k
    exact ⟨by rw [← read_eq_spec hwX, ← read_eq_spec hw10, h1],
      by rw [← readAllMarked_eq_spec hwX, ← readAllMarked_eq_spec hw10, h3],
      by rw [← readAll_eq_spec hwX, ← readAll_eq_spec hw10, h4]⟩

theorem delSt_ok : delSt.WF ∧ ∃ a, delSt.active = some a := ⟨run_WF true _, _, rfl⟩

/-- … applied to `delete_phase_race`: the store that schedule ends in differs from both sequential stores, and is
    observationally equal to one of them (here, concretely, to both: every order leaves `Deleted(10)`) -/
theorem delete_phase_race_observational (s : CState)
    (h : ConcRW.runSched delSched (ConcRW.init delSt delOps) = some s) :
    s.store = crossedDel delSt 1 10 true 1 3 true ∧
    (ObsEq s.store ((delSt.delete 1 10 none true).1.delete 1 3 none true).1 ∨
      ObsEq s.store ((delSt.delete 1 3 none true).1.delete 1 10 none true).1) := by
  have hr := ConcRW.runSched_reach delSched _ _ _ .refl h
  have e : (ConcRW.runSched delSched (ConcRW.init delSt delOps)).map (fun s => ConcRW.muts s.trace) =
      some [.delA 0 1 10 true, .delA 1 1 3 true, .delC 1 1 3, .delC 0 1 10] := by decide
  rw [h] at e
  simp only [Option.map_some, Option.some.injEq] at e
  have hs : s.store = crossedDel delSt 1 10 true 1 3 true := by
    rw [(store_eq_replay delSt_ok.1 delSt_ok.2 hr).1, ConcRW.replay_eq_muts, e]
    rfl
  refine ⟨hs, ?_⟩
  rw [hs]
  exact crossed_deletes_observational delSt_ok.1 delSt_ok.2 1 10 true 1 3 true

-- non-vacuity, by evaluation: the crossed store, the two sequential stores, and what a reader sees of key 1
example : (crossedDel delSt 1 10 true 1 3 true).history =
    [(0, [wrec 1 5 ⟨1, 1⟩, ConcBytes.dmark 1 3, ConcBytes.dmark 1 10]), (1, [wrec 1 5 ⟨2, 2⟩, ConcBytes.dmark 1 10])] := by
  decide
example : ((delSt.delete 1 10 none true).1.delete 1 3 none true).1.history =
    [(0, [wrec 1 5 ⟨1, 1⟩, ConcBytes.dmark 1 10]), (1, [wrec 1 5 ⟨2, 2⟩, ConcBytes.dmark 1 10])] := by decide
example : ((delSt.delete 1 3 none true).1.delete 1 10 none true).1.history =
    [(0, [wrec 1 5 ⟨1, 1⟩, ConcBytes.dmark 1 3, ConcBytes.dmark 1 10]),
     (1, [wrec 1 5 ⟨2, 2⟩, ConcBytes.dmark 1 3, ConcBytes.dmark 1 10])] := by decide
example : [(crossedDel delSt 1 10 true 1 3 true).readAllMarked 1,
      ((delSt.delete 1 10 none true).1.delete 1 3 none true).1.readAllMarked 1,
      ((delSt.delete 1 3 none true).1.delete 1 10 none true).1.readAllMarked 1] =
    [[ConcBytes.dmark 1 10], [ConcBytes.dmark 1 10], [ConcBytes.dmark 1 10]] := by decide
-- a case in which only ONE order matches: three blobs (0, 1 closed; 2 active), each holding key 1 @ ts 5; delete 0
-- has ts 10, delete 1 has ts 20.  Crossed: the active blob gets marker 10 from delete 0, after which the key is dead
-- there and delete 1 adds nothing; the closed blobs get marker 20 from delete 1, after which delete 0 adds nothing.
-- A reader sees `Deleted(20)` — as after the order 1;0 (marker 20 everywhere); the order 0;1 leaves marker 10
-- everywhere and shows `Deleted(10)`
def xSt : Store := (Store.init true).run [.write 1 5 none ⟨1, 1⟩, .replaceActive, .write 1 5 none ⟨2, 2⟩,
  .replaceActive, .write 1 5 none ⟨3, 3⟩]
example : [(crossedDel xSt 1 10 true 1 20 true).readAllMarked 1,
      ((xSt.delete 1 10 none true).1.delete 1 20 none true).1.readAllMarked 1,
      ((xSt.delete 1 20 none true).1.delete 1 10 none true).1.readAllMarked 1] =
    [[ConcBytes.dmark 1 20], [ConcBytes.dmark 1 10], [ConcBytes.dmark 1 20]] := by decide
example : xSt.WF ∧ ∃ a, xSt.active = some a := ⟨run_WF true _, _, rfl⟩
example : ObsEq (crossedDel xSt 1 10 true 1 20 true) ((xSt.delete 1 10 none true).1.delete 1 20 none true).1 ∨
    ObsEq (crossedDel xSt 1 10 true 1 20 true) ((xSt.delete 1 20 none true).1.delete 1 10 none true).1 :=
  crossed_deletes_observational (run_WF true _) ⟨_, rfl⟩ 1 10 true 1 20 true
-- … and it is the second alternative that holds here: the first one is refuted by key 1
example : ¬ ObsEq (crossedDel xSt 1 10 true 1 20 true) ((xSt.delete 1 10 none true).1.delete 1 20 none true).1 := by
  intro h
  have := (h 1).2.2.1
  revert this
  decide

/-! ### `read_all` under concurrency

`Storage::read_all_with_deletion_marker` is not an operation of `Pearl.ConcRW`, but it has the shape of `read`: one
shared guard of the storage lock over both phases, the active blob listed under a temporary `ablob.read()`, then the
closed blobs under `blobs.read()`.  It changes nothing, so a run of it is a pair of instants `s1` (active blob listed)
and `s2` (closed blobs listed) of a run of the other clients with no rotation in between; what it returns is
`read_all_with_deletion_marker` of the hybrid store `hyb s2.store a1`. -/

/-- C08/R8 (`read_all_concurrent`): `read_all_with_deletion_marker k` whose two phases fall on the instants `s1`,
    `s2` (no rotation in between: it holds the storage lock shared) returns
    1. the `Spec` list (rank order, cut behind the first marker) of the hybrid history;
    2. PROVENANCE: only records of key `k` that the store holds at instant 2, and every listed non-marker has its
       bytes in the file and was in the starting store or is the record `wrec k ts d` pushed by a `write k ts d`
       client;
    3. FRESHNESS, for every listed version: every record of the key that the store held at instant 1 — in
       particular the record of every write acknowledged before — is listed at its place, unless the list ends in a
       marker that is ranked above it. -/
theorem read_all_concurrent {st : Store} {ops : List COp} {s1 s2 : CState} (hwf : st.WF)
    (ha : ∃ a, st.active = some a) (r1 : ConcRW.Reach (ConcRW.init st ops) s1) (r12 : ConcRW.Reach s1 s2)
    {l2 : List Ev} (ht : s2.trace = l2 ++ s1.trace) (hnr : Ev.rot ∉ l2) {a1 : Blob}
    (ha1 : s1.store.active = some a1) (k : Key) :
    (ConcRW.hyb s2.store a1).readAllMarked k =
        (Spec.allCut (ConcRW.hyb s2.store a1).history k).map (·.r) ∧
    (∀ q ∈ Spec.allCut (ConcRW.hyb s2.store a1).history k,
      q.r.key = k ∧ q ∈ History.positioned s2.store.history ∧
        (q.r.del = false → q.r ∈ s2.landed ∧ (InStore st q.r ∨
          ∃ j ts d, ops[j]? = some (COp.write k ts d) ∧ q.r = wrec k ts d ∧ Ev.push j q.r ∈ s2.trace))) ∧
    (∀ p ∈ History.positioned s1.store.history, p.r.key = k →
      p ∈ Spec.allCut (ConcRW.hyb s2.store a1).history k ∨
        ∃ d ∈ Spec.allCut (ConcRW.hyb s2.store a1).history k, d.r.del = true ∧ rankBefore d p = true) ∧
    (∀ w p, Ev.res w (.wrote (some p)) ∈ s1.trace → p ∈ History.positioned s1.store.history) := by
  obtain ⟨a, ha⟩ := ha
  obtain ⟨hi1, ht1⟩ := ConcRW.tinv_reach hwf ha r1
  obtain ⟨hi2, ht2⟩ := ConcRW.tinv_reach hwf ha (ConcRW.reach_trans r1 r12)
  obtain ⟨a2, ha2, hble, hsub⟩ := ConcRW.norot_reach hi1 r12 l2 ht hnr a1 ha1
  have hwfh : (ConcRW.hyb s2.store a1).WF := ConcRW.hyb_wf hi2.wf ha2 hble.1.symm
  have hsub2 : ConcRW.Sub (ConcRW.hyb s2.store a1) s2.store := ConcRW.hyb_sub_self ha2 hble
  have hsorted := Spec.all_sorted (ConcRW.hyb s2.store a1).history k hwfh.history_nodup
  have hmem : ∀ p, p ∈ Spec.all (ConcRW.hyb s2.store a1).history k ↔
      p ∈ History.positioned (ConcRW.hyb s2.store a1).history ∧ p.r.key = k := by
    intro p
    rw [Spec.all_eq_sortedBy, mem_sortedBy]
    simp
  refine ⟨readAllMarked_eq_spec hwfh k, ?_, ?_, ?_⟩
  · intro q hq
    obtain ⟨hq1, hq2⟩ := (hmem q).1 ((cut_sublist _).subset hq)
    have hq3 := hsub2 q hq1
    refine ⟨hq2, hq3, fun hd => ?_⟩
    have hin := ConcRW.inStore_of_positioned hq3
    refine ⟨hi2.landed _ hin hd, ?_⟩
    rcases ht2.prov _ hin hd with h1 | ⟨j, h1⟩
    · exact Or.inl h1
    · obtain ⟨k', ts, d, h2, h3⟩ := ht2.push j _ h1
      have : k' = k := by rw [h3] at hq2; exact hq2
      subst this
      exact Or.inr ⟨j, ts, d, h2, h3, h1⟩
  · intro p hp hk
    have hpa : p ∈ Spec.all (ConcRW.hyb s2.store a1).history k := (hmem p).2 ⟨hsub p hp, hk⟩
    by_cases hc : p ∈ Spec.allCut (ConcRW.hyb s2.store a1).history k
    · exact Or.inl hc
    · right
      have hex : ∃ d ∈ Spec.all (ConcRW.hyb s2.store a1).history k, d.r.del = true ∧ rankBefore d p = true := by
        apply Classical.byContradiction
        intro hno
        apply hc
        refine (mem_cut_iff hsorted).2 ⟨hpa, fun d hd hdd hb => hno ⟨d, hd, hdd, hb⟩⟩
      obtain ⟨d, hd, hdd, hbefore⟩ := hex
      obtain ⟨d', hd'cut, hd'del, hd'⟩ := exists_del_cut hsorted hd hdd
      refine ⟨d', hd'cut, hd'del, ?_⟩
      rcases hd' with rfl | h
      · exact hbefore
      · exact rankBefore_trans h hbefore
  · intro w p hack
    obtain ⟨c, hc, hd⟩ := ht1.res w _ hack
    exact (ConcRW.done_respOK hi1 hc hd).1

-- non-vacuity on the schedule of `read_not_linearizable_with_delete`: instant 1 after 2 steps, instant 2 after 18
-- steps (the write and the delete lie in between, no rotation): the list is `[marker 5]` — the hybrid history
-- holds the marker of the closed blob and, of the active blob, only the record @ ts 4 below it
example : (ConcRW.runSched (nlSched.take 2) (ConcRW.init nlSt nlOps)).bind (fun s1 =>
      (ConcRW.runSched ((nlSched.take 18).drop 2) s1).bind (fun s2 =>
        s1.store.active.map (fun a1 =>
          (decide (s2.trace = s2.trace.take 8 ++ s1.trace ∧ Ev.rot ∉ s2.trace.take 8),
            (ConcRW.hyb s2.store a1).readAllMarked 1, s2.store.readAllMarked 1)))) =
    some (true, [ConcBytes.dmark 1 5], [wrec 1 10 ⟨3, 3⟩, ConcBytes.dmark 1 5]) := by decide
-- `read_all_concurrent` applied to these two instants, every hypothesis discharged: the record @ ts 4 that the store
-- held at instant 1 (blob 1, position 0) is listed or lies behind a listed marker
example (s1 s2 : CState) (h1 : ConcRW.runSched (nlSched.take 2) (ConcRW.init nlSt nlOps) = some s1)
    (h2 : ConcRW.runSched ((nlSched.take 18).drop 2) s1 = some s2) (a1 : Blob) (ha1 : s1.store.active = some a1) :
    (⟨⟨1, 4, false, none, ⟨2, 2⟩⟩, 1, 0⟩ : PRec) ∈ Spec.allCut (ConcRW.hyb s2.store a1).history 1 ∨
      ∃ d ∈ Spec.allCut (ConcRW.hyb s2.store a1).history 1, d.r.del = true ∧
        rankBefore d ⟨⟨1, 4, false, none, ⟨2, 2⟩⟩, 1, 0⟩ = true := by
  have r1 := ConcRW.runSched_reach _ _ _ _ .refl h1
  have r12 := ConcRW.runSched_reach _ _ _ _ .refl h2
  have e : (ConcRW.runSched (nlSched.take 2) (ConcRW.init nlSt nlOps)).bind (fun s1 =>
      (ConcRW.runSched ((nlSched.take 18).drop 2) s1).map (fun s2 =>
        (decide (s2.trace = s2.trace.take 8 ++ s1.trace ∧ Ev.rot ∉ s2.trace.take 8),
          decide ((⟨⟨1, 4, false, none, ⟨2, 2⟩⟩, 1, 0⟩ : PRec) ∈ History.positioned s1.store.history)))) =
      some (true, true) := by decide
  rw [h1] at e
  simp only [Option.bind_some, h2, Option.map_some, Option.some.injEq, Prod.mk.injEq, decide_eq_true_eq] at e
  exact (read_all_concurrent nlSt_ok.1 nlSt_ok.2 r1 r12 e.1.1 e.1.2 ha1 1).2.2.1 _ e.2 rfl

/-! ### the product with the byte ranges (`Pearl.ConcBytes`, `Pearl/Model/ConcBytes.lean`)

`Pearl.ConcRW` says "the bytes of `r` are in the file" (`landed`); `Pearl.Append` says which bytes a `fetch_add`
hands out.  The product gives every byte-producing step of `Pearl.ConcRW` its `Pearl.Append` meaning: the
`wBlob → wReserved` step of a write is `size.fetch_add(Fs.recLen klen r)` on the file of the active (= landing) blob,
`wReserved → wWritten` is `write_all_at` into that range, and the marker phases of a delete reserve and fill
`Fs.recLen klen marker` bytes per marked blob. -/

open ConcBytes (BState BReach binit brun Alloc sizeOf)

/-- C08/B1 (`landed_ranges_disjoint`): in every reachable state of the product, for every schedule, any number of
    clients, any key length:
    1. the byte ranges of ALL reservations of one blob file — landed records (`written`), in-flight records (not
       yet `written`), markers — are pairwise disjoint; more precisely they lie one after the other in the order of
       the `fetch_add`s;
    2. each starts at or above the length the file had initially (the records the store started with are never
       touched), ends at or below the file's size counter, and has the length of its record;
    3. the reservations not yet filled are exactly the writes in flight: each belongs to a client at `wReserved`,
       and a client at `wReserved` has one, in the active blob, for its record;
    4. every record `Pearl.ConcRW` calls `landed` was in the starting store or has a FILLED range;
    5. every byte of a filled range carries the mark of the client that filled it, and every written byte lies in a
       filled range of its writer: nobody writes outside what it reserved. -/
theorem landed_ranges_disjoint {klen : Nat} {st : Store} {ops : List COp} {b : BState} (hwf : st.WF)
    (ha : ∃ a, st.active = some a) (hr : BReach klen (binit klen st ops) b) :
    b.y.allocs.Pairwise (fun x z => x.blob = z.blob → z.rng.stop ≤ x.rng.off ∧ x.rng.Disjoint z.rng) ∧
    (∀ x ∈ b.y.allocs, sizeOf klen st x.blob ≤ x.rng.off ∧ x.rng.stop ≤ b.y.size x.blob ∧
      x.rng.len = Fs.recLen klen x.r) ∧
    (∀ x ∈ b.y.allocs, x.written = false → ∃ c, b.c.clients[x.client]? = some c ∧ c.pc = .wReserved) ∧
    (∀ i c, b.c.clients[i]? = some c → c.pc = .wReserved →
      ∃ x ∈ b.y.allocs, x.client = i ∧ x.written = false ∧ (∃ a, b.c.store.active = some a ∧ x.blob = a.id) ∧
        ∃ k ts d, c.op = .write k ts d ∧ x.r = wrec k ts d) ∧
    (∀ r ∈ b.c.landed, InStore st r ∨ ∃ x ∈ b.y.allocs, x.written = true ∧ x.r = r) ∧
    (∀ x ∈ b.y.allocs, x.written = true → ∀ o, x.rng.off ≤ o → o < x.rng.stop →
      b.y.file x.blob o = some x.client) ∧
    (∀ bl o i, b.y.file bl o = some i → ∃ x ∈ b.y.allocs, x.client = i ∧ x.blob = bl ∧ x.written = true ∧
      x.rng.off ≤ o ∧ o < x.rng.stop) := by
  obtain ⟨a, ha⟩ := ha
  have hp := ConcBytes.pinv_reach hwf ha hr
  have hb := ConcRW.binv_reach (ConcBytes.breach_reach hr)
  refine ⟨hp.ok.sorted.imp (fun h hb => ⟨h hb, Or.inr (h hb)⟩),
    fun x hx => ⟨hp.ok.base x hx, hp.ok.bound x hx, hp.len x hx⟩, hp.inflight, ?_, hp.landed, hp.ok.intact,
    hp.ok.own⟩
  intro i c hc hpc
  obtain ⟨x, hx, g1, g2, g3, g4⟩ := (hp.client i c hc).1 hpc
  have ht := hb.typed c (List.mem_of_getElem? hc)
  unfold ConcRW.Typed at ht
  rw [hpc] at ht
  obtain ⟨k, ts, d, hop⟩ := ht
  exact ⟨x, hx, g1, g2, g3, k, ts, d, hop, g4 k ts d hop⟩

/-- C08/B2 (`acked_range_never_rewritten`): a write acknowledged with place `p` owns a filled range of
    `Fs.recLen klen p.r` bytes in the file of blob `p.blob`, and in EVERY later state that range is still its
    reservation, every byte of it still carries its mark, and every other reservation of that file — whoever makes it,
    whenever — is disjoint from it: an acknowledged record's bytes are never written again. -/
theorem acked_range_never_rewritten {klen : Nat} {st : Store} {ops : List COp} {b : BState} (hwf : st.WF)
    (ha : ∃ a, st.active = some a) (hr : BReach klen (binit klen st ops) b)
    {i : Nat} {p : PRec} (hack : Ev.res i (.wrote (some p)) ∈ b.c.trace) :
    ∃ x ∈ b.y.allocs, x.client = i ∧ x.blob = p.blob ∧ x.r = p.r ∧ x.written = true ∧
      x.rng.len = Fs.recLen klen p.r ∧ sizeOf klen st p.blob ≤ x.rng.off ∧
      ∀ b', BReach klen b b' →
        x ∈ b'.y.allocs ∧ x.rng.stop ≤ b'.y.size p.blob ∧
        (∀ o, x.rng.off ≤ o → o < x.rng.stop → b'.y.file p.blob o = some i) ∧
        ∀ z ∈ b'.y.allocs, z ≠ x → z.blob = p.blob → x.rng.Disjoint z.rng := by
  obtain ⟨a, ha⟩ := ha
  have hreach := ConcBytes.breach_reach hr
  have hp := ConcBytes.pinv_reach hwf ha hr
  obtain ⟨_, ht⟩ := ConcRW.tinv_reach hwf ha hreach
  obtain ⟨c, hc, hd⟩ := ht.res i _ hack
  obtain ⟨x, hx, g1, g2, g3, g4⟩ := (hp.client i c hc).2.2 p (by rw [hd]; rfl)
  refine ⟨x, hx, g1, g3, g4, g2, by rw [hp.len x hx, g4], by rw [← g3]; exact hp.ok.base x hx, ?_⟩
  intro b' hr'
  have hp' := ConcBytes.pinv_reach hwf ha (ConcBytes.breach_trans hr hr')
  have hx' := ConcBytes.breach_written hr' x hx g2
  refine ⟨hx', by rw [← g3]; exact hp'.ok.bound x hx', ?_, ?_⟩
  · intro o h1 h2
    rw [← g3, ← g1]
    exact hp'.ok.intact x hx' g2 o h1 h2
  · intro z hz hne hzb
    rcases ConcBytes.pairwise_forall hp'.ok.sorted x hx' z hz (Ne.symm hne) with h | h
    · exact Or.inr (h (by rw [g3, hzb]))
    · exact Or.inl (h (by rw [g3, hzb]))

-- non-vacuity: the schedule of `read_not_linearizable_with_delete` at key length 4 — a write of 72 bytes and two
-- markers of 69 bytes; blob file 1 was 91 bytes long: the record at [91, 163), the marker at [163, 232); blob file 0
-- was 90 bytes long: the marker at [90, 159)
example : (brun 4 nlSched (binit 4 nlSt nlOps)).map
      (fun b => (b.y.allocs, b.y.size 0, b.y.size 1, sizeOf 4 nlSt 0, sizeOf 4 nlSt 1)) =
    some ([⟨2, 0, ⟨90, 69⟩, ConcBytes.dmark 1 5, true⟩, ⟨2, 1, ⟨163, 69⟩, ConcBytes.dmark 1 5, true⟩,
           ⟨1, 1, ⟨91, 72⟩, wrec 1 10 ⟨3, 3⟩, true⟩], 159, 232, 90, 91) := by decide
example : (brun 4 nlSched (binit 4 nlSt nlOps)).map
      (fun b => [b.y.file 1 90, b.y.file 1 91, b.y.file 1 162, b.y.file 1 163, b.y.file 1 231, b.y.file 1 232,
                 b.y.file 0 89, b.y.file 0 90]) =
    some [none, some 1, some 1, some 2, some 2, none, none, some 2] := by decide
-- an in-flight reservation: after 7 steps the writer (client 1) has reserved and not yet written
example : (brun 4 (nlSched.take 7) (binit 4 nlSt nlOps)).map
      (fun b => (b.y.allocs, b.c.clients.map (fun c => decide (c.pc.weight = 9)), b.y.file 1 91)) =
    some ([⟨1, 1, ⟨91, 72⟩, wrec 1 10 ⟨3, 3⟩, false⟩], [false, true, false], none) := by decide
-- `landed_ranges_disjoint` applied to the state with the write in flight: the reservation is the client's, in the
-- active blob, of the length of its record, above the 91 bytes the file had
example (b : BState) (h : brun 4 (nlSched.take 7) (binit 4 nlSt nlOps) = some b) :
    ∃ x ∈ b.y.allocs, x.client = 1 ∧ x.written = false ∧ x.r = wrec 1 10 ⟨3, 3⟩ ∧ 91 ≤ x.rng.off ∧
      x.rng.len = 72 ∧ x.rng.stop ≤ b.y.size x.blob := by
  have hr := ConcBytes.brun_reach 4 _ _ _ _ .refl h
  have e : (brun 4 (nlSched.take 7) (binit 4 nlSt nlOps)).map
      (fun b => b.c.clients[1]?.map (fun c => (c.op, decide (c.pc.weight = 9)))) =
      some (some (.write 1 10 ⟨3, 3⟩, true)) := by decide
  rw [h] at e
  simp only [Option.map_some, Option.some.injEq] at e
  obtain ⟨c, hc, e⟩ := Option.map_eq_some_iff.1 e
  simp only [Prod.mk.injEq, decide_eq_true_eq] at e
  have hpc : c.pc = .wReserved := by
    cases hp : c.pc <;> simp [hp, ConcRW.Pc.weight] at e
    rfl
  obtain ⟨_, h2, _, h4, _⟩ := landed_ranges_disjoint nlSt_ok.1 nlSt_ok.2 hr
  obtain ⟨x, hx, g1, g2, ⟨a, ga, gb⟩, k, ts, d, gop, gr⟩ := h4 1 c hc hpc
  rw [e.1] at gop; cases gop
  obtain ⟨f1, f2, f3⟩ := h2 x hx
  have hblob : (brun 4 (nlSched.take 7) (binit 4 nlSt nlOps)).map (fun b => b.c.store.active.map (·.id)) =
      some (some 1) := by decide
  rw [h] at hblob
  simp only [Option.map_some, Option.some.injEq, ga] at hblob
  have hb1 : x.blob = 1 := by rw [gb]; exact hblob
  refine ⟨x, hx, g1, g2, gr, ?_, by rw [f3, gr]; decide, f2⟩
  have : sizeOf 4 nlSt 1 = 91 := by decide
  rw [hb1, this] at f1
  exact f1
-- `acked_range_never_rewritten` applied to the full run, every hypothesis discharged
example (b : BState) (h : brun 4 nlSched (binit 4 nlSt nlOps) = some b) (b' : BState) (h' : BReach 4 b b') :
    ∃ x : Alloc, x.rng.len = 72 ∧ x ∈ b'.y.allocs ∧
      (∀ o, x.rng.off ≤ o → o < x.rng.stop → b'.y.file 1 o = some 1) := by
  have e : (brun 4 nlSched (binit 4 nlSt nlOps)).map
      (fun b => decide (Ev.res 1 (.wrote (some ⟨wrec 1 10 ⟨3, 3⟩, 1, 1⟩)) ∈ b.c.trace)) = some true := by decide
  rw [h] at e
  simp only [Option.map_some, Option.some.injEq, decide_eq_true_eq] at e
  obtain ⟨x, _, _, _, _, _, h5, _, h7⟩ := acked_range_never_rewritten nlSt_ok.1 nlSt_ok.2
    (ConcBytes.brun_reach 4 nlSched _ _ _ .refl h) e
  obtain ⟨g1, _, g3, _⟩ := h7 b' h'
  exact ⟨x, by rw [h5]; decide, g1, g3⟩

/-- C08/B3 (`ranges_follow_layout`): the offsets the `fetch_add`s hand out are the offsets of the sequential file
    layout `Fs.contentLen` (`Pearl/Model/Fs.lean`: header, then the records one after the other).  In every reachable
    state of the product:
    1. the size counter of every closed blob file is `Fs.contentLen klen` of its records; that of the active blob
       file is `Fs.contentLen klen` of its records plus `ConcBytes.pend`, the bytes of the write between its
       `fetch_add` and its `index.push` — and `pend` is 0 when no client is there (at `wReserved` / `wWritten`);
    2. a blob that does not exist yet has a file of `blobHeaderSize` bytes;
    3. every reservation is PLACED — it starts at `Fs.contentLen klen (bl.recs.take n)` for a position `n` of its
       blob `bl` that holds its record, and has that record's length — or it is the reservation of the write in
       flight, which starts exactly where the active blob's records end;
    4. when nobody is in flight — in particular in every quiescent state — every reservation is placed and every size
       counter is the `Fs.contentLen` of its blob: the file the concurrent run builds is the file of the sequential
       model. -/
theorem ranges_follow_layout {klen : Nat} {st : Store} {ops : List COp} {b : BState} (hwf : st.WF)
    (ha : ∃ a, st.active = some a) (hr : BReach klen (binit klen st ops) b) :
    (∀ bl ∈ b.c.store.closed, b.y.size bl.id = Fs.contentLen klen bl.recs) ∧
    (∀ a, b.c.store.active = some a →
      b.y.size a.id = Fs.contentLen klen a.recs + ConcBytes.pend klen b.c.clients) ∧
    (∀ id, b.c.store.nextId ≤ id → b.y.size id = blobHeaderSize) ∧
    (∀ x ∈ b.y.allocs, x.rng.len = Fs.recLen klen x.r ∧
      (ConcBytes.Placed klen b.c.store x ∨
        ∃ c a, b.c.clients[x.client]? = some c ∧ (c.pc = .wReserved ∨ c.pc = .wWritten) ∧
          b.c.store.active = some a ∧ x.blob = a.id ∧ x.rng.off = Fs.contentLen klen a.recs ∧
          ∀ k ts d, c.op = .write k ts d → x.r = wrec k ts d)) ∧
    ((∀ c ∈ b.c.clients, c.pc ≠ .wReserved ∧ c.pc ≠ .wWritten) →
      (∀ bl ∈ b.c.store.blobs, b.y.size bl.id = Fs.contentLen klen bl.recs) ∧
      ∀ x ∈ b.y.allocs, ConcBytes.Placed klen b.c.store x) := by
  obtain ⟨a, ha⟩ := ha
  have hl := ConcBytes.layinv_reach hwf ha hr
  have hp := ConcBytes.pinv_reach hwf ha hr
  refine ⟨hl.closed, hl.active, hl.fresh, fun x hx => ⟨hp.len x hx, hl.place x hx⟩, ?_⟩
  intro hq
  have h0 := ConcBytes.pend_zero (klen := klen) hq
  refine ⟨?_, ?_⟩
  · intro bl hbl
    simp only [Store.blobs, List.mem_append, Option.mem_toList] at hbl
    rcases hbl with hbl | hbl
    · exact hl.closed bl hbl
    · have := hl.active bl hbl
      omega
  · intro x hx
    rcases hl.place x hx with h1 | ⟨c, _, h1, h2, _⟩
    · exact h1
    · have := hq c (List.mem_of_getElem? h1)
      rcases h2 with h2 | h2
      · exact absurd h2 this.1
      · exact absurd h2 this.2

-- non-vacuity: at the end of the run above nobody is in flight; blob file 1 holds 3 records in 232 bytes, and the
-- acknowledged record (position 1 of blob 1) starts at `contentLen` of the one record before it
example : (brun 4 nlSched (binit 4 nlSt nlOps)).map (fun b =>
      (b.c.clients.map (fun c => decide (c.pc.weight = 0)),
       b.c.store.blobs.map (fun bl => (bl.id, b.y.size bl.id, Fs.contentLen 4 bl.recs)),
       Fs.contentLen 4 [⟨1, 4, false, none, ⟨2, 2⟩⟩])) =
    some ([true, true, true], [(0, 159, 159), (1, 232, 232)], 91) := by decide
-- `ranges_follow_layout` applied to the end of that run (nobody in flight), every hypothesis discharged
example (b : BState) (h : brun 4 nlSched (binit 4 nlSt nlOps) = some b) :
    (∀ bl ∈ b.c.store.blobs, b.y.size bl.id = Fs.contentLen 4 bl.recs) ∧
      ∀ x ∈ b.y.allocs, ConcBytes.Placed 4 b.c.store x := by
  have e : (brun 4 nlSched (binit 4 nlSt nlOps)).map
      (fun b => decide (∀ c ∈ b.c.clients.map (fun c => c.pc.weight), c = 0)) = some true := by decide
  rw [h] at e
  simp only [Option.map_some, Option.some.injEq, decide_eq_true_eq, List.mem_map, forall_exists_index, and_imp,
    forall_apply_eq_imp_iff₂] at e
  refine (ranges_follow_layout nlSt_ok.1 nlSt_ok.2 (ConcBytes.brun_reach 4 nlSched _ _ _ .refl h)).2.2.2.2 ?_
  intro c hc
  have := e c hc
  constructor <;> intro hp <;> rw [hp] at this <;> simp [ConcRW.Pc.weight] at this
-- … and while the write is in flight (7 steps) the counter of the active blob file runs ahead of the index by the
-- 72 bytes of that record
example : (brun 4 (nlSched.take 7) (binit 4 nlSt nlOps)).map (fun b =>
      (b.c.store.blobs.map (fun bl => (bl.id, b.y.size bl.id, Fs.contentLen 4 bl.recs)),
       ConcBytes.pend 4 b.c.clients)) =
    some ([(0, 90, 90), (1, 163, 91)], 72) := by decide

/-- C08/B4 (`acked_range_at_place`): the bytes of an acknowledged write are exactly where the sequential file
    layout puts its acknowledged place: in EVERY later state the blob `p.blob` holds `p.r` at position `p.seq`, and the
    write's filled range is `[Fs.contentLen klen (records before position p.seq), + Fs.recLen klen p.r)` — the range
    `Pearl.Fs` (C06) assigns to the `p.seq`-th record of that blob file. -/
theorem acked_range_at_place {klen : Nat} {st : Store} {ops : List COp} {b : BState} (hwf : st.WF)
    (ha : ∃ a, st.active = some a) (hr : BReach klen (binit klen st ops) b)
    {i : Nat} {p : PRec} (hack : Ev.res i (.wrote (some p)) ∈ b.c.trace) :
    ∃ x ∈ b.y.allocs, x.client = i ∧ x.written = true ∧ x.blob = p.blob ∧ x.r = p.r ∧
      ∀ b', BReach klen b b' → x ∈ b'.y.allocs ∧
        ∃ bl ∈ b'.c.store.blobs, bl.id = p.blob ∧ bl.recs[p.seq]? = some p.r ∧
          x.rng = ⟨Fs.contentLen klen (bl.recs.take p.seq), Fs.recLen klen p.r⟩ := by
  obtain ⟨a, ha⟩ := ha
  have hreach := ConcBytes.breach_reach hr
  have hp := ConcBytes.pinv_reach hwf ha hr
  obtain ⟨_, ht⟩ := ConcRW.tinv_reach hwf ha hreach
  obtain ⟨c, hc, hd⟩ := ht.res i _ hack
  obtain ⟨x, hx, g1, g2, g3, g4⟩ := (hp.client i c hc).2.2 p (by rw [hd]; rfl)
  refine ⟨x, hx, g1, g2, g3, g4, fun b' hr' => ?_⟩
  have hr2 := ConcBytes.breach_trans hr hr'
  have hx' := ConcBytes.breach_written hr' x hx g2
  obtain ⟨_, ht'⟩ := ConcRW.tinv_reach hwf ha (ConcBytes.breach_reach hr2)
  have hack' : Ev.res i (.wrote (some p)) ∈ b'.c.trace := by
    obtain ⟨m, hm⟩ := ConcRW.reach_trace_ext (ConcBytes.breach_reach hr')
    rw [hm]; exact List.mem_append_right _ hack
  obtain ⟨c', hc', hd'⟩ := ht'.res i _ hack'
  obtain ⟨_, bl, hbl, h1, h2, h3⟩ :=
    (ConcBytes.seqinv_reach hwf ha hr2).seq i c' p hc' (by rw [hd']; rfl) x hx' g1
  refine ⟨hx', bl, hbl, h1, h2, ?_⟩
  have hlen := (ConcBytes.pinv_reach hwf ha hr2).len x hx'
  cases hxr : x.rng with
  | mk off len =>
    rw [hxr] at h3 hlen
    simp only at h3 hlen
    rw [h3, hlen, g4]

-- `acked_range_at_place` on the run above: the record acknowledged at blob 1, position 1 lies at
-- `[contentLen [record @ ts 4], + 72) = [91, 163)`, in every later state
example (b : BState) (h : brun 4 nlSched (binit 4 nlSt nlOps) = some b) (b' : BState) (h' : BReach 4 b b') :
    ∃ bl ∈ b'.c.store.blobs, bl.id = 1 ∧ bl.recs[1]? = some (wrec 1 10 ⟨3, 3⟩) ∧
      (⟨1, 1, ⟨Fs.contentLen 4 (bl.recs.take 1), 72⟩, wrec 1 10 ⟨3, 3⟩, true⟩ : Alloc) ∈ b'.y.allocs := by
  have e : (brun 4 nlSched (binit 4 nlSt nlOps)).map
      (fun b => decide (Ev.res 1 (.wrote (some ⟨wrec 1 10 ⟨3, 3⟩, 1, 1⟩)) ∈ b.c.trace)) = some true := by decide
  rw [h] at e
  simp only [Option.map_some, Option.some.injEq, decide_eq_true_eq] at e
  obtain ⟨x, _, g1, g2, g3, g4, h7⟩ := acked_range_at_place nlSt_ok.1 nlSt_ok.2
    (ConcBytes.brun_reach 4 nlSched _ _ _ .refl h) e
  obtain ⟨hx', bl, hbl, k1, k2, k3⟩ := h7 b' h'
  refine ⟨bl, hbl, k1, k2, ?_⟩
  have : x = ⟨1, 1, ⟨Fs.contentLen 4 (bl.recs.take 1), 72⟩, wrec 1 10 ⟨3, 3⟩, true⟩ := by
    cases x with
    | mk cl blb rng r w =>
      simp only at g1 g2 g3 g4 k3
      subst g1 g2 g3 g4
      rw [k3]
      rfl
  rw [← this]; exact hx'

end C08
end Pearl

/-
NOT YET PROVED (C08, read side)

* Linearizability of `read`/`contains` when deletes run concurrently is false (`read_not_linearizable_with_delete`),
  and so is the regular-register property "the answer is the `Spec` answer of SOME store between invocation and
  response" (`read_not_regular_with_delete`).  What holds is proved: `read_fresh`/`read_returns_written` (lower
  bound: the store at the invocation), `read_upper_bound` (upper bound: the store at the response, and ever after),
  and `read_interval` (each component look-up is the `Spec` answer of its component at its own instant inside the
  interval; the answer is the `Spec` answer of the hybrid history; rank sandwich between the two instants).
  The same window for `contains` and for the duplicate check of `write`: `contains_interval`,
  `skipped_write_interval`.
* `quiescent_equals_sequential` for crossing delete phases / duplicate-check races is false for store equality
  (`delete_phase_race`, `duplicate_check_race`).  For two crossed deletes the store IS observationally equal to one of
  the two sequential orders (`crossed_deletes_observational`, all stores / keys / timestamps / flags); the returned
  counts are not.  Not proved: the generalisation to more than two overlapping deletes, and to deletes crossed with
  writes of the same key between the phases (the combinatorial core `CrossDel.cross_summaries` is for two deletes and
  nothing in between).  The duplicate-check race is observable (`duplicate_check_race`: `read_all` lists two records).
* `read_with` / `write_with` / `delete_with` (metadata) under concurrency are not modelled (the sequential versions
  are C02).  `read_all` / `read_all_with_deletion_marker` are not operations of the transition system
  `Pearl.ConcRW`; `read_all_concurrent` treats a run of them as a pair of instants of a run of the other clients
  (sound because they change nothing and hold the storage lock shared), and does not cover their data loads
  (`Entry::load` of every listed entry happens after the listing; a listed live record has its bytes in the file
  already: clause 2).
* The model assumes an active blob throughout (no concurrent `close_active_blob` / `restore_active_blob`), no I/O
  errors, and filters that are transparent (C10) and updated before a header becomes visible (`IndexStruct::push`
  adds the key to the filter before inserting, under the index write lock).
* `client_progress` is a safety-style progress statement (some enabled step exists); fairness of tokio's scheduler
  and of `async_lock::RwLock` is not modelled.  The storage lock's writer preference and the worker channel are
  the subject of `no_deadlock` (first half), not of `Pearl.ConcRW`, where rotation is one atomic step.
* Byte offsets: the product `Pearl.ConcBytes` composes `Pearl.ConcRW` with the `fetch_add` discipline of
  `Pearl.Append` (`landed_ranges_disjoint`, `acked_range_never_rewritten`) and with the sequential file layout of
  `Pearl.Fs` (`ranges_follow_layout`: size counters = `Fs.contentLen` + the write in flight; every reservation sits
  at `Fs.contentLen` of a prefix of its blob that ends just before a copy of its record).  for an acknowledged write the position is
  its acknowledged place: `acked_range_at_place`).  Not proved there: the same pinning for the markers of deletes
  (a delete's response carries no place; `LayInv.place` says "a position holding that marker"); two-pass writes (`Fs.recWrites`: header and data as two
  `write_all_at` calls into the one reserved range) are one `land` step; the ranges of the records the store
  started with are not reservations (they lie below `sizeOf klen st`, which every reservation respects).
-/
