import Pearl.Proofs.LtsLemmas
/-
C08 — deadlock clause and the append critical section.

`Pearl.Lts` (see `Pearl/Model/Lts.lean`): `N` writers into a full active blob, the observer channel of
capacity `C` (`OBSERVER_CHANNEL_SIZE_LIMIT = 1024` in `src/storage/observer.rs`), the worker, and the storage
lock `Inner::safe` (tokio `RwLock`, write-preferring).  The client program has a protocol parameter:

* `Proto.sendUnderLock`    — /repo up to eb0e048: `send` on the bounded channel while the shared lock is held;
* `Proto.sendAfterRelease` — /repo since fe5e781 (`CURRENT`): decide under the lock, `drop(safe)`, then `send`.

The code as it is (`sendAfterRelease`):
* `no_deadlock`            : for EVERY number of writers, every reachable non-final state has a successor;
* `all_clients_finish`     : from every reachable state some finite schedule reaches a final state;
* `every_run_is_finite`    : every step decreases `Lts.measure`, so no schedule from `init N` is longer than `16·N`
                             (holds for both protocols);
* `old_deadlock_unreachable` : the deadlocked state of the old protocol is not reachable any more.

The pinned code (`sendUnderLock`), kept as the record of the defect:
* `deadlock_witness_before_fix`    : with `N = C + 2` writers inside the shared section there is a schedule into a
                                     state that is not final and has no successor (`C = 1024`: 1026 writers);
* `no_deadlock_bounded_before_fix` : with `N ≤ C + 1` writers every reachable non-final state has a successor;
  so `C + 2` was the exact threshold.

Independent of the protocol:
* `rw_exclusion`          : the worker holds the lock exclusively only while nobody holds it shared;
* `ranges_disjoint`, `ranges_disjoint_interleaved`, `written_bytes_intact`, `append_cs_atomic`
                          : the per-blob append section (`Pearl.Append`, which does not mention `Proto`).
-/
namespace Pearl
namespace C08

open Pearl.Lts Pearl.Append

/-- the protocol of the shipped code -/
abbrev CURRENT : Proto := .sendAfterRelease

/-! ## the code as it is: no deadlock, for any number of writers -/

/-- C08/D1: under `sendAfterRelease`, for every channel capacity `C > 0` and EVERY number `N` of clients, every
    reachable state that is not final has a successor.

    Invariants: `Lts.Inv` (the shared holders are exactly the clients at `append`/`send`/`release`/`relSend`;
    the writer side of the lock mirrors the worker's program counter) and "no client is at `send`"
    (`noSend_reach`: nobody waits on the channel with the lock in hand).  So whoever holds the lock shared can
    always move, the readers drain, the worker is granted the lock; senders wait outside the lock and the
    worker in `recv` empties the channel for them. -/
theorem no_deadlock (C N : Nat) (hC : 0 < C) (s : LState)
    (hreach : Reach CURRENT C (init N) s) (hnf : ¬ final s) : ∃ s', Step CURRENT C s s' :=
  progress_free (inv_reach (inv_init N) hreach) (noSend_reach (noSend_init N) hreach) hC hnf

/-- the same from the state in which all clients already hold the lock shared (the starting point of the old
    deadlock) -/
theorem no_deadlock_inside (C N : Nat) (hC : 0 < C) (s : LState)
    (hreach : Reach CURRENT C (initInside N) s) (hnf : ¬ final s) : ∃ s', Step CURRENT C s s' :=
  progress_free (inv_reach (inv_initInside N) hreach) (noSend_reach (noSend_initInside N) hreach) hC hnf

theorem no_stuck (C N : Nat) (hC : 0 < C) (s : LState) (hreach : Reach CURRENT C (init N) s) :
    ¬ Stuck CURRENT C s := by
  rintro ⟨hnf, hno⟩
  obtain ⟨s', hs⟩ := no_deadlock C N hC s hreach hnf
  exact hno s' hs

/-- C08/D2 (termination measure, both protocols): every step decreases `Lts.measure`; hence a schedule that
    is executable from `s` has at most `measure s` steps -/
theorem every_step_decreases (proto : Proto) (C : Nat) (s s' : LState) (h : Step proto C s s') :
    Lts.measure s' < Lts.measure s := measure_step h

theorem measure_init (N : Nat) : Lts.measure (init N) = 16 * N := by
  simp [Lts.measure, init, CPc.weight, WPc.weight, Nat.mul_comm]

theorem every_run_is_finite (proto : Proto) (C N : Nat) (sched : List Label) (s' : LState)
    (h : runSched proto C sched (init N) = some s') : sched.length ≤ 16 * N := by
  have := runSched_length_le sched (init N) s' h
  rw [measure_init] at this
  omega

/-- C08/D3: under `sendAfterRelease` every reachable state can be run to a final state: all clients done, the
    channel empty, the worker back in `recv` -/
theorem all_clients_finish (C N : Nat) (hC : 0 < C) (s : LState) (hreach : Reach CURRENT C (init N) s) :
    ∃ (sched : List Label) (s' : LState), runSched CURRENT C sched s = some s' ∧ final s' :=
  finish_of_progress (fun t => Reach CURRENT C (init N) t)
    (fun _ _ ht hs => .step ht hs)
    (fun t ht hnf => no_deadlock C N hC t ht hnf)
    (Lts.measure s) s (Nat.le_refl _) hreach

theorem all_clients_finish_inside (C N : Nat) (hC : 0 < C) (s : LState)
    (hreach : Reach CURRENT C (initInside N) s) :
    ∃ (sched : List Label) (s' : LState), runSched CURRENT C sched s = some s' ∧ final s' :=
  finish_of_progress (fun t => Reach CURRENT C (initInside N) t)
    (fun _ _ ht hs => .step ht hs)
    (fun t ht hnf => no_deadlock_inside C N hC t ht hnf)
    (Lts.measure s) s (Nat.le_refl _) hreach

/-- … and a run that cannot be continued has reached a final state: no execution ends anywhere else -/
theorem maximal_run_is_final (C N : Nat) (hC : 0 < C) (sched : List Label) (s : LState)
    (hrun : runSched CURRENT C sched (init N) = some s) (hmax : ∀ s', ¬ Step CURRENT C s s') : final s := by
  have hreach := runSched_reach CURRENT C sched (init N) (init N) s .refl hrun
  by_cases hf : final s
  · exact hf
  · obtain ⟨s', hs⟩ := no_deadlock C N hC s hreach hf
    exact absurd hs (hmax s')

/-- the deadlocked state of the old protocol cannot be reached any more -/
theorem old_deadlock_unreachable (C N : Nat) : ¬ Reach CURRENT C (initInside N) (witnessState C) := by
  intro h
  have := noSend_reach (noSend_initInside N) h
  apply this
  cases C <;> simp [witnessState]

-- non-vacuity: the workload of the old deadlock (`C = 2`, 4 writers into a full blob, everybody inside the
-- shared section) now runs to the end; the first prefix is the state in which the old protocol was stuck
-- in spirit: channel full, worker queued for the lock — but the blocked senders hold no lock
example : runSched CURRENT 2
      [.cAppend 0, .cAppend 1, .cAppend 2, .cAppend 3, .cRelease 0, .cRelease 1, .cRelease 2, .cSend 0, .cSend 1,
       .wRecv, .cSend 2] (initInside 4) =
    some { clients := [.done, .done, .done, .relSend], chan := 2, wpc := .waitWrite, readers := 1,
           writer := .waiting, full := true } := by decide
example : runSched CURRENT 2
      [.cAppend 0, .cAppend 1, .cAppend 2, .cAppend 3, .cRelease 0, .cRelease 1, .cRelease 2, .cSend 0, .cSend 1,
       .wRecv, .cSend 2, .cRelease 3, .wGrant, .wSwitch, .wRecv, .cSend 3, .wRecv, .wRecv] (initInside 4) =
    some { clients := [.done, .done, .done, .done], chan := 0, wpc := .recv, readers := 0,
           writer := .idle, full := false } := by decide
example : final { clients := [.done, .done, .done, .done], chan := 0, wpc := .recv, readers := 0,
                  writer := .idle, full := false } := by decide
-- a reachable non-final state exists (so `no_deadlock` says something), here with far more writers than slots
example : ∃ s, Reach CURRENT 1 (init 5) s ∧ ¬ final s := ⟨init 5, .refl, by decide⟩
-- the real channel, more writers than in the replayed hang (1100) and in the repaired run (3000)
example (s : LState) (h : Reach CURRENT 1024 (init 3000) s) : ¬ Stuck CURRENT 1024 s :=
  no_stuck 1024 3000 (by decide) s h
example : Lts.measure (initInside 4) = 48 ∧ Lts.measure (init 4) = 64 := by decide

/-! ## the pinned code (`sendUnderLock`): the deadlock, kept as the record of the defect -/

/-- for every channel capacity `C`, `C + 2` clients that are all inside the shared section of the storage lock
    can be scheduled into a deadlock.  The schedule is `witnessSched C` (built by recursion on `C` through
    `List.range'`), the deadlocked state is `witnessState C`: one client blocked in `send` on a full channel
    while holding the shared lock, the worker queued for the exclusive lock with one message in its hands,
    everybody else gone. -/
theorem deadlock_witness_before_fix :
    ∀ C : Nat, ∃ (sched : List Label) (s : LState),
      runSched .sendUnderLock C sched (initInside (C + 2)) = some s ∧ Stuck .sendUnderLock C s :=
  fun C => ⟨witnessSched C, witnessState C, witnessSched_runs C, witnessState_stuck .sendUnderLock C⟩

/-- the same, from the state in which no client has asked for the lock yet -/
theorem deadlock_witness_from_start_before_fix :
    ∀ C : Nat, ∃ (sched : List Label) (s : LState),
      runSched .sendUnderLock C sched (init (C + 2)) = some s ∧ Stuck .sendUnderLock C s := by
  intro C
  refine ⟨(List.range' 0 (C + 2)).map .cAcquire ++ witnessSched C, witnessState C, ?_,
    witnessState_stuck .sendUnderLock C⟩
  rw [runSched_append, init_to_inside]
  exact witnessSched_runs C

/-- in terms of reachability -/
theorem deadlock_reachable_before_fix (C : Nat) :
    ∃ s, Reach .sendUnderLock C (initInside (C + 2)) s ∧ Stuck .sendUnderLock C s :=
  ⟨witnessState C, runSched_reach .sendUnderLock C _ _ _ _ .refl (witnessSched_runs C),
    witnessState_stuck .sendUnderLock C⟩

-- non-vacuity: the schedule for `C = 2` (4 clients), step by step, and its last state
example : witnessSched 2 =
    [.cAppend 0, .cAppend 1, .cAppend 2, .cAppend 3, .cSend 0, .cSend 1, .wRecv, .cSend 2,
     .cRelease 0, .cRelease 1, .cRelease 2] := by decide
example : runSched .sendUnderLock 2 (witnessSched 2) (initInside 4) =
    some { clients := [.done, .done, .done, .send], chan := 2, wpc := .waitWrite, readers := 1,
           writer := .waiting, full := true } := by decide
-- the stuck state is not final, and e.g. the blocked client really cannot send, the worker cannot be granted
example : ¬ final (witnessState 2) := by decide
example : fire .sendUnderLock 2 (.cSend 3) (witnessState 2) = none ∧
    fire .sendUnderLock 2 .wGrant (witnessState 2) = none := by decide
-- the capacity of the real channel
example : ∃ sched s, runSched .sendUnderLock 1024 sched (initInside 1026) = some s ∧ Stuck .sendUnderLock 1024 s :=
  deadlock_witness_before_fix 1024

/-- with at most `C + 1` clients (all inside the shared section) the old protocol had no deadlock: every
    reachable state that is not final has a successor.  (`0 < C`: tokio's `channel(0)` panics; a zero-capacity
    channel in this model never transmits.)

    Invariant (`Lts.Inv`): `chan + (1 if the worker has a message in its hands) ≤ #release + #done` — a message
    exists only if its sender is past `send`.  A blocked sender therefore sees `chan + busy ≤ N - 1 ≤ C`: either
    the channel has room, or the worker is in `recv` with a non-empty channel. -/
theorem no_deadlock_bounded_before_fix (C N : Nat) (hC : 0 < C) (hN : N ≤ C + 1) (s : LState)
    (hreach : Reach .sendUnderLock C (initInside N) s) (hnf : ¬ final s) : ∃ s', Step .sendUnderLock C s s' :=
  progress (inv_reach (inv_initInside N) hreach) hC hN hnf

theorem no_stuck_bounded_before_fix (C N : Nat) (hC : 0 < C) (hN : N ≤ C + 1) (s : LState)
    (hreach : Reach .sendUnderLock C (initInside N) s) : ¬ Stuck .sendUnderLock C s := by
  rintro ⟨hnf, hno⟩
  obtain ⟨s', hs⟩ := no_deadlock_bounded_before_fix C N hC hN s hreach hnf
  exact hno s' hs

/-- the same when the clients have yet to take the shared lock (late readers queue behind the writer) -/
theorem no_deadlock_bounded_from_start_before_fix (C N : Nat) (hC : 0 < C) (hN : N ≤ C + 1) (s : LState)
    (hreach : Reach .sendUnderLock C (init N) s) (hnf : ¬ final s) : ∃ s', Step .sendUnderLock C s s' :=
  progress (inv_reach (inv_init N) hreach) hC hN hnf

-- non-vacuity: `C = 2`, `N = 3` runs to the end under the old protocol
example : runSched .sendUnderLock 2 [.cAppend 0, .cAppend 1, .cAppend 2, .cSend 0, .cSend 1, .wRecv, .cSend 2,
      .cRelease 0, .cRelease 1, .cRelease 2, .wGrant, .wSwitch, .wRecv, .wRecv] (initInside 3) =
    some { clients := [.done, .done, .done], chan := 0, wpc := .recv, readers := 0, writer := .idle,
           full := false } := by decide
example : ∃ s, Reach .sendUnderLock 2 (initInside 3) s ∧ ¬ final s :=
  ⟨initInside 3, .refl, by decide⟩
-- the threshold was exact: `N = C + 1` safe, `N = C + 2` not
example (C : Nat) (hC : 0 < C) :
    (∀ s, Reach .sendUnderLock C (initInside (C + 1)) s → ¬ Stuck .sendUnderLock C s) ∧
    (∃ s, Reach .sendUnderLock C (initInside (C + 2)) s ∧ Stuck .sendUnderLock C s) :=
  ⟨fun s h => no_stuck_bounded_before_fix C (C + 1) hC (Nat.le_refl _) s h, deadlock_reachable_before_fix C⟩

/-! ## independent of the protocol -/

/-- the lock is a lock: in every reachable state (either protocol, any number of clients) the worker is inside
    its exclusive section only while no client is inside the shared one, and the readers count is exactly the
    number of clients between `acquire` and `release` -/
theorem rw_exclusion (proto : Proto) (C N : Nat) (s : LState) (hreach : Reach proto C (init N) s) :
    (s.writer = .holding → s.readers = 0) ∧
    s.readers = s.clients.count .append + s.clients.count .send + s.clients.count .release +
      s.clients.count .relSend := by
  have hi := inv_reach (inv_init N) hreach
  refine ⟨?_, hi.readers⟩
  intro hw
  apply hi.excl
  have := hi.writer
  cases hwp : s.wpc <;> simp [hwp, writerOf, hw] at this ⊢

-- non-vacuity: a reachable state in which the worker does hold the lock, under each protocol
example : (runSched .sendUnderLock 1 [.cAcquire 0, .cAppend 0, .cSend 0, .wRecv, .cRelease 0, .wGrant] (init 1)).map
    (·.writer) = some .holding := by decide
example : (runSched .sendAfterRelease 1 [.cAcquire 0, .cAppend 0, .cRelease 0, .cSend 0, .wRecv, .wGrant] (init 1)).map
    (·.writer) = some .holding := by decide
-- writer preference: while the worker waits, a late client cannot take the lock shared
example : (runSched .sendAfterRelease 1 [.cAcquire 0, .cAppend 0, .cRelease 0, .cSend 0, .cAcquire 1, .wRecv]
      (init 3)).bind (fire .sendAfterRelease 1 (.cAcquire 2)) = none := by decide

/-! ## the append critical section -/

/-- C08/A1 (`ranges_disjoint`): offsets reserved by successive `fetch_add len` on the file size, starting from
    any size and for any lengths, give ranges `[off, off + len)` that are pairwise disjoint — they are laid out
    one after the other in the order the atomic operations took effect, start at or after the old size, and
    end at the new size. -/
theorem ranges_disjoint (size : Nat) (lens : List Nat) :
    (reserveAll size lens).Pairwise Range.Disjoint ∧
    (reserveAll size lens).Pairwise (fun a b => a.stop ≤ b.off) ∧
    (∀ r ∈ reserveAll size lens, size ≤ r.off ∧ r.stop ≤ size + lens.sum) ∧
    (reserveAll size lens).map (·.len) = lens := by
  refine ⟨?_, reserveAll_sorted lens size, ?_, reserveAll_lens lens size⟩
  · exact (reserveAll_sorted lens size).imp (fun h => Or.inl h)
  · intro r hr
    exact ⟨reserveAll_off_ge lens size r hr, reserveAll_stop_le lens size r hr⟩

-- non-vacuity
example : reserveAll 100 [10, 0, 5] = [⟨100, 10⟩, ⟨110, 0⟩, ⟨110, 5⟩] := by decide
example : ¬ Range.Disjoint ⟨100, 10⟩ ⟨105, 10⟩ := by simp [Range.Disjoint, Range.stop]

/-- C08/A2: for ANY interleaving of the writers' steps (lock, `fetch_add`, `write_all_at`, unlock), with or
    without the upgradable lock, the ranges owned by different writers never share a byte, and every range
    lies inside the file -/
theorem ranges_disjoint_interleaved (useLock : Bool) (size : Nat) (lens : List Nat) (s : AState)
    (hreach : AReach useLock (ainit size lens) s) :
    (∀ i j ri rj, i ≠ j → rng s.ws i = some ri → rng s.ws j = some rj → ri.Disjoint rj) ∧
    (∀ i r, rng s.ws i = some r → r.stop ≤ s.size) :=
  let h := ainv_reach (ainv_init size lens) hreach
  ⟨h.disj, h.bound⟩

/-- C08/A3: records never overlap in the file: once a writer's bytes have landed (`written` / `done`) every
    byte of its range still carries its mark, whatever the other writers did since; and every byte in the file
    lies in the range of the writer that wrote it -/
theorem written_bytes_intact (useLock : Bool) (size : Nat) (lens : List Nat) (s : AState)
    (hreach : AReach useLock (ainit size lens) s) :
    (∀ i pc r, s.ws[i]? = some pc → pc.landed = some r → ∀ o, r.off ≤ o → o < r.stop → s.file o = some i) ∧
    (∀ o i, s.file o = some i → ∃ r, rng s.ws i = some r ∧ r.off ≤ o ∧ o < r.stop) :=
  let h := ainv_reach (ainv_init size lens) hreach
  ⟨h.intact, h.own⟩

/-- C08/A4 (`append_cs_atomic`): under the upgradable lock at most one writer is between `lock` and `unlock`
    (so reservation order = file order = index push order), and whoever is inside holds the lock -/
theorem append_cs_atomic (size : Nat) (lens : List Nat) (s : AState)
    (hreach : AReach true (ainit size lens) s) :
    (∀ (i j : Nat) (pi pj : APc), s.ws[i]? = some pi → s.ws[j]? = some pj →
        pi.inCs = true → pj.inCs = true → i = j) ∧
    (∀ (i : Nat) (pi : APc), s.ws[i]? = some pi → pi.inCs = true → s.locked = true) :=
  let h := aexcl_reach (aexcl_init size lens) hreach
  ⟨h.one, h.held⟩

/-- run a schedule of the append system -/
def arun (useLock : Bool) : List ALabel → AState → Option AState
  | [], s => some s
  | l :: ls, s => match afire useLock l s with
    | some s' => arun useLock ls s'
    | none => none

theorem arun_reach (ul : Bool) (sched : List ALabel) (s0 s s' : AState)
    (h0 : AReach ul s0 s) (h : arun ul sched s = some s') : AReach ul s0 s' := by
  induction sched generalizing s with
  | nil => simp [arun] at h; subst h; exact h0
  | cons l ls ih =>
    simp only [arun] at h
    cases hf : afire ul l s with
    | none => simp [hf] at h
    | some s1 => simp only [hf] at h; exact ih s1 (.step h0 ⟨l, hf⟩) h

-- non-vacuity: without the lock two writers interleave `reserve`/`write` in opposite orders; their ranges are
-- different and disjoint, and the file carries both marks
example :
    ((arun false [.lock 0, .lock 1, .reserve 1, .reserve 0, .write 0, .write 1] (ainit 7 [3, 2])).map
      (fun s => (s.size, s.ws, [s.file 7, s.file 8, s.file 9, s.file 10, s.file 11, s.file 12]))) =
    some (12, [.written ⟨9, 3⟩, .written ⟨7, 2⟩], [some 1, some 1, some 0, some 0, some 0, none]) := by decide
-- with the lock the second writer cannot enter while the first is inside …
example : (arun true [.lock 0, .lock 1] (ainit 7 [3, 2])).isNone = true := by decide
-- … and can after it left
example : ((arun true [.lock 0, .reserve 0, .write 0, .unlock 0, .lock 1, .reserve 1] (ainit 7 [3, 2])).map
      (fun s => (s.locked, s.ws))) = some (true, [.done ⟨7, 3⟩, .reserved ⟨10, 2⟩]) := by decide

end C08
end Pearl
