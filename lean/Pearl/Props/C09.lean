import Pearl.Proofs.BPTreeLemmas
import Pearl.Proofs.BPTreeBytesLemmas
import Pearl.Model.Index
/-
C09 — the on-disk B+tree index answers exactly like the in-memory index it was built from.

Model: `Pearl/Model/BPTree.lean` (`build` = `Serializer … header_stage … tree_stage … build`,
`IndexFile.getLatest / findByKey / load / count` = `BPTreeFileIndex::get_latest / find_by_key /
get_records_headers / records_count`).  In-memory answers: `memLatest m k = (m.lookup k).bind getLast?`
(`headers.get(key).and_then(|h| h.last())`) and `memAll m k = (m.lookup k).map reverse`.
Results are `Option (Option _)`: the outer `some` says "no error, no panic, every loop terminated".

Hypotheses, all of them needed (see the witnesses at the end):
* `WF m`, `m ≠ []` : what `BTreeMap` iteration of a non-empty index gives;
* `p.Valid` : `0 < rhs ≤ B` and `3 ≤ max_nonleaf_node_capacity`; for the real parameters
  (`rhs = 57 + K`, `B = 4096`) this is `K ≤ 2032` (`valid_real`).
Only property theorems and, beside each, an example showing that it is not vacuous.
-/
namespace Pearl.C09
open Pearl Pearl.BPTree

/-! ### the running example: 10-byte headers, 46-byte blocks (4 whole headers per block), fan-out 4 -/

def p0 : Params := { rhs := 10, K := 1, B := 46 }
def r (k ts : Nat) : Rec := ⟨k, ts, false, none, ⟨0, 0⟩⟩
/-- 22 headers, 5 leaves, a root over two inner nodes; key 7 has a run longer than a block;
    the run of key 5 ends exactly where the block of the first leaf's window ends -/
def m0 : InMem Rec :=
  [(1, [r 1 10, r 1 20]), (3, [r 3 5]), (5, [r 5 1]),
   (7, [r 7 1, r 7 2, r 7 3, r 7 4, r 7 5, r 7 6]), (9, [r 9 1, r 9 2]), (11, [r 11 1, r 11 2]),
   (13, [r 13 1, r 13 2]), (15, [r 15 1, r 15 2]), (17, [r 17 1, r 17 2]), (19, [r 19 1, r 19 2])]

theorem p0_valid : p0.Valid := ⟨by decide, by decide, by decide⟩
theorem m0_wf : WF m0 := ⟨by decide, by decide, by decide⟩
theorem m0_ne : m0 ≠ [] := by decide

example : leafTable p0 m0 = [(1, 0), (7, 40), (9, 100), (13, 140), (17, 180)] := by decide
example : (build p0 0 m0).nodes.length = 3 := by decide

/-! ### the property -/

/-- `get_latest` on the file = newest header of the in-memory vector (its last element), for present and
    absent keys -/
theorem ondisk_latest_eq {H : Type} [Keyed H] (p : Params) (hv : p.Valid) (metaLen : Nat) (m : InMem H)
    (hwf : WF m) (hm : m ≠ []) (k : Nat) :
    (build p metaLen m).getLatest k = some ((m.lookup k).bind List.getLast?) :=
  build_getLatest p hv metaLen m hwf hm k

example : (build p0 0 m0).getLatest 7 = some (some (r 7 6)) := by decide
example : (build p0 0 m0).getLatest 8 = some none := by decide
example : (build p0 7 m0).getLatest 19 = some ((m0.lookup 19).bind List.getLast?) :=
  ondisk_latest_eq p0 p0_valid 7 m0 m0_wf m0_ne 19

/-- `find_by_key` on the file = the in-memory vector reversed: same headers, same order -/
theorem ondisk_all_eq {H : Type} [Keyed H] (p : Params) (hv : p.Valid) (metaLen : Nat) (m : InMem H)
    (hwf : WF m) (hm : m ≠ []) (k : Nat) :
    (build p metaLen m).findByKey k = some ((m.lookup k).map List.reverse) :=
  build_findByKey p hv metaLen m hwf hm k

example : (build p0 0 m0).findByKey 7 = some (some [r 7 6, r 7 5, r 7 4, r 7 3, r 7 2, r 7 1]) := by decide
example : (build p0 0 m0).findByKey 0 = some none := by decide

/-- `records_count()` of the file = number of headers in the map -/
theorem count_eq {H : Type} [Keyed H] (p : Params) (metaLen : Nat) (m : InMem H) :
    (build p metaLen m).count = (m.map (fun kv => kv.2.length)).sum :=
  build_count p metaLen m

example : (build p0 0 m0).count = 22 := by decide

/-- `get_records_headers` rebuilds the identical map (same keys, same vectors, same order) -/
theorem load_build {H : Type} [Keyed H] (p : Params) (metaLen : Nat) (m : InMem H) (hwf : WF m) :
    (build p metaLen m).load = some m :=
  build_load p metaLen m hwf

example : (build p0 3 m0).load = some m0 := load_build p0 3 m0 m0_wf

/-! ### supporting obligations -/

/-- every leaf starts at the first (newest) header of a key, and is labelled with that key -/
theorem leaf_starts_at_key_boundary {H : Type} [Keyed H] (p : Params) (hB : p.rhs ≤ p.B) (m : InMem H) :
    ∀ e ∈ leafTable p m, ∃ m1 k v m2, m = m1 ++ (k, v) :: m2 ∧ e = (k, (leafArray m1).length * p.rhs) :=
  leafTable_boundary p hB m

/-- min keys strictly increase; a leaf is closed only when fewer than `rhs` bytes of its first block
    remain (so every non-last leaf fills its window) -/
theorem leaf_table_increasing {H : Type} [Keyed H] (p : Params) (hB : p.rhs ≤ p.B) (m : InMem H)
    (hwf : WF m) :
    (leafTable p m).Pairwise (fun a b => a.1 < b.1 ∧ a.2 + p.B < b.2 + p.rhs) :=
  leafTable_pairwise p hB m hwf

/-- the newest header of a present key lies wholly inside the first `B` bytes of the leaf selected for
    the key (runs longer than a block, runs ending on a block boundary included) -/
theorem first_of_key_in_first_block {H : Type} [Keyed H] (p : Params) (hr : 0 < p.rhs) (hB : p.rhs ≤ p.B)
    (m1 : InMem H) (k : Nat) (v : List H) (m2 : InMem H) (hwf : WF (m1 ++ (k, v) :: m2)) :
    (sel (leafTable p (m1 ++ (k, v) :: m2)) k).2 ≤ (leafArray m1).length * p.rhs ∧
    (leafArray m1).length * p.rhs + p.rhs ≤ (sel (leafTable p (m1 ++ (k, v) :: m2)) k).2 + p.B :=
  leafTable_sel p hr hB _ hwf m1 k v m2 rfl

example : sel (leafTable p0 m0) 5 = (1, 0) ∧ (leafArray (m0.take 2)).length * p0.rhs + p0.rhs = 40 := by
  decide

/-- `read_header_buf` on the window (`len` bytes from header index `s`) of a key-sorted leaf region:
    it returns a header of `k` (and its buffer offset) if one lies in the window, and `None` only if none
    does -/
theorem binsearch_buf {H : Type} [Keyed H] (f : IndexFile H) (ok : LeafOK f) (s len : Nat)
    (w : Window f s len) (k : Nat) :
    (∃ m0 h, m0 < len / f.p.rhs ∧ f.leaves[s + m0]? = some h ∧ hkey h = k ∧
        f.readHeaderBuf (f.leavesStart + f.p.rhs * s) len k = some (some (h, f.p.rhs * m0))) ∨
    ((∀ i, i < len / f.p.rhs → keyIdx f.leaves (s + i) ≠ k) ∧
        f.readHeaderBuf (f.leavesStart + f.p.rhs * s) len k = some none) :=
  readHeaderBuf_spec f ok s len w k

/-- `get_leftmost` returns the first header of the run when the run starts inside the window -/
theorem leftmost {H : Type} [Keyed H] (f : IndexFile H) (ok : LeafOK f) (s len : Nat) (w : Window f s len)
    (k i0 i1 : Nat) (run : Run f.leaves k i0 i1) (hs : s ≤ i0) (j : Nat) (prev : H)
    (h1 : i0 ≤ s + j) (h2 : s + j < i1) (h3 : j < len / f.p.rhs) (hp : f.leaves[s + j]? = some prev) :
    f.getLeftmost (f.leavesStart + f.p.rhs * s) len k (f.p.rhs * j) prev = f.leaves[i0]? := by
  have hr := ok.rhs_pos
  unfold IndexFile.getLeftmost
  rw [if_neg (by omega), Nat.mul_div_cancel_left _ hr]
  exact getLeftmostAux_spec f ok s len w k i0 i1 run hs (j + 2) j prev h1 h2 h3 (by omega) hp

/-- `go_left` from window index `j` collects the headers of `k` between the start of the run and `j`,
    nearest first -/
theorem go_left {H : Type} [Keyed H] (f : IndexFile H) (ok : LeafOK f) (s len : Nat) (w : Window f s len)
    (k i0 i1 : Nat) (run : Run f.leaves k i0 i1) (hs : s ≤ i0) (j : Nat)
    (h1 : i0 ≤ s + j) (h2 : s + j < i1) (h3 : j < len / f.p.rhs) :
    f.goLeft (f.leavesStart + f.p.rhs * s) len k [] (f.p.rhs * j)
      = some (((f.leaves.drop i0).take (s + j - i0)).reverse) := by
  have hr := ok.rhs_pos
  unfold IndexFile.goLeft
  rw [if_neg (by omega), Nat.mul_div_cancel_left _ hr]
  simpa using goLeftAux_spec f ok s len w k i0 i1 run hs (j + 1) j [] h1 h2 h3 (Nat.le_refl _)

/-- `go_right_file` from header index `t` appends the rest of the run, nothing else -/
theorem go_right_file {H : Type} [Keyed H] (f : IndexFile H) (ok : LeafOK f) (k i0 i1 : Nat)
    (run : Run f.leaves k i0 i1) (t : Nat) (hs0 : List H) (h0 : H) (hh0 : hs0.head? = some h0)
    (hk0 : hkey h0 = k) (h1 : i0 ≤ t) (h2 : t ≤ i1) :
    f.goRightFile hs0 (f.leavesStart + f.p.rhs * t) = some (hs0 ++ (f.leaves.drop t).take (i1 - t)) :=
  goRightFile_spec f ok k i0 i1 run t hs0 h0 hh0 hk0 h1 h2

/-- `go_right` (buffer loop with the strict bound, then `go_right_file`) appends exactly the rest of the
    run: the record the strict `<` leaves out is read from the file — no loss, no duplicate -/
theorem go_right {H : Type} [Keyed H] (f : IndexFile H) (ok : LeafOK f) (s len : Nat) (w : Window f s len)
    (k i0 i1 : Nat) (run : Run f.leaves k i0 i1) (j : Nat) (hs0 : List H) (h0 : H)
    (hh0 : hs0.head? = some h0) (hk0 : hkey h0 = k) (h1 : i0 ≤ s + j) (h2 : s + j ≤ i1)
    (h3 : j ≤ len / f.p.rhs) (h4 : 1 ≤ j) :
    f.goRightAux (f.leavesStart + f.p.rhs * s) len len (len / f.p.rhs + 1) hs0 (f.p.rhs * j)
      = some (hs0 ++ (f.leaves.drop (s + j)).take (i1 - (s + j))) :=
  goRightAux_spec f ok s len w k i0 i1 run _ j hs0 h0 hh0 hk0 h1 h2 h3 (by omega)

/-- the portions of a layer are consecutive slices covering it exactly once -/
theorem portions_partition {α : Type} (mn mx : Nat) (xs : List α) : (portions mn mx xs).flatten = xs :=
  portions_flatten mn mx xs

/-- every node `build_tree` writes has between 2 and `max_amount` children (and between `min_amount` and
    `max_amount` when the layer does not fit one node) -/
theorem portion_sizes (p : Params) (h : 3 ≤ maxAmount p) (es : List Entry) (hes : 2 ≤ es.length) :
    ∀ P ∈ portions (minAmount p) (maxAmount p) es, 2 ≤ P.length ∧ P.length ≤ maxAmount p :=
  portions_sizes p h es hes

theorem portion_sizes_min (p : Params) (h : 3 ≤ maxAmount p) (es : List Entry)
    (hes : maxAmount p < es.length) :
    ∀ P ∈ portions (minAmount p) (maxAmount p) es, minAmount p ≤ P.length ∧ P.length ≤ maxAmount p := by
  obtain ⟨m1, m2, m3⟩ := minAmount_facts p h
  exact portionsAux_sizes (minAmount p) (maxAmount p) (by omega) m2 m3 es.length es (Nat.le_refl _)
    (by omega)

example : portions (minAmount p0) (maxAmount p0) (leafTable p0 m0)
    = [[(1, 0), (7, 40), (9, 100)], [(13, 140), (17, 180)]] := by decide

/-- a node with at most `max_amount` children fits one block -/
theorem node_fits_block (p : Params) (h : 3 ≤ maxAmount p) (n : Nat) (h1 : 1 ≤ n) (hn : n ≤ maxAmount p) :
    nodeSize p (n - 1) ≤ p.B :=
  nodeSize_le_B p h n h1 hn

/-- `key_offset_serialized` on the node written for a portion: the shifted offset of the last child
    whose min key is `≤ k` (the first child if there is none) -/
theorem key_offset_selects (base k : Nat) (P : List Entry) (hlen : 2 ≤ P.length)
    (hp : P.Pairwise (fun a b => a.1 < b.1)) :
    (mkNode base P).keyOffset k = some ((sel P k).2 + base) :=
  mkNode_keyOffset base k P hlen hp

/-- whole-block reads of inner nodes below the root never pass the end of the file -/
theorem inner_reads_in_file {H : Type} [Keyed H] (p : Params) (hv : p.Valid) (metaLen : Nat) (m : InMem H)
    (hwf : WF m) (h : 2 ≤ (build p metaLen m).nodes.length) :
    (build p metaLen m).leavesOffset + p.B ≤ (build p metaLen m).fileSize :=
  build_fit p metaLen m hv hwf h

/-- `find_leaf_node` ends at the leaf selected for `k`: the last leaf whose min key is `≤ k`
    (the first leaf for smaller keys); includes `layer_offsets_absolute` -/
theorem descent_finds_leaf {H : Type} [Keyed H] (p : Params) (hv : p.Valid) (metaLen : Nat) (m : InMem H)
    (hwf : WF m) (hm : m ≠ []) (k : Nat) :
    (build p metaLen m).findLeafNode k
      = some ((build p metaLen m).leavesOffset + (sel (leafTable p m) k).2) :=
  build_findLeafNode p metaLen m hv hwf hm k

example : (build p0 0 m0).findLeafNode 16 = some ((build p0 0 m0).leavesOffset + 140) := by decide

/-- one leaf: no inner node is written, `tree_offset = leaves_offset`, the descent loop does not run -/
theorem single_leaf_no_tree {H : Type} [Keyed H] (p : Params) (metaLen : Nat) (m : InMem H)
    (h : (leafTable p m).length ≤ 1) (k : Nat) :
    (build p metaLen m).nodes = [] ∧ (build p metaLen m).leavesOffset = (build p metaLen m).treeOffset ∧
    (build p metaLen m).findLeafNode k = some (build p metaLen m).treeOffset := by
  have hn : (build p metaLen m).nodes = [] := buildTree_small _ _ _ _ h
  have hl : (build p metaLen m).leavesOffset = (build p metaLen m).treeOffset := by
    rw [build_leavesOffset', hn]; rfl
  refine ⟨hn, hl, ?_⟩
  unfold IndexFile.findLeafNode
  simp only [IndexFile.findLeafNodeAux, hn, List.length_nil]
  rw [if_neg (by rw [hl]; omega)]

example : (leafTable p0 (m0.take 3)).length = 1 ∧ (build p0 0 (m0.take 3)).getLatest 5 = some (some (r 5 1)) := by
  decide

/-- the real parameters are valid for key lengths up to 2032 -/
theorem valid_real (K : Nat) (h : K ≤ 2032) : (Params.real K).Valid := BPTree.valid_real K h


/-! ### consequence for the index API (`IndexStruct::get_latest`, `get_all_with_deletion_marker`) -/

/-- the common tail of `IndexStruct::get_latest`: classification of the header found -/
def classify : Option Rec → ReadResult Rec
  | some h => if h.del then .deleted h.ts else .found h
  | none => .notFound

/-- `ondisk_eq_inmem`: whichever arm of `match &self.inner` is taken (`InMemory` / `OnDisk`), the index
    answers the same `ReadResult` and the same cut list, for every key -/
theorem ondisk_eq_inmem (p : Params) (hv : p.Valid) (metaLen : Nat) (m : InMem Rec) (hwf : WF m)
    (hm : m ≠ []) (k : Nat) :
    ((build p metaLen m).getLatest k).map classify = some (latestOfVec ((m.lookup k).getD [])) ∧
    ((build p metaLen m).findByKey k).map (fun o => cutHdrs (o.getD []))
      = some (allCutOfVec ((m.lookup k).getD [])) := by
  rw [ondisk_latest_eq p hv metaLen m hwf hm k, ondisk_all_eq p hv metaLen m hwf hm k]
  cases m.lookup k with
  | none => exact ⟨rfl, rfl⟩
  | some v =>
    refine ⟨?_, rfl⟩
    simp only [Option.map_some, Option.bind_some, Option.getD_some, latestOfVec, classify]
    cases v.getLast? <;> rfl

example : ((build p0 0 m0).getLatest 7).map classify = some (.found (r 7 6)) := by decide

/-! ### byte level -/

/-- the byte string produced for a real-parameter index has exactly the length the offset arithmetic
    assumes (so the tree starts at `tree_offset` and the headers at `leaves_offset`); the byte serializer
    itself is compared with real `.index` files by `Pearl/Model/BPTreeFileCheck.lean` -/
theorem bytes_length (K : Nat) (hK : K ≤ 2032) (m : InMem RawHeader) (metaBuf hash : List Nat)
    (blobSize : Nat) (hhash : hash.length = 32) :
    (indexFileBytes (build (Params.real K) metaBuf.length m) metaBuf hash blobSize).length
      = (build (Params.real K) metaBuf.length m).fileSize :=
  build_bytes_length K hK m metaBuf hash blobSize hhash

example : (build (Params.real 1) 0 [(7, [(⟨7, 0, 3, 0, 40, 5, 1, 2⟩ : RawHeader)])]).fileSize = 99 + 58 := by
  decide
example : (indexFileBytes (build (Params.real 1) 0 [(7, [(⟨7, 0, 3, 0, 40, 5, 1, 2⟩ : RawHeader)])]) []
    (List.replicate 32 0) 100).length = 99 + 58 :=
  bytes_length 1 (by decide) _ [] _ 100 (by decide)

/-! ### the hypotheses are needed -/

/-- **fan-out 2** (`K::LEN ≥ 2033`): `min_amount = 1`, a node with one child and no key is written;
    `binary_search_serialized` computes `0usize - 1` on it.  Witness with the real parameters for
    `K = 2033`: three keys with one header each (one header per block, three leaves); looking up the
    third key reaches the key-less node: a panic in a debug build (`none` here). -/
theorem fanout2_keyless_node :
    maxAmount (Params.real 2033) = 2 ∧
    (build (Params.real 2033) 0 [(1, [r 1 1]), (2, [r 2 1]), (3, [r 3 1])]).nodes.map (·.keys.length) = [1, 1, 0] ∧
    (build (Params.real 2033) 0 [(1, [r 1 1]), (2, [r 2 1]), (3, [r 3 1])]).getLatest 3 = none := by
  decide

/-- **`rhs > B`** (`K::LEN > 4039`): `read_header_buf` searches `⌊B / rhs⌋ = 0` headers; a stored key is
    reported absent (and the first leaf is entered twice in the leaf table). -/
theorem rhs_gt_block_misses :
    leafTable (Params.real 4040) [(1, [r 1 1])] = [(1, 0), (1, 0)] ∧
    (build (Params.real 4040) 0 [(1, [r 1 1])]).getLatest 1 = some none := by
  decide

end Pearl.C09
