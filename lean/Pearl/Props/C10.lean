import Pearl.Proofs.FilterLemmas
import Pearl.Proofs.ContainerLemmas
import Pearl.Proofs.ContainerStack
/-
C10 — "Filters never give a false negative, in memory, on file, merged or off-loaded".

Everything is stated for an ARBITRARY hash family `h : Nat → Key → Nat` (hasher index → key → hash); the
real family is `AHash.family keyLen` (`Pearl/Model/AHash.lean`, checked against the vectors pinned in the
Rust suite in `Pearl/Model/FilterTests.lean`).

Well-formedness side conditions (`Bloom.WF`, `Range.WF`, `Combined.WF`) hold for every value built by the
constructors and are kept by every operation (`wf_*` theorems below); they exclude only values decoded from
a corrupt file.
-/
namespace Pearl.C10
open Pearl

/-! ## Bloom -/

/-- after `add key`, the in-memory check never answers `NotContains` for `key` -/
theorem bloom_add_contains (h : Nat → Key → Nat) (b : Bloom) (key : Key) (hb : b.WF) :
    (b.add h key).containsMem h key ≠ some .notContains :=
  Bloom.add_contains h b key hb

/-- adding a key never clears an earlier one -/
theorem bloom_mono (h : Nat → Key → Nat) (b : Bloom) (x y : Key)
    (hx : b.containsMem h x ≠ some .notContains) : (b.add h y).containsMem h x ≠ some .notContains :=
  Bloom.add_mono h b x y hx

/-- a successful `checked_add_assign` contains every key of both operands -/
theorem bloom_merge_sup (h : Nat → Key → Nat) (b o c : Bloom) (x : Key) (hb : b.WF) (ho : o.WF)
    (hm : b.merge o = (c, true))
    (hx : b.containsMem h x ≠ some .notContains ∨ o.containsMem h x ≠ some .notContains) :
    c.containsMem h x ≠ some .notContains :=
  Bloom.merge_sup h b o c x hb ho hm hx

/-- a merge is attempted only between resident vectors with equal hasher counts and equal bit lengths
    (the configs themselves are not compared), and is the word-wise or -/
theorem bloom_merge_only_if_compatible (b o c : Bloom) (hm : b.merge o = (c, true)) :
    ∃ v w r, b.inner = some v ∧ o.inner = some w ∧ b.k = o.k ∧ v.bits = w.bits ∧ v.orWith w = some r ∧
      c = { b with inner := some r } :=
  Bloom.merge_ok b o c hm

/-- zero sizes: with no bits (`Bloom::empty()`, `hashers_count = 0` in the config) or no hashers the filter
    answers `NeedAdditionalCheck` to every question, fast or full -/
theorem bloom_zero_sizes (h : Nat → Key → Nat) (b : Bloom) (key : Key) (readByte : Nat → Option Nat)
    (hb : b.WF) (hz : b.bits = 0 ∨ b.k = 0) :
    b.containsFast h key = .needAdditionalCheck ∧ b.contains h readByte key = .needAdditionalCheck := by
  rcases hz with hz | hz
  · have hmem : b.containsMem h key = none := by
      unfold Bloom.containsMem
      cases hi : b.inner with
      | none => rfl
      | some v =>
        have : v.bits = 0 := by rw [(hb.1 v hi).2]; exact hz
        simp [this]
    have hfile : b.containsFile h readByte key = .needAdditionalCheck := by
      simp [Bloom.containsFile, hz]
    exact ⟨by simp [Bloom.containsFast, hmem, default], by simp [Bloom.contains, hmem, hfile]⟩
  · have hpos : ∀ len, Bloom.positions h b.k len key = [] := by intro len; simp [Bloom.positions, hz]
    have hfile : b.containsFile h readByte key = .needAdditionalCheck := by
      unfold Bloom.containsFile; split
      · rfl
      · rw [hpos]; rfl
    have hmem : b.containsMem h key = none ∨ b.containsMem h key = some .needAdditionalCheck := by
      unfold Bloom.containsMem
      cases b.inner with
      | none => left; rfl
      | some v =>
        simp only [hpos, List.all_nil, if_true]
        split
        · left; rfl
        · right; rfl
    rcases hmem with hm | hm
    · exact ⟨by simp [Bloom.containsFast, hm, default], by simp [Bloom.contains, hm, hfile]⟩
    · exact ⟨by simp [Bloom.containsFast, hm], by simp [Bloom.contains, hm]⟩

/-- the constructors give well-formed filters and every operation keeps them so -/
theorem wf_bloom (h : Nat → Key → Nat) (cfg : BloomConfig) (bits : Nat) (b o : Bloom) (key : Key) (hb : b.WF)
    (ho : o.WF) :
    (Bloom.new cfg bits).WF ∧ Bloom.empty.WF ∧ (b.add h key).WF ∧ (b.merge o).1.WF ∧ b.clear.WF ∧
      b.offload.1.WF :=
  ⟨Bloom.new_WF cfg bits, Bloom.empty_WF, Bloom.add_WF h b key hb,
    Bloom.merge_WF b o _ _ hb ho rfl, Bloom.clear_WF b hb, Bloom.offload_WF b hb⟩

/-! ## the bloom buffer on file -/

/-- the bit the file probe tests — byte `i >> 3` of the little-endian image of the words (bincode: each `u64`
    little-endian), mask `1u8 << (i % 8)` — is the bit the in-memory test reads — word `i / 64`, mask
    `1u64 << (i % 64)`; for all word lists and all `i`, in particular for bit counts that are not a multiple
    of 64 -/
theorem file_probe_eq_mem (words : List Nat) (i : Nat) :
    getBitU8 ((wordsBytes words).getD (offsetAndMaskU8 i).1 0) (offsetAndMaskU8 i).2
      = (ABV.mk words (64 * words.length)).get i := by
  simp only [offsetAndMaskU8, ABV.get, ABV.offsetAndMask]
  exact file_probe_bit words i

/-- hence: probing the saved image gives the answer of the resident vector -/
theorem containsFile_eq_containsMem (h : Nat → Key → Nat) (b : Bloom) (v : ABV) (key : Key) (hb : b.WF)
    (hi : b.inner = some v) (readByte : Nat → Option Nat)
    (hread : ∀ p, p < 8 * v.toRawVec.length →
      readByte (b.bufferStartPosition + p) = (wordsBytes v.toRawVec)[p]?) :
    b.containsFile h readByte key = (b.containsMem h key).getD default :=
  Bloom.containsFile_eq_containsFast h b v key hb hi readByte hread

/-- `Bloom::from(save())` gives the filter back -/
theorem save_roundtrip (b : Bloom) (sv : Save) (hb : b.WF) (hs : b.save = some sv) :
    Bloom.fromSave sv = some b :=
  Bloom.fromSave_save b sv hb hs

/-- `from_raw(to_raw())` gives the filter back, byte level (trailing bytes are ignored) -/
theorem raw_roundtrip (b : Bloom) (bs trailing : List Nat) (hb : b.WF) (hbd : b.Bounded)
    (hs : b.toRaw = some bs) : Bloom.fromRaw (bs ++ trailing) = some b :=
  Bloom.fromRaw_toRaw b bs trailing hb hs hbd.1 hbd.2

/-- `deserialize_filters(serialize_filters())` gives bloom, range and `bloom_offset` back -/
theorem filters_roundtrip (keyLen : Nat) (c : Combined) (metaBuf : List Nat) (off : Nat) (hc : c.WF)
    (hsz : FBlob.Sized keyLen c) (hs : serializeFilters keyLen c = some (metaBuf, off)) :
    deserializeFilters metaBuf = some (c.bloom.getD Bloom.empty, c.range, off) :=
  deserialize_serialize keyLen c metaBuf off hc hsz.1 hsz.2.1 hsz.2.2.1 hsz.2.2.2 hs

/-- layout: `Save { config, buf, bits_count }` serialises `config` as five 8-byte fields, then the `u64`
    length of `buf`, so the words start at `buffer_start_position = 40 + 8 = 48`; in the index meta buffer
    (`u64 range_len | range_buf | bloom_buf`) the bloom image starts at `bloom_offset = 8 + |range_buf|`.
    `read_byte(48 + p) = meta[8 + |range_buf| + 48 + p]` is byte `p` of the words. -/
theorem bloom_offset_correct (keyLen : Nat) (c : Combined) (b : Bloom) (v : ABV) (metaBuf : List Nat) (off : Nat)
    (hc : c.bloom = some b) (hi : b.inner = some v) (hs : serializeFilters keyLen c = some (metaBuf, off)) :
    b.bufferStartPosition = 48 ∧ off = 8 + (c.range.toRaw keyLen).length ∧
    metaBuf.drop (off + b.bufferStartPosition) = wordsBytes v.toRawVec ++ fle64 v.bits ∧
    ∀ p, p < 8 * v.toRawVec.length →
      metaReadByte metaBuf off (b.bufferStartPosition + p) = (wordsBytes v.toRawVec)[p]? :=
  ⟨rfl, (serializeFilters_drop keyLen c b v metaBuf off hc hi hs).1,
    (serializeFilters_drop keyLen c b v metaBuf off hc hi hs).2,
    fun p hp => metaReadByte_serializeFilters keyLen c b v metaBuf off hc hi hs p hp⟩

/-! ## Range -/

/-- an added key is in the range, and adding keeps earlier keys in -/
theorem range_no_fn (r : Range) (k x : Key) (hr : r.WF) :
    (r.add k).contains k = true ∧ (r.contains x = true → (r.add k).contains x = true) ∧ (r.add k).WF :=
  ⟨Range.add_contains r k hr, Range.add_mono r k x, Range.add_WF r k hr⟩

/-- merge: the result contains both operands; for two initialised ranges it is exactly the hull -/
theorem range_merge_hull (r o : Range) (x : Key) :
    (r.merge o).2 = true ∧
    (r.contains x = true ∨ o.contains x = true → (r.merge o).1.contains x = true) ∧
    (r.init = true → o.init = true →
      (r.merge o).1.init = true ∧ (r.merge o).1.min = Nat.min r.min o.min ∧
        (r.merge o).1.max = Nat.max r.max o.max) :=
  ⟨rfl, Range.mergeWith_sup r o x, Range.mergeWith_hull r o⟩

/-- `to_raw` / `from_raw` of the range filter -/
theorem range_roundtrip (keyLen : Nat) (r : Range) (trailing : List Nat) (hk : keyLen < 2 ^ 64)
    (hmin : r.min < 256 ^ keyLen) (hmax : r.max < 256 ^ keyLen) :
    Range.fromRaw (r.toRaw keyLen ++ trailing) = some r :=
  Range.fromRaw_toRaw keyLen r trailing hk hmin hmax

/-! ## Combined -/

/-- the combined filter: an added key is never excluded, earlier keys stay, a successful merge covers both
    operands, off-loading only widens, and the full check of the off-loaded filter against the dumped file
    equals the fast check of the resident one -/
theorem combined_no_fn (h : Nat → Key → Nat) (c o r : Combined) (k x : Key) (hc : c.WF) (ho : o.WF) :
    (c.add h k).containsFast h k ≠ .notContains ∧
    (c.containsFast h x ≠ .notContains → (c.add h k).containsFast h x ≠ .notContains) ∧
    (c.merge o = (r, true) → c.containsFast h x ≠ .notContains ∨ o.containsFast h x ≠ .notContains →
      r.containsFast h x ≠ .notContains) ∧
    (c.containsFast h x ≠ .notContains → c.offload.1.containsFast h x ≠ .notContains) ∧
    (∀ keyLen metaBuf off, serializeFilters keyLen c = some (metaBuf, off) →
      c.offload.1.contains h (metaReadByte metaBuf off) x = c.containsFast h x) :=
  ⟨Combined.add_contains h c k hc, Combined.add_mono h c k x,
    fun hm hx => Combined.merge_sup h c o r x hc ho hm hx, Combined.offload_containsFast h c x,
    fun keyLen metaBuf off hs => Combined.contains_offload_eq h keyLen c metaBuf off hc hs x⟩

theorem wf_combined (h : Nat → Key → Nat) (c o : Combined) (k : Key) (hc : c.WF) (ho : o.WF) :
    (c.add h k).WF ∧ (c.merge o).1.WF ∧ c.offload.1.WF :=
  ⟨Combined.add_WF h c k hc, Combined.merge_WF c o _ _ hc ho rfl, Combined.offload_WF c hc⟩

/-! ## the container

`Container.Inv ops ok c g` (`Pearl/Proofs/ContainerLemmas.lean`) is the invariant over the arena exactly as
stored; `g[j]` is the filter child `j` had when it was pushed (`none` = the child had no filter).  It says:
the arena is either flat (root → leaves, fewer than `group_size` slots) or two-level (root → groups → leaves,
group ids distinct, leaves in slot order), every `some` filter is valid, and every node filter covers `g[j]`
for every leaf `j` below the node — slots emptied by `pop` included.  `node_filter_sup` is its arena-level
reading. -/

section container
variable {F C : Type} {ops : FilterOps F} {ok : F → Prop}

theorem node_filter_sup_new (g l : Nat) (hg : 0 < g) :
    Container.Inv ops ok (Container.new g l : Container F C) [] :=
  Container.new_inv ops ok g l hg

/-- `push`, all three cases (root fill, root promotion when `children.len()` reaches `group_size`, last group /
    new group) -/
theorem node_filter_sup_push (laws : FilterLaws ops ok) (cops : ChildOps F C) (c : Container F C)
    (g : List (Option F)) (child : C) (hinv : Container.Inv ops ok c g) (hitem : okOpt ok (cops.filterOf child)) :
    Container.Inv ops ok (Container.push ops cops c child).1 (g ++ [cops.filterOf child]) :=
  Container.push_inv laws cops c g child hinv hitem

/-- `pop` / `remove` only empty a slot: the ghost list, hence every node's obligation, is unchanged -/
theorem node_filter_sup_pop (c : Container F C) (g : List (Option F)) (id : Nat) (hinv : Container.Inv ops ok c g) :
    Container.Inv ops ok c.pop.1 g ∧ Container.Inv ops ok (c.remove id).1 g :=
  ⟨hinv.refine (Container.pop_refines ops ok c), hinv.refine (Container.remove_refines ops ok c id)⟩

/-- re-`push` of a restored blob (`pop`, then `push` of the popped child, possibly with more keys) -/
theorem node_filter_sup_repush (laws : FilterLaws ops ok) (cops : ChildOps F C) (c : Container F C)
    (g : List (Option F)) (child : C) (hinv : Container.Inv ops ok c g) (hitem : okOpt ok (cops.filterOf child)) :
    Container.Inv ops ok (Container.push ops cops c.pop.1 child).1 (g ++ [cops.filterOf child]) :=
  Container.push_inv laws cops c.pop.1 g child (hinv.refine (Container.pop_refines ops ok c)) hitem

/-- `offload_buffer(needed, level)` -/
theorem node_filter_sup_offload (laws : FilterLaws ops ok) (cops : ChildOps F C) (c : Container F C)
    (g : List (Option F)) (needed level : Nat) (hinv : Container.Inv ops ok c g) :
    Container.Inv ops ok (Container.offload ops cops c needed level).1 g :=
  hinv.refine (Container.offload_refines laws cops c needed level)

/-- under the invariant `push` does not panic; with `group_size = 0` the very first `push` does
    (`last_inner_node().unwrap()` on the empty root) -/
theorem push_total (c : Container F C) (g : List (Option F)) (hinv : Container.Inv ops ok c g) (l : Nat) :
    c.pushPanics = false ∧ (Container.new 0 l : Container F C).pushPanics = true :=
  ⟨Container.pushPanics_false c g hinv, rfl⟩

/-- arena-level reading: every node of the arena that carries a filter covers the push-time filter of every
    leaf below it (walk of the `children` lists), present or removed -/
theorem node_filter_sup (c : Container F C) (g : List (Option F)) (hinv : Container.Inv ops ok c g)
    (id : Nat) (nd : FNode F) (f : F) (hn : c.getInner id = some (.node nd)) (hf : nd.filter = some f)
    (j : Nat) (hj : j ∈ Container.leavesBelow c (c.inner.length + 2) id) (k : Key)
    (hk : ops.coversOpt (g.getD j none) k) : ops.covers f k := by
  have := Container.node_filter_sup_arena c g hinv id nd hn j hj k hk
  rw [hf] at this; exact this

/-- the leaves below the root are all slots, in order -/
theorem root_leaves (c : Container F C) (g : List (Option F)) (hinv : Container.Inv ops ok c g) (k : Key) :
    (Container.iterPossible ops c false k).Sublist (List.range c.children.length) :=
  (Container.iterPossible_spec c g k hinv).2.1

/-- `iter_possible_childs_rev(k)` yields, in reverse slot order, present children only, and among them every
    child whose push-time filter covers `k` (the root's own filter is not consulted) -/
theorem possible_rev_complete (c : Container F C) (g : List (Option F)) (k : Key)
    (hinv : Container.Inv ops ok c g) :
    (Container.iterPossible ops c true k).Sublist (List.range c.children.length).reverse ∧
    (Container.iterPossible ops c true k) = (Container.iterPossible ops c false k).reverse ∧
    (∀ j ∈ Container.iterPossible ops c true k, (c.getChild j).isSome) ∧
    (∀ j lf, c.getChild j = some lf → ops.coversOpt (g.getD j none) k →
      j ∈ Container.iterPossible ops c true k) := by
  obtain ⟨hrev, hsub, hpres, hcomp⟩ := Container.iterPossible_spec c g k hinv
  refine ⟨by rw [hrev]; exact List.reverse_sublist.mpr hsub, hrev, ?_, ?_⟩
  · intro j hj
    rw [hrev] at hj
    exact hpres j (List.mem_reverse.mp hj)
  · intro j lf hj hc
    rw [hrev, List.mem_reverse]
    have hjlt : j < c.children.length := by
      unfold Container.getChild at hj
      cases hh : c.children[j]? with
      | none => rw [hh] at hj; cases hj
      | some o => exact (List.getElem?_eq_some_iff.mp hh).1
    exact hcomp j hjlt (by simp [Container.present, hj]) hc

end container

/-! ## composition: storage level -/

/-- `CombinedFilter` satisfies the laws the container needs -/
theorem combined_laws (h : Nat → Key → Nat) : FilterLaws (combinedOps h) Combined.WF := combinedLaws h

/-- blob level: `IndexStruct::push` adds the key to the filter, `dump` writes it, `offload` drops the buffer,
    `load` reads it back — the invariant `FBlob.Inv` (filter, or file image, covers every key of the index)
    is kept -/
theorem blob_filter_inv (h : Nat → Key → Nat) (keyLen : Nat) (b b' : FBlob) (k : Key) (on : Bool)
    (hb : b.Inv h keyLen) :
    (b.push h k = some b' → b'.Inv h keyLen) ∧ (b.dump keyLen = some b' → b'.Inv h keyLen) ∧
    b.offload.1.Inv h keyLen ∧ (FBlob.Sized keyLen b.filter → b.load on = some b' → b'.Inv h keyLen) :=
  ⟨FBlob.push_Inv k hb, FBlob.dump_Inv hb, FBlob.offload_Inv hb, FBlob.load_Inv on hb⟩

/-- a blob never answers `NotContains` for a key of its index (in-memory index: key presence; on-disk index:
    filters, the off-loaded bloom being probed in the file), and the filter it hands to the container covers
    the key -/
theorem blob_check_filter_no_fn (h : Nat → Key → Nat) (keyLen : Nat) (b : FBlob) (k : Key) (hb : b.Inv h keyLen)
    (hk : k ∈ b.keys) :
    b.checkFilter h k ≠ .notContains ∧ b.checkFilterFast h k ≠ .notContains ∧
    (combinedOps h).coversOpt ((blobOps h).filterOf b) k ∧ okOpt Combined.WF ((blobOps h).filterOf b) :=
  ⟨FBlob.checkFilter_no_fn hb k hk, FBlob.checkFilterFast_no_fn hb k hk, FBlob.filter_covers hb k hk,
    fun f hf => by cases hf; exact FBlob.filter_WF hb⟩

/-- A closed blob that holds `k` is never pruned: this is the hypothesis `prune b k = true → k ∉ keys b` of
    `prune_transparent` (C01).
    `keysAtPush j` are the keys blob `j` had when it was pushed into the container (so its push-time filter
    `g[j]` covers them, `hpush`, by `blob_check_filter_no_fn`); keys that appear in a closed blob afterwards
    are delete markers, which `delete_in_closed` pushes only into blobs where the key is live — the explicit
    hypothesis `delete_adds_no_new_key`. -/
theorem check_filter_no_fn (h : Nat → Key → Nat) (keyLen : Nat) (c : Container Combined FBlob)
    (g : List (Option Combined)) (keysAtPush : Nat → List Key)
    (hinv : Container.Inv (combinedOps h) Combined.WF c g)
    (hpush : ∀ j k, k ∈ keysAtPush j → (combinedOps h).coversOpt (g.getD j none) k)
    (delete_adds_no_new_key : ∀ j lf, c.getChild j = some lf → ∀ k ∈ lf.data.keys, k ∈ keysAtPush j)
    (hblob : ∀ j lf, c.getChild j = some lf → lf.data.Inv h keyLen)
    (j : Nat) (lf : FLeaf FBlob) (hj : c.getChild j = some lf) (k : Key) :
    storagePrunes h c j k = true → k ∉ lf.data.keys := by
  intro hp hk
  have hcov := hpush j k (delete_adds_no_new_key j lf hj k hk)
  have hmem := (possible_rev_complete c g k hinv).2.2.2 j lf hj hcov
  have hchk := FBlob.checkFilter_no_fn (hblob j lf hj) k hk
  simp only [storagePrunes, hj, Bool.or_eq_true, Bool.not_eq_true', beq_iff_eq] at hp
  rcases hp with hp | hp
  · have : (Container.iterPossible (combinedOps h) c true k).contains j = true := by simpa using hmem
    rw [this] at hp; cases hp
  · exact hchk hp

/-- the container's `BloomProvider::check_filter` (used by `Storage::check_filter`) does not answer
    `NotContains` either -/
theorem container_check_filter_no_fn (h : Nat → Key → Nat) (keyLen : Nat) (c : Container Combined FBlob)
    (g : List (Option Combined)) (keysAtPush : Nat → List Key)
    (hinv : Container.Inv (combinedOps h) Combined.WF c g)
    (hpush : ∀ j k, k ∈ keysAtPush j → (combinedOps h).coversOpt (g.getD j none) k)
    (delete_adds_no_new_key : ∀ j lf, c.getChild j = some lf → ∀ k ∈ lf.data.keys, k ∈ keysAtPush j)
    (hblob : ∀ j lf, c.getChild j = some lf → lf.data.Inv h keyLen)
    (j : Nat) (lf : FLeaf FBlob) (hj : c.getChild j = some lf) (k : Key) (hk : k ∈ lf.data.keys) :
    Container.checkFilter (combinedOps h) (blobOps h) c k ≠ .notContains ∧
    Container.checkFilterFast (combinedOps h) c k ≠ .notContains := by
  have hcov := hpush j k (delete_adds_no_new_key j lf hj k hk)
  refine ⟨Container.checkFilter_no_fn (blobOps h) c g k hinv j lf hj hcov
    (FBlob.checkFilter_no_fn (hblob j lf hj) k hk), ?_⟩
  have hmem := (possible_rev_complete c g k hinv).2.2.2 j lf hj hcov
  rw [(possible_rev_complete c g k hinv).2.1, List.mem_reverse] at hmem
  unfold Container.checkFilterFast
  cases hl : Container.iterPossible (combinedOps h) c false k with
  | nil => rw [hl] at hmem; cases hmem
  | cons a l => simp

/-! ## non-vacuity -/

-- the hypotheses are satisfiable and the filters do exclude keys
example : (Bloom.new toyCfg 100).WF := Bloom.new_WF _ _
example : ((Bloom.new toyCfg 100).add toy 3).containsMem toy 3 = some .needAdditionalCheck := by decide
example : ((Bloom.new toyCfg 100).add toy 3).containsMem toy 4 = some .notContains := by decide
/-- the side condition of `range_no_fn` is needed: a range decoded with `min > max` can lose an added key -/
example : ((Range.mk 5 3 true).add 4).contains 4 = false := by decide
example : ((Range.new.add 5).add 9).contains 7 = true ∧ ((Range.new.add 5).add 9).contains 10 = false := by decide
example : (({ bloom := some (Bloom.new toyCfg 100), range := Range.new } : Combined).add toy 3).containsFast toy 4
    = .notContains := by decide

/-- the container invariant is inhabited by every container built by `new` + `push` of blobs -/
example (g : Nat) (hg : 0 < g) (bs : List (List Key)) :
    ∃ gl, Container.Inv (combinedOps toy) Combined.WF
      (Container.extend (combinedOps toy) (blobOps toy) (Container.new g 1) (bs.map toyBlob)) gl := by
  have : ∀ (xs : List FBlob), (∀ x ∈ xs, x.Inv toy 1) → ∀ (c : Container Combined FBlob) (gl : List (Option Combined)),
      Container.Inv (combinedOps toy) Combined.WF c gl →
      ∃ gl', Container.Inv (combinedOps toy) Combined.WF (Container.extend (combinedOps toy) (blobOps toy) c xs) gl' := by
    intro xs
    induction xs with
    | nil => intro _ c gl h; exact ⟨gl, h⟩
    | cons x xs ih =>
      intro hx c gl h
      simp only [Container.extend, List.foldl_cons]
      exact ih (fun y hy => hx y (List.mem_cons_of_mem _ hy)) _ _
        (node_filter_sup_push (combined_laws toy) (blobOps toy) c gl x h
          (fun f hf => by cases hf; exact FBlob.filter_WF (hx x (List.mem_cons_self ..))))
  exact this _ (by intro x hx; obtain ⟨ks, _, rfl⟩ := List.mem_map.mp hx; exact toyBlob_inv ks) _ []
    (node_filter_sup_new g 1 hg)

-- pruning does happen (so `check_filter_no_fn` is not about a predicate that is constantly `false`):
-- two groups of two blobs; key 40 lives in slot 3 only; the first group is skipped, slot 2 is visited
-- (leaf filters are not consulted by the iterator) and then rejected by its own `check_filter`
example :
    let c := Container.extend (combinedOps toy) (blobOps toy) (Container.new 2 1 : Container Combined FBlob)
      [toyBlob [1], toyBlob [2], toyBlob [30], toyBlob [40]]
    Container.iterPossible (combinedOps toy) c true 40 = [3, 2] ∧
    storagePrunes toy c 0 40 = true ∧ storagePrunes toy c 2 40 = true ∧ storagePrunes toy c 3 40 = false := by
  decide

/-! ## the iterator as written: the stack machine of `PossibleRevIter::next`

`Container.iterNext` is the literal transcription of `PossibleRevIter::next` (explicit stack of `(index, entry)`
pairs); `Container.iterPossibleStack` runs it to exhaustion.  The theorems above are stated on the recursive
reading `Container.iterPossible`; under the container invariant the two coincide, fuels included, so all of them
hold of the code as written. -/

section stack
variable {F C : Type} {ops : FilterOps F} {ok : F → Prop}

/-- for every container satisfying the invariant (hence every container built by `new` / `push` / `pop` /
    `remove` / `offload_buffer`, see `node_filter_sup_*`), for both directions and every key: the stack machine
    yields exactly what the recursive reading yields.  The fuels are part of the statement: `4 * (inner.len() + 2)`
    loop iterations per `next` (a whole traversal needs at most `2·groups + 2·leaves + 2 ≤ 4·inner.len() + 2`),
    `children.len() + 1` calls of `next`, depth `inner.len() + 2` for the recursion. -/
theorem iterPossibleStack_eq (c : Container F C) (g : List (Option F)) (hinv : Container.Inv ops ok c g)
    (rev : Bool) (k : Key) :
    Container.iterPossibleStack ops c rev k = Container.iterPossible ops c rev k :=
  Container.iterPossibleStack_eq_of_inv c g hinv rev k

/-- the shape-independent core: on ANY arena (any depth) on which the recursive reading unfolds with fuel `D` at
    every node and `cost` bounds the loop iterations below an entry (`Container.WalkOK`), a single `next()` with
    fuel above the cost of the stack returns `None` only when nothing is left, and otherwise the head of what
    is left, with a stack denoting the tail (never costlier) -/
theorem next_spec (c : Container F C) (rev : Bool) (k : Key) (D : Nat) (cost : Nat → Nat)
    (hw : Container.WalkOK ops c rev k D cost) (fuel : Nat) (st : List (Nat × Nat)) (hst : Container.StackOK c st)
    (hfuel : Container.stackCost c rev cost st < fuel) :
    (Container.iterNext ops c rev k fuel st = none → Container.stackOut ops c rev k D st = []) ∧
    (∀ j st', Container.iterNext ops c rev k fuel st = some (j, st') →
      Container.stackOut ops c rev k D st = j :: Container.stackOut ops c rev k D st' ∧ Container.StackOK c st' ∧
        Container.stackCost c rev cost st' ≤ Container.stackCost c rev cost st) :=
  Container.iterNext_spec hw fuel st hst hfuel

/-- `root_leaves` for the stack machine -/
theorem root_leaves_stack (c : Container F C) (g : List (Option F)) (hinv : Container.Inv ops ok c g) (k : Key) :
    (Container.iterPossibleStack ops c false k).Sublist (List.range c.children.length) := by
  rw [iterPossibleStack_eq c g hinv]; exact root_leaves c g hinv k

/-- `possible_rev_complete` for the stack machine: `iter_possible_childs_rev(k)` as written yields, in reverse slot
    order, present children only, and among them every child whose push-time filter covers `k` -/
theorem possible_rev_complete_stack (c : Container F C) (g : List (Option F)) (k : Key)
    (hinv : Container.Inv ops ok c g) :
    (Container.iterPossibleStack ops c true k).Sublist (List.range c.children.length).reverse ∧
    (Container.iterPossibleStack ops c true k) = (Container.iterPossibleStack ops c false k).reverse ∧
    (∀ j ∈ Container.iterPossibleStack ops c true k, (c.getChild j).isSome) ∧
    (∀ j lf, c.getChild j = some lf → ops.coversOpt (g.getD j none) k →
      j ∈ Container.iterPossibleStack ops c true k) := by
  rw [iterPossibleStack_eq c g hinv true k, iterPossibleStack_eq c g hinv false k]
  exact possible_rev_complete c g k hinv

/-- `extend` / `from_vec` keeps the invariant -/
theorem node_filter_sup_extend (laws : FilterLaws ops ok) (cops : ChildOps F C) (xs : List C) :
    ∀ (c : Container F C) (g : List (Option F)), Container.Inv ops ok c g →
      (∀ x ∈ xs, okOpt ok (cops.filterOf x)) →
      Container.Inv ops ok (Container.extend ops cops c xs) (g ++ xs.map cops.filterOf) := by
  induction xs with
  | nil => intro c g h _; simpa [Container.extend] using h
  | cons x xs ih =>
    intro c g h hx
    have := ih _ _ (node_filter_sup_push laws cops c g x h (hx x (List.mem_cons_self ..)))
      (fun y hy => hx y (List.mem_cons_of_mem _ hy))
    simpa [Container.extend] using this

end stack

/-- `check_filter_no_fn` for the code as written: `storagePrunesStack` is `storagePrunes` with
    `iter_possible_childs_rev` read through the stack machine -/
theorem check_filter_no_fn_stack (h : Nat → Key → Nat) (keyLen : Nat) (c : Container Combined FBlob)
    (g : List (Option Combined)) (keysAtPush : Nat → List Key)
    (hinv : Container.Inv (combinedOps h) Combined.WF c g)
    (hpush : ∀ j k, k ∈ keysAtPush j → (combinedOps h).coversOpt (g.getD j none) k)
    (delete_adds_no_new_key : ∀ j lf, c.getChild j = some lf → ∀ k ∈ lf.data.keys, k ∈ keysAtPush j)
    (hblob : ∀ j lf, c.getChild j = some lf → lf.data.Inv h keyLen)
    (j : Nat) (lf : FLeaf FBlob) (hj : c.getChild j = some lf) (k : Key) :
    storagePrunesStack h c j k = true → k ∉ lf.data.keys := by
  rw [storagePrunesStack_eq h c g hinv]
  exact check_filter_no_fn h keyLen c g keysAtPush hinv hpush delete_adds_no_new_key hblob j lf hj k

/-- `container_check_filter_no_fn` for the code as written: `check_filter` collects the stack machine,
    `check_filter_fast` is `iter_possible_childs(item).next().is_some()` (one `next` on the initial stack) -/
theorem container_check_filter_no_fn_stack (h : Nat → Key → Nat) (keyLen : Nat) (c : Container Combined FBlob)
    (g : List (Option Combined)) (keysAtPush : Nat → List Key)
    (hinv : Container.Inv (combinedOps h) Combined.WF c g)
    (hpush : ∀ j k, k ∈ keysAtPush j → (combinedOps h).coversOpt (g.getD j none) k)
    (delete_adds_no_new_key : ∀ j lf, c.getChild j = some lf → ∀ k ∈ lf.data.keys, k ∈ keysAtPush j)
    (hblob : ∀ j lf, c.getChild j = some lf → lf.data.Inv h keyLen)
    (j : Nat) (lf : FLeaf FBlob) (hj : c.getChild j = some lf) (k : Key) (hk : k ∈ lf.data.keys) :
    Container.checkFilterStack (combinedOps h) (blobOps h) c k ≠ .notContains ∧
    Container.checkFilterFastStack (combinedOps h) c k ≠ .notContains := by
  rw [Container.checkFilterStack_eq (blobOps h) c g hinv, Container.checkFilterFastStack_eq c g hinv]
  exact container_check_filter_no_fn h keyLen c g keysAtPush hinv hpush delete_adds_no_new_key hblob j lf hj k hk

/-! ### non-vacuity of the stack-machine theorems -/

/-- the example container: `group_size = 2`, five blobs (so: root → three groups → leaves), slot 3 removed -/
def toyStackContainer : Container Combined FBlob :=
  ((Container.extend (combinedOps toy) (blobOps toy) (Container.new 2 1 : Container Combined FBlob)
    [toyBlob [1], toyBlob [2], toyBlob [30], toyBlob [40], toyBlob [40, 5]]).remove 3).1

/-- it satisfies the invariant (it is reachable) -/
theorem toyStackContainer_inv : ∃ gl, Container.Inv (combinedOps toy) Combined.WF toyStackContainer gl := by
  refine ⟨_, (node_filter_sup_pop _ _ 3 (node_filter_sup_extend (combined_laws toy) (blobOps toy)
    [toyBlob [1], toyBlob [2], toyBlob [30], toyBlob [40], toyBlob [40, 5]] (Container.new 2 1) []
    (node_filter_sup_new 2 1 (by decide)) ?_)).2⟩
  intro x hx f hf
  cases hf
  simp only [List.mem_cons, List.not_mem_nil, or_false] at hx
  rcases hx with rfl | rfl | rfl | rfl | rfl <;> exact FBlob.filter_WF (toyBlob_inv _)

-- two levels (the root has three group nodes, five leaves below), slot 3 is empty, and the machine, run on
-- key 40, skips group 0 (filter), skips the removed leaf 3, and yields 4 and 2 (reverse) / 2 and 4 (forward)
example :
    ((toyStackContainer.getNode toyStackContainer.root).map (·.children)) = some [0, 4, 7] ∧
    toyStackContainer.inner.length = 9 ∧
    Container.leavesBelow toyStackContainer 11 toyStackContainer.root = [0, 1, 2, 3, 4] ∧
    (toyStackContainer.getChild 3).isNone = true ∧
    Container.iterPossibleStack (combinedOps toy) toyStackContainer true 40 = [4, 2] ∧
    Container.iterPossibleStack (combinedOps toy) toyStackContainer false 40 = [2, 4] ∧
    Container.iterPossibleStack (combinedOps toy) toyStackContainer true 2 = [1, 0] ∧
    storagePrunesStack toy toyStackContainer 0 40 = true ∧ storagePrunesStack toy toyStackContainer 4 40 = false ∧
    Container.checkFilterFastStack (combinedOps toy) toyStackContainer 40 = .needAdditionalCheck ∧
    Container.checkFilterFastStack (combinedOps toy) toyStackContainer 77 = .notContains := by
  decide

-- `iterPossibleStack_eq`, `possible_rev_complete_stack` instantiated on it
example (rev : Bool) (k : Key) :
    Container.iterPossibleStack (combinedOps toy) toyStackContainer rev k =
      Container.iterPossible (combinedOps toy) toyStackContainer rev k := by
  obtain ⟨gl, h⟩ := toyStackContainer_inv
  exact iterPossibleStack_eq _ gl h rev k

example (k : Key) : ∀ j ∈ Container.iterPossibleStack (combinedOps toy) toyStackContainer true k, j ≠ 3 := by
  obtain ⟨gl, h⟩ := toyStackContainer_inv
  intro j hj hj3
  subst hj3
  have := (possible_rev_complete_stack _ gl k h).2.2.1 3 hj
  revert this
  decide

-- the hypothesis `WalkOK` of `next_spec` is satisfiable: it follows from the invariant
example (rev : Bool) (k : Key) :
    Container.WalkOK (combinedOps toy) toyStackContainer rev k (toyStackContainer.inner.length + 2)
      (Container.costOf toyStackContainer) := by
  obtain ⟨gl, h⟩ := toyStackContainer_inv
  exact h.walkOK rev k

-- the `next` fuel is not tight but of the right order: a whole traversal of the example costs 17 loop
-- iterations (bound `4 * (9 + 2) = 44`); the first `next` takes 3 of them (push group 0, push its first leaf,
-- pop the leaf), so with fuel 2 it runs out
example :
    Container.costOf toyStackContainer toyStackContainer.root = 17 ∧
    Container.iterNext (combinedOps toy) toyStackContainer false 2 2 [(0, toyStackContainer.root)] = none ∧
    Container.iterNext (combinedOps toy) toyStackContainer false 2 3 [(0, toyStackContainer.root)] =
      some (0, [(1, 0), (1, 3)]) := by
  decide

-- the invariant is needed: on an arena that is not a tree (the same leaf listed three times below the root, which
-- no sequence of operations produces) the recursive reading yields the child three times while the stack
-- machine, limited to `children.len() + 1` items, stops after two
example :
    let c : Container Combined FBlob :=
      { inner := [some (.node { children := [1, 1, 1] }), some (.leaf 0 0)],
        children := [some { parent := 0, data := toyBlob [1] }], root := 0, groupSize := 4, level := 1 }
    Container.iterPossible (combinedOps toy) c false 1 = [0, 0, 0] ∧
    Container.iterPossibleStack (combinedOps toy) c false 1 = [0, 0] := by
  decide

/-! ## Off-loaded filter whose bytes cannot be read -/

/-- the probing loop answers `NotContains` only on the evidence of a byte that was really read and whose bit is
    clear: a read that fails (`readByte … = none`: I/O error, file cut under the running session) can never be the
    reason for "definitely absent" -/
theorem probe_file_absent_has_witness (readByte : Nat → Option Nat) (start : Nat) (ps : List Nat)
    (hn : Bloom.probeFile readByte start ps = .notContains) :
    ∃ i ∈ ps, ∃ byte, readByte (start + (offsetAndMaskU8 i).1) = some byte ∧
      getBitU8 byte (offsetAndMaskU8 i).2 = false := by
  induction ps with
  | nil => simp [Bloom.probeFile] at hn
  | cons i rest ih =>
    unfold Bloom.probeFile at hn
    simp only at hn
    cases hr : readByte (start + (offsetAndMaskU8 i).1) with
    | none => rw [hr] at hn; simp at hn
    | some byte =>
      rw [hr] at hn
      simp only at hn
      by_cases hb : getBitU8 byte (offsetAndMaskU8 i).2 = true
      · rw [if_pos hb] at hn
        obtain ⟨j, hj, w, hw⟩ := ih hn
        exact ⟨j, List.mem_cons_of_mem _ hj, w, hw⟩
      · exact ⟨i, List.mem_cons_self, byte, hr, by simpa using hb⟩

/-- an index file none of whose filter bytes can be read: the off-loaded filter asks for the additional check,
    for every key (seeded change C10-10 turned this answer into `NotContains`) -/
theorem bloom_unreadable_file_needs_check (h : Nat → Key → Nat) (b : Bloom) (key : Key)
    (readByte : Nat → Option Nat) (hu : ∀ p, readByte p = none) :
    b.containsFile h readByte key = .needAdditionalCheck := by
  unfold Bloom.containsFile
  split
  · rfl
  · cases hp : Bloom.probeFile readByte b.bufferStartPosition (Bloom.positions h b.k b.bits key) with
    | needAdditionalCheck => rfl
    | notContains =>
      obtain ⟨i, _, byte, hr, _⟩ := probe_file_absent_has_witness readByte _ _ hp
      rw [hu] at hr; cases hr

/-- non-vacuity: a filter with bits and hashers, and a provider that fails on every read -/
example : ({ inner := none, bits := 64, k := 2, cfg := BloomConfig.empty } : Bloom).containsFile
    (fun i x => i + x) (fun _ => none) (7 : Key) = .needAdditionalCheck :=
  bloom_unreadable_file_needs_check _ _ _ _ (fun _ => rfl)


end Pearl.C10

open Pearl.C10 in
#print axioms bloom_add_contains
#print axioms Pearl.C10.bloom_mono
#print axioms Pearl.C10.bloom_merge_sup
#print axioms Pearl.C10.bloom_merge_only_if_compatible
#print axioms Pearl.C10.bloom_zero_sizes
#print axioms Pearl.C10.wf_bloom
#print axioms Pearl.C10.file_probe_eq_mem
#print axioms Pearl.C10.containsFile_eq_containsMem
#print axioms Pearl.C10.save_roundtrip
#print axioms Pearl.C10.raw_roundtrip
#print axioms Pearl.C10.filters_roundtrip
#print axioms Pearl.C10.bloom_offset_correct
#print axioms Pearl.C10.range_no_fn
#print axioms Pearl.C10.range_merge_hull
#print axioms Pearl.C10.range_roundtrip
#print axioms Pearl.C10.combined_no_fn
#print axioms Pearl.C10.wf_combined
#print axioms Pearl.C10.node_filter_sup_new
#print axioms Pearl.C10.node_filter_sup_push
#print axioms Pearl.C10.node_filter_sup_pop
#print axioms Pearl.C10.node_filter_sup_repush
#print axioms Pearl.C10.node_filter_sup_offload
#print axioms Pearl.C10.node_filter_sup
#print axioms Pearl.C10.push_total
#print axioms Pearl.C10.root_leaves
#print axioms Pearl.C10.possible_rev_complete
#print axioms Pearl.C10.combined_laws
#print axioms Pearl.C10.blob_filter_inv
#print axioms Pearl.C10.blob_check_filter_no_fn
#print axioms Pearl.C10.check_filter_no_fn
#print axioms Pearl.C10.container_check_filter_no_fn
#print axioms Pearl.C10.iterPossibleStack_eq
#print axioms Pearl.C10.next_spec
#print axioms Pearl.C10.root_leaves_stack
#print axioms Pearl.C10.possible_rev_complete_stack
#print axioms Pearl.C10.node_filter_sup_extend
#print axioms Pearl.C10.check_filter_no_fn_stack
#print axioms Pearl.C10.container_check_filter_no_fn_stack
#print axioms Pearl.C10.toyStackContainer_inv
#print axioms Pearl.C10.probe_file_absent_has_witness
#print axioms Pearl.C10.bloom_unreadable_file_needs_check

/-
NOT YET PROVED (none of the requested statements is missing)
* `iterPossibleStack_eq` is proved for containers satisfying `Container.Inv` (arena of depth ≤ 3, as built by
  `new`/`push`/`pop`/`remove`/`offload_buffer`).  The shape-independent core (`next_spec`,
  `Container.iterStackCollect_eq`, `Container.iterPossibleStack_eq_walk`) covers any arena satisfying
  `Container.WalkOK`; `WalkOK` itself is derived only from `Container.Inv`, not from a general "the arena is a
  tree of depth < D" predicate.
* `PossibleRevIter` is not a fused iterator: if the popped top entry were a leaf whose slot is empty, `next`
  returns `None` with the rest of the stack still in place.  `iterNext` returns `none` there and the model says
  nothing about later calls; the case is unreachable (`Container.StackOK`: leaves are pushed only when their slot
  is occupied and the container is borrowed for the lifetime of the iterator).
-/
