import Pearl.Props.EndToEnd
/-
C10 across sessions with DIFFERENT bloom configurations: the obligations of `Pearl/Props/EndToEnd.lean` (section
"sessions with different bloom configurations") that are about C10 — a stored key is never rejected by a filter on its
read path, whichever geometry the blob filters and node filters have after any number of restarts with other
configurations; and the merge rule of node filters (`Bloom::checked_add_assign`, `Inner::merge_filters`): filters of
different geometry, an off-loaded filter or a missing filter make the node `None`, never a stale or wrong union.

The statements are re-exported here (same statements, proved by the theorems of `Pearl.E2E`), so that the check of C10
owns them: a change that breaks one of them is reported under C10 and not only under C01.
-/
namespace Pearl.C10b
open Pearl Pearl.E2E

/-- no false negative on the read path, after any history with any number of `restartWith` steps -/
theorem no_false_negative_across_configs {cfg : Cfg} (hcfg : cfg.OK) (ops : List XOp) (hops : ∀ op ∈ ops, op.OK cfg)
    (hsz : StoreSized cfg.klen ((Store.init cfg.allowDup).run (ops.map XOp.abs))) :
    let x := (XState.init cfg).run ops
    ((Store.init cfg.allowDup).run (ops.map XOp.abs)).blobs = x.st.blobs.map CBlob.abs ∧
    (∀ b ∈ x.st.blobs, ∀ r ∈ b.ghost, b.checkFilter x.cfg r.key ≠ .notContains) ∧
    (∀ j lf, x.st.cont.getChild j = some lf → ∀ r ∈ lf.data.ghost,
      (∀ id nd, x.st.cont.getInner id = some (.node nd) →
        j ∈ Container.leavesBelow x.st.cont (x.st.cont.inner.length + 2) id →
        (fops x.cfg).coversOpt nd.filter r.key) ∧
      j ∈ Container.iterPossibleStack (fops x.cfg) x.st.cont true r.key ∧
      lf.data ∈ x.st.consulted x.cfg r.key) :=
  E2E.no_false_negative_across_configs hcfg ops hops hsz

/-- `Bloom::checked_add_assign` -/
theorem bloom_merge_rule (b o : Bloom) (hb : b.WF) (ho : o.WF) :
    ((b.merge o).2 = true ↔ b.k = o.k ∧ b.bits = o.bits ∧ b.isOffloaded = false ∧ o.isOffloaded = false) ∧
    ((b.merge o).2 = false → (b.merge o).1 = b) ∧
    (b.bits = 0 → (b.merge o).2 = true → o.bits = 0) ∧
    (o.bits = 0 → (b.merge o).2 = true → b.bits = 0) :=
  E2E.bloom_merge_rule b o hb ho

/-- `Inner::merge_filters`: `Some` exactly when both are there and their bloom parts merge; `None` covers every key -/
theorem merge_filters_rule (h : Nat → Key → Nat) (dest source : Option Combined)
    (hd : ∀ d, dest = some d → d.WF) (hs : ∀ s, source = some s → s.WF) :
    ((Container.mergeFilters (combinedOps h) dest source).isSome = true ↔
      ∃ d s, dest = some d ∧ source = some s ∧
        ((d.bloom = none ∧ s.bloom = none) ∨
          ∃ x y, d.bloom = some x ∧ s.bloom = some y ∧
            x.k = y.k ∧ x.bits = y.bits ∧ x.isOffloaded = false ∧ y.isOffloaded = false)) ∧
    (∀ k, (combinedOps h).coversOpt (none : Option Combined) k) :=
  E2E.merge_filters_rule h dest source hd hs

/-- the merged node filter covers whatever either side covered -/
theorem merge_filters_sound (h : Nat → Key → Nat) (d s : Option Combined) (hd : ∀ x, d = some x → x.WF)
    (hs : ∀ x, s = some x → x.WF) (k : Key)
    (hk : (combinedOps h).coversOpt d k ∨ (combinedOps h).coversOpt s k) :
    (combinedOps h).coversOpt (Container.mergeFilters (combinedOps h) d s) k :=
  E2E.merge_filters_sound h d s hd hs k hk

end Pearl.C10b

#print axioms Pearl.C10b.no_false_negative_across_configs
#print axioms Pearl.C10b.bloom_merge_rule
#print axioms Pearl.C10b.merge_filters_rule
#print axioms Pearl.C10b.merge_filters_sound
