import Pearl.Proofs.FaultLemmas
import Pearl.Proofs.ScanRegions
import Pearl.Props.C06
/-
C11 "I/O fault containment": ONE blob, arbitrary sequences of write steps whose positional writes succeed,
fail before anything is written, are cut short after `n` bytes, or (two-buffer records) fail at the
second buffer; index dumps that fail; and what a restart makes of the resulting file.

Model: Pearl/Model/Fault.lean (`writeStep` follows the order of effects of `write_append_writable_data` +
`Blob::write`: reserve, write, push on success only).  Lemmas: Pearl/Proofs/FaultLemmas.lean.
`maxSP` is `MAX_SINGLE_PASS_DATA_SIZE` (4096 in the code); the theorems hold for every value.

`run maxSP st steps` is the state after the steps, `acked maxSP st steps` the acknowledged records with
their offsets, `ackedHeaders` their index headers, `cut maxSP r o` the number of bytes of `r`'s image an
outcome lets through (`recLen r` for `ok`, 0 for `failBefore`, `n` for `short n`, header + meta for
`failSecond` on a two-buffer record and 0 on a one-buffer record).
-/
namespace Pearl.C11
open Pearl Pearl.Fault

/-! ## in-session: what a write step can touch -/

/-- the reservation is never undone; the file only grows; whatever a step writes lies at or beyond
    the `size` it started with (the bytes between the old end of the file and that `size`, a hole left
    by earlier failures, read as zeros); and `bytes.length ≤ size` is kept -/
theorem write_never_touches_reserved (maxSP : Nat) (st : BlobSt) (r : Record) (o : Outcome)
    (h : st.file.bytes.length ≤ st.file.size) :
    let st' := (writeStep maxSP st r o).1
    st'.file.size = st.file.size + recLen r ∧ st'.file.bytes.length ≤ st'.file.size ∧
    ∃ k w, st'.file.bytes = st.file.bytes ++ List.replicate k 0 ++ w ∧
      (w ≠ [] → st.file.bytes.length + k = st.file.size) ∧
      w = (r.image st.file.size).take (cut maxSP r o) := by
  refine ⟨writeStep_size maxSP st r o, writeStep_le maxSP st r o h, ?_⟩
  rw [writeStep_bytes maxSP st r o h]
  by_cases hc : cut maxSP r o = 0
  · rw [if_pos hc]
    exact ⟨0, [], by simp, fun h => absurd rfl h, by rw [hc, List.take_zero]⟩
  · rw [if_neg hc]
    exact ⟨_, _, rfl, fun _ => by omega, rfl⟩

/-- the same for a whole run -/
theorem run_only_extends (maxSP : Nat) (st : BlobSt) (steps : List (Record × Outcome))
    (h : st.file.bytes.length ≤ st.file.size) :
    (∃ ext, (run maxSP st steps).file.bytes = st.file.bytes ++ ext) ∧
    (run maxSP st steps).file.bytes.length ≤ (run maxSP st steps).file.size ∧
    st.file.size ≤ (run maxSP st steps).file.size :=
  ⟨run_extends maxSP st steps h, run_le maxSP st steps h, run_size_ge maxSP st steps⟩

/-- the acknowledged records occupy pairwise disjoint ranges, in increasing order, between the `size`
    at the start and the `size` at the end -/
theorem acked_ranges_disjoint (maxSP : Nat) (st : BlobSt) (steps : List (Record × Outcome)) :
    (∀ x ∈ acked maxSP st steps,
      st.file.size ≤ x.2 ∧ x.2 + recLen x.1 ≤ (run maxSP st steps).file.size) ∧
    (acked maxSP st steps).Pairwise (fun a b => a.2 + recLen a.1 ≤ b.2) :=
  acked_ranges maxSP st steps

/-- the index after a run holds what it held before plus exactly the entries of the acknowledged steps -/
theorem index_is_acked (maxSP : Nat) (st : BlobSt) (steps : List (Record × Outcome)) :
    (run maxSP st steps).index = st.index ++ (acked maxSP st steps).map (entryOf maxSP) :=
  run_index maxSP st steps

/-- a step is acknowledged iff its outcome is `ok` (index in memory) -/
theorem acked_iff_ok (maxSP : Nat) (st : BlobSt) (steps : List (Record × Outcome))
    (hd : st.onDisk = false) : acks maxSP st steps = steps.map (fun s => decide (s.2 = .ok)) :=
  acks_eq maxSP st steps hd

/-! ## `acked_stay_readable` -/

/-- every record acknowledged so far is in the index, with an offset at which `Entry::load` returns
    exactly its meta bytes and data — whatever happened in the other steps -/
theorem acked_stay_readable (klen maxSP : Nat) (st : BlobSt) (steps : List (Record × Outcome))
    (h : st.file.bytes.length ≤ st.file.size)
    (hwf : ∀ s ∈ steps, s.1.WF klen ∧ (serMeta s.1.mt).length < 2 ^ 64) :
    ∀ x ∈ acked maxSP st steps,
      entryOf maxSP x ∈ (run maxSP st steps).index ∧
      entryLoad (run maxSP st steps).file.bytes (writtenHeader x.1 x.2 maxSP) =
        .ok (serMeta x.1.mt, x.1.data) := by
  intro x hx
  refine ⟨?_, acked_loads maxSP st steps h hwf x hx⟩
  rw [run_index]
  exact List.mem_append_right _ (List.mem_map_of_mem hx)

/-- entries that loaded before the run load with the same result after it -/
theorem old_entries_stay_readable (maxSP : Nat) (st : BlobSt) (steps : List (Record × Outcome))
    (h : st.file.bytes.length ≤ st.file.size) (hd : RecHeader) (x : List UInt8 × List UInt8)
    (hok : entryLoad st.file.bytes hd = .ok x) :
    entryLoad (run maxSP st steps).file.bytes hd = .ok x := by
  obtain ⟨ext, hext⟩ := run_extends maxSP st steps h
  rw [hext]
  exact entryLoad_append_right hok ext

/-! ## `failed_not_served_in_session` -/

/-- a step that returns an error leaves the index, its residence and the index file as they were -/
theorem failed_not_served_in_session (maxSP : Nat) (st : BlobSt) (r : Record) (o : Outcome)
    (hfail : (writeStep maxSP st r o).2 = false) :
    (writeStep maxSP st r o).1.index = st.index ∧ (writeStep maxSP st r o).1.entries = st.entries := by
  have hi : (writeStep maxSP st r o).1.index = st.index := by
    rw [writeStep_index, hfail]; rfl
  refine ⟨hi, ?_⟩
  unfold BlobSt.entries
  rw [hi, writeStep_onDisk, writeStep_idxFile]

/-- every outcome other than `ok` returns an error -/
theorem not_ok_fails (maxSP : Nat) (st : BlobSt) (r : Record) (o : Outcome) (ho : o ≠ .ok) :
    (writeStep maxSP st r o).2 = false := by
  rw [writeStep_ack]; simp [ho]

/-- in a run, the offset reserved by a failed step never appears in an index entry the run added -/
theorem failed_step_never_indexed (maxSP : Nat) (st : BlobSt) (a b : List (Record × Outcome))
    (r : Record) (o : Outcome) (ho : o ≠ .ok) :
    ∀ e ∈ (run maxSP st (a ++ (r, o) :: b)).index,
      e.2 = (run maxSP st a).file.size → e ∈ st.index := by
  intro e he hoff
  rw [run_index, acked_append] at he
  have hack := not_ok_fails maxSP (run maxSP st a) r o ho
  simp only [acked, hack, Bool.false_eq_true, ↓reduceIte, List.nil_append, List.map_append,
    List.mem_append, List.mem_map] at he
  rcases he with he | ⟨x, hx, rfl⟩ | ⟨x, hx, rfl⟩
  · exact he
  · have := (acked_ranges maxSP st a).1 x hx
    have hp := recLen_pos x.1
    simp only [entryOf] at hoff
    omega
  · have := ((acked_ranges maxSP _ b).1 x hx).1
    rw [writeStep_size] at this
    have hp := recLen_pos r
    simp only [entryOf] at hoff
    omega

/-! ## `accepts_after_fault` -/

/-- after any sequence of steps, a step whose writes succeed is acknowledged, indexed and readable -/
theorem accepts_after_fault (klen maxSP : Nat) (st : BlobSt) (steps : List (Record × Outcome))
    (h : st.file.bytes.length ≤ st.file.size) (hd : st.onDisk = false) (r : Record)
    (hwf : r.WF klen) (hm : (serMeta r.mt).length < 2 ^ 64) :
    let st1 := run maxSP st steps
    let res := writeStep maxSP st1 r .ok
    res.2 = true ∧
    res.1.index = st1.index ++ [(writtenHeader r st1.file.size maxSP, st1.file.size)] ∧
    entryLoad res.1.file.bytes (writtenHeader r st1.file.size maxSP) = .ok (serMeta r.mt, r.data) := by
  intro st1 res
  have hd1 : st1.onDisk = false := by rw [run_onDisk]; exact hd
  have hack : res.2 = true := by rw [writeStep_ack, hd1]; rfl
  refine ⟨hack, ?_, writeStep_ok_loads maxSP st1 r (run_le maxSP st steps h) hwf hm⟩
  rw [writeStep_index, hack]; rfl

/-! ## `restart_after_faults` -/

/-- the file a restart finds -/
abbrev fileAfter (maxSP : Nat) (steps : List (Record × Outcome)) : List UInt8 :=
  (run maxSP fresh steps).file.bytes

/-- (1) start-up never fails on the file any sequence of steps leaves: the blob is opened or quarantined;
    (2) when every write succeeded it is opened with exactly the acknowledged headers, which are the
    headers of the in-memory index -/
theorem restart_after_faults (klen maxSP : Nat) (v : Bool) (steps : List (Record × Outcome)) :
    openBlob klen v (fileAfter maxSP steps) ≠ .fail ∧
    (allOk steps → GoodRecs klen (steps.map (·.1)) → (fileAfter maxSP steps).length < 2 ^ 64 →
      openBlob klen v (fileAfter maxSP steps) = .ok (ackedHeaders maxSP fresh steps) ∧
      ackedHeaders maxSP fresh steps = (run maxSP fresh steps).index.map (·.1) ∧
      (acked maxSP fresh steps).map (·.1) = steps.map (·.1)) := by
  constructor
  · obtain ⟨ext, hext⟩ := run_extends maxSP fresh steps (Nat.le_of_eq fresh_le)
    exact openBlob_ne_fail klen v _ (Or.inr ⟨ext, hext⟩)
  · intro hok hg hlen
    obtain ⟨h1, _, _, h4⟩ := run_allOk maxSP fresh steps fresh_le rfl hok
    have hf : fileAfter maxSP steps = appendRecords serBlobHeader (steps.map (·.1)) := h1
    rw [hf] at hlen ⊢
    exact ⟨by rw [ackedHeaders_allOk maxSP steps hok]; exact openBlob_appendRecords v _ hg hlen,
      (index_headers maxSP steps).symm, h4⟩

/-- whatever start-up decides (open or quarantine — it does not modify the file), the file left by ANY
    sequence of steps still holds every acknowledged record, loadable at its offset: a quarantined blob
    preserves all acknowledged data -/
theorem acked_in_file_after_any_faults (klen maxSP : Nat) (steps : List (Record × Outcome))
    (hwf : ∀ s ∈ steps, s.1.WF klen ∧ (serMeta s.1.mt).length < 2 ^ 64) :
    ∀ x ∈ acked maxSP fresh steps,
      entryLoad (fileAfter maxSP steps) (writtenHeader x.1 x.2 maxSP) = .ok (serMeta x.1.mt, x.1.data) :=
  fun x hx => (acked_stay_readable klen maxSP fresh steps (Nat.le_of_eq fresh_le) hwf x hx).2

/-! ### the first step that is not `ok`

Throughout: `steps = oks ++ (R, o) :: later`, all steps of `oks` are `ok`, `Rs` are their records,
`off = 20 + |tailOf 20 Rs|` is the offset `R` was given, `c = cut maxSP R o`. -/

/-- the acknowledged headers of the steps before the first fault are the headers of `Rs`; `R`'s header is
    not among them and not among those of later steps either (offsets differ) -/
theorem ackedHeaders_first_fault (maxSP : Nat) (oks later : List (Record × Outcome)) (R : Record)
    (o : Outcome) (hok : allOk oks) (ho : o ≠ .ok) :
    ackedHeaders maxSP fresh (oks ++ (R, o) :: later) =
      writtenHeaders serBlobHeader (oks.map (·.1)) ++
        ackedHeaders maxSP (run maxSP fresh (oks ++ [(R, o)])) later := by
  unfold ackedHeaders
  rw [acked_first_fault maxSP oks later R o ho, List.map_append]
  congr 1
  exact ackedHeaders_allOk maxSP oks hok

/-- (a) the failed step wrote nothing and no later step wrote anything (so none of them is
    acknowledged): the file is the intact blob of the acknowledged records; start-up opens it with
    exactly their headers -/
theorem first_fault_nothing_written (klen maxSP : Nat) (v : Bool) (oks later : List (Record × Outcome))
    (R : Record) (o : Outcome) (hok : allOk oks) (ho : o ≠ .ok) (hc : cut maxSP R o = 0)
    (hsil : ∀ s ∈ later, cut maxSP s.1 s.2 = 0)
    (hg : GoodRecs klen (oks.map (·.1)))
    (hlen : (fileAfter maxSP (oks ++ (R, o) :: later)).length < 2 ^ 64) :
    fileAfter maxSP (oks ++ (R, o) :: later) = appendRecords serBlobHeader (oks.map (·.1)) ∧
    openBlob klen v (fileAfter maxSP (oks ++ (R, o) :: later)) =
      .ok (ackedHeaders maxSP fresh (oks ++ (R, o) :: later)) := by
  have hf := (first_fault_file maxSP oks later R o hok).1 hsil
  rw [hc, List.take_zero, List.append_nil] at hf
  have hf' : fileAfter maxSP (oks ++ (R, o) :: later) = appendRecords serBlobHeader (oks.map (·.1)) := by
    rw [appendRecords_eq, serBlobHeader_length]; exact hf
  refine ⟨hf', ?_⟩
  rw [ackedHeaders_first_fault maxSP oks later R o hok ho]
  unfold ackedHeaders
  rw [acked_silent maxSP _ later hsil, List.map_nil, List.append_nil]
  rw [hf'] at hlen ⊢
  exact openBlob_appendRecords v _ hg hlen

/-- (b) the failed step wrote nothing (`failBefore`, `short 0`, `failSecond` on a one-buffer record) and
    some later step wrote something: at the failed step's offset the scan reads a header's worth of
    zeros of the hole, `Header::validate` fails with `RecordMagicByte`, and the blob is quarantined -/
theorem first_fault_hole_quarantine (klen maxSP : Nat) (v : Bool) (oks later : List (Record × Outcome))
    (R : Record) (o : Outcome) (hok : allOk oks) (hc : cut maxSP R o = 0)
    (hnoisy : ∃ s ∈ later, cut maxSP s.1 s.2 ≠ 0)
    (hg : GoodRecs klen (oks.map (·.1))) (hwf : R.WF klen)
    (hlen : (fileAfter maxSP (oks ++ (R, o) :: later)).length < 2 ^ 64) :
    readCurrentRecord v (fileAfter maxSP (oks ++ (R, o) :: later)) (57 + klen)
      (20 + (tailOf 20 (oks.map (·.1))).length) = .error (.load .recordMagicByte) ∧
    openBlob klen v (fileAfter maxSP (oks ++ (R, o) :: later)) = .quarantine := by
  obtain ⟨k, t, hf, hk, ht⟩ := (first_fault_file maxSP oks later R o hok).2 hnoisy
  rw [hc, List.take_zero, List.nil_append] at hf
  have hkey : recLen R = 57 + klen + (serMeta R.mt).length + R.data.length := by
    unfold recLen; rw [hwf.key]
  have hk' : 57 + klen ≤ k := by
    rw [hc] at hk; simp only [Nat.zero_min, Nat.zero_add] at hk; omega
  have hstop : readCurrentRecord v (fileAfter maxSP (oks ++ (R, o) :: later)) (57 + klen)
      (20 + (tailOf 20 (oks.map (·.1))).length) = .error (.load .recordMagicByte) := by
    have := stop_zeros v (serBlobHeader ++ tailOf 20 (oks.map (·.1))) t k klen hk'
    rw [List.length_append, serBlobHeader_length, List.append_assoc] at this
    show readCurrentRecord v (run maxSP fresh (oks ++ (R, o) :: later)).file.bytes _ _ = _
    rw [hf]; exact this
  refine ⟨hstop, ?_⟩
  exact stop_quarantine v (oks.map (·.1)) (List.replicate k 0 ++ t) _ hf
    (by intro h; exact ht (List.append_eq_nil_iff.mp h).2) hg hlen _ hstop

/-- (c) the failed step left a proper, non-empty prefix of the header and no later step wrote anything:
    the header read hits the end of the file (`Bincode`), the blob is quarantined -/
theorem first_fault_torn_header_quarantine (klen maxSP : Nat) (v : Bool)
    (oks later : List (Record × Outcome)) (R : Record) (o : Outcome) (hok : allOk oks)
    (hc0 : 0 < cut maxSP R o) (hc : cut maxSP R o < 57 + klen)
    (hsil : ∀ s ∈ later, cut maxSP s.1 s.2 = 0)
    (hg : GoodRecs klen (oks.map (·.1)))
    (hlen : (fileAfter maxSP (oks ++ (R, o) :: later)).length < 2 ^ 64) :
    readCurrentRecord v (fileAfter maxSP (oks ++ (R, o) :: later)) (57 + klen)
      (20 + (tailOf 20 (oks.map (·.1))).length) = .error (.load .bincode) ∧
    openBlob klen v (fileAfter maxSP (oks ++ (R, o) :: later)) = .quarantine := by
  have hf := (first_fault_file maxSP oks later R o hok).1 hsil
  have hstop : readCurrentRecord v (fileAfter maxSP (oks ++ (R, o) :: later)) (57 + klen)
      (20 + (tailOf 20 (oks.map (·.1))).length) = .error (.load .bincode) := by
    have := stop_torn_header v (serBlobHeader ++ tailOf 20 (oks.map (·.1))) R
      (20 + (tailOf 20 (oks.map (·.1))).length) (cut maxSP R o) klen
      (by rw [List.length_append, serBlobHeader_length]) hc
    rw [List.append_assoc] at this
    show readCurrentRecord v (run maxSP fresh (oks ++ (R, o) :: later)).file.bytes _ _ = _
    rw [hf]; exact this
  refine ⟨hstop, ?_⟩
  refine stop_quarantine v (oks.map (·.1)) _ _ hf ?_ hg hlen _ hstop
  intro h
  have := congrArg List.length h
  have hp := recLen_pos R
  simp only [List.length_take, image_length_recLen, List.length_nil] at this
  omega

/-- the bytes the scan reads at the failed step's offset when a proper prefix of the header was written
    and a later step extended the file: the prefix, zero-padded to the header size -/
def paddedHeader (klen : Nat) (R : Record) (off c : Nat) : List UInt8 :=
  (R.image off).take c ++ List.replicate (57 + klen - c) 0

/-- (d, `_partial`) the failed step left a proper prefix of the header and a later step wrote
    something: the blob is quarantined PROVIDED the zero-padded prefix does not parse to a header that
    passes `Header::validate` (the hypothesis cannot be dropped: `torn_header_zero_padded_accepted`) -/
theorem first_fault_torn_header_padded_partial (klen maxSP : Nat) (v : Bool)
    (oks later : List (Record × Outcome)) (R : Record) (o : Outcome) (hok : allOk oks)
    (hc : cut maxSP R o < 57 + klen) (hnoisy : ∃ s ∈ later, cut maxSP s.1 s.2 ≠ 0)
    (hg : GoodRecs klen (oks.map (·.1))) (hwf : R.WF klen)
    (hlen : (fileAfter maxSP (oks ++ (R, o) :: later)).length < 2 ^ 64)
    (hbad : ∀ h, deserHeader (paddedHeader klen R (20 + (tailOf 20 (oks.map (·.1))).length)
      (cut maxSP R o)) = some h → headerValidate h ≠ .ok ()) :
    openBlob klen v (fileAfter maxSP (oks ++ (R, o) :: later)) = .quarantine := by
  obtain ⟨k, t, hf, hk, ht⟩ := (first_fault_file maxSP oks later R o hok).2 hnoisy
  have hkey : recLen R = 57 + klen + (serMeta R.mt).length + R.data.length := by
    unfold recLen; rw [hwf.key]
  generalize hoff : 20 + (tailOf 20 (oks.map (·.1))).length = off at hf hbad
  generalize hcc : cut maxSP R o = c at hf hk hc hbad
  have hmin : min c (recLen R) = c := by omega
  rw [hmin] at hk
  have hsplit : List.replicate k (0 : UInt8) =
      List.replicate (57 + klen - c) 0 ++ List.replicate (k - (57 + klen - c)) 0 := by
    rw [List.replicate_append_replicate]; congr 1; omega
  have hf2 : fileAfter maxSP (oks ++ (R, o) :: later) =
      (serBlobHeader ++ tailOf 20 (oks.map (·.1))) ++
        (paddedHeader klen R off c ++ (List.replicate (k - (57 + klen - c)) 0 ++ t)) := by
    show (run maxSP fresh (oks ++ (R, o) :: later)).file.bytes = _
    rw [hf, hsplit]; unfold paddedHeader; simp only [List.append_assoc]
  have hbl : (paddedHeader klen R off c).length = 57 + klen := by
    unfold paddedHeader
    simp only [List.length_append, List.length_take, image_length_recLen, List.length_replicate]
    omega
  obtain ⟨e, he⟩ := stop_bad_header v (serBlobHeader ++ tailOf 20 (oks.map (·.1)))
    (paddedHeader klen R off c) (List.replicate (k - (57 + klen - c)) 0 ++ t) klen hbl hbad
  rw [← hf2, List.length_append, serBlobHeader_length] at he
  exact stop_quarantine v (oks.map (·.1)) _ _ hf
    (by intro h; exact ht (List.append_eq_nil_iff.mp (List.append_eq_nil_iff.mp h).2).2) hg hlen _ he


/-! ### finding E8: a failed write is indexed after the restart -/

theorem writtenHeaders_snoc (Rs : List Record) (R : Record) :
    writtenHeaders serBlobHeader (Rs ++ [R]) =
      writtenHeaders serBlobHeader Rs ++ [R.header.final (20 + (tailOf 20 Rs).length)] := by
  rw [writtenHeaders_eq, writtenHeaders_eq, serBlobHeader_length, scanOf_snoc, List.map_append]
  rfl

/-- (e) the failed step left the complete header but not the complete record
    (`57 + klen ≤ cut < recLen R`: `short n` with `n` at least the header size, or `failSecond` on a
    two-buffer record with data) and no later step wrote anything. Start-up WITHOUT data validation (the
    default) opens the blob with the acknowledged headers AND the header of the failed write; with data
    validation, and data present, the blob is quarantined. -/
theorem failed_write_indexed_after_restart (klen maxSP : Nat) (v : Bool)
    (oks later : List (Record × Outcome)) (R : Record) (o : Outcome) (hok : allOk oks) (ho : o ≠ .ok)
    (hc1 : 57 + klen ≤ cut maxSP R o) (hc2 : cut maxSP R o < recLen R)
    (hsil : ∀ s ∈ later, cut maxSP s.1 s.2 = 0)
    (hg : GoodRecs klen (oks.map (·.1) ++ [R]))
    (hlen : 20 + (tailOf 20 (oks.map (·.1))).length + recLen R < 2 ^ 64) :
    openBlob klen v (fileAfter maxSP (oks ++ (R, o) :: later)) =
      if v = true ∧ R.data ≠ [] then .quarantine
      else .ok (ackedHeaders maxSP fresh (oks ++ (R, o) :: later) ++
        [writtenHeader R (20 + (tailOf 20 (oks.map (·.1))).length) maxSP]) := by
  have hf := (first_fault_file maxSP oks later R o hok).1 hsil
  have hload := rawRecordsLoad_torn_tail v (oks.map (·.1)) R (cut maxSP R o) hg hlen hc1 hc2
  have hne : tailOf 20 (oks.map (·.1)) ++
      (R.image (20 + (tailOf 20 (oks.map (·.1))).length)).take (cut maxSP R o) ≠ [] := by
    intro h
    have := congrArg List.length (List.append_eq_nil_iff.mp h).2
    simp only [List.length_take, image_length_recLen, List.length_nil] at this
    omega
  show openBlob klen v (run maxSP fresh (oks ++ (R, o) :: later)).file.bytes = _
  rw [hf, openBlob_of_load klen v _ hne, hload]
  by_cases hvd : v = true ∧ R.data ≠ []
  · rw [if_pos hvd, if_pos hvd]; rfl
  · rw [if_neg hvd, if_neg hvd]
    simp only
    rw [ackedHeaders_first_fault maxSP oks later R o hok ho]
    unfold ackedHeaders
    rw [acked_silent maxSP _ later hsil, List.map_nil, List.append_nil, writtenHeaders_snoc, writtenHeader_eq]

/-- the general statement for `failSecond`: a two-buffer record whose second buffer fails is, after a
    restart without data validation, in the index of the blob, although the write returned an error -/
theorem failed_write_indexed_after_restart_failSecond (klen maxSP : Nat)
    (oks later : List (Record × Outcome)) (R : Record) (hok : allOk oks) (h2 : twoBuf maxSP R)
    (hsil : ∀ s ∈ later, cut maxSP s.1 s.2 = 0)
    (hg : GoodRecs klen (oks.map (·.1) ++ [R]))
    (hlen : 20 + (tailOf 20 (oks.map (·.1))).length + recLen R < 2 ^ 64) :
    (writeStep maxSP (run maxSP fresh oks) R .failSecond).2 = false ∧
    openBlob klen false (fileAfter maxSP (oks ++ (R, .failSecond) :: later)) =
      .ok (ackedHeaders maxSP fresh (oks ++ (R, .failSecond) :: later) ++
        [writtenHeader R (20 + (tailOf 20 (oks.map (·.1))).length) maxSP]) := by
  refine ⟨not_ok_fails maxSP _ R _ (by intro h; cases h), ?_⟩
  have hwf := (hg R (by simp)).1
  have hcut : cut maxSP R .failSecond = headLen R := by
    show (if recLen R ≤ maxSP then 0 else headLen R) = headLen R
    rw [if_neg h2]
  have hhl : headLen R = 57 + klen + (serMeta R.mt).length := by unfold headLen; rw [hwf.key]
  have hrl : recLen R = headLen R + R.data.length := rfl
  by_cases hdata : R.data = []
  · -- no data: the first buffer is the whole record, the file is the intact blob of `Rs ++ [R]`
    have hf := (first_fault_file maxSP oks later R .failSecond hok).1 hsil
    have hfull : (R.image (20 + (tailOf 20 (oks.map (·.1))).length)).take (cut maxSP R .failSecond) =
        R.image (20 + (tailOf 20 (oks.map (·.1))).length) := by
      apply List.take_of_length_le
      rw [image_length_recLen, hcut, hrl, hdata]; simp
    rw [hfull, ← tailOf_snoc] at hf
    have hf' : fileAfter maxSP (oks ++ (R, .failSecond) :: later) =
        appendRecords serBlobHeader (oks.map (·.1) ++ [R]) := by
      rw [appendRecords_eq, serBlobHeader_length]; exact hf
    have hl : (appendRecords serBlobHeader (oks.map (·.1) ++ [R])).length < 2 ^ 64 := by
      rw [appendRecords_length, serBlobHeader_length, tailOf_snoc, List.length_append, image_length_recLen]
      omega
    rw [hf', openBlob_appendRecords false _ hg hl, ackedHeaders_first_fault maxSP oks later R _ hok
      (by intro h; cases h)]
    unfold ackedHeaders
    rw [acked_silent maxSP _ later hsil, List.map_nil, List.append_nil, writtenHeaders_snoc, writtenHeader_eq]
  · have hpos : 0 < R.data.length := List.length_pos_iff.mpr hdata
    have := failed_write_indexed_after_restart klen maxSP false oks later R .failSecond hok
      (by intro h; cases h) (by rw [hcut, hhl]; omega) (by rw [hcut, hrl]; omega) hsil hg hlen
    rw [if_neg (by simp)] at this
    exact this

/-! ### the witness (replayable on the code with a failpoint) -/

def wA : Record := Record.create 3 1 101 none [1, 2, 3, 4]
def wB : Record := Record.create 3 2 102 none [5, 6, 7, 8, 9]

/-- write key 1 (acknowledged), then write key 2 with the pwrite cut after 62 of its 73 bytes (60 header
    bytes + 2 bytes of meta): the second write returns an error -/
def witnessSteps : List (Record × Outcome) := [(wA, .ok), (wB, .short 62)]

set_option maxRecDepth 1000000 in
/-- FINDING E8 on the witness: the failed write is not in the index in this session; after a restart
    without data validation its header IS in the index (`contains` / `exist` answer yes) although the
    record cannot be loaded; with data validation the whole blob — the acknowledged record included — is
    quarantined -/
theorem failed_write_indexed_after_restart_witness :
    acks 4096 fresh witnessSteps = [true, false] ∧
    (run 4096 fresh witnessSteps).index = [(writtenHeader wA 20 4096, 20)] ∧
    openBlob 3 false (fileAfter 4096 witnessSteps) =
      .ok [writtenHeader wA 20 4096, writtenHeader wB 92 4096] ∧
    entryLoad (fileAfter 4096 witnessSteps) (writtenHeader wA 20 4096) = .ok (serMeta none, [1, 2, 3, 4]) ∧
    entryLoad (fileAfter 4096 witnessSteps) (writtenHeader wB 92 4096) = .error .bincode ∧
    openBlob 3 true (fileAfter 4096 witnessSteps) = .quarantine := by
  refine ⟨by decide, by decide, by decide, by decide, by decide, by decide⟩

/-- "a step that returned an error is never in the index a restart builds" -/
def FailedNotServedLater : Prop :=
  ∀ (klen maxSP : Nat) (a b : List (Record × Outcome)) (r : Record) (o : Outcome) (hs : List RecHeader),
    o ≠ .ok → GoodRecs klen ((a ++ (r, o) :: b).map (·.1)) →
    openBlob klen false (fileAfter maxSP (a ++ (r, o) :: b)) = .ok hs →
    writtenHeader r (run maxSP fresh a).file.size maxSP ∉ hs

set_option maxRecDepth 1000000 in
/-- `failed_not_served_later` is FALSE across a restart -/
theorem failed_not_served_later_false : ¬ FailedNotServedLater := by
  intro h
  have h1 := failed_write_indexed_after_restart_witness.2.2.1
  have hg : GoodRecs 3 (([(wA, Outcome.ok)] ++ (wB, Outcome.short 62) :: []).map (·.1)) := by
    intro R hR
    simp only [List.cons_append, List.nil_append, List.map_cons, List.map_nil, List.mem_cons,
      List.not_mem_nil, or_false] at hR
    rcases hR with rfl | rfl
    · exact ⟨Record.create_WF .., by decide⟩
    · exact ⟨Record.create_WF .., by decide⟩
  have := h 3 4096 [(wA, .ok)] [] wB (.short 62) _ (by intro h; cases h) hg h1
  apply this
  have : (run 4096 fresh [(wA, Outcome.ok)]).file.size = 92 := by decide
  rw [this]
  simp


/-! ### `failed_not_served_later_partial` -/

theorem scanOf_pos_lt (off : Nat) (Rs : List Record) :
    ∀ x ∈ scanOf off Rs, x.1 < off + (tailOf off Rs).length := by
  induction Rs generalizing off with
  | nil => intro x hx; cases hx
  | cons R Rs ih =>
    intro x hx
    simp only [scanOf, List.mem_cons] at hx
    simp only [tailOf, List.length_append]
    have hp := R.image_length off
    rcases hx with rfl | hx
    · simp only; omega
    · have := ih _ x hx; omega

/-- the header a record would get at the end of the blob is not among the headers of the blob -/
theorem final_not_mem_writtenHeaders (Rs : List Record) (R : Record) :
    R.header.final (20 + (tailOf 20 Rs).length) ∉ writtenHeaders serBlobHeader Rs := by
  intro hmem
  rw [writtenHeaders_eq, serBlobHeader_length] at hmem
  obtain ⟨x, hx, hxe⟩ := List.mem_map.mp hmem
  have h1 := scanOf_offsets 20 Rs x hx
  have h2 := scanOf_pos_lt 20 Rs x hx
  rw [hxe] at h1
  have : (R.header.final (20 + (tailOf 20 Rs).length)).blobOffset = 20 + (tailOf 20 Rs).length := rfl
  omega

/-- the version of `failed_not_served_later` that holds, for the first failing step: if it left fewer
    bytes than a header (`failBefore`, `short n` with `n` below the header size, `failSecond` on a
    one-buffer record) then — provided no later step wrote anything, or nothing at all was left, or the
    zero-padded header prefix does not validate — a restart (with or without data validation) either
    quarantines the blob or opens it with exactly the acknowledged headers, and the failed write is not
    among them. Together with `failed_write_indexed_after_restart`: a failed first-fault step is indexed
    after a restart only if it left a complete header (`short n` with `n ≥` header size, `failSecond`),
    or by the zero-padding accident of `torn_header_zero_padded_accepted`. -/
theorem failed_not_served_later_partial (klen maxSP : Nat) (v : Bool)
    (oks later : List (Record × Outcome)) (R : Record) (o : Outcome) (hok : allOk oks) (ho : o ≠ .ok)
    (hc : cut maxSP R o < 57 + klen)
    (hg : GoodRecs klen (oks.map (·.1))) (hwf : R.WF klen)
    (hlen : (fileAfter maxSP (oks ++ (R, o) :: later)).length < 2 ^ 64)
    (hsafe : (∀ s ∈ later, cut maxSP s.1 s.2 = 0) ∨ cut maxSP R o = 0 ∨
      ∀ h, deserHeader (paddedHeader klen R (20 + (tailOf 20 (oks.map (·.1))).length)
        (cut maxSP R o)) = some h → headerValidate h ≠ .ok ()) :
    (openBlob klen v (fileAfter maxSP (oks ++ (R, o) :: later)) = .quarantine ∨
     openBlob klen v (fileAfter maxSP (oks ++ (R, o) :: later)) =
       .ok (ackedHeaders maxSP fresh (oks ++ (R, o) :: later))) ∧
    ∀ hs, openBlob klen v (fileAfter maxSP (oks ++ (R, o) :: later)) = .ok hs →
      writtenHeader R (20 + (tailOf 20 (oks.map (·.1))).length) maxSP ∉ hs := by
  by_cases hsil : ∀ s ∈ later, cut maxSP s.1 s.2 = 0
  · by_cases hc0 : cut maxSP R o = 0
    · obtain ⟨_, hopen⟩ := first_fault_nothing_written klen maxSP v oks later R o hok ho hc0 hsil hg hlen
      refine ⟨Or.inr hopen, ?_⟩
      intro hs hhs
      rw [hopen] at hhs
      cases hhs
      rw [ackedHeaders_first_fault maxSP oks later R o hok ho]
      unfold ackedHeaders
      rw [acked_silent maxSP _ later hsil, List.map_nil, List.append_nil, writtenHeader_eq]
      exact final_not_mem_writtenHeaders _ R
    · have hq := (first_fault_torn_header_quarantine klen maxSP v oks later R o hok (by omega) hc hsil hg
        hlen).2
      exact ⟨Or.inl hq, fun hs hhs => by rw [hq] at hhs; cases hhs⟩
  · have hnoisy : ∃ s ∈ later, cut maxSP s.1 s.2 ≠ 0 := by
      apply Classical.byContradiction
      intro hne
      apply hsil
      intro s hs
      apply Classical.byContradiction
      intro hc'
      exact hne ⟨s, hs, hc'⟩
    have hq : openBlob klen v (fileAfter maxSP (oks ++ (R, o) :: later)) = .quarantine := by
      rcases hsafe with h | h | h
      · exact absurd h hsil
      · exact (first_fault_hole_quarantine klen maxSP v oks later R o hok h hnoisy hg hwf hlen).2
      · exact first_fault_torn_header_padded_partial klen maxSP v oks later R o hok hc hnoisy hg hwf hlen h
    exact ⟨Or.inl hq, fun hs hhs => by rw [hq] at hhs; cases hhs⟩

/-! ### the zero-padding accident -/

/-- key 2, timestamp 125, no meta, no data: at offset 20 the last byte of its header (the top byte of the
    header checksum) is 0, its meta bytes (`le64 0`) are zeros -/
def wZ : Record := Record.create 3 2 125 none []

/-- the first write is cut after 59 of its 68 bytes (one byte short of the 60-byte header) and returns
    an error; the next write succeeds -/
def paddedSteps : List (Record × Outcome) := [(wZ, .short 59), (wA, .ok)]

set_option maxRecDepth 1000000 in
/-- FALSE: "a failed step that left less than a header makes every later start-up scan stop there".
    The later write lands at the reserved offset 88; the hole between 79 and 88 reads as zeros, which
    completes the failed record's header (checksum top byte 0) and its meta (`le64 0`). Start-up — even
    with data validation — opens the blob with the FAILED write's header first, and the failed write is
    fully readable. -/
theorem torn_header_zero_padded_accepted :
    acks 4096 fresh paddedSteps = [false, true] ∧
    cut 4096 wZ (.short 59) < 57 + 3 ∧
    (run 4096 fresh paddedSteps).index = [(writtenHeader wA 88 4096, 88)] ∧
    (∀ v, openBlob 3 v (fileAfter 4096 paddedSteps) =
      .ok [writtenHeader wZ 20 4096, writtenHeader wA 88 4096]) ∧
    entryLoad (fileAfter 4096 paddedSteps) (writtenHeader wZ 20 4096) = .ok (serMeta none, []) ∧
    ¬ (∀ (klen maxSP : Nat) (v : Bool) (oks later : List (Record × Outcome)) (R : Record) (o : Outcome),
        allOk oks → o ≠ .ok → cut maxSP R o < 57 + klen →
        (∃ s ∈ later, cut maxSP (Prod.fst s) (Prod.snd s) ≠ 0) →
        GoodRecs klen ((oks ++ (R, o) :: later).map Prod.fst) →
        openBlob klen v (fileAfter maxSP (oks ++ (R, o) :: later)) = .quarantine) := by
  have hopen : ∀ v, openBlob 3 v (fileAfter 4096 paddedSteps) =
      .ok [writtenHeader wZ 20 4096, writtenHeader wA 88 4096] := by
    intro v; cases v <;> decide
  refine ⟨by decide, by decide, by decide, hopen, by decide, ?_⟩
  intro hall
  have hg : GoodRecs 3 ((([] : List (Record × Outcome)) ++ (wZ, Outcome.short 59) ::
      [(wA, Outcome.ok)]).map Prod.fst) := by
    intro R hR
    simp only [List.nil_append, List.map_cons, List.map_nil, List.mem_cons, List.not_mem_nil,
      or_false] at hR
    rcases hR with rfl | rfl
    · exact ⟨Record.create_WF .., by decide⟩
    · exact ⟨Record.create_WF .., by decide⟩
  have := hall 3 4096 false [] [(wA, .ok)] wZ (.short 59) (by intro s hs; cases hs)
    (by intro h; cases h) (by decide) ⟨(wA, .ok), by simp, by decide⟩ hg
  have h2 := hopen false
  simp only [List.nil_append] at this
  rw [show paddedSteps = [(wZ, Outcome.short 59), (wA, Outcome.ok)] from rfl] at h2
  rw [h2] at this
  cases this

/-! ## start-up after ANY sequence of steps: the file and the scan, region by region

`fileBody maxSP off steps` (Pearl/Proofs/ScanRegions.lean) is the file content from `off` on: every step owns
the `recLen r` bytes it reserved; its region holds the first `cut` bytes of the record image and is
zero-filled to its end iff a later step wrote something; the file ends after the last byte written.
`scanRegions klen maxSP v off steps` is what the scan loop returns on it; `NoAccident klen maxSP off steps`
says that the FIRST step that left less than a header — the only one that matters, the scan never gets past
it — is not a zero-padding accident (`torn_header_zero_padded_accepted`). -/

/-- `paddedHeader` above is the `paddedHdr` of the lemma file -/
theorem paddedHeader_eq (klen : Nat) (R : Record) (off c : Nat) :
    paddedHeader klen R off c = paddedHdr klen R off c := rfl

/-- the reservation counter after a run -/
theorem size_after (maxSP : Nat) (steps : List (Record × Outcome)) :
    (run maxSP fresh steps).file.size = 20 + regionsLen steps := run_size maxSP fresh steps

/-- (R1) THE FILE after any sequence of steps: the blob header, then the regions -/
theorem fileAfter_regions (maxSP : Nat) (steps : List (Record × Outcome)) :
    fileAfter maxSP steps = serBlobHeader ++ fileBody maxSP 20 steps :=
  fresh_run_fileBody maxSP steps

/-- (R2) THE SCAN, for every sequence of steps, with and without data validation: start-up opens the
    blob with the headers `scanRegions` lists or quarantines it where `scanRegions` stops; and the scan loop
    itself returns exactly `scanRegions` (any sufficient loop bound) -/
theorem startup_scan_regions (klen maxSP : Nat) (v : Bool) (steps : List (Record × Outcome))
    (hg : GoodRecs klen (steps.map (·.1))) (hna : NoAccident klen maxSP 20 steps)
    (hsz : (run maxSP fresh steps).file.size < 2 ^ 64) :
    openBlob klen v (fileAfter maxSP steps) =
      (match scanRegions klen maxSP v 20 steps with
       | .error _ => .quarantine
       | .ok l => .ok (l.map (·.2))) ∧
    ∀ fuel, (fileAfter maxSP steps).length ≤ 20 + 57 * fuel →
      rawLoop v (fileAfter maxSP steps) (57 + klen) fuel 20 = scanRegions klen maxSP v 20 steps := by
  rw [size_after] at hsz
  rw [fileAfter_regions]
  exact ⟨openBlob_regions klen maxSP v steps hg hna hsz,
    fun fuel hf => rawLoop_regions klen maxSP v steps 20 serBlobHeader fuel (serBlobHeader_length _) hg hna
      hsz hf⟩

/-- (R3) for EVERY file: if start-up with data validation opens the blob, start-up without data
    validation opens it with the same headers (validation can only turn "opened" into "quarantined") -/
theorem startup_validating_implies_plain (klen : Nat) (file : List UInt8) (hs : List RecHeader)
    (h : openBlob klen true file = .ok hs) : openBlob klen false file = .ok hs :=
  openBlob_true_false klen file hs h

/-- every sequence of steps has one of two shapes: steps that all left a complete header followed by
    steps that left nothing; or such steps, then a step that left less than a header with something in the
    file at or after it -/
theorem restart_cases (klen maxSP : Nat) (steps : List (Record × Outcome)) :
    (∃ good silent, steps = good ++ silent ∧ (∀ s ∈ good, 57 + klen ≤ cut maxSP s.1 s.2) ∧
      ∀ s ∈ silent, cut maxSP s.1 s.2 = 0) ∨
    (∃ good R o later, steps = good ++ (R, o) :: later ∧ (∀ s ∈ good, 57 + klen ≤ cut maxSP s.1 s.2) ∧
      cut maxSP R o < 57 + klen ∧ (cut maxSP R o ≠ 0 ∨ ∃ s ∈ later, cut maxSP s.1 s.2 ≠ 0)) := by
  induction steps with
  | nil => exact Or.inl ⟨[], [], rfl, by simp, by simp⟩
  | cons x rest ih =>
    obtain ⟨r, o⟩ := x
    by_cases hc : 57 + klen ≤ cut maxSP r o
    · rcases ih with ⟨g, s, rfl, hg, hs⟩ | ⟨g, R, o', l, rfl, hg, h1, h2⟩
      · refine Or.inl ⟨(r, o) :: g, s, rfl, ?_, hs⟩
        intro y hy
        rcases List.mem_cons.mp hy with rfl | hy
        · exact hc
        · exact hg y hy
      · refine Or.inr ⟨(r, o) :: g, R, o', l, rfl, ?_, h1, h2⟩
        intro y hy
        rcases List.mem_cons.mp hy with rfl | hy
        · exact hc
        · exact hg y hy
    · by_cases hsil : cut maxSP r o = 0 ∧ ∀ s ∈ rest, cut maxSP s.1 s.2 = 0
      · refine Or.inl ⟨[], (r, o) :: rest, rfl, by simp, ?_⟩
        intro y hy
        rcases List.mem_cons.mp hy with rfl | hy
        · exact hsil.1
        · exact hsil.2 y hy
      · refine Or.inr ⟨[], r, o, rest, rfl, by simp, by omega, ?_⟩
        by_cases h0 : cut maxSP r o = 0
        · right
          apply Classical.byContradiction
          intro hne
          apply hsil
          refine ⟨h0, fun s hs => ?_⟩
          apply Classical.byContradiction
          intro hc'
          exact hne ⟨s, hs, hc'⟩
        · exact Or.inl h0

/-- (R4) first shape — every step of `good` left a complete header (successful writes, `short n` with
    `n ≥` header size, `failSecond` on two-buffer records), the steps after them left nothing.
    Start-up WITHOUT data validation opens the blob exactly as if every step of `good` had been a
    successful write: acknowledged and FAILED ones alike (E8, now with any number of failed steps and with
    later writes). With data validation it opens it the same way or quarantines it. The acknowledged headers
    are among the headers served. -/
theorem restart_opens_with_all_complete_headers (klen maxSP : Nat) (good silent : List (Record × Outcome))
    (hgood : ∀ s ∈ good, 57 + klen ≤ cut maxSP s.1 s.2) (hsil : ∀ s ∈ silent, cut maxSP s.1 s.2 = 0)
    (hg : GoodRecs klen ((good ++ silent).map (·.1)))
    (hsz : (run maxSP fresh (good ++ silent)).file.size < 2 ^ 64) :
    openBlob klen false (fileAfter maxSP (good ++ silent)) =
      .ok (writtenHeaders serBlobHeader (good.map (·.1))) ∧
    (∀ hs, openBlob klen true (fileAfter maxSP (good ++ silent)) = .ok hs →
      hs = writtenHeaders serBlobHeader (good.map (·.1))) ∧
    (ackedHeaders maxSP fresh (good ++ silent)).Sublist (writtenHeaders serBlobHeader (good.map (·.1))) := by
  have hna : NoAccident klen maxSP 20 (good ++ silent) :=
    (noAccident_good_append klen maxSP good silent hgood 20).mpr (noAccident_silent klen maxSP _ silent hsil)
  have hopen := (startup_scan_regions klen maxSP false (good ++ silent) hg hna hsz).1
  rw [scanRegions_good_append klen maxSP good silent hgood 20,
    scanRegions_silent klen maxSP false _ silent hsil] at hopen
  simp only [List.append_nil] at hopen
  rw [← serBlobHeader_length BlobHeader.new, ← writtenHeaders_eq] at hopen
  refine ⟨hopen, ?_, ?_⟩
  · intro hs h
    have := startup_validating_implies_plain klen _ hs h
    rw [hopen] at this
    cases this; rfl
  · have hsub := ackedHeaders_sublist maxSP fresh good
    have hack : ackedHeaders maxSP fresh (good ++ silent) = ackedHeaders maxSP fresh good := by
      unfold ackedHeaders
      rw [acked_append, acked_silent maxSP _ silent hsil, List.append_nil]
    rw [hack, writtenHeaders_eq, serBlobHeader_length]
    exact hsub

/-- (R4, with data validation) if moreover every step of `good` left its COMPLETE record or a record without
    data (only meta bytes missing, which no scan reads), start-up with data validation opens the blob with
    the same headers. (For a step that left part of a record WITH data, the validating scan reads the
    zero-filled / truncated data: `scanRegions` with `dataStop` says exactly what happens.) -/
theorem restart_opens_with_all_complete_headers_validating (klen maxSP : Nat) (v : Bool)
    (good silent : List (Record × Outcome))
    (hgood : ∀ s ∈ good, 57 + klen ≤ cut maxSP s.1 s.2)
    (hdata : ∀ s ∈ good, recLen s.1 ≤ cut maxSP s.1 s.2 ∨ s.1.data = [])
    (hsil : ∀ s ∈ silent, cut maxSP s.1 s.2 = 0)
    (hg : GoodRecs klen ((good ++ silent).map (·.1)))
    (hsz : (run maxSP fresh (good ++ silent)).file.size < 2 ^ 64) :
    openBlob klen v (fileAfter maxSP (good ++ silent)) =
      .ok (writtenHeaders serBlobHeader (good.map (·.1))) := by
  have hna : NoAccident klen maxSP 20 (good ++ silent) :=
    (noAccident_good_append klen maxSP good silent hgood 20).mpr (noAccident_silent klen maxSP _ silent hsil)
  have hopen := (startup_scan_regions klen maxSP v (good ++ silent) hg hna hsz).1
  rw [scanRegions_good_append_v klen maxSP v good silent hgood (fun _ => hdata) 20,
    scanRegions_silent klen maxSP v _ silent hsil] at hopen
  simp only [List.append_nil] at hopen
  rw [← serBlobHeader_length BlobHeader.new, ← writtenHeaders_eq] at hopen
  exact hopen

/-- (R5) second shape — after steps that all left a complete header, a step left LESS than a header
    (`failBefore`, `short n` with `n` below the header size, `failSecond` on a one-buffer record) and
    something is in the file at or after it. Start-up quarantines the blob, with or without data
    validation — provided that step is not a zero-padding accident. The failing step need not be the first. -/
theorem restart_quarantines_at_short_region (klen maxSP : Nat) (v : Bool)
    (good later : List (Record × Outcome)) (R : Record) (o : Outcome)
    (hgood : ∀ s ∈ good, 57 + klen ≤ cut maxSP s.1 s.2) (hc : cut maxSP R o < 57 + klen)
    (hw : cut maxSP R o ≠ 0 ∨ ∃ s ∈ later, cut maxSP s.1 s.2 ≠ 0)
    (hpad : 0 < cut maxSP R o → (∃ s ∈ later, cut maxSP s.1 s.2 ≠ 0) →
      PadBad klen R (20 + regionsLen good) (cut maxSP R o))
    (hg : GoodRecs klen ((good ++ (R, o) :: later).map (·.1)))
    (hsz : (run maxSP fresh (good ++ (R, o) :: later)).file.size < 2 ^ 64) :
    openBlob klen v (fileAfter maxSP (good ++ (R, o) :: later)) = .quarantine := by
  have hna : NoAccident klen maxSP 20 (good ++ (R, o) :: later) := by
    rw [noAccident_good_append klen maxSP good _ hgood 20]
    simp only [NoAccident]
    rw [if_pos hc]
    intro h0 hne
    apply hpad h0
    apply Classical.byContradiction
    intro hno
    apply hne
    rw [fileBody_eq_nil_iff]
    intro s hs
    apply Classical.byContradiction
    intro hc'
    exact hno ⟨s, hs, hc'⟩
  rw [(startup_scan_regions klen maxSP v _ hg hna hsz).1]
  obtain ⟨e, he⟩ := scanRegions_stop klen maxSP v (20 + regionsLen good) R o later hc hw
  rcases scanRegions_good_append_any klen maxSP v good ((R, o) :: later) hgood 20 with ⟨e', he'⟩ | heq
  · rw [he']
  · rw [heq, he]

/-- (R6 = item 1) A step — not necessarily the first failing one — that left less than a header is NEVER
    in the index a restart builds, with or without data validation, whatever the steps before and after
    it did; the only hypothesis about accidents concerns the first step that left less than a header. -/
theorem failed_not_served_later_general (klen maxSP : Nat) (a b : List (Record × Outcome)) (R : Record)
    (o : Outcome) (hc : cut maxSP R o < 57 + klen)
    (hg : GoodRecs klen ((a ++ (R, o) :: b).map (·.1)))
    (hna : NoAccident klen maxSP 20 (a ++ (R, o) :: b))
    (hsz : (run maxSP fresh (a ++ (R, o) :: b)).file.size < 2 ^ 64) :
    ∀ v hs, openBlob klen v (fileAfter maxSP (a ++ (R, o) :: b)) = .ok hs →
      writtenHeader R (run maxSP fresh a).file.size maxSP ∉ hs := by
  intro v hs hopen hmem
  rw [(startup_scan_regions klen maxSP v _ hg hna hsz).1] at hopen
  cases hsr : scanRegions klen maxSP v 20 (a ++ (R, o) :: b) with
  | error e => rw [hsr] at hopen; cases hopen
  | ok l =>
    rw [hsr] at hopen
    cases hopen
    obtain ⟨x, hx, hxe⟩ := List.mem_map.mp hmem
    have hlt := scanRegions_offsets_lt klen maxSP v a b R o hc 20 l hsr x hx
    rw [hxe, writtenHeader_eq, size_after] at hlt
    exact Nat.lt_irrefl _ hlt

/-- the same with the hypothesis in the form "no zero-padding accident at any failed step of
    `a ++ [(R, o)]`" (nothing is assumed about the steps after `(R, o)`) -/
theorem failed_not_served_later_general' (klen maxSP : Nat) (a b : List (Record × Outcome)) (R : Record)
    (o : Outcome) (hc : cut maxSP R o < 57 + klen)
    (hg : GoodRecs klen ((a ++ (R, o) :: b).map (·.1)))
    (hna : NoPadAccidentAll klen maxSP 20 (a ++ [(R, o)]))
    (hsz : (run maxSP fresh (a ++ (R, o) :: b)).file.size < 2 ^ 64) :
    ∀ v hs, openBlob klen v (fileAfter maxSP (a ++ (R, o) :: b)) = .ok hs →
      writtenHeader R (run maxSP fresh a).file.size maxSP ∉ hs :=
  failed_not_served_later_general klen maxSP a b R o hc hg
    (noAccident_of_all_prefix klen maxSP a b R o hc 20 hna) hsz

/-- (R7 = item 2) `failed_write_indexed_after_restart` when later steps DO write: after acknowledged
    writes, a failed write that left its complete header is accepted by the scan without data validation,
    which continues at the next region; the blob is opened iff the scan of the later regions succeeds, and
    then the FAILED write's header is in the index, between the acknowledged headers before it and
    whatever the later regions contribute -/
theorem failed_write_indexed_after_restart_later (klen maxSP : Nat)
    (oks later : List (Record × Outcome)) (R : Record) (o : Outcome) (hok : allOk oks)
    (hc1 : 57 + klen ≤ cut maxSP R o)
    (hg : GoodRecs klen ((oks ++ (R, o) :: later).map (·.1)))
    (hna : NoAccident klen maxSP (20 + (tailOf 20 (oks.map (·.1))).length + recLen R) later)
    (hsz : (run maxSP fresh (oks ++ (R, o) :: later)).file.size < 2 ^ 64) :
    openBlob klen false (fileAfter maxSP (oks ++ (R, o) :: later)) =
      match scanRegions klen maxSP false (20 + (tailOf 20 (oks.map (·.1))).length + recLen R) later with
      | .error _ => .quarantine
      | .ok l => .ok (ackedHeaders maxSP fresh oks ++
          [writtenHeader R (20 + (tailOf 20 (oks.map (·.1))).length) maxSP] ++ l.map (·.2)) := by
  have hgood : ∀ s ∈ oks ++ [(R, o)], 57 + klen ≤ cut maxSP s.1 s.2 := by
    intro s hs
    rcases List.mem_append.mp hs with hs | hs
    · have hwf := (hg s.1 (List.mem_map_of_mem (List.mem_append_left _ hs))).1
      have ho : s.2 = .ok := hok s hs
      rw [ho]
      exact ok_cut_ge maxSP s.1 hwf
    · rw [List.mem_singleton] at hs; subst hs; exact hc1
  have hsplit : oks ++ (R, o) :: later = (oks ++ [(R, o)]) ++ later := by simp
  have hrl : regionsLen (oks ++ [(R, o)]) = (tailOf 20 (oks.map (·.1))).length + recLen R := by
    rw [regionsLen_append, tailOf_length_regionsLen]; simp [regionsLen]
  have hna' : NoAccident klen maxSP 20 (oks ++ (R, o) :: later) := by
    rw [hsplit, noAccident_good_append klen maxSP _ later hgood 20, hrl, ← Nat.add_assoc]
    exact hna
  rw [(startup_scan_regions klen maxSP false _ hg hna' hsz).1]
  conv => lhs; rw [hsplit, scanRegions_good_append klen maxSP _ later hgood 20, hrl, ← Nat.add_assoc]
  cases scanRegions klen maxSP false (20 + (tailOf 20 (oks.map (·.1))).length + recLen R) later with
  | error e => rfl
  | ok l =>
    simp only [List.map_append, List.map_cons, List.map_nil]
    rw [← serBlobHeader_length BlobHeader.new, ← writtenHeaders_eq, serBlobHeader_length,
      writtenHeaders_snoc, ackedHeaders_allOk maxSP oks hok, writtenHeader_eq]

/-- the general E8 statement: in a run in which every step left at least a complete header (for instance:
    every other write succeeded), followed possibly by steps that left nothing, EVERY failed step is in the
    index a restart without data validation builds — although its write returned an error and it is not in
    the index of the running process -/
theorem failed_write_indexed_after_restart_general (klen maxSP : Nat)
    (a b silent : List (Record × Outcome)) (R : Record) (o : Outcome) (ho : o ≠ .ok)
    (hgood : ∀ s ∈ a ++ (R, o) :: b, 57 + klen ≤ cut maxSP s.1 s.2)
    (hsil : ∀ s ∈ silent, cut maxSP s.1 s.2 = 0)
    (hg : GoodRecs klen (((a ++ (R, o) :: b) ++ silent).map (·.1)))
    (hsz : (run maxSP fresh ((a ++ (R, o) :: b) ++ silent)).file.size < 2 ^ 64) :
    (writeStep maxSP (run maxSP fresh a) R o).2 = false ∧
    (∀ e ∈ (run maxSP fresh ((a ++ (R, o) :: b) ++ silent)).index, e.2 ≠ (run maxSP fresh a).file.size) ∧
    ∃ hs, openBlob klen false (fileAfter maxSP ((a ++ (R, o) :: b) ++ silent)) = .ok hs ∧
      writtenHeader R (run maxSP fresh a).file.size maxSP ∈ hs := by
  refine ⟨not_ok_fails maxSP _ R o ho, ?_, ?_⟩
  · intro e he heq
    rw [List.append_assoc, List.cons_append] at he
    have := failed_step_never_indexed maxSP fresh a (b ++ silent) R o ho e he heq
    simp [fresh] at this
  · obtain ⟨hopen, _, _⟩ := restart_opens_with_all_complete_headers klen maxSP _ silent hgood hsil hg hsz
    refine ⟨_, hopen, ?_⟩
    rw [writtenHeaders_eq, serBlobHeader_length, List.map_append, scanOf_append, List.map_append,
      writtenHeader_eq, size_after, tailOf_length_regionsLen]
    apply List.mem_append_right
    simp only [List.map_cons, scanOf, List.mem_cons, true_or]

/-! ## `dump_failure_keeps_index` -/

/-- a dump that returns an error leaves the blob state exactly as it was: the in-memory index still
    holds every entry -/
theorem dump_failure_keeps_index (st : BlobSt) (o : DumpOutcome) (hfail : (dumpStep st o).2 = false) :
    (dumpStep st o).1 = st := by
  unfold dumpStep at hfail ⊢
  by_cases hd : st.onDisk = true
  · rw [if_pos hd] at hfail; cases hfail
  · rw [if_neg hd] at hfail ⊢
    cases o with
    | syncFail => rfl
    | ok =>
      simp only at hfail ⊢
      by_cases he : st.index.isEmpty = true
      · rw [if_pos he] at hfail; cases hfail
      · rw [if_neg he] at hfail; cases hfail
    | buildFail =>
      simp only at hfail ⊢
      by_cases he : st.index.isEmpty = true
      · rw [if_pos he] at hfail; cases hfail
      · rw [if_neg he]

/-- whatever the outcome, a dump changes neither the file nor what lookups see -/
theorem dump_keeps_entries (st : BlobSt) (o : DumpOutcome) :
    (dumpStep st o).1.entries = st.entries ∧ (dumpStep st o).1.file = st.file := by
  unfold dumpStep
  by_cases hd : st.onDisk = true
  · rw [if_pos hd]; exact ⟨rfl, rfl⟩
  · rw [if_neg hd]
    have hd' : st.onDisk = false := by cases h : st.onDisk <;> simp_all
    cases o with
    | syncFail => exact ⟨rfl, rfl⟩
    | ok =>
      simp only
      by_cases he : st.index.isEmpty = true
      · rw [if_pos he]
        have : st.index = [] := List.isEmpty_iff.mp he
        simp [BlobSt.entries, hd', this]
      · rw [if_neg he]
        simp [BlobSt.entries, hd']
    | buildFail =>
      simp only
      by_cases he : st.index.isEmpty = true
      · rw [if_pos he]
        have : st.index = [] := List.isEmpty_iff.mp he
        simp [BlobSt.entries, hd', this]
      · rw [if_neg he]
        exact ⟨rfl, rfl⟩

/-- a successful dump of a non-empty in-memory index: the index is on disk, the index file holds the
    same entries and carries `blob_size` = the reservation counter -/
theorem dump_success_on_disk (st : BlobSt) (hd : st.onDisk = false) (hne : st.index ≠ []) :
    (dumpStep st .ok).2 = true ∧ (dumpStep st .ok).1.onDisk = true ∧
    (dumpStep st .ok).1.idxFile = some (st.index, st.file.size) ∧
    (dumpStep st .ok).1.entries = st.index := by
  have he : ¬ st.index.isEmpty = true := fun h => hne (List.isEmpty_iff.mp h)
  unfold dumpStep
  rw [if_neg (by rw [hd]; simp)]
  simp only [if_neg he]
  simp [BlobSt.entries]

/-- end to end: after any run of write steps and a dump with any outcome, every acknowledged record
    is still found by a lookup and still loads with its bytes -/
theorem acked_readable_after_dump (klen maxSP : Nat) (steps : List (Record × Outcome)) (o : DumpOutcome)
    (hwf : ∀ s ∈ steps, s.1.WF klen ∧ (serMeta s.1.mt).length < 2 ^ 64) :
    let st := (dumpStep (run maxSP fresh steps) o).1
    ∀ x ∈ acked maxSP fresh steps,
      entryOf maxSP x ∈ st.entries ∧
      entryLoad st.file.bytes (writtenHeader x.1 x.2 maxSP) = .ok (serMeta x.1.mt, x.1.data) := by
  intro st x hx
  obtain ⟨he, hf⟩ := dump_keeps_entries (run maxSP fresh steps) o
  obtain ⟨h1, h2⟩ := acked_stay_readable klen maxSP fresh steps (Nat.le_of_eq fresh_le) hwf x hx
  have hd : (run maxSP fresh steps).onDisk = false := by rw [run_onDisk]; rfl
  refine ⟨?_, by show entryLoad (dumpStep _ o).1.file.bytes _ = _; rw [hf]; exact h2⟩
  show entryOf maxSP x ∈ (dumpStep _ o).1.entries
  rw [he]
  unfold BlobSt.entries
  rw [hd]
  exact h1

set_option maxRecDepth 1000000 in
/-- the code before the repair (`mem::take` without putting the headers back): a failed dump empties
    the index, the acknowledged record is no longer found in this session -/
theorem dump_unrepaired_loses_index :
    let st := run 4096 fresh [(wA, .ok)]
    st.entries = [(writtenHeader wA 20 4096, 20)] ∧
    (dumpStepUnrepaired st .buildFail).2 = false ∧
    (dumpStepUnrepaired st .buildFail).1.entries = [] ∧
    (dumpStep st .buildFail).1.entries = [(writtenHeader wA 20 4096, 20)] := by
  refine ⟨by decide, by decide, by decide, by decide⟩

/-- the index file of a blob with a reservation gap (a failed write) is rejected at start-up
    (`IndexBlobSize`): its `blob_size` is the reservation counter, not the length of the file — so the
    index is regenerated by the scan and the E8 case applies even to a blob whose index was dumped -/
theorem dumped_index_rejected_after_failed_write (klen : Nat) (v : Bool) (st : BlobSt)
    (hd : st.onDisk = false) (hne : st.index ≠ []) (hgap : st.file.bytes.length ≠ st.file.size) :
    indexFileAccepted (dumpStep st .ok).1 = false ∧
    restartIndex klen v (dumpStep st .ok).1 = openBlob klen v st.file.bytes := by
  obtain ⟨_, _, hi, _⟩ := dump_success_on_disk st hd hne
  have hf := (dump_keeps_entries st .ok).2
  have hne' : (st.file.size == st.file.bytes.length) = false := by
    simp only [beq_eq_false_iff_ne, ne_eq]; exact fun h => hgap h.symm
  constructor
  · unfold indexFileAccepted; rw [hi, hf]; exact hne'
  · unfold restartIndex; rw [hi, hf]; simp only [hne']; rfl

/-- without a gap the dumped index is accepted and start-up loads exactly the dumped entries -/
theorem dumped_index_accepted_without_gap (klen : Nat) (v : Bool) (st : BlobSt)
    (hd : st.onDisk = false) (hne : st.index ≠ []) (hgap : st.file.bytes.length = st.file.size) :
    restartIndex klen v (dumpStep st .ok).1 = .ok (st.index.map (·.1)) := by
  obtain ⟨_, _, hi, _⟩ := dump_success_on_disk st hd hne
  have hf := (dump_keeps_entries st .ok).2
  unfold restartIndex; rw [hi, hf]; simp [hgap]


/-! ## non-vacuity -/

set_option maxRecDepth 1000000

/-- a run with every kind of outcome: ok, failBefore, ok, short inside the header, ok, failSecond
    (threshold 10, so every record is a two-buffer record), ok -/
def mixedSteps : List (Record × Outcome) :=
  [(wA, .ok), (wB, .failBefore), (wB, .ok), (wZ, .short 7), (wA, .ok), (wB, .failSecond), (wZ, .ok)]

example : acks 10 fresh mixedSteps = [true, false, true, false, true, false, true] := by decide
example : (acked 10 fresh mixedSteps).map (·.2) = [20, 165, 306, 451] := by decide
example : (run 10 fresh mixedSteps).file.size = 519 ∧ (run 10 fresh mixedSteps).file.bytes.length = 519 := by
  decide
-- the hypotheses of `acked_stay_readable` hold for it, and so does the conclusion (by the theorem)
example : ∀ x ∈ acked 10 fresh mixedSteps,
    entryLoad (run 10 fresh mixedSteps).file.bytes (writtenHeader x.1 x.2 10) = .ok (serMeta x.1.mt, x.1.data) :=
  fun x hx => (acked_stay_readable 3 10 fresh mixedSteps (Nat.le_of_eq fresh_le) (by
    intro s hs
    simp only [mixedSteps, List.mem_cons, List.not_mem_nil, or_false] at hs
    rcases hs with rfl | rfl | rfl | rfl | rfl | rfl | rfl <;>
      exact ⟨Record.create_WF .., by decide⟩) x hx).2
-- the hole left by the `failBefore` step quarantines the blob (first fault = step 1, later steps write)
example : openBlob 3 false (fileAfter 10 mixedSteps) = .quarantine := by decide
-- `failSecond` as the last step: indexed after the restart (general theorem, instance by evaluation)
example : twoBuf 10 wB ∧ acks 10 fresh [(wA, .ok), (wB, .failSecond)] = [true, false] ∧
    openBlob 3 false (fileAfter 10 [(wA, .ok), (wB, .failSecond)]) =
      .ok [writtenHeader wA 20 10, writtenHeader wB 92 10] := by decide
-- a reservation gap: `size` is ahead of the file after a failed write
example : (run 4096 fresh [(wA, .ok), (wB, .failBefore)]).file.size = 165 ∧
    (run 4096 fresh [(wA, .ok), (wB, .failBefore)]).file.bytes.length = 92 := by decide
-- (a) nothing written, nothing later: the blob opens with the acknowledged header only
example : openBlob 3 false (fileAfter 4096 [(wA, .ok), (wB, .failBefore)]) = .ok [writtenHeader wA 20 4096] := by
  decide
-- (c) cut inside the header, nothing later: quarantine
example : openBlob 3 false (fileAfter 4096 [(wA, .ok), (wB, .short 30)]) = .quarantine := by decide
-- (d) cut inside the header, a later write: quarantine here, because the padded header does not validate
example : openBlob 3 false (fileAfter 4096 [(wA, .ok), (wB, .short 30), (wA, .ok)]) = .quarantine := by decide

/-! ### non-vacuity of the region theorems -/

theorem goodW (steps : List (Record × Outcome)) (h : ∀ s ∈ steps, s.1 = wA ∨ s.1 = wB ∨ s.1 = wZ) :
    GoodRecs 3 (steps.map (·.1)) := by
  intro R hR
  obtain ⟨s, hs, rfl⟩ := List.mem_map.mp hR
  rcases h s hs with h | h | h <;> rw [h] <;> exact ⟨Record.create_WF .., by decide⟩

/-- an acknowledged write; a FAILED write that left its header and 2 more of its 73 bytes; a successful
    write AFTER it (which zero-fills the rest of the failed write's region); a write that failed before
    anything was written -/
def regionSteps : List (Record × Outcome) := [(wA, .ok), (wB, .short 62), (wA, .ok), (wZ, .failBefore)]

-- (R1) the file, region by region
example : fileBody 4096 20 regionSteps =
    wA.image 20 ++ ((wB.image 92).take 62 ++ List.replicate 11 0) ++ wA.image 165 := by decide
-- the hypotheses of (R2) hold for it
example : NoAccident 3 4096 20 regionSteps ∧ (run 4096 fresh regionSteps).file.size < 2 ^ 64 := by decide
-- (R2) without validation: opened, the failed write in the middle of the index
example : openBlob 3 false (fileAfter 4096 regionSteps) =
    .ok [writtenHeader wA 20 4096, writtenHeader wB 92 4096, writtenHeader wA 165 4096] := by
  rw [(startup_scan_regions 3 4096 false regionSteps (goodW _ (by decide)) (by decide) (by decide)).1]
  decide
-- (R2) with validation: the zero-filled data of the failed write fails its checksum, quarantine
example : scanRegions 3 4096 true 20 regionSteps = .error (.load .recordDataChecksum) ∧
    openBlob 3 true (fileAfter 4096 regionSteps) = .quarantine := by
  refine ⟨by decide, ?_⟩
  rw [(startup_scan_regions 3 4096 true regionSteps (goodW _ (by decide)) (by decide) (by decide)).1]
  decide
-- (R4) instance: good = the first three steps, silent = the last
example : openBlob 3 false (fileAfter 4096 regionSteps) =
    .ok (writtenHeaders serBlobHeader [wA, wB, wA]) :=
  (restart_opens_with_all_complete_headers 3 4096 [(wA, .ok), (wB, .short 62), (wA, .ok)]
    [(wZ, .failBefore)] (by decide) (by decide) (goodW _ (by decide)) (by decide)).1
-- (R4, validating) instance: a failed DELETE-like write without data (`wZ`, 63 of its 68 bytes) between two
-- successful writes: opened with all three headers even with data validation
example : ∀ v, openBlob 3 v (fileAfter 4096 ([(wA, .ok), (wZ, .short 63), (wB, .ok)] ++ [(wA, .failBefore)])) =
    .ok (writtenHeaders serBlobHeader [wA, wZ, wB]) := fun v =>
  restart_opens_with_all_complete_headers_validating 3 4096 v [(wA, .ok), (wZ, .short 63), (wB, .ok)]
    [(wA, .failBefore)] (by decide) (by decide) (by decide) (goodW _ (by decide)) (by decide)
-- (R5) instance: the SECOND failing step left 7 bytes, a later write follows: quarantine
example : ∀ v, openBlob 3 v (fileAfter 4096 [(wA, .ok), (wB, .short 62), (wZ, .short 7), (wA, .ok)]) =
    .quarantine := fun v =>
  restart_quarantines_at_short_region 3 4096 v [(wA, .ok), (wB, .short 62)] [(wA, .ok)] wZ (.short 7)
    (by decide) (by decide) (by decide) (fun _ _ => by decide) (goodW _ (by decide)) (by decide)
-- (R6) instance, not vacuous: the failing step is the third one (the second failing one); the blob IS
-- opened, without the header of that step
example : (∀ v hs, openBlob 3 v (fileAfter 4096 ([(wA, .ok), (wB, .short 62)] ++ (wZ, .failBefore) :: [])) =
      .ok hs → writtenHeader wZ (run 4096 fresh [(wA, .ok), (wB, .short 62)]).file.size 4096 ∉ hs) ∧
    openBlob 3 false (fileAfter 4096 ([(wA, .ok), (wB, .short 62)] ++ (wZ, .failBefore) :: [])) =
      .ok [writtenHeader wA 20 4096, writtenHeader wB 92 4096] :=
  ⟨failed_not_served_later_general 3 4096 [(wA, .ok), (wB, .short 62)] [] wZ .failBefore (by decide)
    (goodW _ (by decide)) (by decide) (by decide), by decide⟩
-- (R7) instance: acknowledged write, failed write with complete header, then later steps that write
example : openBlob 3 false (fileAfter 4096 ([(wA, .ok)] ++ (wB, .short 62) :: [(wA, .ok), (wZ, .failBefore)])) =
    .ok (ackedHeaders 4096 fresh [(wA, .ok)] ++ [writtenHeader wB 92 4096] ++ [writtenHeader wA 165 4096]) := by
  rw [failed_write_indexed_after_restart_later 3 4096 [(wA, .ok)] [(wA, .ok), (wZ, .failBefore)] wB
    (.short 62) (by unfold allOk; decide) (by decide) (goodW _ (by decide)) (by decide) (by decide)]
  decide
-- the general E8 statement on the same run
example : ∃ hs, openBlob 3 false (fileAfter 4096 (([(wA, .ok)] ++ (wB, .short 62) :: [(wA, .ok)]) ++
      [(wZ, .failBefore)])) = .ok hs ∧
    writtenHeader wB (run 4096 fresh [(wA, .ok)]).file.size 4096 ∈ hs :=
  (failed_write_indexed_after_restart_general 3 4096 [(wA, .ok)] [(wA, .ok)] [(wZ, .failBefore)] wB
    (.short 62) (by decide) (by decide) (by decide) (goodW _ (by decide)) (by decide)).2.2
-- the accident of `torn_header_zero_padded_accepted` is exactly what `NoAccident` excludes
example : ¬ NoAccident 3 4096 20 paddedSteps := by decide

end Pearl.C11

/-
Statements that are FALSE of the model and are kept as refutation + `_partial` version:
  * `failed_not_served_later` ("a write that returned an error is never in the index after a restart"):
    refuted by `failed_not_served_later_false` on `witnessSteps`
      [write key 1 ts 101 data 01..04 → Ok;  write key 2 ts 102 data 05..09 with the pwrite cut after 62 of
       73 bytes → Err;  restart without index file, validate_data_during_index_regen = false]
    → the index holds the header of key 2 (finding E8). General forms: `failed_write_indexed_after_restart`
    (every `short n` with header size ≤ n < record length), `failed_write_indexed_after_restart_failSecond`.
    True version: `failed_not_served_later_partial`.
  * "if the first failing step left less than a header (`failBefore`, `short n`, n < header size), every
    start-up scan stops with an error there": refuted by `torn_header_zero_padded_accepted` on `paddedSteps`
      [write key 2 ts 125 no data with the pwrite cut after 59 of 68 bytes → Err;  write key 1 ts 101 → Ok;
       restart] → the blob opens with BOTH headers and the failed write is fully readable: the hole between
    the cut and the next reservation reads as zeros and completes the header (1 in 256 headers end in a
    zero byte) and the empty meta. Also false, trivially, when NOTHING was written and nothing follows (the
    file is then simply the intact blob → `first_fault_nothing_written`). True versions:
    `first_fault_hole_quarantine`, `first_fault_torn_header_quarantine`,
    `first_fault_torn_header_padded_partial`.

PROVED SINCE (section "start-up after ANY sequence of steps", lemmas in Pearl/Proofs/ScanRegions.lean)
  * former item 1, the region-by-region description of the scan of `fileAfter maxSP steps` for ANY sequence of
    steps: `fileAfter_regions` (the file), `startup_scan_regions` (the scan loop returns exactly `scanRegions`, with
    and without data validation; start-up opens / quarantines accordingly), `startup_validating_implies_plain`,
    the two closed forms `restart_opens_with_all_complete_headers` (+ `_validating`) and
    `restart_quarantines_at_short_region`, which by `restart_cases` cover every sequence of steps; and the exact
    statement that was asked for, for a failing step that is not the first one:
    `failed_not_served_later_general` (hypothesis `NoAccident`: only the FIRST step that left less than a header
    must not be a zero-padding accident) and `failed_not_served_later_general'` (hypothesis in the form "no
    accident at any failed step of `a ++ [(R, o)]`"). `o ≠ ok` is not needed (it follows from `cut < 57 + klen`).
  * former item 2, `failed_write_indexed_after_restart` when later steps DO write:
    `failed_write_indexed_after_restart_later` (after acknowledged writes, any later steps: opened iff the scan
    of the later regions succeeds, with the failed header between the acknowledged ones and the later ones) and
    `failed_write_indexed_after_restart_general` (any number of failed steps with complete headers anywhere in
    the run: every one of them is in the index after a restart without data validation).

NOT YET PROVED
  1. With data validation and a failed step that left a complete header but only part of a record WITH data,
     followed by a later write: `startup_scan_regions` says exactly what happens (`dataStop`: the zero-filled
     data must have the CRC of the real data), but there is no closed form — whether a zero-filled remainder
     passes the CRC is a property of the data (it does when the missing bytes were zeros).
  2. The first region when it holds less than a header: `RawRecords::start` may fail with a different error
     (`BlobKeySize`, `RecordMagicByte`) than the loop would (`scanRegions`); both quarantine, and the theorems at
     `openBlob` level do not distinguish them. The loop-level theorem (`startup_scan_regions`, second clause) is exact.
-/
