import Pearl.Proofs.FsLemmas
import Pearl.Proofs.SyncProto
import Pearl.Proofs.SyncProto2
import Pearl.Proofs.SyncProto3
/-
C12: durability ordering, on the file / trace layer (L6, `Pearl/Model/Fs.lean`).

All statements are about `Fs.run dup limit klen unc rs ops`: the state and the trace (list of file
events in the order the implementation issues them at quiescence) after `init` on an empty directory
and an arbitrary list `ops` of driver-level operations, for any dirty-bytes limit, key length and
either behaviour of the explicit `fsync` (`unc`).
-/
namespace Pearl
open Fs

/-- For every blob file, the first three events on it are: create, the 20-byte blob header at offset 0,
    and an fsync publishing those 20 bytes.  (`proj id t` = the events of `t` on blob file `id`.) -/
theorem header_synced_before_first_record (dup : Bool) (limit klen : Nat) (unc rs : Bool) (ops : List FsOp)
    (id : Nat) :
    proj id (run dup limit klen unc rs ops).2 = [] ∨ hdr3 id <+: proj id (run dup limit klen unc rs ops).2 := by
  have h := (run_diskInv dup limit klen unc rs ops).hdr id
  cases hf : (run dup limit klen unc rs ops).1.disk.files id with
  | none => exact Or.inl (h.1 hf)
  | some f => exact Or.inr (h.2 (by simp [hf]))

/-- … and they precede every record write to that file (any write that is not the header write at 0):
    the three events are already in the part of the trace before it.  The operation that wrote the record
    returns (acknowledges) after its write, so the header is durable before any acknowledgement. -/
theorem record_write_after_header_sync (dup : Bool) (limit klen : Nat) (unc rs : Bool) (ops : List FsOp)
    (id off len : Nat) (pre post : List Event)
    (h : (run dup limit klen unc rs ops).2 = pre ++ Event.write (.blob id) off len :: post) (hoff : off ≠ 0) :
    hdr3 id <+: proj id pre := by
  rcases header_synced_before_first_record dup limit klen unc rs ops id with h0 | h1
  · rw [h, proj_append] at h0
    simp [proj, Event.file] at h0
  · rw [h] at h1
    exact hdr3_before_write h1 hoff

/-- Every rewrite of an index header with the `written` bit (the moment the index file becomes valid,
    recording `blob_size = bs`) is preceded by an fsync of the blob file that published at least `bs`,
    with no write to the blob file in between, and the next event on the index file is its own fsync. -/
theorem index_written_after_blob_sync (dup : Bool) (limit klen : Nat) (unc rs : Bool) (ops : List FsOp)
    (i bs : Nat) (pre post : List Event)
    (h : (run dup limit klen unc rs ops).2 = pre ++ Event.idxHeader i bs true :: post) :
    (∃ p1 p2 n, pre = p1 ++ Event.sync (.blob i) n :: p2 ∧ bs ≤ n ∧
        ∀ e ∈ p2, isWriteOn (.blob i) e = false) ∧
      (∃ q1 q2 n, post = q1 ++ Event.sync (.index i) n :: q2 ∧ ∀ e ∈ q1, e.file ≠ .index i) :=
  (run_diskInv dup limit klen unc rs ops).idx pre post i bs h

/-- After a successful `close_active` (foreground or background) there is no active blob and the
    blob that was closed has `synced = size`. -/
theorem no_dirty_after_close_active (dup : Bool) (limit klen : Nat) (unc rs : Bool) (ops : List FsOp) (a : Blob)
    (ho : (run dup limit klen unc rs ops).1.isOpen = true)
    (ha : (run dup limit klen unc rs ops).1.store.active = some a) :
    let s' := (run dup limit klen unc rs (ops ++ [.closeActive])).1
    s'.store.active = none ∧ ∃ f, s'.disk.files a.id = some f ∧ f.synced = f.size := by
  intro s'
  have hs' : s' = (emit (run dup limit klen unc rs ops).1 .closeActive).1 := by
    simp only [s', run_snoc]
  have h := closeActive_dirty_zero ho ha
  rw [← hs'] at h
  have hex : (s'.disk.files a.id).isSome = true := by
    rw [hs']
    exact (emit_stepOK (run_inv dup limit klen unc rs ops).coh _).grow _
      (file_of_active (run_full dup limit klen unc rs ops) ha)
  obtain ⟨f, hf⟩ := Option.isSome_iff_exists.1 hex
  exact ⟨h.2, f, hf, synced_eq_size_of_dirty_zero (run_diskInv dup limit klen unc rs _).counters h.1 f hf⟩

/-- With the explicit `fsync` syncing unconditionally (/repo since 2b9bef3) the active blob has
    `synced = size` after it. -/
theorem no_dirty_after_explicit_fsync (dup : Bool) (limit klen : Nat) (rs : Bool) (ops : List FsOp) (a : Blob)
    (ho : (run dup limit klen true rs ops).1.isOpen = true)
    (ha : (run dup limit klen true rs ops).1.store.active = some a) :
    let s' := (run dup limit klen true rs (ops ++ [.fsync])).1
    s'.store.active = some a ∧ ∃ f, s'.disk.files a.id = some f ∧ f.synced = f.size := by
  intro s'
  have hs' : s' = (emit (run dup limit klen true rs ops).1 .fsync).1 := by
    simp only [s', run_snoc]
  have h := fsync_dirty_zero ho ha (run_config dup limit klen true rs ops).2.2.1
  rw [← hs'] at h
  have hex : (s'.disk.files a.id).isSome = true := by
    rw [hs']
    exact (emit_stepOK (run_inv dup limit klen true rs ops).coh _).grow _
      (file_of_active (run_full dup limit klen true rs ops) ha)
  obtain ⟨f, hf⟩ := Option.isSome_iff_exists.1 hex
  exact ⟨h.2, f, hf, synced_eq_size_of_dirty_zero (run_diskInv dup limit klen true rs _).counters h.1 f hf⟩

/-- For the code before that repair (`Storage::fsyncdata` → `Inner::fsyncdata`, which gives up while the
    dirty bytes are within the limit) the statement is false: one 10-byte write, then `fsync`, with the
    default limit of 32 MiB leaves 79 un-synced bytes.  Replay: `w 0000000a 5 - 10 1`, `fsync`, `dirty`. -/
theorem explicit_fsync_refuted_current :
    let s' := (run true 33554432 4 false true [.write 10 5 none ⟨10, 1⟩ false, .fsync]).1
    s'.activeDirty = some 79 ∧
      ¬ ∀ a, s'.store.active = some a → ∀ f, s'.disk.files a.id = some f → f.synced = f.size := by
  refine ⟨by decide, ?_⟩
  intro h
  have := h { id := 0, recs := [⟨10, 5, false, none, ⟨10, 1⟩⟩] } (by decide)
    { size := 99, synced := 20, appendMode := false } (by decide)
  simp at this

/-- At every quiescent state (after each driver-level step, background sync completed) the active blob's
    dirty bytes are at most the limit, for ALL operation sequences, with the code as it is since /repo 0ede233
    (`restoreSyncsOverLimit = true`: `restore_active_blob` syncs the restored blob when it is over the limit).
    Exactly the limit is allowed: `too_many_dirty_bytes` is `>`. -/
theorem quiescent_dirty_bounded (dup : Bool) (limit klen : Nat) (unc : Bool) (ops : List FsOp) (a : Blob)
    (ha : (run dup limit klen unc true ops).1.store.active = some a) :
    (run dup limit klen unc true ops).1.dirtyOf a.id ≤ limit := by
  have := run_bounded dup limit klen unc true ops (Or.inl rfl) a ha
  rwa [(run_config dup limit klen unc true ops).2.1] at this

/-- Before that repair (`restoreSyncsOverLimit = false`, /repo up to 6bfe6df) the statement was FALSE:
    a closed blob collects deletion markers that nothing syncs (the dump they trigger is deferred), and
    `restore_active` made it the active blob as it was.  Witness with limit 0
    (`cfg dirty=0`, `w 0000000a 5 - 10 1`, `close_active`, `d 0000000a 9 - 1`, `restore_active`, `dirty`;
    `trace_scripts/h06-dirty-after-restore.txt`, add `restorefix=0` to the `cfg` line for the model):
    69 dirty bytes in the active blob at a quiescent state.  Confirmed on the real library and repaired. -/
theorem quiescent_dirty_bounded_refuted_before_fix :
    let s := (run true 0 4 true false
      [.write 10 5 none ⟨10, 1⟩ false, .closeActive, .delete 10 9 none true, .restoreActive]).1
    s.activeDirty = some 69 ∧ s.limit = 0 := by
  decide

/-- the same run with the repair: `restore_active` emits one `sync` of blob 0 publishing its 168 bytes -/
theorem restore_syncs_over_limit_witness :
    let ops : List FsOp := [.write 10 5 none ⟨10, 1⟩ false, .closeActive, .delete 10 9 none true]
    let s := (run true 0 4 true true ops).1
    (emit s .restoreActive).2 = [.sync (.blob 0) 168] ∧ (emit s .restoreActive).1.activeDirty = some 0 := by
  decide +kernel

/-- the bound of the code before the repair: it held as long as `restore_active` was not used -/
theorem quiescent_dirty_bounded_partial (dup : Bool) (limit klen : Nat) (unc rs : Bool) (ops : List FsOp)
    (h : ∀ op ∈ ops, op.isRestore = false) (a : Blob)
    (ha : (run dup limit klen unc rs ops).1.store.active = some a) :
    (run dup limit klen unc rs ops).1.dirtyOf a.id ≤ limit := by
  have := run_bounded dup limit klen unc rs ops (Or.inr h) a ha
  rwa [(run_config dup limit klen unc rs ops).2.1] at this

/-- a delete re-establishes the bound from any reachable state (so does a write that is not rejected as a
    duplicate, see `keepsB_writeP`) -/
theorem dirty_bounded_after_delete (dup : Bool) (limit klen : Nat) (unc rs : Bool) (ops : List FsOp)
    (k : Key) (ts : Nat) (m : Option Meta) (oip : Bool) (a : Blob)
    (ho : (run dup limit klen unc rs ops).1.isOpen = true)
    (ha : (run dup limit klen unc rs (ops ++ [.delete k ts m oip])).1.store.active = some a) :
    (run dup limit klen unc rs (ops ++ [.delete k ts m oip])).1.dirtyOf a.id ≤ limit := by
  have hc := (run_inv dup limit klen unc rs ops).coh
  have hb : Bounded (run dup limit klen unc rs (ops ++ [.delete k ts m oip])).1 := by
    rw [run_snoc]
    simp only [emit, ho, if_true, prog]
    exact estB_deleteP k ts m oip _ hc
  have := hb a ha
  rwa [(run_config dup limit klen unc rs _).2.1] at this

/-- Found while modelling `Storage::close`: it dumps (and so fsyncs) the active blob only.  A deletion marker
    appended to a *closed* blob is fsynced by the deferred index dump alone (60–180 s by default); a clean
    `close()` before that leaves it un-synced, and the next `open` takes the file length as `synced_size`
    without any fsync.  Replay: `trace_scripts/h09-close-leaves-closed-blob-dirty.txt`. -/
theorem clean_close_leaves_unsynced_bytes :
    let ops : List FsOp := [.write 10 5 none ⟨10, 1⟩ false, .closeActive, .delete 10 9 none true, .close]
    let s := (run true 100000 4 true true ops).1
    s.isOpen = false ∧ (s.disk.files 0).map (·.dirty) = some 69 ∧
      (emit s (.open false)).2 = [.open (.blob 0), .open (.index 0)] ∧
      ((emit s (.open false)).1.disk.files 0).map (·.dirty) = some 0 := by
  decide +kernel

/-! ### non-vacuity -/

/-- the demo run: writes of 10 / 5000 bytes, a close, a delete into the closed blob, a restart -/
def C12Demo.ops : List FsOp :=
  [.write 10 5 none ⟨10, 1⟩ false, .write 11 5 none ⟨5000, 2⟩ false, .closeActive,
   .delete 10 6 none false, .restart false]

-- the trace the harness prints for the same script (`example_script.txt` without its queries):
-- Cb0 Wb0:0:20 Sb0:20 Wb0:20:79 Wb0:99:69 Wb0:168:5000 Sb0:5168 | Sb0:5168 Sb0:5168 Ci0 Wi0:0:* Wi0:hdr:bs=5168:w=1 Si0
-- | Cb1 Wb1:0:20 Sb1:20 Wb1:20:69 Wb0:5168:69 | Sb1:89 Ci1 Wi1:0:* Wi1:hdr:bs=89:w=1 Si1 Ob0 Oi0 Ob1 Oi1
--   Sb0:5237 Ci0 Wi0:0:* Wi0:hdr:bs=5237:w=1 Si0
example : (run true 100 4 true true C12Demo.ops).2 =
    [.create (.blob 0), .write (.blob 0) 0 20, .sync (.blob 0) 20,
     .write (.blob 0) 20 79, .write (.blob 0) 99 69, .write (.blob 0) 168 5000, .sync (.blob 0) 5168,
     .sync (.blob 0) 5168, .sync (.blob 0) 5168, .create (.index 0), .write (.index 0) 0 0,
     .idxHeader 0 5168 true, .sync (.index 0) 0,
     .create (.blob 1), .write (.blob 1) 0 20, .sync (.blob 1) 20, .write (.blob 1) 20 69,
     .write (.blob 0) 5168 69,
     .sync (.blob 1) 89, .create (.index 1), .write (.index 1) 0 0, .idxHeader 1 89 true, .sync (.index 1) 0,
     .open (.blob 0), .open (.index 0), .open (.blob 1), .open (.index 1),
     .sync (.blob 0) 5237, .create (.index 0), .write (.index 0) 0 0, .idxHeader 0 5237 true,
     .sync (.index 0) 0] := by decide +kernel

-- blob 1 exists in that run and its projection starts with the three header events
example : proj 1 (run true 100 4 true true C12Demo.ops).2 ≠ [] := by decide +kernel
-- there are header rewrites in the trace (the hypothesis of `index_written_after_blob_sync` is met)
example : Event.idxHeader 0 5237 true ∈ (run true 100 4 true true C12Demo.ops).2 := by decide +kernel
-- the hypotheses of `no_dirty_after_close_active` hold on a run, and the closed file exists with dirty bytes before
example : (run true 100000 4 true true [.write 10 5 none ⟨10, 1⟩ false]).1.activeDirty = some 79 := by decide
example : ((run true 100000 4 true true [.write 10 5 none ⟨10, 1⟩ false, .closeActive]).1.disk.files 0).map (·.dirty)
    = some 0 := by decide
-- the repaired explicit fsync does sync below the limit
example : (run true 33554432 4 true true [.write 10 5 none ⟨10, 1⟩ false, .fsync]).1.activeDirty = some 0 := by decide
-- dirty bytes exactly at the limit stay un-synced (79 = limit), one byte of limit less and they are synced;
-- the same boundary for `restore_active` (69 marker bytes): `trace_scripts/h10-restore-over-limit.txt`
example : (run true 79 4 true true [.write 10 5 none ⟨10, 1⟩ false]).1.activeDirty = some 79 := by decide
example : (run true 78 4 true true [.write 10 5 none ⟨10, 1⟩ false]).1.activeDirty = some 0 := by decide

end Pearl

/-!
## The background-sync request protocol (`Pearl/Model/SyncProto.lean`)

`Fs` performs a sync as an immediate effect of the operation that asks for it.  The implementation has three
cooperating pieces (`Inner::should_try_fsync` / `Inner::fsyncdata` with its `fsync_in_progress` flag and guard,
`ObserverWorker::try_run_fsync_task` with its task handle, `File::fsyncdata` publishing `synced_size`).  The theorems
below are about every schedule of the atomic steps of those pieces.

Summary of what is TRUE and what is FALSE of /repo BEFORE its commit bc65670 (variant `current`; the code as it is since
that commit is `recheckOnly`, section (7) at the end); client writes may be split into
their append and their `should_try_fsync` (`append` / `decide`), so concurrent client calls are covered:
* (1) `flag_implies_task`, (4) `synced_size_sound`, the failure half of (3) (`sync_after_failure`,
  `flag_clear_at_rest`, `comes_to_rest`) and (6) `quiescent_projection` hold.
* (2) `no_lost_request` and the first half of (3) `bounded_at_quiescence` are FALSE as stated:
  `bounded_at_quiescence_refuted` (schedule reproduced on the real library with a paused `sync_all`, see there).
  A write acknowledged while a task is past its size capture is neither covered by the running sync nor does it
  lead to a new one.  What holds is the bound `limit + blind` (`bounded_at_quiescence_partial`), i.e. `limit` for
  schedules in which no write lands in that window (`bounded_at_quiescence_no_blind_write`); the gap is unbounded
  (`bounded_at_quiescence_refuted_any`).
* (5) the four seeded changes: `guardLate_counter_model`, `resetSkipped_counter_model`, `notReaped_counter_model`,
  `publishAlways_counter_model`.
* a candidate repair for which the bound holds after every schedule: `bounded_at_quiescence_repaired`.
* (7) the code as it is (`recheckOnly`): (1), (4), rest and (6) carry over (`…_recheckOnly`); window (a) of (2)/(3) is closed
  (`e23_schedule_now_synced`); the bound at rest is `limit + late` (`bounded_at_quiescence_recheckOnly`) with `late ≠ 0` only
  through window (b) (`window_b_characterised`, `window_b_witness`); for a short while the re-check of the code was behind
  one exit of the task body only, which `step` does not have - the reading `…_code` (7.6), windows (c):
  `early_return_window_witness`, `failed_sync_not_retried_witness`, `bounded_at_quiescence_code`.
* (7.7) THE CODE AS OF bc65670 (the commit as amended) is a third reading, `Mode.amended` of `Proofs/SyncProto3.lean`:
  re-check after every release of the flag except after a failed sync.  `…_amended`: (1), (4), rest carry over; window (c1)
  is closed (`window_c1_closed`, `early_return_window_closed`), the bound at rest is `limit + late` again
  (`bounded_at_quiescence_amended`); a failed sync is not retried (`failed_sync_not_retried_amended`) but the next
  over-limit write syncs (`sync_after_failure_amended`); window (b) is unchanged (`window_b_witness_amended`).
-/
namespace Pearl
namespace SyncProto

/-! ### (1) the flag -/

/-- (1) In every reachable state of the shipped protocol (and of every variant that arms the guard right after the
    compare-exchange), `fsync_in_progress` is set only while a task is between its compare-exchange and its exit:
    the task body is in one of the phases `held`, `checked`, `syncing _`, `returned true` (`Phase.owns`), and
    the worker's handle is unfinished. -/
theorem flag_implies_task {v : Variant} (hv : v.guarded = true) {limit : Nat} {s : St} (h : Reach v limit s)
    (hf : s.flag = true) : s.phase.owns = true ∧ s.hdl = .running := by
  have hc := ctl_reach hv h
  have ho : s.phase.owns = true := by rw [← hc.flag]; exact hf
  refine ⟨ho, hc.hdl.2 ?_⟩
  intro hi
  simp [hi, Phase.owns] at ho

/-- … and conversely a task in one of these phases holds it -/
theorem task_implies_flag {v : Variant} (hv : v.guarded = true) {limit : Nat} {s : St} (h : Reach v limit s)
    (ho : s.phase.owns = true) : s.flag = true := by
  rw [(ctl_reach hv h).flag]; exact ho

/-- neither the flag nor the handle stays stuck: at rest (queue drained, no task body) the flag is clear and the
    handle is absent or finished, whatever failed before -/
theorem flag_clear_at_rest {v : Variant} (hv : v.guarded = true) {limit : Nat} {s : St} (h : Reach v limit s)
    (hq : s.quiescent = true) : s.flag = false ∧ s.hdl ≠ .running := by
  have hc := ctl_reach hv h
  rw [quiescent_iff] at hq
  refine ⟨by rw [hc.flag, hq.2.1]; rfl, ?_⟩
  intro hr
  exact hc.hdl.1 hr hq.2.1

-- non-vacuity: a reachable state with the flag set (task after its compare-exchange) …
example : (⟨220, 20, true, .running, .held, 0, 0, 20, 0, 0⟩ : St).phase.owns = true ∧
    (⟨220, 20, true, .running, .held, 0, 0, 20, 0, 0⟩ : St).hdl = .running :=
  flag_implies_task (v := current) rfl (limit := 100) ⟨20, [.write 200, .recv, .cas], by decide⟩ rfl
-- … and a state at rest reached through a FAILED sync
example : (⟨220, 20, false, .finished, .idle, 0, 0, 20, 0, 0⟩ : St).flag = false ∧
    (⟨220, 20, false, .finished, .idle, 0, 0, 20, 0, 0⟩ : St).hdl ≠ .running :=
  flag_clear_at_rest (v := current) rfl (limit := 100)
    ⟨20, [.write 200, .recv, .cas, .check, .start, .complete false, .release, .finish], by decide⟩ rfl

/-! ### (4) the published size -/

/-- (4) `synced_size` never exceeds `durable`, the largest size captured by a `sync_all` that SUCCEEDED on the
    active blob file (or the size it had when it became the active blob), and that never exceeds the file size.
    Holds for every variant that publishes on the success path only. -/
theorem synced_size_sound {v : Variant} (hv : v.publishOnlyOnSuccess = true) {limit : Nat} {s : St}
    (h : Reach v limit s) : s.synced ≤ s.durable ∧ s.durable ≤ s.size :=
  ⟨(cnt_reach hv h).synced_le, (cnt_reach hv h).durable_le⟩

-- non-vacuity: after a failed sync of 220 bytes nothing above the 20 durable bytes is published
example : (⟨220, 20, true, .running, .returned true, 0, 0, 20, 0, 0⟩ : St).synced ≤ 20 :=
  (synced_size_sound (v := current) rfl (limit := 100)
    ⟨20, [.write 200, .recv, .cas, .check, .start, .complete false], by decide⟩).1

/-! ### (2) requests -/

/-- a write that takes the active blob over the limit sends a request unless a task owns the flag -/
theorem write_requests_unless_owned {v : Variant} (hv : v.guarded = true) {limit : Nat} {s : St}
    (h : Reach v limit s) (n : Nat) (hover : s.size + n - s.synced > limit) :
    (s.phase.owns = false ∧ (afterWrite limit s n).queue = s.queue + 1) ∨
      (s.phase.owns = true ∧ (afterWrite limit s n).queue = s.queue) := by
  have hf := (ctl_reach hv h).flag
  have hlt : limit < s.size + n - s.synced := hover
  cases ho : s.phase.owns <;> simp [afterWrite, shouldTryFsync, tooMany, hf, ho, hlt]

/-- (2), the part that is true.  In every state reached without a sync failure in which the un-synced bytes exceed
    `limit + blind` (`blind` = bytes appended since the latest size capture while a task was past its capture),
    something is still going to look at them: no task body exists and a request is queued or a client call is about
    to evaluate `should_try_fsync` with the flag clear, or a task has not yet captured the size, or the sync in flight
    covers all but the blind bytes. -/
theorem no_lost_request_partial {v : Variant} (hv : v.protoOk = true) {limit : Nat} {s : St}
    (h : ReachOk v limit s) (hover : s.dirty > limit + s.blind) :
    (s.phase = .idle ∧ (0 < s.queue ∨ 0 < s.pending)) ∨ s.phase = .spawned ∨ s.phase = .held ∨
      s.phase = .checked ∨ ∃ cap, s.phase = .syncing cap ∧ s.size ≤ cap + s.blind := by
  have hc := cover_reachOk hv h
  simp only [St.dirty] at hover
  unfold Cover at hc
  cases hp : s.phase <;> simp only [hp] at hc <;> simp
  · rcases hc with hc | hc | hc
    · exact Or.inl hc
    · exact Or.inr hc
    · omega
  · exact hc
  · omega
  · omega
  · omega

/-- (2) as stated is FALSE of /repo.  Two schedules without any failure that end at rest with the active blob over
    the limit and nothing scheduled.
    (a) The last write lands while `sync_all` is in flight: over the limit, but `should_try_fsync` sees the flag and
        sends nothing; the sync publishes the size captured before that write.
    (b) The last write lands after the guard has reset the flag but before the task's handle reports
        `is_finished()`: it does send `TryFsyncData`, and `try_run_fsync_task` drops it ("task is in progress"). -/
theorem no_lost_request_refuted :
    (∃ pre n post s1 s, run current 100 (init 20) pre = some s1 ∧
        run current 100 (afterWrite 100 s1 n) post = some s ∧
        (∀ e ∈ pre ++ post, e.isFailure = false) ∧ (∀ e ∈ post, e.isWrite = false) ∧
        s.quiescent = true ∧ s.dirty > 100 ∧
        (afterWrite 100 s1 n).queue = s1.queue ∧ s1.queue = 0) ∧
    (∃ pre n post s1 s, run current 100 (init 20) pre = some s1 ∧
        run current 100 (afterWrite 100 s1 n) post = some s ∧
        (∀ e ∈ pre ++ post, e.isFailure = false) ∧ (∀ e ∈ post, e.isWrite = false) ∧
        s.quiescent = true ∧ s.dirty > 100 ∧
        (afterWrite 100 s1 n).queue = s1.queue + 1 ∧ .start ∉ post) := by
  refine ⟨⟨[.write 79, .write 369, .recv, .cas, .check, .start], 369, [.complete true, .release, .finish],
      ⟨468, 20, true, .running, .syncing 468, 0, 0, 20, 0, 0⟩, ⟨837, 468, false, .finished, .idle, 0, 0, 468, 369, 0⟩,
      by decide, by decide, by decide, by decide, by decide, by decide, by decide, by decide⟩,
    ⟨[.write 200, .recv, .cas, .check, .start, .complete true, .release], 200, [.recv, .finish],
      ⟨220, 220, false, .running, .released, 0, 0, 220, 0, 0⟩, ⟨420, 220, false, .finished, .idle, 0, 0, 220, 200, 0⟩,
      by decide, by decide, by decide, by decide, by decide, by decide, by decide, by decide⟩⟩

/-! ### (3) the bound at rest -/

/-- (3), the part that is true: at rest, after any schedule without a sync failure, the un-synced bytes of the active
    blob are at most the limit plus the bytes acknowledged while a task was past its size capture. -/
theorem bounded_at_quiescence_partial {v : Variant} (hv : v.protoOk = true) {limit : Nat} {s : St}
    (h : ReachOk v limit s) (hq : s.quiescent = true) : s.dirty ≤ limit + s.blind := by
  have hc := cover_reachOk hv h
  rw [quiescent_iff] at hq
  simp only [Cover, hq.2.1, hq.1, hq.2.2, Nat.lt_irrefl, false_or] at hc
  simp only [St.dirty]
  omega

/-- … so the bound of the property holds for every schedule in which no write lands in that window -/
theorem bounded_at_quiescence_no_blind_write {v : Variant} (hv : v.protoOk = true) {limit base : Nat}
    {evs : List Ev} {s : St} (hok : ∀ e ∈ evs, e.isFailure = false)
    (hnb : noBlindWrite v limit (init base) evs = true) (h : run v limit (init base) evs = some s)
    (hq : s.quiescent = true) : s.dirty ≤ limit := by
  have h1 := bounded_at_quiescence_partial hv ⟨base, evs, hok, h⟩ hq
  have h2 := blind_run evs (init base) s rfl hnb h
  omega

/-- (3) as stated is FALSE of /repo: limit 100; a 79-byte record (within the limit); a 369-byte record takes the blob
    over the limit, the request is received, the task wins the compare-exchange, sees 448 > 100 dirty bytes and starts
    `sync_all` with the captured size 468; a third record of 369 bytes is acknowledged meanwhile (no request: the
    flag is set); the sync succeeds and publishes 468; guard, task end.  At rest: 369 un-synced bytes, limit 100,
    nothing queued, nothing running, no failure anywhere.
    REPRODUCED on the real library (/repo 41a1848, no fault injected, only `sync_all` paused by the I/O hook):
    `cfg key=4 dup=1 dirty=100 rt=mt`, `w 0000000a 5 - 10 1`, `fault sync 0 .blob pause:1`, `w 0000000b 5 - 300 2`,
    `wait 100`, `w 0000000c 5 - 300 3`, `release 1`, `trace`, `dirty` →
    `#trace Wb0:99:369 Sb0:468!pause Wb0:468:369`, `dirty 369` (and still `dirty 369` 500 ms later). -/
theorem bounded_at_quiescence_refuted :
    ¬ ∀ s, ReachOk current 100 s → s.quiescent = true → s.dirty ≤ 100 := by
  intro h
  have := h ⟨837, 468, false, .finished, .idle, 0, 0, 468, 369, 0⟩
    ⟨20, [.write 79, .write 369, .recv, .cas, .check, .start, .write 369, .complete true, .release, .finish],
      by decide, by decide +kernel⟩ rfl
  exact absurd this (by decide)

/-- the gap is not bounded by anything: for every `N` there is such a state with more than `N` un-synced bytes -/
theorem bounded_at_quiescence_refuted_any (limit N : Nat) :
    ∃ s, ReachOk current limit s ∧ s.quiescent = true ∧ s.dirty > N := by
  refine ⟨⟨20 + (limit + 1) + (N + 1), 20 + (limit + 1), false, .finished, .idle, 0, 0, 20 + (limit + 1), N + 1, 0⟩,
    ⟨20, [.write (limit + 1), .recv, .cas, .check, .start, .write (N + 1), .complete true, .release, .finish],
      by simp [Ev.isFailure], ?_⟩, rfl, ?_⟩
  · simp [run, step, init, shouldTryFsync, tooMany, St.dirty, Phase.blind, current]
  · simp only [St.dirty]; omega

/-- with failures: the protocol always comes to rest by itself (no client action, every later sync succeeding),
    from every state of the shipped protocol and of the four seeded variants, within `measure` internal steps -/
theorem comes_to_rest {v : Variant} (hr : v.recheck = false) (ha : v.awaitRunning = false) (limit : Nat) (s : St) :
    ∃ evs t, (∀ e ∈ evs, e.internal = true ∧ e.isFailure = false) ∧ run v limit s evs = some t ∧
      t.quiescent = true ∧ evs.length ≤ s.measure ∧ t.size = s.size ∧ t.blob = s.blob := by
  obtain ⟨evs, h1, h2⟩ := settle_is_run ha limit s.measure s
  have hk := internal_run_keeps (fun e he => (h1 e he).1) h2
  refine ⟨evs, _, h1, h2, settle_quiescent hr ha limit _ s (Nat.le_refl _), ?_, hk.1, hk.2.1⟩
  -- every internal step lowers the measure
  have : ∀ (evs : List Ev) (a b : St), (∀ e ∈ evs, e.internal = true) → run v limit a evs = some b →
      b.measure + evs.length ≤ a.measure := by
    intro evs
    induction evs with
    | nil => intro a b _ h; simp at h; subst h; simp
    | cons e es ih =>
      intro a b hi h
      simp only [run_cons] at h
      cases hst : step v limit a e with
      | none => simp [hst] at h
      | some u =>
        simp only [hst, Option.bind_some] at h
        have h3 := measure_step hr (hi e (by simp)) hst
        have h4 := ih u b (fun e he => hi e (by simp [he])) h
        simp only [List.length_cons]
        omega
  have := this evs s _ (fun e he => (h1 e he).1) h2
  omega

/-- whenever the un-synced bytes exceed the limit by more than the blind bytes, a sync is performed without further
    client action: left alone (no failure so far, none later) the protocol reaches a state at rest within the bound,
    and the file size is the one it had - the bound was restored by a sync, not by anything else -/
theorem sync_without_client_action_partial {v : Variant} (hv : v.protoOk = true) (ha : v.awaitRunning = false)
    {limit : Nat} {s : St} (h : ReachOk v limit s) :
    ∃ evs t, (∀ e ∈ evs, e.internal = true ∧ e.isFailure = false) ∧ run v limit s evs = some t ∧
      t.quiescent = true ∧ t.size = s.size ∧ t.blob = s.blob ∧ t.blind ≤ s.blind ∧
      t.dirty ≤ limit + s.blind := by
  obtain ⟨evs, t, h1, h2, h3, _, h5, h6⟩ := comes_to_rest (Variant.recheck_of_protoOk hv) ha limit s
  have hk := internal_run_keeps (fun e he => (h1 e he).1) h2
  obtain ⟨base, pre, hpre, hrun⟩ := h
  have hreach : ReachOk v limit t := by
    refine ⟨base, pre ++ evs, ?_, ?_⟩
    · intro e he
      rcases List.mem_append.1 he with he | he
      · exact hpre e he
      · exact (h1 e he).2
    · rw [run_append, hrun]; exact h2
  have := bounded_at_quiescence_partial hv hreach h3
  exact ⟨evs, t, h1, h2, h3, h5, h6, hk.2.2, by omega⟩

/-- (3), with failures: after ANY history (failed syncs included), once the protocol is at rest, the first write
    that takes the active blob over the limit leads to a sync again: the request is sent (the flag is clear), the
    worker starts a task (the handle is absent or finished), the task wins the compare-exchange, passes the check and
    starts `sync_all` with a captured size that includes the write; when that sync succeeds the blob has no
    un-synced byte and the protocol is at rest again with the flag clear. -/
theorem sync_after_failure {v : Variant} (hv : v.protoOk = true) {limit : Nat} {s : St} (h : Reach v limit s)
    (hq : s.quiescent = true) {n : Nat} (hover : s.size + n - s.synced > limit) :
    ∃ t u, run v limit s [.write n, .recv, .cas, .check, .start] = some t ∧
      t.phase = .syncing (s.size + n) ∧
      run v limit t [.complete true, .release, .finish] = some u ∧
      u.quiescent = true ∧ u.flag = false ∧ u.dirty = 0 := by
  obtain ⟨t, u, h1, h2, _, _, h5, h6, h7, _, h9, h10, _⟩ :=
    write_over_limit_syncs hv (ctl_reach (Variant.guarded_of_protoOk hv) h) hq hover
  refine ⟨t, u, h1, h2, h5, h6, h7, ?_⟩
  simp only [St.dirty, h9, h10]
  omega

-- non-vacuity: the state at rest after a failed sync (220 bytes, 20 synced, limit 100), then a 1-byte write
example : ∃ t u, run current 100 ⟨220, 20, false, .finished, .idle, 0, 0, 20, 0, 0⟩
      [.write 1, .recv, .cas, .check, .start] = some t ∧ t.phase = .syncing 221 ∧
      run current 100 t [.complete true, .release, .finish] = some u ∧
      u.quiescent = true ∧ u.flag = false ∧ u.dirty = 0 :=
  sync_after_failure (v := current) rfl
    ⟨20, [.write 200, .recv, .cas, .check, .start, .complete false, .release, .finish], by decide⟩ rfl (by decide)
-- non-vacuity of the partial bound: the refuting run satisfies it with equality-free slack (369 ≤ 100 + 369)
example : (⟨837, 468, false, .finished, .idle, 0, 0, 468, 369, 0⟩ : St).dirty ≤ 100 + 369 :=
  bounded_at_quiescence_partial (v := current) rfl
    ⟨20, [.write 79, .write 369, .recv, .cas, .check, .start, .write 369, .complete true, .release, .finish],
      by decide, by decide +kernel⟩ rfl
-- … and a run with two concurrent client calls (appends first, then their `should_try_fsync`, the second one after
-- the task has taken the flag) and a redundant request, but no append in the window, ends within the limit
example : (⟨588, 588, false, .finished, .idle, 0, 0, 588, 0, 0⟩ : St).dirty ≤ 100 :=
  bounded_at_quiescence_no_blind_write (v := current) rfl (base := 20)
    (evs := [.append 200, .append 368, .decide, .recv, .cas, .decide, .check, .start, .complete true, .release,
      .finish])
    (by decide) (by decide +kernel) (by decide +kernel) rfl
-- … and a run with two writes racing the worker but none in the window ends within the limit
example : (⟨588, 588, false, .finished, .idle, 0, 0, 588, 0, 0⟩ : St).dirty ≤ 100 :=
  bounded_at_quiescence_no_blind_write (v := current) rfl (base := 20)
    (evs := [.write 200, .write 368, .recv, .cas, .check, .start, .complete true, .release, .finish, .recv,
      .cas, .check, .release, .finish])
    (by decide) (by decide +kernel) (by decide +kernel) rfl

/-! ### (6) `Fs` is the projection of the protocol onto the states at rest -/

/-- what `Fs.fsyncCheckP` does to the counters of the active blob file, and the event it emits -/
theorem fsyncCheckP_is_checkEffect (s : Fs.FsState) (a : Blob) (f : FileS) (ha : s.store.active = some a)
    (hf : s.disk.files a.id = some f) :
    ((Fs.fsyncCheckP s).1.disk.files a.id).map (fun g => (g.size, g.synced)) =
        some (checkEffect s.limit f.size f.synced) ∧
      (Fs.fsyncCheckP s).2 = if f.size - f.synced > s.limit then [.sync (.blob a.id) f.size] else [] := by
  by_cases h : f.size - f.synced > s.limit <;>
    simp [Fs.fsyncCheckP, Fs.acts, ha, Fs.FsState.dirtyOf, hf, Fs.Disk.runActs, Fs.Disk.exec, Fs.Disk.setFile,
      FileS.dirty, checkEffect, h]

/-- (6) From a reachable state at rest, a client write followed by ANY schedule of internal steps without a failure
    that ends at rest has, on (`size`, `synced_size`), exactly the effect of the write followed by `Fs.fsyncCheckP`;
    the flag is clear again and the active blob is the same. -/
theorem quiescent_projection {v : Variant} (hv : v.protoOk = true) {limit : Nat} {s : St} (h : Reach v limit s)
    (hq : s.quiescent = true) (n : Nat) {evs : List Ev} {t : St}
    (hint : ∀ e ∈ evs, e.internal = true ∧ e.isFailure = false)
    (hrun : run v limit s (.write n :: evs) = some t) (htq : t.quiescent = true) :
    (t.size, t.synced) = checkEffect limit (s.size + n) s.synced ∧ t.flag = false ∧ t.blob = s.blob := by
  have hc := ctl_reach (Variant.guarded_of_protoOk hv) h
  simp only [run_cons, step_write, Option.bind_some] at hrun
  have hl := lone_afterWrite (limit := limit) hq n
  have huniq := internal_run_unique hl hint hrun htq (fuel := evs.length + 7) (by omega)
  have hflag : s.flag = false := by
    rw [quiescent_iff] at hq
    rw [hc.flag, hq.2.1]; rfl
  by_cases hover : s.size + n - s.synced > limit
  · obtain ⟨t', u, h1, _, _, _, h5, h6, h7, _, h9, h10, h11⟩ := write_over_limit_syncs hv hc hq hover
    have hcanon : run v limit (afterWrite limit s n) syncSchedule = some u := by
      have : run v limit s ([.write n, .recv, .cas, .check, .start] ++ [.complete true, .release, .finish])
          = some u := by rw [run_append, h1]; exact h5
      simpa [syncSchedule] using this
    have hu := internal_run_unique hl (evs := syncSchedule) (by decide) hcanon h6 (fuel := evs.length + 7)
      (by simp [syncSchedule])
    have htu : t = u := by rw [← huniq, hu]
    subst htu
    simp [checkEffect, hover, h9, h10, h7, h11]
  · obtain ⟨hrest, hsy⟩ := write_within_limit_rests hq hover
    have : settle v limit (evs.length + 7) (afterWrite limit s n) = afterWrite limit s n :=
      settle_of_next_none ((next_none_iff _ _).2 hrest) _
    have hta : t = afterWrite limit s n := by rw [← huniq, this]
    subst hta
    simp [checkEffect, hover, afterWrite, hflag]

/-- … and such a schedule exists (so the statement above is not vacuous for any state and any write) -/
theorem quiescent_projection_exists {v : Variant} (hr : v.recheck = false) (ha : v.awaitRunning = false)
    (limit : Nat) (s : St) (n : Nat) :
    ∃ evs t, (∀ e ∈ evs, e.internal = true ∧ e.isFailure = false) ∧
      run v limit s (.write n :: evs) = some t ∧ t.quiescent = true := by
  obtain ⟨evs, t, h1, h2, h3, _⟩ := comes_to_rest hr ha limit (afterWrite limit s n)
  exact ⟨evs, t, h1, by simpa using h2, h3⟩

-- non-vacuity: limit 100; 79 bytes stay un-synced, 80 bytes are synced (`run true 79 …` / `run true 78 …` above)
example : checkEffect 100 (20 + 79) 20 = (99, 20) ∧ checkEffect 100 (20 + 101) 20 = (121, 121) := by decide
example : ∃ t, run current 100 (init 20) (.write 101 :: syncSchedule) = some t ∧ t.quiescent = true ∧
    (t.size, t.synced) = checkEffect 100 (20 + 101) 20 := by
  refine ⟨⟨121, 121, false, .finished, .idle, 0, 0, 121, 0, 0⟩, by decide, rfl, by decide⟩

/-! ### (5) the four seeded changes are caught: counter-models -/

/-- Seeded "guard armed after the early return".  One write passes the dirty limit and fills the blob; the worker
    rotates first, so the task finds the NEW active blob within the limit and returns early - without a guard, the
    flag stays set.  (1) is violated at rest; from then on no write ever sends a request, no sync is ever started, and
    the un-synced bytes at rest exceed any bound although no write landed in the blind window and nothing failed.
    The shipped code ends the same schedule with the flag clear. -/
theorem guardLate_counter_model :
    let evs : List Ev := [.write 200, .rotate 20, .recv, .cas, .check, .release, .finish]
    let s : St := ⟨20, 20, true, .finished, .idle, 0, 1, 20, 0, 0⟩
    run guardLate 100 (init 20) evs = some s ∧ s.quiescent = true ∧
      (s.flag = true ∧ s.phase.owns = false) ∧
      (∀ evs' t, run guardLate 100 s evs' = some t → Ev.start ∉ evs' ∧ t.queue = 0 ∧ t.flag = true) ∧
      (∀ N, ∃ t, ReachOk guardLate 100 t ∧ t.quiescent = true ∧ t.blind = 0 ∧ t.dirty > N) ∧
      (run current 100 (init 20) evs).map (·.flag) = some false := by
  refine ⟨by decide, rfl, ⟨rfl, rfl⟩, ?_, ?_, by decide⟩
  · intro evs' t h
    have hs : Stuck (⟨20, 20, true, .finished, .idle, 0, 1, 20, 0, 0⟩ : St) := ⟨rfl, rfl, rfl⟩
    have h1 := stuck_run hs h
    exact ⟨(stuck_never_syncs evs' _ t hs h).1, h1.2.2, h1.1⟩
  · intro N
    refine ⟨⟨20 + (N + 1), 20, true, .finished, .idle, 0, 1, 20, 0, 0⟩,
      ⟨20, [.write 200, .rotate 20, .recv, .cas, .check, .release, .finish, .write (N + 1)],
        by simp [Ev.isFailure], ?_⟩, rfl, rfl, ?_⟩
    · simp [run, step, init, shouldTryFsync, tooMany, St.dirty, Phase.blind, Phase.locked, guardLate]
    · simp only [St.dirty]; omega

/-- Seeded "explicit reset skipped by `?` on error".  One failed background sync leaves the flag set: after the failure
    the first later write over the limit (and every later one) does NOT lead to a sync.  The shipped code ends the
    same schedule with the flag clear and the request of the next write queued. -/
theorem resetSkipped_counter_model :
    let evs : List Ev := [.write 200, .recv, .cas, .check, .start, .complete false, .release, .finish]
    let s : St := ⟨220, 20, true, .finished, .idle, 0, 0, 20, 0, 0⟩
    run resetSkipped 100 (init 20) evs = some s ∧ s.quiescent = true ∧
      (s.flag = true ∧ s.phase.owns = false) ∧
      (∀ evs' t, run resetSkipped 100 s evs' = some t → Ev.start ∉ evs' ∧ t.queue = 0 ∧ t.flag = true) ∧
      (run current 100 (init 20) (evs ++ [.write 500])).map (fun t => (t.flag, t.queue)) = some (false, 1) := by
  refine ⟨by decide, rfl, ⟨rfl, rfl⟩, ?_, by decide⟩
  intro evs' t h
  have hs : Stuck (⟨220, 20, true, .finished, .idle, 0, 0, 20, 0, 0⟩ : St) := ⟨rfl, rfl, rfl⟩
  have h1 := stuck_run hs h
  exact ⟨(stuck_never_syncs evs' _ t hs h).1, h1.2.2, h1.1⟩

/-- Seeded "`fsync_task.is_some()` instead of `!is_finished()`".  The handle of the first task is finished but not yet
    reaped when the request of the next write over the limit arrives (the worker was waiting in `recv` all the time):
    the request is dropped.  At rest: 200 un-synced bytes with limit 100, no write in the blind window, no failure -
    `bounded_at_quiescence_no_blind_write` is violated.  The shipped code spawns the second task. -/
theorem notReaped_counter_model :
    let evs : List Ev := [.write 200, .recv, .cas, .check, .start, .complete true, .release, .finish, .write 200, .recv]
    let s : St := ⟨420, 220, false, .none, .idle, 0, 0, 220, 0, 0⟩
    run notReaped 100 (init 20) evs = some s ∧ s.quiescent = true ∧
      (∀ e ∈ evs, e.isFailure = false) ∧ noBlindWrite notReaped 100 (init 20) evs = true ∧
      s.dirty = 200 ∧ ¬ s.dirty ≤ 100 ∧
      (run current 100 (init 20) evs).map (·.phase) = some .spawned := by
  refine ⟨by decide, rfl, by decide, by decide +kernel, by decide, by decide, by decide⟩

/-- Seeded "`fetch_max` outside the success path".  A failed `sync_all` publishes the captured size: `synced_size`
    (220) exceeds everything a successful sync ever covered (20).  The shipped code leaves it at 20. -/
theorem publishAlways_counter_model :
    let evs : List Ev := [.write 200, .recv, .cas, .check, .start, .complete false]
    (run publishAlways 100 (init 20) evs).map (fun t => (t.synced, t.durable)) = some (220, 20) ∧
      ¬ (∀ s, Reach publishAlways 100 s → s.synced ≤ s.durable) ∧
      (run current 100 (init 20) evs).map (fun t => (t.synced, t.durable)) = some (20, 20) := by
  refine ⟨by decide, ?_, by decide⟩
  intro h
  have := h ⟨220, 220, true, .running, .returned true, 0, 0, 20, 0, 0⟩
    ⟨20, [.write 200, .recv, .cas, .check, .start, .complete false], by decide⟩
  exact absurd this (by decide)

/-! ### what would make (2) and (3) true: a candidate repair (NOT in /repo) -/

/-- With two changes - the spawned closure evaluates `should_try_fsync` once more after `Inner::fsyncdata` has
    returned (flag reset) and runs it again when it holds; `try_run_fsync_task` awaits an unfinished task instead of
    dropping the request - the bound of the property holds at rest after EVERY schedule (blind writes, split writes,
    failed syncs included; a failed sync is retried by the re-check, so rest is only reached once one succeeded or the
    bytes are within the limit). -/
theorem bounded_at_quiescence_repaired {v : Variant} (hv : v.repairedOk = true) {limit : Nat} {s : St}
    (h : Reach v limit s) (hq : s.quiescent = true) : s.dirty ≤ limit := by
  have hc := (coverR_reach hv h).2
  rw [quiescent_iff] at hq
  simp only [CoverR, hq.2.1, hq.1, hq.2.2, Nat.lt_irrefl, false_or] at hc
  simp only [St.dirty]
  omega

/-- (1) and (4) hold for it as well -/
theorem repaired_flag_and_size {limit : Nat} {s : St} (h : Reach repaired limit s) :
    (s.flag = true → s.phase.owns = true ∧ s.hdl = .running) ∧ s.synced ≤ s.durable ∧ s.durable ≤ s.size :=
  ⟨flag_implies_task (v := repaired) rfl h, synced_size_sound (v := repaired) rfl h⟩

-- the two refuting schedules of `no_lost_request_refuted`, continued by the repaired protocol: (a) the re-check finds
-- the 369 blind bytes and syncs them; (b) the request sent in the window cannot be received before the task has
-- finished (`recv` is not enabled: `none`), and is served afterwards
example : run repaired 100 (init 20) [.write 79, .write 369, .recv, .cas, .check, .start, .write 369, .complete true,
      .release, .recheck, .cas, .check, .start, .complete true, .release, .recheck, .finish] =
    some ⟨837, 837, false, .finished, .idle, 0, 0, 837, 0, 0⟩ := by decide +kernel
example : run repaired 100 (init 20) [.write 200, .recv, .cas, .check, .start, .complete true, .release, .recheck,
      .write 200, .recv] = none := by decide +kernel
example : run repaired 100 (init 20) [.write 200, .recv, .cas, .check, .start, .complete true, .release, .recheck,
      .write 200, .finish, .recv, .cas, .check, .start, .complete true, .release, .recheck, .finish] =
    some ⟨420, 420, false, .finished, .idle, 0, 0, 420, 0, 0⟩ := by decide +kernel
example : (⟨837, 837, false, .finished, .idle, 0, 0, 837, 0, 0⟩ : St).dirty ≤ 100 :=
  bounded_at_quiescence_repaired (v := repaired) rfl
    ⟨20, [.write 79, .write 369, .recv, .cas, .check, .start, .write 369, .complete true,
      .release, .recheck, .cas, .check, .start, .complete true, .release, .recheck, .finish], by decide +kernel⟩ rfl

/-! ### (7) the code since /repo bc65670: the re-check is in, the worker still drops requests (`recheckOnly`)

`Inner::fsyncdata` is now a loop: compare-exchange, guard in an inner scope, check, `safe.fsyncdata()`, END of the inner
scope (storage lock dropped, then the guard: flag := false), then `safe.read()` again and `too_many_dirty_bytes` once
more - over the limit: round the loop (compare-exchange again), otherwise `return Ok(())` and the task ends.
`try_run_fsync_task` is unchanged.  `step … .recheck` has the re-check exactly there: enabled in `released` only (after
`release` = lock and flag given back), while the handle is still unfinished, it leads back to `spawned` (the
compare-exchange) or to `done` (from where only `finish` is left) - `recheck_position`.

ONE DIFFERENCE between `step` with `recheck := true` and the code (found while reading the function for this section;
`Pearl/Proofs/SyncProto2.lean` has the function side by side): in the code the re-check is behind ONE exit of the inner
scope, the one after a `safe.fsyncdata()` that succeeded.  The early return ("not over the limit") and the `?` of a failed
sync leave the function from inside the scope: guard dropped, NO re-check, task ends.  `step` re-checks after every
`release`.  So the theorems below come in two readings, both over the same ghost wrapper `GSt` / `gstep c`:
* `c = false` is `step v` itself (`gstep_false_st`): the theorems named `…_recheckOnly` are about `Reach recheckOnly` / `run`;
* `c = true` is the code AS IT WAS WHEN (7.6) WAS WRITTEN: the theorems named `…_code` (about `GReach true`), and the two
  schedules on which the readings part: `early_return_window_witness` (window (c)) and `failed_sync_not_retried_witness`.

AMENDED SINCE: the paragraph above describes `Inner::fsyncdata` as /repo had it for a short while.  In /repo at bc65670 the
guarded scope has no early `return`: both non-failing paths (synced / not over the limit) reach the end of the scope and
the re-check behind it; only the `?` of a failed sync leaves without.  That is a THIRD reading - neither `c = false` nor
`c = true` - and it is the code: section (7.7), `Mode.amended` of `Pearl/Proofs/SyncProto3.lean`, theorems `…_amended`.
-/

/-! #### (7.1) flag, published size, rest -/

/-- (1) for the code as it is: the flag is set only while a task is between its compare-exchange and its exit -/
theorem flag_implies_task_recheckOnly {limit : Nat} {s : St} (h : Reach recheckOnly limit s) (hf : s.flag = true) :
    s.phase.owns = true ∧ s.hdl = .running :=
  flag_implies_task (v := recheckOnly) rfl h hf

/-- (4) for the code as it is -/
theorem synced_size_sound_recheckOnly {limit : Nat} {s : St} (h : Reach recheckOnly limit s) :
    s.synced ≤ s.durable ∧ s.durable ≤ s.size :=
  synced_size_sound (v := recheckOnly) rfl h

/-- at rest the flag is clear and the handle absent or finished, whatever failed before -/
theorem flag_clear_at_rest_recheckOnly {limit : Nat} {s : St} (h : Reach recheckOnly limit s)
    (hq : s.quiescent = true) : s.flag = false ∧ s.hdl ≠ .running :=
  flag_clear_at_rest (v := recheckOnly) rfl h hq

/-- where the re-check sits: after the reset of the flag (`released`, flag clear - so looking at the flag, as `step`
    does, and not looking at it, as the code does, is the same), before the end of the task (handle unfinished), and it
    either goes back to the compare-exchange (over the limit) or leaves only `finish` (within the limit); nothing else
    changes -/
theorem recheck_position {v : Variant} (hv : v.guarded = true) {limit : Nat} {s t : St} (h : Reach v limit s)
    (hst : step v limit s .recheck = some t) :
    v.recheck = true ∧ s.phase = .released ∧ s.flag = false ∧ s.hdl = .running ∧
      ((s.dirty > limit ∧ t = { s with phase := .spawned }) ∨ (s.dirty ≤ limit ∧ t = { s with phase := .done })) := by
  have hc := ctl_reach hv h
  obtain ⟨hf, hh, _⟩ := hc
  simp only [step] at hst
  split at hst
  · rename_i hp
    have hfl : s.flag = false := by rw [hf, hp]; rfl
    have hhd : s.hdl = .running := hh.2 (by simp [hp])
    split at hst
    · rename_i hr
      refine ⟨hr, hp, hfl, hhd, ?_⟩
      by_cases hov : s.dirty > limit
      · have : shouldTryFsync limit s.dirty s.flag = true := by simp [shouldTryFsync, tooMany, hfl, hov]
        simp only [this, if_true, Option.some.injEq] at hst
        exact Or.inl ⟨hov, hst.symm⟩
      · have : shouldTryFsync limit s.dirty s.flag = false := by simp [shouldTryFsync, tooMany, hov]
        simp only [this, Bool.false_eq_true, if_false, Option.some.injEq] at hst
        exact Or.inr ⟨by omega, hst.symm⟩
    · simp at hst
  · simp at hst

/-- from `released` the task of the re-checking variants cannot end: `finish` is enabled in `done` only -/
theorem finish_needs_recheck {v : Variant} (hr : v.recheck = true) {limit : Nat} {s t : St}
    (hst : step v limit s .finish = some t) : s.phase = .done := by
  simp only [step] at hst
  split at hst <;> simp_all

/-- with the re-check, left alone (every later sync succeeding) the protocol still comes to rest by itself, from every
    state that satisfies the flag / handle invariant (`Ctl`: every reachable state does): the loop goes round at most once
    more, because the size captured by a sync that starts now is the size the re-check will see.  The bound on the
    number of steps is `measureR` (`comes_to_rest` has `measure`, which the loop exceeds). -/
theorem comes_to_rest_recheck {v : Variant} (hv : v.guarded = true) (ha : v.awaitRunning = false) (limit : Nat)
    {s : St} (hc : Ctl s) :
    ∃ evs t, (∀ e ∈ evs, e.internal = true ∧ e.isFailure = false) ∧ run v limit s evs = some t ∧
      t.quiescent = true ∧ evs.length ≤ s.measureR limit ∧ t.size = s.size ∧ t.blob = s.blob := by
  obtain ⟨evs, h, h1, h2, h3, h4, h5, h6⟩ :=
    g_comes_to_rest (c := false) hv ha limit _ { st := s } (Nat.le_refl _) hc
  exact ⟨evs, h.st, h1, run_of_grun_false h2, h3, h4, h5, h6⟩

theorem comes_to_rest_recheckOnly (limit : Nat) {s : St} (h : Reach recheckOnly limit s) :
    ∃ evs t, (∀ e ∈ evs, e.internal = true ∧ e.isFailure = false) ∧ run recheckOnly limit s evs = some t ∧
      t.quiescent = true ∧ evs.length ≤ s.measureR limit ∧ t.size = s.size ∧ t.blob = s.blob :=
  comes_to_rest_recheck (v := recheckOnly) rfl rfl limit (ctl_reach (v := recheckOnly) rfl h)

-- non-vacuity: the state of `bounded_at_quiescence_refuted` right after the guard has reset the flag (369 bytes were
-- appended during `sync_all`): reachable, `measure` is 2 but 8 more steps are needed, `measureR` is 8
example : ∃ evs t, (∀ e ∈ evs, e.internal = true ∧ e.isFailure = false) ∧
    run recheckOnly 100 ⟨837, 468, false, .running, .released, 0, 0, 468, 369, 0⟩ evs = some t ∧
    t.quiescent = true ∧ evs.length ≤ (⟨837, 468, false, .running, .released, 0, 0, 468, 369, 0⟩ : St).measureR 100 ∧
    t.size = 837 ∧ t.blob = 0 :=
  comes_to_rest_recheckOnly 100
    ⟨20, [.write 79, .write 369, .recv, .cas, .check, .start, .write 369, .complete true, .release], by decide +kernel⟩
example : (⟨837, 468, false, .running, .released, 0, 0, 468, 369, 0⟩ : St).measureR 100 = 8 ∧
    (⟨837, 468, false, .running, .released, 0, 0, 468, 369, 0⟩ : St).measure = 2 := by decide
example : (⟨220, 20, true, .running, .held, 0, 0, 20, 0, 0⟩ : St).phase.owns = true ∧
    (⟨220, 20, true, .running, .held, 0, 0, 20, 0, 0⟩ : St).hdl = .running :=
  flag_implies_task_recheckOnly (limit := 100) ⟨20, [.write 200, .recv, .cas], by decide⟩ rfl
example : (⟨220, 20, true, .running, .returned true, 0, 0, 20, 0, 0⟩ : St).synced ≤ 20 :=
  (synced_size_sound_recheckOnly (limit := 100)
    ⟨20, [.write 200, .recv, .cas, .check, .start, .complete false], by decide⟩).1
-- a state at rest of `step recheckOnly` reached through a FAILED sync (retried at once by `step`, see (7.4))
example : (⟨220, 220, false, .finished, .idle, 0, 0, 220, 0, 0⟩ : St).flag = false ∧
    (⟨220, 220, false, .finished, .idle, 0, 0, 220, 0, 0⟩ : St).hdl ≠ .running :=
  flag_clear_at_rest_recheckOnly (limit := 100)
    ⟨20, [.write 200, .recv, .cas, .check, .start, .complete false, .release, .recheck, .cas, .check, .start,
      .complete true, .release, .recheck, .finish], by decide +kernel⟩ rfl
-- the re-check of the E23 schedule: flag clear, handle unfinished, 369 > 100, back to the compare-exchange
example : (⟨837, 468, false, .running, .released, 0, 0, 468, 369, 0⟩ : St).flag = false ∧
    (⟨837, 468, false, .running, .released, 0, 0, 468, 369, 0⟩ : St).hdl = .running :=
  have h := recheck_position (v := recheckOnly) rfl (limit := 100)
    (s := ⟨837, 468, false, .running, .released, 0, 0, 468, 369, 0⟩)
    (t := ⟨837, 468, false, .running, .spawned, 0, 0, 468, 369, 0⟩)
    ⟨20, [.write 79, .write 369, .recv, .cas, .check, .start, .write 369, .complete true, .release], by decide +kernel⟩
    (by decide)
  ⟨h.2.2.1, h.2.2.2.1⟩

/-! #### (7.2) E23 is closed: window (a) -/

/-- The schedule of `no_lost_request_refuted` (a) / `bounded_at_quiescence_refuted` (the third write lands while `sync_all`
    is in flight) under the code as it is.  Up to the reset of the flag it is the same (369 un-synced bytes, nothing
    queued); there the task can NOT end (`finish` is not enabled) - the only internal step is the re-check, which finds
    369 > 100 and goes round the loop: second sync, second re-check (nothing to do), end.  At rest: no un-synced byte,
    `late = 0`.  The continuation is forced (`settle`).  Same in the code reading (`c = true`). -/
theorem e23_schedule_now_synced :
    let pre : List Ev := [.write 79, .write 369, .recv, .cas, .check, .start, .write 369, .complete true, .release]
    let post : List Ev := [.recheck, .cas, .check, .start, .complete true, .release, .recheck, .finish]
    let s1 : St := ⟨837, 468, false, .running, .released, 0, 0, 468, 369, 0⟩
    let s : St := ⟨837, 837, false, .finished, .idle, 0, 0, 837, 0, 0⟩
    run recheckOnly 100 (init 20) pre = some s1 ∧ s1.dirty = 369 ∧
      step recheckOnly 100 s1 .finish = none ∧ next recheckOnly s1 = some .recheck ∧
      run recheckOnly 100 s1 post = some s ∧ settle recheckOnly 100 8 s1 = s ∧
      s.quiescent = true ∧ s.dirty ≤ 100 ∧ lateOf recheckOnly 100 20 (pre ++ post) = 0 ∧
      grun true recheckOnly 100 (ginit 20) (pre ++ post) = some ⟨s, true, 0, 0, 0⟩ ∧
      (run current 100 (init 20) (pre ++ [.finish])).map (·.dirty) = some 369 := by
  refine ⟨by decide +kernel, by decide, by decide, by decide, by decide +kernel, by decide +kernel, by decide, by decide,
    by decide +kernel, by decide +kernel, by decide +kernel⟩

/-! #### (7.3) the bound at rest, and the residual: window (b) -/

/-- (3) for the code as it is, in the reading of `step`: in every state at rest reached without a sync failure, the
    un-synced bytes of the active blob are at most `limit + late`, where `late` (`lateOf`, computed along the schedule by
    the ghost wrapper, `c = false`) = the bytes appended, since the latest size capture, after the task's LAST re-check
    (phase `done`: flag clear, so the writes do send `TryFsyncData`) and given up when the worker dropped a request
    while the handle was still unfinished. -/
theorem bounded_at_quiescence_recheckOnly {v : Variant} (hv : v.recheckOk = true) {limit base : Nat} {evs : List Ev}
    {s : St} (hok : ∀ e ∈ evs, e.isFailure = false) (h : run v limit (init base) evs = some s)
    (hq : s.quiescent = true) : s.dirty ≤ limit + lateOf v limit base evs := by
  obtain ⟨g, hg, rfl⟩ := grun_false_of_run (g := ginit base) h
  have h1 := gbounded_at_quiescence hv ⟨base, evs, hok, hg⟩ hq
  have h2 := unseen_run_false (g := ginit base) rfl hg
  have h3 : lateOf v limit base evs = g.late := by simp [lateOf, hg]
  omega

/-- `late = 0` unless the schedule contains a `recv` of a request (queue non-empty) that meets an unfinished handle
    (`hdl = running`) while the task is past its last re-check (`phase = done`): window (b), and nothing else. -/
theorem window_b_characterised {v : Variant} {limit base : Nat} {evs : List Ev}
    (h : lateOf v limit base evs ≠ 0) :
    ∃ pre post s, evs = pre ++ .recv :: post ∧ run v limit (init base) pre = some s ∧
      0 < s.queue ∧ s.hdl = .running ∧ s.phase = .done := by
  cases hg : grun false v limit (ginit base) evs with
  | none => simp [lateOf, hg] at h
  | some g =>
    have hl : g.late ≠ 0 := by simpa [lateOf, hg] using h
    rcases late_pos_has_drop evs _ g hg hl with h0 | ⟨pre, post, k, h1, h2, h3, h4, h5, _⟩
    · exact absurd rfl h0
    · refine ⟨pre, post, k.st, h1, run_of_grun_false h2, h3, h4, ?_⟩
      simp only [GSt.pastLook, look_false] at h5
      cases hp : k.st.phase <;> simp_all

/-- … so the bound of the property holds for every failure-free schedule in which no request is received in window (b) -/
theorem bounded_at_quiescence_no_late_drop {v : Variant} (hv : v.recheckOk = true) {limit base : Nat} {evs : List Ev}
    {s : St} (hok : ∀ e ∈ evs, e.isFailure = false) (h : run v limit (init base) evs = some s)
    (hq : s.quiescent = true)
    (hnd : ∀ pre post t, evs = pre ++ .recv :: post → run v limit (init base) pre = some t →
      t.hdl = .running → t.phase ≠ .done) : s.dirty ≤ limit := by
  have h1 := bounded_at_quiescence_recheckOnly hv hok h hq
  by_cases hl : lateOf v limit base evs = 0
  · omega
  · obtain ⟨pre, post, t, h2, h3, _, h5, h6⟩ := window_b_characterised hl
    exact absurd h6 (hnd pre post t h2 h3 h5)

/-- the same with the executable check `noLateDrop` -/
theorem bounded_at_quiescence_noLateDrop {v : Variant} (hv : v.recheckOk = true) {limit base : Nat} {evs : List Ev}
    {s : St} (hok : ∀ e ∈ evs, e.isFailure = false) (hnd : noLateDrop v limit (init base) evs = true)
    (h : run v limit (init base) evs = some s) (hq : s.quiescent = true) : s.dirty ≤ limit :=
  bounded_at_quiescence_no_late_drop hv hok h hq (fun pre post t he hr hh hp =>
    noLateDrop_split pre (init base) t post (he ▸ hnd) hr ⟨hh, hp⟩)

/-- (3) as stated is still FALSE of /repo as it is - window (b) of `no_lost_request_refuted` is open.  Limit 100: a
    200-byte write, its sync, the guard, the re-check (nothing to do: phase `done`); a second 200-byte write lands now:
    the flag is clear, so it sends `TryFsyncData`; the worker receives it before the task's handle reports
    `is_finished()` and drops it ("task is in progress"); the task ends.  At rest: 200 un-synced bytes, limit 100, nothing
    queued, no failure; `late = 200`, the bound `limit + late` is met with 100 to spare.  This is the residual the
    candidate `repaired` (`awaitRunning`) closes: there the same `recv` is not enabled.  Not replayed on the library
    (no pause point between the re-check and the end of the task). -/
theorem window_b_witness :
    let evs : List Ev := [.write 200, .recv, .cas, .check, .start, .complete true, .release, .recheck, .write 200, .recv,
      .finish]
    let s : St := ⟨420, 220, false, .finished, .idle, 0, 0, 220, 200, 0⟩
    run recheckOnly 100 (init 20) evs = some s ∧ (∀ e ∈ evs, e.isFailure = false) ∧ s.quiescent = true ∧
      s.dirty = 200 ∧ ¬ s.dirty ≤ 100 ∧ lateOf recheckOnly 100 20 evs = 200 ∧
      (run recheckOnly 100 (init 20) (evs.take 9)).map (fun t => (t.phase, t.hdl, t.flag, t.queue)) =
        some (.done, .running, false, 1) ∧
      grun true recheckOnly 100 (ginit 20) evs = some ⟨s, true, 0, 200, 0⟩ ∧
      run repaired 100 (init 20) (evs.take 10) = none := by
  refine ⟨by decide +kernel, by decide, by decide, by decide, by decide, by decide +kernel, by decide +kernel,
    by decide +kernel, by decide +kernel⟩

theorem bounded_at_quiescence_refuted_recheckOnly :
    ¬ ∀ s, ReachOk recheckOnly 100 s → s.quiescent = true → s.dirty ≤ 100 := by
  intro h
  have := h ⟨420, 220, false, .finished, .idle, 0, 0, 220, 200, 0⟩
    ⟨20, [.write 200, .recv, .cas, .check, .start, .complete true, .release, .recheck, .write 200, .recv, .finish],
      by decide, by decide +kernel⟩ rfl
  exact absurd this (by decide)

-- non-vacuity: the bound with `late` on the witness (200 ≤ 100 + 200), and the bound `limit` on the E23 schedule,
-- in which no request is received at all after the first one
example : (⟨420, 220, false, .finished, .idle, 0, 0, 220, 200, 0⟩ : St).dirty ≤ 100 + lateOf recheckOnly 100 20
    [.write 200, .recv, .cas, .check, .start, .complete true, .release, .recheck, .write 200, .recv, .finish] :=
  bounded_at_quiescence_recheckOnly (v := recheckOnly) rfl (by decide) (by decide +kernel) rfl
example : (⟨837, 837, false, .finished, .idle, 0, 0, 837, 0, 0⟩ : St).dirty ≤ 100 + lateOf recheckOnly 100 20
    [.write 79, .write 369, .recv, .cas, .check, .start, .write 369, .complete true, .release, .recheck, .cas, .check,
      .start, .complete true, .release, .recheck, .finish] :=
  bounded_at_quiescence_recheckOnly (v := recheckOnly) rfl (by decide) (by decide +kernel) rfl
-- two concurrent client calls, a redundant request dropped BEFORE the re-check (harmless), a write during `sync_all`
-- that the re-check finds within the limit: at rest within the limit
example : (⟨470, 420, false, .finished, .idle, 0, 0, 420, 50, 0⟩ : St).dirty ≤ 100 :=
  bounded_at_quiescence_noLateDrop (v := recheckOnly) rfl (base := 20)
    (evs := [.append 200, .append 200, .decide, .decide, .recv, .recv, .cas, .check, .start, .write 50, .complete true,
      .release, .recheck, .finish])
    (by decide) (by decide +kernel) (by decide +kernel) rfl
example : ∃ pre post s,
    [.write 200, .recv, .cas, .check, .start, .complete true, .release, .recheck, .write 200, .recv, .finish]
      = pre ++ Ev.recv :: post ∧ run recheckOnly 100 (init 20) pre = some s ∧
    0 < s.queue ∧ s.hdl = .running ∧ s.phase = .done :=
  window_b_characterised (v := recheckOnly) (limit := 100) (base := 20) (by decide +kernel)

/-! #### (7.4) with failures -/

/-- (3), with failures, for the variants with the re-check: after ANY history, once the protocol is at rest, the first
    write that takes the active blob over the limit leads to a sync again - request sent (flag clear), task started
    (handle absent or finished), compare-exchange won, check passed, `sync_all` started with a captured size that
    includes the write; when it succeeds: guard, re-check (nothing to do), end of the task, at rest with no un-synced
    byte and the flag clear. -/
theorem sync_after_failure_recheckOnly {v : Variant} (hv : v.recheckOk = true) {limit : Nat} {s : St}
    (h : Reach v limit s) (hq : s.quiescent = true) {n : Nat} (hover : s.size + n - s.synced > limit) :
    ∃ t u, run v limit s [.write n, .recv, .cas, .check, .start] = some t ∧
      t.phase = .syncing (s.size + n) ∧
      run v limit t [.complete true, .release, .recheck, .finish] = some u ∧
      u.quiescent = true ∧ u.flag = false ∧ u.dirty = 0 := by
  obtain ⟨t, u, h1, h2, _, _, h5, h6, h7, _, h9, h10, _⟩ :=
    write_over_limit_syncs_recheck hv (ctl_reach (Variant.guarded_of_recheckOk hv) h) hq hover
  refine ⟨t, u, h1, h2, h5, h6, h7, ?_⟩
  simp only [St.dirty, h9, h10]
  omega

/-- In the reading of `step`, a failed sync is retried at once: after the guard the only internal step is the re-check,
    which finds the blob still over the limit and goes back to the compare-exchange; rest is reached only after a sync
    has succeeded (or a rotation has made the question moot).  The CODE does not do that (`?` leaves the function):
    `failed_sync_not_retried_witness`. -/
theorem failed_sync_retried_by_step :
    let pre : List Ev := [.write 200, .recv, .cas, .check, .start, .complete false, .release]
    let s1 : St := ⟨220, 20, false, .running, .released, 0, 0, 20, 0, 0⟩
    run recheckOnly 100 (init 20) pre = some s1 ∧ step recheckOnly 100 s1 .finish = none ∧
      next recheckOnly s1 = some .recheck ∧
      (step recheckOnly 100 s1 .recheck).map (·.phase) = some .spawned ∧
      settle recheckOnly 100 8 s1 = ⟨220, 220, false, .finished, .idle, 0, 0, 220, 0, 0⟩ := by
  refine ⟨by decide, by decide, by decide, by decide, by decide +kernel⟩

-- non-vacuity: a state at rest of `step recheckOnly` with a failed sync in its history (failure, rotation, re-check finds
-- the new blob clean), then a write over the limit
example : ∃ t u, run recheckOnly 100 ⟨20, 20, false, .finished, .idle, 0, 1, 20, 0, 0⟩
      [.write 101, .recv, .cas, .check, .start] = some t ∧ t.phase = .syncing 121 ∧
      run recheckOnly 100 t [.complete true, .release, .recheck, .finish] = some u ∧
      u.quiescent = true ∧ u.flag = false ∧ u.dirty = 0 :=
  sync_after_failure_recheckOnly (v := recheckOnly) rfl
    ⟨20, [.write 200, .recv, .cas, .check, .start, .complete false, .release, .rotate 20, .recheck, .finish],
      by decide +kernel⟩ rfl (by decide)

/-! #### (7.5) `Fs` is still the projection onto the states at rest -/

/-- (6) for the variants with the re-check: from a reachable state at rest, a client write followed by ANY schedule of
    internal steps without a failure that ends at rest has, on (`size`, `synced_size`), exactly the effect of the write
    followed by `Fs.fsyncCheckP` -/
theorem quiescent_projection_recheckOnly {v : Variant} (hv : v.recheckOk = true) {limit : Nat} {s : St}
    (h : Reach v limit s) (hq : s.quiescent = true) (n : Nat) {evs : List Ev} {t : St}
    (hint : ∀ e ∈ evs, e.internal = true ∧ e.isFailure = false)
    (hrun : run v limit s (.write n :: evs) = some t) (htq : t.quiescent = true) :
    (t.size, t.synced) = checkEffect limit (s.size + n) s.synced ∧ t.flag = false ∧ t.blob = s.blob := by
  have hc := ctl_reach (Variant.guarded_of_recheckOk hv) h
  simp only [run_cons, step_write, Option.bind_some] at hrun
  have hl := lone_afterWrite (limit := limit) hq n
  have huniq := internal_run_unique hl hint hrun htq (fuel := evs.length + 8) (by omega)
  have hflag : s.flag = false := by
    rw [quiescent_iff] at hq
    rw [hc.flag, hq.2.1]; rfl
  by_cases hover : s.size + n - s.synced > limit
  · obtain ⟨t', u, h1, _, _, _, h5, h6, h7, _, h9, h10, h11⟩ := write_over_limit_syncs_recheck hv hc hq hover
    have hcanon : run v limit (afterWrite limit s n) syncScheduleR = some u := by
      have : run v limit s ([.write n, .recv, .cas, .check, .start] ++ [.complete true, .release, .recheck, .finish])
          = some u := by rw [run_append, h1]; exact h5
      simpa [syncScheduleR] using this
    have hu := internal_run_unique hl (evs := syncScheduleR) (by decide) hcanon h6 (fuel := evs.length + 8)
      (by simp [syncScheduleR])
    have htu : t = u := by rw [← huniq, hu]
    subst htu
    simp [checkEffect, hover, h9, h10, h7, h11]
  · obtain ⟨hrest, hsy⟩ := write_within_limit_rests hq hover
    have : settle v limit (evs.length + 8) (afterWrite limit s n) = afterWrite limit s n :=
      settle_of_next_none ((next_none_iff _ _).2 hrest) _
    have hta : t = afterWrite limit s n := by rw [← huniq, this]
    subst hta
    simp [checkEffect, hover, afterWrite, hflag]

example : ∃ t, run recheckOnly 100 (init 20) (.write 101 :: syncScheduleR) = some t ∧ t.quiescent = true ∧
    (t.size, t.synced) = checkEffect 100 (20 + 101) 20 := by
  refine ⟨⟨121, 121, false, .finished, .idle, 0, 0, 121, 0, 0⟩, by decide, rfl, by decide⟩

/-! #### (7.6) the reading `c = true`: re-check after a successful sync only (/repo for a short while; NOT the code as of
bc65670, which is (7.7); the names `…_code` are kept) -/

/-- Window (c), the early return.  Two 200-byte writes both send a request (the second one before the first task has
    taken the flag).  First task: sync of 420 bytes, guard, re-check, end.  The second request starts a second task:
    compare-exchange won, check: nothing to do - `return Ok(())` from inside the guarded scope.  Before the guard is
    dropped a third 200-byte write is acknowledged: over the limit, but the flag is still set, so no request.  Guard
    dropped; the function has returned, there is NO re-check on this exit; the task ends.  At rest: 200 un-synced bytes,
    limit 100, no failure, no request dropped (`late = 0`), `unseen = 200`.
    In the reading of `step` the same schedule is not enabled at its last event (`finish` needs the re-check first),
    and the re-check `step` inserts there finds the bytes and syncs them.
    (The window is a few instructions wide: the drop of the two read guards before the drop of `_flag`.  Not replayed.)
    CLOSED in /repo at bc65670, where this exit has the re-check too: `early_return_window_closed` (7.7). -/
theorem early_return_window_witness :
    let evs : List Ev := [.write 200, .write 200, .recv, .cas, .check, .start, .complete true, .release, .recheck, .finish,
      .recv, .cas, .check, .write 200, .release, .finish]
    let s : St := ⟨620, 420, false, .finished, .idle, 0, 0, 420, 200, 0⟩
    grun true recheckOnly 100 (ginit 20) evs = some ⟨s, false, 0, 0, 200⟩ ∧ (∀ e ∈ evs, e.isFailure = false) ∧
      s.quiescent = true ∧ s.dirty = 200 ∧ ¬ s.dirty ≤ 100 ∧
      (grun true recheckOnly 100 (ginit 20) (evs.take 13)).map (fun g => (g.st.phase, g.st.flag, g.st.dirty, g.look true)) =
        some (.returned true, true, 0, false) ∧
      run recheckOnly 100 (init 20) evs = none ∧
      (run recheckOnly 100 (init 20) (evs.take 15 ++ [.recheck, .cas, .check, .start, .complete true, .release, .recheck,
        .finish])).map (·.dirty) = some 0 := by
  refine ⟨by decide +kernel, by decide, by decide, by decide, by decide, by decide +kernel, by decide +kernel,
    by decide +kernel⟩

/-- The `?` exit.  One failed `sync_all`: the guard resets the flag, `Inner::fsyncdata` has returned the error, the task
    logs it and ends.  At rest with 200 un-synced bytes over a limit of 100 and nothing scheduled - as before bc65670
    (`flag_clear_at_rest` example), NOT retried.  `step recheckOnly` does not allow this schedule
    (`failed_sync_retried_by_step`). -/
theorem failed_sync_not_retried_witness :
    let evs : List Ev := [.write 200, .recv, .cas, .check, .start, .complete false, .release, .finish]
    let s : St := ⟨220, 20, false, .finished, .idle, 0, 0, 20, 0, 0⟩
    grun true recheckOnly 100 (ginit 20) evs = some ⟨s, false, 0, 0, 0⟩ ∧ s.quiescent = true ∧ s.dirty = 200 ∧
      run recheckOnly 100 (init 20) evs = none ∧ run current 100 (init 20) evs = some s := by
  refine ⟨by decide +kernel, by decide, by decide, by decide +kernel, by decide +kernel⟩

/-- (1) and (4) in the code reading -/
theorem flag_implies_task_code {v : Variant} (hv : v.guarded = true) {limit : Nat} {g : GSt}
    (h : GReach true v limit g) (hf : g.st.flag = true) : g.st.phase.owns = true ∧ g.st.hdl = .running := by
  have hc := gctl_reach hv h
  have ho : g.st.phase.owns = true := by rw [← hc.flag]; exact hf
  refine ⟨ho, hc.hdl.2 ?_⟩
  intro hi
  simp [hi, Phase.owns] at ho

theorem flag_clear_at_rest_code {v : Variant} (hv : v.guarded = true) {limit : Nat} {g : GSt}
    (h : GReach true v limit g) (hq : g.st.quiescent = true) : g.st.flag = false ∧ g.st.hdl ≠ .running := by
  have hc := gctl_reach hv h
  rw [quiescent_iff] at hq
  refine ⟨by rw [hc.flag, hq.2.1]; rfl, ?_⟩
  intro hr
  exact hc.hdl.1 hr hq.2.1

theorem synced_size_sound_code {v : Variant} (hv : v.publishOnlyOnSuccess = true) {limit : Nat} {g : GSt}
    (h : GReach true v limit g) : g.st.synced ≤ g.st.durable ∧ g.st.durable ≤ g.st.size :=
  ⟨(gcnt_reach hv h).synced_le, (gcnt_reach hv h).durable_le⟩

/-- the protocol comes to rest by itself in the code reading too (same measure, with "the re-check is ahead" read off the
    ghost) -/
theorem comes_to_rest_code {v : Variant} (hv : v.guarded = true) (ha : v.awaitRunning = false) (limit : Nat)
    {g : GSt} (h : GReach true v limit g) :
    ∃ evs k, (∀ e ∈ evs, e.internal = true ∧ e.isFailure = false) ∧ grun true v limit g evs = some k ∧
      k.st.quiescent = true ∧ evs.length ≤ g.measure true limit ∧ k.st.size = g.st.size ∧ k.st.blob = g.st.blob :=
  g_comes_to_rest hv ha limit _ g (Nat.le_refl _) (gctl_reach hv h)

/-- (3) in the code reading: at rest, after any schedule without a sync failure, the un-synced bytes are at most
    `limit + late + unseen` -/
theorem bounded_at_quiescence_code {v : Variant} (hv : v.recheckOk = true) {limit : Nat} {g : GSt}
    (h : GReachOk true v limit g) (hq : g.st.quiescent = true) : g.st.dirty ≤ limit + g.late + g.unseen :=
  gbounded_at_quiescence hv h hq

/-- `late ≠ 0` only through window (b): a request received while the handle is unfinished and the task is past its last
    look (after its last re-check, or after the guard on an exit that has no re-check) … -/
theorem window_b_characterised_code {v : Variant} {limit : Nat} {g : GSt} (base : Nat) (evs : List Ev)
    (h : grun true v limit (ginit base) evs = some g) (hl : g.late ≠ 0) :
    ∃ pre post k, evs = pre ++ .recv :: post ∧ grun true v limit (ginit base) pre = some k ∧
      0 < k.st.queue ∧ k.st.hdl = .running ∧
      (k.st.phase = .done ∨ (k.st.phase = .released ∧ k.afterSync = false)) := by
  rcases late_pos_has_drop evs _ g h hl with h0 | ⟨pre, post, k, h1, h2, h3, h4, h5, _⟩
  · exact absurd rfl h0
  · refine ⟨pre, post, k, h1, h2, h3, h4, ?_⟩
    simp only [GSt.pastLook, GSt.look] at h5
    cases hp : k.st.phase <;> simp_all

/-- … and `unseen ≠ 0` only through window (c): bytes appended while the task, on an exit that has no re-check (early
    return, failed sync), still holds the flag -/
theorem window_c_characterised_code {v : Variant} {limit : Nat} {g : GSt} (base : Nat) (evs : List Ev)
    (h : grun true v limit (ginit base) evs = some g) (hl : g.unseen ≠ 0) :
    ∃ pre e post k n, evs = pre ++ e :: post ∧ grun true v limit (ginit base) pre = some k ∧
      (∃ r, k.st.phase = .returned r) ∧ k.afterSync = false ∧ 0 < n ∧ (e = .write n ∨ e = .append n) := by
  rcases unseen_pos_has_early_write evs _ g h (Or.inl hl) with h0 | ⟨pre, e, post, k, n, h1, h2, h3, h4, h5⟩
  · rcases h0 with h0 | h0
    · exact absurd rfl h0
    · simp [ginit, GSt.early, init] at h0
  · refine ⟨pre, e, post, k, n, h1, h2, ?_, ?_, h4, h5⟩ <;>
      (simp only [GSt.early, GSt.look] at h3; cases hp : k.st.phase <;> simp_all)

/-- what the candidate `repaired` (awaiting worker) gives when the re-check is where the code has it: window (b) is
    closed (`late = 0`), window (c) is not - the bound is `limit + unseen`.  (`bounded_at_quiescence_repaired`, the bound
    `limit` after every schedule, is about `step`, which re-checks after every exit.) -/
theorem bounded_at_quiescence_repaired_code {v : Variant} (hv : v.repairedOk = true) {limit : Nat} {g : GSt}
    (h : GReachOk true v limit g) (hq : g.st.quiescent = true) : g.late = 0 ∧ g.st.dirty ≤ limit + g.unseen := by
  simp only [Variant.repairedOk, Bool.and_eq_true] at hv
  have hv' : v.recheckOk = true := by simp [Variant.recheckOk, hv.1]
  have h1 := gbounded_at_quiescence hv' h hq
  obtain ⟨base, evs, _, hr⟩ := h
  have h2 := late_zero_of_awaitRunning hv.2 (g := ginit base) rfl hr
  exact ⟨h2, by omega⟩

/-- (3), with failures, in the code reading: after ANY history (failed syncs are NOT retried, so rest over the limit is
    reachable), the first write that takes the active blob over the limit leads to a sync again; when it succeeds the
    re-check follows (this exit has it) and the protocol is at rest with no un-synced byte -/
theorem sync_after_failure_code {v : Variant} (hv : v.recheckOk = true) {limit : Nat} {g : GSt}
    (h : GReach true v limit g) (hq : g.st.quiescent = true) {n : Nat} (hover : g.st.size + n - g.st.synced > limit) :
    ∃ t u, grun true v limit g [.write n, .recv, .cas, .check, .start] = some t ∧
      t.st.phase = .syncing (g.st.size + n) ∧
      grun true v limit t [.complete true, .release, .recheck, .finish] = some u ∧
      u.st.quiescent = true ∧ u.st.flag = false ∧ u.st.dirty = 0 ∧ u.late = 0 ∧ u.unseen = 0 := by
  obtain ⟨t, u, h1, h2, _, _, h5, h6, h7, _, h9, h10, _, h12, h13⟩ :=
    gwrite_over_limit_syncs hv (gctl_reach (Variant.guarded_of_recheckOk hv) h) hq hover
  refine ⟨t, u, h1, h2, h5, h6, h7, ?_, h12, h13⟩
  simp only [St.dirty, h9, h10]
  omega

-- non-vacuity: the state at rest after the failed sync of `failed_sync_not_retried_witness`, then a 1-byte write
example : ∃ t u, grun true recheckOnly 100 ⟨⟨220, 20, false, .finished, .idle, 0, 0, 20, 0, 0⟩, false, 0, 0, 0⟩
      [.write 1, .recv, .cas, .check, .start] = some t ∧ t.st.phase = .syncing 221 ∧
      grun true recheckOnly 100 t [.complete true, .release, .recheck, .finish] = some u ∧
      u.st.quiescent = true ∧ u.st.flag = false ∧ u.st.dirty = 0 ∧ u.late = 0 ∧ u.unseen = 0 :=
  sync_after_failure_code (v := recheckOnly) rfl
    ⟨20, [.write 200, .recv, .cas, .check, .start, .complete false, .release, .finish], by decide +kernel⟩ rfl
    (by decide)
-- the bound of the code reading on the two witnesses: 200 ≤ 100 + 0 + 200 (window (c)), 200 ≤ 100 + 200 + 0 (window (b))
example : (⟨620, 420, false, .finished, .idle, 0, 0, 420, 200, 0⟩ : St).dirty ≤ 100 + 0 + 200 :=
  bounded_at_quiescence_code (v := recheckOnly) (g := ⟨⟨620, 420, false, .finished, .idle, 0, 0, 420, 200, 0⟩, false, 0, 0, 200⟩)
    rfl ⟨20, [.write 200, .write 200, .recv, .cas, .check, .start, .complete true, .release, .recheck, .finish,
      .recv, .cas, .check, .write 200, .release, .finish], by decide, by decide +kernel⟩ rfl
example : (⟨420, 220, false, .finished, .idle, 0, 0, 220, 200, 0⟩ : St).dirty ≤ 100 + 200 + 0 :=
  bounded_at_quiescence_code (v := recheckOnly) (g := ⟨⟨420, 220, false, .finished, .idle, 0, 0, 220, 200, 0⟩, true, 0, 200, 0⟩)
    rfl ⟨20, [.write 200, .recv, .cas, .check, .start, .complete true, .release, .recheck, .write 200, .recv, .finish],
      by decide, by decide +kernel⟩ rfl
-- the candidate `repaired` in the code reading: window (b) closed (`recv` not enabled), window (c) still open
example : grun true repaired 100 (ginit 20) [.write 200, .recv, .cas, .check, .start, .complete true, .release, .recheck,
    .write 200, .recv] = none := by decide +kernel
example : (grun true repaired 100 (ginit 20) [.write 200, .write 200, .recv, .cas, .check, .start, .complete true, .release,
    .recheck, .finish, .recv, .cas, .check, .write 200, .release, .finish]).map (fun g => (g.st.quiescent, g.st.dirty, g.unseen))
    = some (true, 200, 200) := by decide +kernel

/-! #### (7.7) THE CODE AS OF bc65670 (the commit as amended): re-check after every release except after a failed sync

`Inner::fsyncdata` as it is now (`Pearl/Proofs/SyncProto3.lean` has the function): inside the loop the guarded scope
computes `over_limit`, syncs only if so (`safe.fsyncdata().await?`), and ENDS on both non-failing paths (synced / not over
the limit) - guard dropped there - and the re-check after the scope runs on both of them.  Only the `?` of a FAILED sync
leaves the function without a re-check (and a lost compare-exchange, not reachable with one task).  That is neither
`c = false` (`step`: re-check also after a failed sync, i.e. a failing sync retried in a loop) nor `c = true` ((7.6):
no re-check after the early exit either).  Third reading: the wrapper `MSt` / `mstep m` with `m : Mode`;
`Mode.everyExit` / `Mode.afterSyncOnly` are `gstep false` / `gstep true` (`mstep_ofBool`, `mrun_ofBool`), `Mode.amended`
is the code.  The theorems named `…_amended` are about `MReach .amended`. -/

/-- the first two modes of the three-valued wrapper are the two readings of (7.1)-(7.6), schedule by schedule -/
theorem readings_embedded (c : Bool) (v : Variant) (limit : Nat) (evs : List Ev) (k : MSt) :
    (mrun (.ofBool c) v limit k evs).map MSt.toG = grun c v limit k.toG evs :=
  mrun_ofBool c v limit evs k

/-- (1) in the amended reading -/
theorem flag_implies_task_amended {v : Variant} (hv : v.guarded = true) {limit : Nat} {k : MSt}
    (h : MReach .amended v limit k) (hf : k.st.flag = true) : k.st.phase.owns = true ∧ k.st.hdl = .running := by
  have hc := mctl_reach hv h
  have ho : k.st.phase.owns = true := by rw [← hc.flag]; exact hf
  refine ⟨ho, hc.hdl.2 ?_⟩
  intro hi
  simp [hi, Phase.owns] at ho

/-- at rest the flag is clear and the handle absent or finished, whatever failed before -/
theorem flag_clear_at_rest_amended {v : Variant} (hv : v.guarded = true) {limit : Nat} {k : MSt}
    (h : MReach .amended v limit k) (hq : k.st.quiescent = true) : k.st.flag = false ∧ k.st.hdl ≠ .running := by
  have hc := mctl_reach hv h
  rw [quiescent_iff] at hq
  refine ⟨by rw [hc.flag, hq.2.1]; rfl, ?_⟩
  intro hr
  exact hc.hdl.1 hr hq.2.1

/-- (4) in the amended reading -/
theorem synced_size_sound_amended {v : Variant} (hv : v.publishOnlyOnSuccess = true) {limit : Nat} {k : MSt}
    (h : MReach .amended v limit k) : k.st.synced ≤ k.st.durable ∧ k.st.durable ≤ k.st.size :=
  ⟨(mcnt_reach hv h).synced_le, (mcnt_reach hv h).durable_le⟩

/-- left alone (every later sync succeeding) the protocol comes to rest by itself in the amended reading: the loop goes
    round at most once more -/
theorem comes_to_rest_amended {v : Variant} (hv : v.guarded = true) (ha : v.awaitRunning = false) (limit : Nat)
    {k : MSt} (h : MReach .amended v limit k) :
    ∃ evs j, (∀ e ∈ evs, e.internal = true ∧ e.isFailure = false) ∧ mrun .amended v limit k evs = some j ∧
      j.st.quiescent = true ∧ evs.length ≤ k.measure .amended limit ∧ j.st.size = k.st.size ∧ j.st.blob = k.st.blob :=
  m_comes_to_rest hv ha limit _ k (Nat.le_refl _) (mctl_reach hv h)

/-- window (c1) is CLOSED by the code as of bc65670: without a failing sync every release of the flag is followed by the
    re-check (ghost `ahead` is true from the compare-exchange to the re-check), so no byte goes unseen -/
theorem window_c1_closed {v : Variant} (hv : v.guarded = true) {limit : Nat} {k : MSt}
    (h : MReachOk .amended v limit k) :
    k.unseen = 0 ∧ ((∃ r, k.st.phase = .returned r) ∨ k.st.phase = .released → k.look .amended = true) := by
  obtain ⟨base, evs, hq, hr⟩ := h
  obtain ⟨_, ha, h0⟩ := amended_run hv (ctl_init base) (ahead_init base) rfl hq hr
  refine ⟨h0, ?_⟩
  rintro (⟨r, hp⟩ | hp) <;> simpa [Ahead, hp, MSt.look] using ha

/-- (3) for the code as of bc65670: in every state at rest reached without a sync failure the un-synced bytes of the
    active blob are at most `limit + late` - the bound of `bounded_at_quiescence_recheckOnly`; the `unseen` of
    `bounded_at_quiescence_code` is 0 -/
theorem bounded_at_quiescence_amended {v : Variant} (hv : v.recheckOk = true) {limit : Nat} {k : MSt}
    (h : MReachOk .amended v limit k) (hq : k.st.quiescent = true) : k.unseen = 0 ∧ k.st.dirty ≤ limit + k.late := by
  have h1 := mbounded_at_quiescence hv h hq
  have h2 := unseen_zero_amended (Variant.guarded_of_recheckOk hv) h
  exact ⟨h2, by omega⟩

/-- Schedule by schedule: as long as no sync fails, the code as of bc65670 IS `step` with `recheck := true` - enabled on the
    same schedules, ending in the same state, with the same `late` (`lateOf`), and `unseen = 0`.  (The two part at a
    `complete false` only: `failed_sync_not_retried_amended` / `failed_sync_retried_by_step`.)  So every `…_recheckOnly`
    theorem about failure-free schedules is a theorem about the code. -/
theorem amended_is_step_without_failure {v : Variant} (hv : v.guarded = true) {limit base : Nat} {evs : List Ev}
    (hok : ∀ e ∈ evs, e.isFailure = false) :
    (mrun .amended v limit (minit base) evs).map (·.st) = run v limit (init base) evs ∧
      ∀ k, mrun .amended v limit (minit base) evs = some k → k.late = lateOf v limit base evs ∧ k.unseen = 0 :=
  mrun_amended_eq_run hv hok

/-- … in particular the bound at rest in exactly the form of `bounded_at_quiescence_recheckOnly` -/
theorem bounded_at_quiescence_amended_lateOf {v : Variant} (hv : v.recheckOk = true) {limit base : Nat} {evs : List Ev}
    {k : MSt} (hok : ∀ e ∈ evs, e.isFailure = false) (h : mrun .amended v limit (minit base) evs = some k)
    (hq : k.st.quiescent = true) : k.st.dirty ≤ limit + lateOf v limit base evs := by
  have h1 := (bounded_at_quiescence_amended hv ⟨base, evs, hok, h⟩ hq).2
  have h2 := ((amended_is_step_without_failure (Variant.guarded_of_recheckOk hv) hok).2 k h).1
  omega

/-- `late ≠ 0` only through window (b), which without failures is exactly what it is for `step`
    (`window_b_characterised`): a request received while the handle is unfinished and the task is past its LAST re-check
    (phase `done`) -/
theorem window_b_characterised_amended {v : Variant} (hv : v.guarded = true) {limit : Nat} {k : MSt} (base : Nat)
    (evs : List Ev) (hok : ∀ e ∈ evs, e.isFailure = false)
    (h : mrun .amended v limit (minit base) evs = some k) (hl : k.late ≠ 0) :
    ∃ pre post j, evs = pre ++ .recv :: post ∧ mrun .amended v limit (minit base) pre = some j ∧
      0 < j.st.queue ∧ j.st.hdl = .running ∧ j.st.phase = .done := by
  rcases mlate_pos_has_drop evs _ k h hl with h0 | ⟨pre, post, j, h1, h2, h3, h4, h5, _⟩
  · exact absurd rfl h0
  · refine ⟨pre, post, j, h1, h2, h3, h4, ?_⟩
    have ha := (amended_run hv (ctl_init base) (ahead_init base) rfl
      (fun e he => hok e (by rw [h1]; exact List.mem_append_left _ he)) h2).2.1
    simp only [MSt.pastLook, MSt.look] at h5
    cases hp : j.st.phase <;> simp_all [Ahead]

/-- … so the bound of the property holds for every failure-free schedule in which no request is received in window (b) -/
theorem bounded_at_quiescence_no_late_drop_amended {v : Variant} (hv : v.recheckOk = true) {limit base : Nat}
    {evs : List Ev} {k : MSt} (hok : ∀ e ∈ evs, e.isFailure = false)
    (h : mrun .amended v limit (minit base) evs = some k) (hq : k.st.quiescent = true)
    (hnd : ∀ pre post j, evs = pre ++ .recv :: post → mrun .amended v limit (minit base) pre = some j →
      j.st.hdl = .running → j.st.phase ≠ .done) : k.st.dirty ≤ limit := by
  have h1 := (bounded_at_quiescence_amended hv ⟨base, evs, hok, h⟩ hq).2
  by_cases hl : k.late = 0
  · omega
  · obtain ⟨pre, post, j, h2, h3, _, h5, h6⟩ :=
      window_b_characterised_amended (Variant.guarded_of_recheckOk hv) base evs hok h hl
    exact absurd h6 (hnd pre post j h2 h3 h5)

/-- the same with the executable check `mnoLateDrop` -/
theorem bounded_at_quiescence_noLateDrop_amended {v : Variant} (hv : v.recheckOk = true) {limit base : Nat}
    {evs : List Ev} {k : MSt} (hok : ∀ e ∈ evs, e.isFailure = false)
    (hnd : mnoLateDrop .amended v limit (minit base) evs = true)
    (h : mrun .amended v limit (minit base) evs = some k) (hq : k.st.quiescent = true) : k.st.dirty ≤ limit :=
  bounded_at_quiescence_no_late_drop_amended hv hok h hq (fun pre post j he hr hh hp =>
    mnoLateDrop_split pre (minit base) j post (he ▸ hnd) hr ⟨hh, hp⟩)

/-- with the code as of bc65670 the candidate `repaired` (awaiting worker) gives the bound of the property after every
    failure-free schedule: window (b) closed by the worker, window (c1) by the task body
    (compare `bounded_at_quiescence_repaired_code`, where `unseen` remained) -/
theorem bounded_at_quiescence_repaired_amended {v : Variant} (hv : v.repairedOk = true) {limit : Nat} {k : MSt}
    (h : MReachOk .amended v limit k) (hq : k.st.quiescent = true) : k.st.dirty ≤ limit := by
  simp only [Variant.repairedOk, Bool.and_eq_true] at hv
  have hv' : v.recheckOk = true := by simp [Variant.recheckOk, hv.1]
  have h1 := (bounded_at_quiescence_amended hv' h hq).2
  obtain ⟨base, evs, _, hr⟩ := h
  have h2 := mlate_zero_of_awaitRunning hv.2 (k := minit base) rfl hr
  omega

/-- (2) Window (c1) on its witness.  The schedule of `early_return_window_witness` under the code as of bc65670: up to the
    drop of the guard it is the same (second task, check "not over the limit", a 200-byte write acknowledged while the
    flag is still set: no request) - but the guarded scope ENDS there instead of returning, so the task can NOT end
    (`finish`, the last event of the witness, is not enabled): the only internal step is the re-check, which finds
    200 > 100 and goes round the loop.  At rest: no un-synced byte, `late = 0`, `unseen = 0`.  The continuation is forced
    (`msettle`). -/
theorem early_return_window_closed :
    let evs : List Ev := [.write 200, .write 200, .recv, .cas, .check, .start, .complete true, .release, .recheck, .finish,
      .recv, .cas, .check, .write 200, .release, .finish]
    let post : List Ev := [.recheck, .cas, .check, .start, .complete true, .release, .recheck, .finish]
    let k1 : MSt := ⟨⟨620, 420, false, .running, .released, 0, 0, 420, 200, 0⟩, true, 0, 0, 0⟩
    let k : MSt := ⟨⟨620, 620, false, .finished, .idle, 0, 0, 620, 0, 0⟩, true, 0, 0, 0⟩
    mrun .amended recheckOnly 100 (minit 20) (evs.take 15) = some k1 ∧ k1.st.dirty = 200 ∧
      (mrun .amended recheckOnly 100 (minit 20) (evs.take 14)).map (fun j => (j.st.phase, j.st.flag, j.look .amended)) =
        some (.returned true, true, true) ∧
      mstep .amended recheckOnly 100 k1 .finish = none ∧ mrun .amended recheckOnly 100 (minit 20) evs = none ∧
      mnext .amended recheckOnly k1 = some .recheck ∧
      mrun .amended recheckOnly 100 k1 post = some k ∧ msettle .amended recheckOnly 100 8 k1 = k ∧
      (∀ e ∈ evs.take 15 ++ post, e.isFailure = false) ∧
      k.st.quiescent = true ∧ k.st.dirty ≤ 100 ∧ k.late = 0 ∧ k.unseen = 0 ∧
      (mrun .afterSyncOnly recheckOnly 100 (minit 20) evs).map (fun j => (j.st.quiescent, j.st.dirty, j.unseen)) =
        some (true, 200, 200) := by
  refine ⟨by decide +kernel, by decide, by decide +kernel, by decide, by decide +kernel, by decide, by decide +kernel,
    by decide +kernel, by decide, by decide, by decide, by decide, by decide, by decide +kernel⟩

/-- (3) The `?` exit is what it was.  One failed `sync_all`: the guard resets the flag, `Inner::fsyncdata` returns the
    error from inside the guarded scope, the task logs it and ends.  At rest with 200 un-synced bytes over a limit of 100
    and nothing scheduled: a failed sync is NOT retried (neither in a loop nor once).  Same end state as in (7.6) and as
    before the commit; `step` (`Mode.everyExit`) does not allow the schedule.  Bytes acknowledged between the failure
    and the drop of the guard are `unseen` (second schedule: 50 of them, and 7 more `late`). -/
theorem failed_sync_not_retried_amended :
    let evs : List Ev := [.write 200, .recv, .cas, .check, .start, .complete false, .release, .finish]
    let s : St := ⟨220, 20, false, .finished, .idle, 0, 0, 20, 0, 0⟩
    mrun .amended recheckOnly 100 (minit 20) evs = some ⟨s, false, 0, 0, 0⟩ ∧ s.quiescent = true ∧ s.dirty = 200 ∧
      ¬ s.dirty ≤ 100 ∧
      (mrun .amended recheckOnly 100 (minit 20) (evs.take 7)).map (mnext .amended recheckOnly) = some (some .finish) ∧
      mrun .everyExit recheckOnly 100 (minit 20) evs = none ∧ run current 100 (init 20) evs = some s ∧
      (mrun .amended recheckOnly 100 (minit 20) [.write 200, .recv, .cas, .check, .start, .complete false, .write 50,
        .release, .write 7, .recv, .finish]).map (fun j => (j.st.quiescent, j.st.dirty, j.late, j.unseen)) =
        some (true, 257, 7, 50) := by
  refine ⟨by decide +kernel, by decide, by decide, by decide, by decide +kernel, by decide +kernel, by decide +kernel,
    by decide +kernel⟩

/-- (3), with failures, for the code as of bc65670: after ANY history (failed syncs are not retried, so rest over the
    limit is reachable), the first write that takes the active blob over the limit leads to a sync again - request sent
    (flag clear), task started (handle absent or finished), compare-exchange won, check passed, `sync_all` started with a
    captured size that includes the write; when it succeeds: guard, re-check (nothing to do), end of the task, at rest with
    no un-synced byte -/
theorem sync_after_failure_amended {v : Variant} (hv : v.recheckOk = true) {limit : Nat} {k : MSt}
    (h : MReach .amended v limit k) (hq : k.st.quiescent = true) {n : Nat} (hover : k.st.size + n - k.st.synced > limit) :
    ∃ t u, mrun .amended v limit k [.write n, .recv, .cas, .check, .start] = some t ∧
      t.st.phase = .syncing (k.st.size + n) ∧
      mrun .amended v limit t [.complete true, .release, .recheck, .finish] = some u ∧
      u.st.quiescent = true ∧ u.st.flag = false ∧ u.st.dirty = 0 ∧ u.late = 0 ∧ u.unseen = 0 := by
  obtain ⟨t, u, h1, h2, _, _, h5, h6, h7, _, h9, h10, _, h12, h13⟩ :=
    mwrite_over_limit_syncs hv (mctl_reach (Variant.guarded_of_recheckOk hv) h) hq hover
  refine ⟨t, u, h1, h2, h5, h6, h7, ?_, h12, h13⟩
  simp only [St.dirty, h9, h10]
  omega

/-- (4) Window (b) is UNCHANGED by the amendment: the schedule of `window_b_witness` (request sent after the task's last
    re-check, received before `JoinHandle::is_finished`, dropped) runs under the code as of bc65670 to the same state at
    rest: 200 un-synced bytes, limit 100, no failure, `late = 200`, `unseen = 0`.  An awaiting worker (`repaired`) does not
    enable the `recv`. -/
theorem window_b_witness_amended :
    let evs : List Ev := [.write 200, .recv, .cas, .check, .start, .complete true, .release, .recheck, .write 200, .recv,
      .finish]
    let s : St := ⟨420, 220, false, .finished, .idle, 0, 0, 220, 200, 0⟩
    mrun .amended recheckOnly 100 (minit 20) evs = some ⟨s, true, 0, 200, 0⟩ ∧ (∀ e ∈ evs, e.isFailure = false) ∧
      s.quiescent = true ∧ s.dirty = 200 ∧ ¬ s.dirty ≤ 100 ∧
      (mrun .amended recheckOnly 100 (minit 20) (evs.take 9)).map
          (fun j => (j.st.phase, j.st.hdl, j.st.flag, j.st.queue)) = some (.done, .running, false, 1) ∧
      (mrun .amended recheckOnly 100 (minit 20) evs).map (·.st) = run recheckOnly 100 (init 20) evs ∧
      mrun .amended repaired 100 (minit 20) (evs.take 10) = none := by
  refine ⟨by decide +kernel, by decide, by decide, by decide, by decide, by decide +kernel, by decide +kernel,
    by decide +kernel⟩

/-- … so (3) as stated is STILL FALSE of /repo at bc65670 -/
theorem bounded_at_quiescence_refuted_amended :
    ¬ ∀ k, MReachOk .amended recheckOnly 100 k → k.st.quiescent = true → k.st.dirty ≤ 100 := by
  intro h
  have := h ⟨⟨420, 220, false, .finished, .idle, 0, 0, 220, 200, 0⟩, true, 0, 200, 0⟩
    ⟨20, [.write 200, .recv, .cas, .check, .start, .complete true, .release, .recheck, .write 200, .recv, .finish],
      by decide, by decide +kernel⟩ rfl
  exact absurd this (by decide)

-- non-vacuity.  (1): the task holds the flag
example : (⟨220, 20, true, .running, .held, 0, 0, 20, 0, 0⟩ : St).phase.owns = true ∧
    (⟨220, 20, true, .running, .held, 0, 0, 20, 0, 0⟩ : St).hdl = .running :=
  flag_implies_task_amended (v := recheckOnly) rfl (limit := 100)
    (k := ⟨⟨220, 20, true, .running, .held, 0, 0, 20, 0, 0⟩, true, 0, 0, 0⟩) ⟨20, [.write 200, .recv, .cas], by decide⟩ rfl
-- rest reached through a FAILED sync: flag clear, handle finished
example : (⟨220, 20, false, .finished, .idle, 0, 0, 20, 0, 0⟩ : St).flag = false ∧
    (⟨220, 20, false, .finished, .idle, 0, 0, 20, 0, 0⟩ : St).hdl ≠ .running :=
  flag_clear_at_rest_amended (v := recheckOnly) rfl (limit := 100)
    (k := ⟨⟨220, 20, false, .finished, .idle, 0, 0, 20, 0, 0⟩, false, 0, 0, 0⟩)
    ⟨20, [.write 200, .recv, .cas, .check, .start, .complete false, .release, .finish], by decide +kernel⟩ rfl
example : (⟨220, 20, true, .running, .returned true, 0, 0, 20, 0, 0⟩ : St).synced ≤ 20 :=
  (synced_size_sound_amended (v := recheckOnly) rfl (limit := 100)
    (k := ⟨⟨220, 20, true, .running, .returned true, 0, 0, 20, 0, 0⟩, false, 0, 0, 0⟩)
    ⟨20, [.write 200, .recv, .cas, .check, .start, .complete false], by decide⟩).1
-- the state of `early_return_window_closed` right after the drop of the guard: 8 more steps, `measure` is 8
example : ∃ evs j, (∀ e ∈ evs, e.internal = true ∧ e.isFailure = false) ∧
    mrun .amended recheckOnly 100 ⟨⟨620, 420, false, .running, .released, 0, 0, 420, 200, 0⟩, true, 0, 0, 0⟩ evs = some j ∧
    j.st.quiescent = true ∧
    evs.length ≤ (⟨⟨620, 420, false, .running, .released, 0, 0, 420, 200, 0⟩, true, 0, 0, 0⟩ : MSt).measure .amended 100 ∧
    j.st.size = 620 ∧ j.st.blob = 0 :=
  comes_to_rest_amended (v := recheckOnly) rfl rfl 100
    ⟨20, [.write 200, .write 200, .recv, .cas, .check, .start, .complete true, .release, .recheck, .finish,
      .recv, .cas, .check, .write 200, .release], by decide +kernel⟩
example : (⟨⟨620, 420, false, .running, .released, 0, 0, 420, 200, 0⟩, true, 0, 0, 0⟩ : MSt).measure .amended 100 = 8 := by
  decide
-- the bound on the three schedules: window (c1) witness continued (0 ≤ 100 + 0), E23 (0 ≤ 100 + 0), window (b)
-- (200 ≤ 100 + 200)
example : (⟨620, 620, false, .finished, .idle, 0, 0, 620, 0, 0⟩ : St).dirty ≤ 100 + 0 :=
  (bounded_at_quiescence_amended (v := recheckOnly) (k := ⟨⟨620, 620, false, .finished, .idle, 0, 0, 620, 0, 0⟩, true, 0, 0, 0⟩)
    rfl ⟨20, [.write 200, .write 200, .recv, .cas, .check, .start, .complete true, .release, .recheck, .finish,
      .recv, .cas, .check, .write 200, .release, .recheck, .cas, .check, .start, .complete true, .release, .recheck, .finish],
      by decide, by decide +kernel⟩ rfl).2
example : (⟨837, 837, false, .finished, .idle, 0, 0, 837, 0, 0⟩ : St).dirty ≤ 100 + 0 :=
  (bounded_at_quiescence_amended (v := recheckOnly) (k := ⟨⟨837, 837, false, .finished, .idle, 0, 0, 837, 0, 0⟩, true, 0, 0, 0⟩)
    rfl ⟨20, [.write 79, .write 369, .recv, .cas, .check, .start, .write 369, .complete true, .release, .recheck, .cas, .check,
      .start, .complete true, .release, .recheck, .finish], by decide, by decide +kernel⟩ rfl).2
example : (⟨420, 220, false, .finished, .idle, 0, 0, 220, 200, 0⟩ : St).dirty ≤ 100 + 200 :=
  (bounded_at_quiescence_amended (v := recheckOnly) (k := ⟨⟨420, 220, false, .finished, .idle, 0, 0, 220, 200, 0⟩, true, 0, 200, 0⟩)
    rfl ⟨20, [.write 200, .recv, .cas, .check, .start, .complete true, .release, .recheck, .write 200, .recv, .finish],
      by decide, by decide +kernel⟩ rfl).2
-- the amended reading and `step` on the E23 schedule (same end state), and the bound with `lateOf` on the window (b) one
example : (mrun .amended recheckOnly 100 (minit 20) [.write 79, .write 369, .recv, .cas, .check, .start, .write 369,
      .complete true, .release, .recheck, .cas, .check, .start, .complete true, .release, .recheck, .finish]).map (·.st) =
    run recheckOnly 100 (init 20) [.write 79, .write 369, .recv, .cas, .check, .start, .write 369,
      .complete true, .release, .recheck, .cas, .check, .start, .complete true, .release, .recheck, .finish] :=
  (amended_is_step_without_failure (v := recheckOnly) rfl (by decide)).1
example : run recheckOnly 100 (init 20) [.write 79, .write 369, .recv, .cas, .check, .start, .write 369,
      .complete true, .release, .recheck, .cas, .check, .start, .complete true, .release, .recheck, .finish] =
    some ⟨837, 837, false, .finished, .idle, 0, 0, 837, 0, 0⟩ := by decide +kernel
example : (⟨420, 220, false, .finished, .idle, 0, 0, 220, 200, 0⟩ : St).dirty ≤ 100 + lateOf recheckOnly 100 20
    [.write 200, .recv, .cas, .check, .start, .complete true, .release, .recheck, .write 200, .recv, .finish] :=
  bounded_at_quiescence_amended_lateOf (v := recheckOnly) rfl
    (k := ⟨⟨420, 220, false, .finished, .idle, 0, 0, 220, 200, 0⟩, true, 0, 200, 0⟩) (by decide) (by decide +kernel) rfl
example : ∃ pre post j,
    [.write 200, .recv, .cas, .check, .start, .complete true, .release, .recheck, .write 200, .recv, .finish]
      = pre ++ Ev.recv :: post ∧ mrun .amended recheckOnly 100 (minit 20) pre = some j ∧
    0 < j.st.queue ∧ j.st.hdl = .running ∧ j.st.phase = .done :=
  window_b_characterised_amended (v := recheckOnly) rfl (limit := 100) 20 _ (by decide)
    (k := ⟨⟨420, 220, false, .finished, .idle, 0, 0, 220, 200, 0⟩, true, 0, 200, 0⟩) (by decide +kernel) (by decide)
-- a redundant request, an early exit with a write in window (c1), no request received in window (b): within the limit
example : (⟨620, 620, false, .finished, .idle, 0, 0, 620, 0, 0⟩ : St).dirty ≤ 100 :=
  bounded_at_quiescence_noLateDrop_amended (v := recheckOnly) rfl (base := 20)
    (evs := [.write 200, .write 200, .recv, .cas, .check, .start, .complete true, .release, .recheck, .finish,
      .recv, .cas, .check, .write 200, .release, .recheck, .cas, .check, .start, .complete true, .release, .recheck, .finish])
    (k := ⟨⟨620, 620, false, .finished, .idle, 0, 0, 620, 0, 0⟩, true, 0, 0, 0⟩)
    (by decide) (by decide +kernel) (by decide +kernel) rfl
-- the candidate `repaired` with the task body of bc65670: the window (c1) schedule ends within the limit
example : (⟨620, 620, false, .finished, .idle, 0, 0, 620, 0, 0⟩ : St).dirty ≤ 100 :=
  bounded_at_quiescence_repaired_amended (v := repaired) rfl
    (k := ⟨⟨620, 620, false, .finished, .idle, 0, 0, 620, 0, 0⟩, true, 0, 0, 0⟩)
    ⟨20, [.write 200, .write 200, .recv, .cas, .check, .start, .complete true, .release, .recheck, .finish,
      .recv, .cas, .check, .write 200, .release, .recheck, .cas, .check, .start, .complete true, .release, .recheck, .finish],
      by decide, by decide +kernel⟩ rfl
-- the state at rest after the failed sync of `failed_sync_not_retried_amended`, then a 1-byte write
example : ∃ t u, mrun .amended recheckOnly 100 ⟨⟨220, 20, false, .finished, .idle, 0, 0, 20, 0, 0⟩, false, 0, 0, 0⟩
      [.write 1, .recv, .cas, .check, .start] = some t ∧ t.st.phase = .syncing 221 ∧
      mrun .amended recheckOnly 100 t [.complete true, .release, .recheck, .finish] = some u ∧
      u.st.quiescent = true ∧ u.st.flag = false ∧ u.st.dirty = 0 ∧ u.late = 0 ∧ u.unseen = 0 :=
  sync_after_failure_amended (v := recheckOnly) rfl
    ⟨20, [.write 200, .recv, .cas, .check, .start, .complete false, .release, .finish], by decide +kernel⟩ rfl
    (by decide)

end SyncProto
end Pearl

/-
NOT YET PROVED / outside the model (sync request protocol):
* FALSE of /repo BEFORE bc65670 (`current`), with proof of the negation: `no_lost_request` and `bounded_at_quiescence` as
  stated (`no_lost_request_refuted`, `bounded_at_quiescence_refuted`, `bounded_at_quiescence_refuted_any`); schedule (a)
  reproduced on the real library with the pause failpoint.  Proved instead: the bound `limit + blind`
  (`bounded_at_quiescence_partial`), the bound `limit` when no append lands after a task's size capture
  (`bounded_at_quiescence_no_blind_write`), and the bound `limit` for the candidate repair
  (`bounded_at_quiescence_repaired`).
* The code as it is since bc65670 (`recheckOnly`, section (7)).  Window (a) is closed (`e23_schedule_now_synced`).
  `bounded_at_quiescence` as stated is STILL FALSE (`window_b_witness`, `bounded_at_quiescence_refuted_recheckOnly`): window
  (b) - request sent after the task's last re-check, received before `JoinHandle::is_finished` - is open.  Proved instead:
  `limit + late` (`bounded_at_quiescence_recheckOnly`), `late ≠ 0` only through a `recv` in that window
  (`window_b_characterised`), `limit` when there is none (`bounded_at_quiescence_no_late_drop`); an awaiting worker closes
  it (`late_zero_of_awaitRunning`, `bounded_at_quiescence_repaired`).
* WHICH READING IS THE CODE.  /repo at bc65670 (the commit as amended; `Inner::fsyncdata` read again for (7.7)) is the
  THIRD reading, `Mode.amended` of `Proofs/SyncProto3.lean` (`mstep .amended`, theorems `…_amended`): the re-check follows
  every release of the flag - after a sync that succeeded AND after "not over the limit" - EXCEPT the release by the `?`
  of a failed sync (and a lost compare-exchange, which releases nothing and is not reachable with one task).
  It is NOT `step` with `recheck := true` (= `gstep false` = `Mode.everyExit`, theorems `…_recheckOnly`), which also
  re-checks after a failed sync, i.e. retries a failing sync in a loop (`failed_sync_retried_by_step`); and it is NOT
  `gstep true` (= `Mode.afterSyncOnly`, theorems `…_code`, section (7.6)), which /repo was for a short while: no re-check
  after the early exit either.  `Model/SyncProto.lean` was left as it is (its definitions are not to be changed); the
  three readings are modes of one wrapper and the first two are the old wrapper (`readings_embedded`).
  Proved for the code as of bc65670: (1) `flag_implies_task_amended`, `flag_clear_at_rest_amended`, (4)
  `synced_size_sound_amended`, rest `comes_to_rest_amended`; window (c1) is CLOSED (`window_c1_closed`: `unseen = 0` and the
  re-check ahead of every release, for failure-free schedules; `early_return_window_closed`: the witness schedule cannot end
  without the re-check and ends at rest with no un-synced byte); the bound at rest after a failure-free schedule is
  `limit + late` (`bounded_at_quiescence_amended`, `bounded_at_quiescence_amended_lateOf`); on failure-free schedules the
  code IS `step` (`amended_is_step_without_failure`); `late ≠ 0` only through a `recv` in window (b)
  (`window_b_characterised_amended`), `limit` when there is none (`bounded_at_quiescence_no_late_drop_amended`) and
  `limit` with an awaiting worker (`bounded_at_quiescence_repaired_amended`).  STILL FALSE: `bounded_at_quiescence` as
  stated - window (b) is unchanged (`window_b_witness_amended`, `bounded_at_quiescence_refuted_amended`).  With failures:
  (c2) a failed sync is not retried, the state at rest after it is over the limit as before the commit
  (`failed_sync_not_retried_amended`), and the next write over the limit does lead to a sync
  (`sync_after_failure_amended`).  No bound at rest is claimed for schedules with a failed sync (there is none: the
  failed sync's bytes stay un-synced until the next over-limit write).
* The reading of (7.6) (`…_code`, `gstep true`; NOT the code any more): (c1) a write acknowledged between an early-return
  check and the drop of the guard is neither requested nor re-checked (`early_return_window_witness`); (c2) as above
  (`failed_sync_not_retried_witness`, `sync_after_failure_code`); the bound is `limit + late + unseen`
  (`bounded_at_quiescence_code`, `window_b_characterised_code`, `window_c_characterised_code`); the candidate `repaired`
  closes (b) only (`bounded_at_quiescence_repaired_code`).  `Tie/C12.lean` (`background_sync_shape`) checks the presence of
  the loop / inner scope / re-check after the release, not which exits reach it.  `bounded_at_quiescence_repaired` and the
  `…_recheckOnly` theorems are about `step`, i.e. about a task body that re-checks after every exit; for failure-free
  schedules that is the code as of bc65670 (`amended_is_step_without_failure`: the two differ only after a
  `complete false`).
* `late` is accounted at the drop: all bytes appended since the last re-check are given up when ONE request is dropped
  in the window, also when a second request of the same window survives and is served (then `late` is reset by the
  capture of that sync, so the bound at rest is not affected, only the intermediate value is an over-approximation).
* Neither window (b) nor (c1, closed since) could be replayed on the library: the I/O hook has no pause point between the guard's
  `Drop` / the re-check and the end of the task.
* Liveness is stated as "the internal steps are enabled and every internal schedule has at most `measure` steps"
  (`comes_to_rest`, `sync_without_client_action_partial`, `sync_after_failure`; with the re-check `measureR`:
  `comes_to_rest_recheck`, `comes_to_rest_code`, `comes_to_rest_amended`, `sync_after_failure_recheckOnly`); fairness of the tokio scheduler is
  assumed, not modelled.  For `step` with the re-check only safety and "comes to rest when every later sync succeeds" are
  proved (a sync that fails for ever is retried for ever by `step`; not by the code).
* Not modelled here: the explicit `Storage::fsyncdata`, `close_active_blob` and `restore_active_blob` (they sync the
  blob themselves, under `Fs`; none of them touches the flag, so the task never loses its compare-exchange), a full
  worker channel (the send of `TryFsyncData` waiting for a slot is a message that
  stays `pending`), a storage without active blob while the task runs (`safe.fsyncdata()` then does nothing and the
  re-check answers "not over the limit").
* The link to `Fs` is on the counters of the active blob file (`fsyncCheckP_is_checkEffect`,
  `quiescent_projection`, `quiescent_projection_recheckOnly`): one client write between two states at rest.  Several writes
  between two states at rest differ from `Fs` (the capture covers whatever was appended before it), by design of `Fs` as
  the sequential model.
-/
