import Pearl.Proofs.FsLemmas
/-
C12: durability ordering, on the file / trace layer (L6, `Pearl/Model/Fs.lean`).

All statements are about `Fs.run dup limit klen unc rs ops`: the state and the trace (list of file
events in the order the implementation issues them at quiescence) after `init` on an empty directory
and an arbitrary list `ops` of driver-level operations, for any dirty-bytes limit, key length and
either behaviour of the explicit `fsync` (`unc`).
-/
namespace Pearl
open Fs

/-- For every blob file, the first three events on it are: create, the 20-byte blob header at offset 0,
    and an fsync publishing those 20 bytes.  (`proj id t` = the events of `t` on blob file `id`.) -/
theorem header_synced_before_first_record (dup : Bool) (limit klen : Nat) (unc rs : Bool) (ops : List FsOp)
    (id : Nat) :
    proj id (run dup limit klen unc rs ops).2 = [] ∨ hdr3 id <+: proj id (run dup limit klen unc rs ops).2 := by
  have h := (run_diskInv dup limit klen unc rs ops).hdr id
  cases hf : (run dup limit klen unc rs ops).1.disk.files id with
  | none => exact Or.inl (h.1 hf)
  | some f => exact Or.inr (h.2 (by simp [hf]))

/-- … and they precede every record write to that file (any write that is not the header write at 0):
    the three events are already in the part of the trace before it.  The operation that wrote the record
    returns (acknowledges) after its write, so the header is durable before any acknowledgement. -/
theorem record_write_after_header_sync (dup : Bool) (limit klen : Nat) (unc rs : Bool) (ops : List FsOp)
    (id off len : Nat) (pre post : List Event)
    (h : (run dup limit klen unc rs ops).2 = pre ++ Event.write (.blob id) off len :: post) (hoff : off ≠ 0) :
    hdr3 id <+: proj id pre := by
  rcases header_synced_before_first_record dup limit klen unc rs ops id with h0 | h1
  · rw [h, proj_append] at h0
    simp [proj, Event.file] at h0
  · rw [h] at h1
    exact hdr3_before_write h1 hoff

/-- Every rewrite of an index header with the `written` bit (the moment the index file becomes valid,
    recording `blob_size = bs`) is preceded by an fsync of the blob file that published at least `bs`,
    with no write to the blob file in between, and the next event on the index file is its own fsync. -/
theorem index_written_after_blob_sync (dup : Bool) (limit klen : Nat) (unc rs : Bool) (ops : List FsOp)
    (i bs : Nat) (pre post : List Event)
    (h : (run dup limit klen unc rs ops).2 = pre ++ Event.idxHeader i bs true :: post) :
    (∃ p1 p2 n, pre = p1 ++ Event.sync (.blob i) n :: p2 ∧ bs ≤ n ∧
        ∀ e ∈ p2, isWriteOn (.blob i) e = false) ∧
      (∃ q1 q2 n, post = q1 ++ Event.sync (.index i) n :: q2 ∧ ∀ e ∈ q1, e.file ≠ .index i) :=
  (run_diskInv dup limit klen unc rs ops).idx pre post i bs h

/-- After a successful `close_active` (foreground or background) there is no active blob and the
    blob that was closed has `synced = size`. -/
theorem no_dirty_after_close_active (dup : Bool) (limit klen : Nat) (unc rs : Bool) (ops : List FsOp) (a : Blob)
    (ho : (run dup limit klen unc rs ops).1.isOpen = true)
    (ha : (run dup limit klen unc rs ops).1.store.active = some a) :
    let s' := (run dup limit klen unc rs (ops ++ [.closeActive])).1
    s'.store.active = none ∧ ∃ f, s'.disk.files a.id = some f ∧ f.synced = f.size := by
  intro s'
  have hs' : s' = (emit (run dup limit klen unc rs ops).1 .closeActive).1 := by
    simp only [s', run_snoc]
  have h := closeActive_dirty_zero ho ha
  rw [← hs'] at h
  have hex : (s'.disk.files a.id).isSome = true := by
    rw [hs']
    exact (emit_stepOK (run_inv dup limit klen unc rs ops).coh _).grow _
      (file_of_active (run_full dup limit klen unc rs ops) ha)
  obtain ⟨f, hf⟩ := Option.isSome_iff_exists.1 hex
  exact ⟨h.2, f, hf, synced_eq_size_of_dirty_zero (run_diskInv dup limit klen unc rs _).counters h.1 f hf⟩

/-- With the explicit `fsync` syncing unconditionally (/repo since 2b9bef3) the active blob has
    `synced = size` after it. -/
theorem no_dirty_after_explicit_fsync (dup : Bool) (limit klen : Nat) (rs : Bool) (ops : List FsOp) (a : Blob)
    (ho : (run dup limit klen true rs ops).1.isOpen = true)
    (ha : (run dup limit klen true rs ops).1.store.active = some a) :
    let s' := (run dup limit klen true rs (ops ++ [.fsync])).1
    s'.store.active = some a ∧ ∃ f, s'.disk.files a.id = some f ∧ f.synced = f.size := by
  intro s'
  have hs' : s' = (emit (run dup limit klen true rs ops).1 .fsync).1 := by
    simp only [s', run_snoc]
  have h := fsync_dirty_zero ho ha (run_config dup limit klen true rs ops).2.2.1
  rw [← hs'] at h
  have hex : (s'.disk.files a.id).isSome = true := by
    rw [hs']
    exact (emit_stepOK (run_inv dup limit klen true rs ops).coh _).grow _
      (file_of_active (run_full dup limit klen true rs ops) ha)
  obtain ⟨f, hf⟩ := Option.isSome_iff_exists.1 hex
  exact ⟨h.2, f, hf, synced_eq_size_of_dirty_zero (run_diskInv dup limit klen true rs _).counters h.1 f hf⟩

/-- For the code before that repair (`Storage::fsyncdata` → `Inner::fsyncdata`, which gives up while the
    dirty bytes are within the limit) the statement is false: one 10-byte write, then `fsync`, with the
    default limit of 32 MiB leaves 79 un-synced bytes.  Replay: `w 0000000a 5 - 10 1`, `fsync`, `dirty`. -/
theorem explicit_fsync_refuted_current :
    let s' := (run true 33554432 4 false true [.write 10 5 none ⟨10, 1⟩ false, .fsync]).1
    s'.activeDirty = some 79 ∧
      ¬ ∀ a, s'.store.active = some a → ∀ f, s'.disk.files a.id = some f → f.synced = f.size := by
  refine ⟨by decide, ?_⟩
  intro h
  have := h { id := 0, recs := [⟨10, 5, false, none, ⟨10, 1⟩⟩] } (by decide)
    { size := 99, synced := 20, appendMode := false } (by decide)
  simp at this

/-- At every quiescent state (after each driver-level step, background sync completed) the active blob's
    dirty bytes are at most the limit, for ALL operation sequences, with the code as it is since /repo 0ede233
    (`restoreSyncsOverLimit = true`: `restore_active_blob` syncs the restored blob when it is over the limit).
    Exactly the limit is allowed: `too_many_dirty_bytes` is `>`. -/
theorem quiescent_dirty_bounded (dup : Bool) (limit klen : Nat) (unc : Bool) (ops : List FsOp) (a : Blob)
    (ha : (run dup limit klen unc true ops).1.store.active = some a) :
    (run dup limit klen unc true ops).1.dirtyOf a.id ≤ limit := by
  have := run_bounded dup limit klen unc true ops (Or.inl rfl) a ha
  rwa [(run_config dup limit klen unc true ops).2.1] at this

/-- Before that repair (`restoreSyncsOverLimit = false`, /repo up to 6bfe6df) the statement was FALSE:
    a closed blob collects deletion markers that nothing syncs (the dump they trigger is deferred), and
    `restore_active` made it the active blob as it was.  Witness with limit 0
    (`cfg dirty=0`, `w 0000000a 5 - 10 1`, `close_active`, `d 0000000a 9 - 1`, `restore_active`, `dirty`;
    `trace_scripts/h06-dirty-after-restore.txt`, add `restorefix=0` to the `cfg` line for the model):
    69 dirty bytes in the active blob at a quiescent state.  Confirmed on the real library and repaired. -/
theorem quiescent_dirty_bounded_refuted_before_fix :
    let s := (run true 0 4 true false
      [.write 10 5 none ⟨10, 1⟩ false, .closeActive, .delete 10 9 none true, .restoreActive]).1
    s.activeDirty = some 69 ∧ s.limit = 0 := by
  decide

/-- the same run with the repair: `restore_active` emits one `sync` of blob 0 publishing its 168 bytes -/
theorem restore_syncs_over_limit_witness :
    let ops : List FsOp := [.write 10 5 none ⟨10, 1⟩ false, .closeActive, .delete 10 9 none true]
    let s := (run true 0 4 true true ops).1
    (emit s .restoreActive).2 = [.sync (.blob 0) 168] ∧ (emit s .restoreActive).1.activeDirty = some 0 := by
  decide +kernel

/-- the bound of the code before the repair: it held as long as `restore_active` was not used -/
theorem quiescent_dirty_bounded_partial (dup : Bool) (limit klen : Nat) (unc rs : Bool) (ops : List FsOp)
    (h : ∀ op ∈ ops, op.isRestore = false) (a : Blob)
    (ha : (run dup limit klen unc rs ops).1.store.active = some a) :
    (run dup limit klen unc rs ops).1.dirtyOf a.id ≤ limit := by
  have := run_bounded dup limit klen unc rs ops (Or.inr h) a ha
  rwa [(run_config dup limit klen unc rs ops).2.1] at this

/-- a delete re-establishes the bound from any reachable state (so does a write that is not rejected as a
    duplicate, see `keepsB_writeP`) -/
theorem dirty_bounded_after_delete (dup : Bool) (limit klen : Nat) (unc rs : Bool) (ops : List FsOp)
    (k : Key) (ts : Nat) (m : Option Meta) (oip : Bool) (a : Blob)
    (ho : (run dup limit klen unc rs ops).1.isOpen = true)
    (ha : (run dup limit klen unc rs (ops ++ [.delete k ts m oip])).1.store.active = some a) :
    (run dup limit klen unc rs (ops ++ [.delete k ts m oip])).1.dirtyOf a.id ≤ limit := by
  have hc := (run_inv dup limit klen unc rs ops).coh
  have hb : Bounded (run dup limit klen unc rs (ops ++ [.delete k ts m oip])).1 := by
    rw [run_snoc]
    simp only [emit, ho, if_true, prog]
    exact estB_deleteP k ts m oip _ hc
  have := hb a ha
  rwa [(run_config dup limit klen unc rs _).2.1] at this

/-- Found while modelling `Storage::close`: it dumps (and so fsyncs) the active blob only.  A deletion marker
    appended to a *closed* blob is fsynced by the deferred index dump alone (60–180 s by default); a clean
    `close()` before that leaves it un-synced, and the next `open` takes the file length as `synced_size`
    without any fsync.  Replay: `trace_scripts/h09-close-leaves-closed-blob-dirty.txt`. -/
theorem clean_close_leaves_unsynced_bytes :
    let ops : List FsOp := [.write 10 5 none ⟨10, 1⟩ false, .closeActive, .delete 10 9 none true, .close]
    let s := (run true 100000 4 true true ops).1
    s.isOpen = false ∧ (s.disk.files 0).map (·.dirty) = some 69 ∧
      (emit s (.open false)).2 = [.open (.blob 0), .open (.index 0)] ∧
      ((emit s (.open false)).1.disk.files 0).map (·.dirty) = some 0 := by
  decide +kernel

/-! ### non-vacuity -/

/-- the demo run: writes of 10 / 5000 bytes, a close, a delete into the closed blob, a restart -/
def C12Demo.ops : List FsOp :=
  [.write 10 5 none ⟨10, 1⟩ false, .write 11 5 none ⟨5000, 2⟩ false, .closeActive,
   .delete 10 6 none false, .restart false]

-- the trace the harness prints for the same script (`example_script.txt` without its queries):
-- Cb0 Wb0:0:20 Sb0:20 Wb0:20:79 Wb0:99:69 Wb0:168:5000 Sb0:5168 | Sb0:5168 Sb0:5168 Ci0 Wi0:0:* Wi0:hdr:bs=5168:w=1 Si0
-- | Cb1 Wb1:0:20 Sb1:20 Wb1:20:69 Wb0:5168:69 | Sb1:89 Ci1 Wi1:0:* Wi1:hdr:bs=89:w=1 Si1 Ob0 Oi0 Ob1 Oi1
--   Sb0:5237 Ci0 Wi0:0:* Wi0:hdr:bs=5237:w=1 Si0
example : (run true 100 4 true true C12Demo.ops).2 =
    [.create (.blob 0), .write (.blob 0) 0 20, .sync (.blob 0) 20,
     .write (.blob 0) 20 79, .write (.blob 0) 99 69, .write (.blob 0) 168 5000, .sync (.blob 0) 5168,
     .sync (.blob 0) 5168, .sync (.blob 0) 5168, .create (.index 0), .write (.index 0) 0 0,
     .idxHeader 0 5168 true, .sync (.index 0) 0,
     .create (.blob 1), .write (.blob 1) 0 20, .sync (.blob 1) 20, .write (.blob 1) 20 69,
     .write (.blob 0) 5168 69,
     .sync (.blob 1) 89, .create (.index 1), .write (.index 1) 0 0, .idxHeader 1 89 true, .sync (.index 1) 0,
     .open (.blob 0), .open (.index 0), .open (.blob 1), .open (.index 1),
     .sync (.blob 0) 5237, .create (.index 0), .write (.index 0) 0 0, .idxHeader 0 5237 true,
     .sync (.index 0) 0] := by decide +kernel

-- blob 1 exists in that run and its projection starts with the three header events
example : proj 1 (run true 100 4 true true C12Demo.ops).2 ≠ [] := by decide +kernel
-- there are header rewrites in the trace (the hypothesis of `index_written_after_blob_sync` is met)
example : Event.idxHeader 0 5237 true ∈ (run true 100 4 true true C12Demo.ops).2 := by decide +kernel
-- the hypotheses of `no_dirty_after_close_active` hold on a run, and the closed file exists with dirty bytes before
example : (run true 100000 4 true true [.write 10 5 none ⟨10, 1⟩ false]).1.activeDirty = some 79 := by decide
example : ((run true 100000 4 true true [.write 10 5 none ⟨10, 1⟩ false, .closeActive]).1.disk.files 0).map (·.dirty)
    = some 0 := by decide
-- the repaired explicit fsync does sync below the limit
example : (run true 33554432 4 true true [.write 10 5 none ⟨10, 1⟩ false, .fsync]).1.activeDirty = some 0 := by decide
-- dirty bytes exactly at the limit stay un-synced (79 = limit), one byte of limit less and they are synced;
-- the same boundary for `restore_active` (69 marker bytes): `trace_scripts/h10-restore-over-limit.txt`
example : (run true 79 4 true true [.write 10 5 none ⟨10, 1⟩ false]).1.activeDirty = some 79 := by decide
example : (run true 78 4 true true [.write 10 5 none ⟨10, 1⟩ false]).1.activeDirty = some 0 := by decide

end Pearl
